SPECIFICATION Spec
CONSTANTS
  N = 2
  MaxSteps = 2
  K = 1
  M = 0
  Roots = 2
  NatSteps = 2
  Kinds = {"po", "pr", "pw", "px", "rd", "pa", "aw"}
  NatKinds = {"sd"}
  Prune = TRUE
  Plan = "free"
INVARIANTS TypeOK CoroMode RunToSuspension QueueFIFO ObservedOrder ResumeOncePerReadying NoReentrancy RoundRobin FullDrain AllDoneAtEnd OnWorkerInCoroMode
PROPERTY FIFOStep
CHECK_DEADLOCK FALSE
