SPECIFICATION Spec
CONSTANTS
  N = 5
  MaxSteps = 5
  K = 2
  M = 0
  Roots = 3
  NatSteps = 5
  Kinds = {"pa", "rd", "ra", "aw", "sd", "sa", "sc", "bd", "ba", "pk", "up", "qo", "qd", "qa"}
  NatKinds = {"sd", "rd", "up", "qd"}
  Prune = TRUE
  Plan = "free"
INVARIANTS TypeOK CoroMode RunToSuspension QueueFIFO ObservedOrder ResumeOncePerReadying NoReentrancy RoundRobin FullDrain AllDoneAtEnd
PROPERTY FIFOStep
CHECK_DEADLOCK FALSE
