SPECIFICATION Spec
CONSTANTS
  N = 3
  MaxSteps = 2
  K = 1
  M = 0
  Roots = 2
  NatSteps = 3
  Kinds = {"pa", "aw", "bd", "ba", "sc"}
  NatKinds = {"sd", "rd"}
  Prune = TRUE
  Plan = "free"
INVARIANTS TypeOK CoroMode RunToSuspension QueueFIFO ObservedOrder ResumeOncePerReadying NoReentrancy RoundRobin FullDrain AllDoneAtEnd
PROPERTY FIFOStep
CHECK_DEADLOCK FALSE
