SPECIFICATION Spec
CONSTANTS
  N = 3
  MaxSteps = 2
  K = 1
  M = 0
  Roots = 3
  NatSteps = 3
  Kinds = {"aw", "cd", "ca", "ct", "pa"}
  NatKinds = {"sd"}
  Prune = TRUE
  Plan = "free"
INVARIANTS TypeOK CoroMode RunToSuspension QueueFIFO ObservedOrder ResumeOncePerReadying NoReentrancy RoundRobin FullDrain AllDoneAtEnd OwnHandleUse
PROPERTY FIFOStep
CHECK_DEADLOCK FALSE
