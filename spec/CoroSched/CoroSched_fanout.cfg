SPECIFICATION Spec
CONSTANTS
  N = 4
  MaxSteps = 2
  K = 1
  M = 0
  Roots = 4
  NatSteps = 4
  Kinds = {"pa", "rd", "ra", "aw"}
  NatKinds = {"sd"}
  Prune = TRUE
  Plan = "free"
INVARIANTS TypeOK CoroMode RunToSuspension QueueFIFO ObservedOrder ResumeOncePerReadying NoReentrancy RoundRobin FullDrain AllDoneAtEnd
PROPERTY FIFOStep
CHECK_DEADLOCK FALSE
