SPECIFICATION Spec
CONSTANTS
  N = 3
  MaxSteps = 3
  K = 1
  M = 0
  Roots = 2
  NatSteps = 2
  Kinds = {"ha", "hm", "hd", "hw", "hf", "aw"}
  NatKinds = {"sd"}
  Prune = TRUE
  Plan = "free"
INVARIANTS TypeOK CoroMode RunToSuspension QueueFIFO ObservedOrder ResumeOncePerReadying NoReentrancy RoundRobin FullDrain AllDoneAtEnd OnWorkerInCoroMode
PROPERTY FIFOStep
CHECK_DEADLOCK FALSE
