----------------------------- MODULE CoroSched -----------------------------
(***************************************************************************)
(* Coroutine-mode scheduling of cocls on ONE thread (property C05).        *)
(*                                                                         *)
(* The code is sequential, so the specification is a sequential stack      *)
(* machine: a call stack of activations                                    *)
(*     (native code)  ->  "iq" = coro_queue::install_queue_and_call frame  *)
(*                    ->  "co" = a std::coroutine_handle<>::resume() call  *)
(*                               in which some coroutine currently runs    *)
(*                               (symmetric transfer replaces the          *)
(*                               coroutine inside the same frame),         *)
(* the thread-local ready deque `queue` (coro_queue.h:61), the flag `inst` *)
(* (coro_queue::instance != nullptr, "coroutine mode", coro_queue.h:193)   *)
(* and up to N scripted coroutines.                                        *)
(*                                                                         *)
(* TLC enumerates PROGRAMS lazily: whenever a coroutine (or the native     *)
(* driver, id 0) needs its next step, the action picks it from Choices and *)
(* appends it to script[c].  Execution is deterministic, so a maximal path *)
(* of the state graph IS one program together with its execution; the      *)
(* state graph is a tree (up to the moment at which the native driver      *)
(* decides to stop) and every terminal state carries the complete scripts  *)
(* and the complete event history `ev` (the replay oracle).                *)
(*                                                                         *)
(* Steps <<kind, arg>> of a coroutine c:                                   *)
(*   pa    co_await cocls::pause()                   coro_queue.h:211-219  *)
(*   rd k  prom[k]();            suspend point discarded                   *)
(*   ra k  co_await prom[k]();   suspend point awaited                     *)
(*   aw k  co_await fut[k]                                                 *)
(*   sd    body(child).detach();           discarded       async.h:91      *)
(*   sa    co_await body(child).detach();  awaited                         *)
(*   sc    co_await body(child)            async.h:96-122                  *)
(*   st    { future<void> f = body(child).start(); co_await f; }  the      *)
(*         future-returning start RESUMES THE CHILD NESTED inside the      *)
(*         caller's activation (async.h:50-59); this is what calling a     *)
(*         coroutine function that returns future<T> does                  *)
(*   bd k  body(child).start(prom[k]);     discarded       async.h:70      *)
(*   ba k  co_await body(child).start(prom[k])                             *)
(*   pk    park: custom awaiter keeps the handle (stand-in for an external *)
(*         event source such as thread_pool)                               *)
(*   up    coro_queue::resume(oldest parked handle)  coro_queue.h:130-138  *)
(*   lk m  own = co_await mx.lock()                  mutex.h:112,180-207   *)
(*   ld m  own.release();   la m  co_await own.release()   mutex.h:76-85   *)
(*   qo    co_await q.pop()                          queue.h:197-211       *)
(*   qd    q.push();        qa    co_await q.push()  queue.h:148-159       *)
(*   po    co_await pool                     thread_pool.h:104-149,238     *)
(*   pr k  pool.resume(prom[k]())            thread_pool.h:204-224         *)
(*   pw k  co_await pool(fut[k])             thread_pool.h:151-196         *)
(*   px    { future<void> f = pool.run(body(child)); co_await f; }  :288   *)
(*         (a thread pool with ONE worker; the harness lets the worker run *)
(*         only while the native thread waits, so the two threads never    *)
(*         execute at the same time and the history stays sequential)      *)
(*   ha k  acc = prom[k]();   hm k  acc << prom[k]();   hd  acc =          *)
(*         body(child).detach();  hw  co_await acc;  hf  acc.clear();      *)
(*         `acc` is a suspend_point<void> variable of the coroutine that   *)
(*         is REUSED: operator= merges like << (suspend_point.h:92-93); it *)
(*         is flushed by its destructor at co_return                       *)
(*   hs    acc << co_await cocls::self()  (self.h:16-29): the coroutine's  *)
(*         OWN handle goes into its suspend point variable; the documented *)
(*         pattern is `sp = co_await self(); sp << child.detach();         *)
(*         co_await sp;`.  While the own handle is held the coroutine may  *)
(*         not flush the variable (hf) nor finish (re rx): that would      *)
(*         queue a running / destroyed coroutine; it has to await it (hw). *)
(*   hy    { auto me = co_await self(); }  co_await std::suspend_always{}; *)
(*         a hand-made yield: the own suspend point is DISCARDED (coroutine*)
(*         mode: pushed to the back of the deque, suspend_point.h:130-135),*)
(*         then the coroutine suspends and control returns to the resumer  *)
(*   pc    co_await dead, a thread pool that is already STOPPED: the       *)
(*         request is dropped inside await_suspend, the closure's deleter  *)
(*         hands the coroutine to coro_queue::resume (thread_pool.h:116-   *)
(*         120,358-364): queued BEHIND whatever is ready already; when its *)
(*         turn comes await_resume throws await_canceled_exception         *)
(*   cd k  coro_queue::create_suspend_point([&]{prom[k]();});  discarded   *)
(*   ca k  co_await coro_queue::create_suspend_point([&]{prom[k]();});     *)
(*   ct k  try { create_suspend_point([&]{prom[k](); throw X;}); }         *)
(*         catch (X) {}                         suspend_point.h:319-346    *)
(*   re    co_return (held mutex ownership is released by its destructor,  *)
(*         then final_awaiter, async.h:217-230)                            *)
(*   rx    throw X out of the body (locals are destroyed by the unwinding, *)
(*         unhandled_exception async.h:247-249, then as re)                *)
(* Steps of the native driver (coroutine mode off): sd, rd k, up, qd, pr k *)
(* and the user-level entries into coroutine mode with a function fn that  *)
(* makes coroutines ready (a = k: prom[k](); a = 0: body(child).detach();  *)
(* the suspend point is discarded INSIDE fn, i.e. queued) and then         *)
(*   ir a  coro_queue::install_queue_and_call(fn), fn returns              *)
(*   ix a  the same, fn THROWS; the caller catches   coro_queue.h:103-111  *)
(*   cr a  coro_queue::create_suspend_point(fn) from native code, fn       *)
(*         returns, the returned suspend point is discarded                *)
(*   cx a  the same, fn THROWS                  suspend_point.h:341-345    *)
(*                                                                         *)
(* Events <<c, i, kind, q, mode>> (q = content of the executing thread's   *)
(* ready deque as seen at that moment, mode = (1 iff coroutine mode is on) *)
(* + (2 iff executing on the pool's worker thread)):                       *)
(*   b  coroutine c begins its i-th step                                   *)
(*   s  c's co_await in step i calls await_suspend (c is suspended)        *)
(*   e  c's co_await in step i has completed (await_resume)                *)
(*   f  c's body has finished (locals destroyed; final_suspend follows)    *)
(*   r  the nested start() called in step i has returned to c              *)
(* for c = 0 (native): b before the library call, e after it returned (and *)
(* after the pool has run dry), w = observation made ON the worker between *)
(* pool tasks (its deque must be empty, coroutine mode off);               *)
(*   x  fn of ir/ix/cr/cx is being LEFT (return or unwinding): logged by   *)
(*      the destructor of a local of fn; what it made ready is queued and  *)
(*      has not run; y = the same for cr with fn returning (the entries    *)
(*      are then withdrawn from the BACK of the deque into the returned    *)
(*      suspend point, suspend_point.h:328-331)                            *)
(*   h  native code holds the suspend point returned by cr                 *)
(*   t  instead of e: the call was left by the exception thrown by fn      *)
(*                                                                         *)
(* Plan = "wide" replaces the free choice of steps by the fixed family     *)
(* WideCases: long histories of one ready deque (a root detaches A         *)
(* workers, the S-th of them detaches B more while the rest is still       *)
(* queued; everybody else returns at once or pauses once).                 *)
(* Plan = "self": the fixed family SelfCases of the `co_await self()`      *)
(* pattern: a root collects A detached children and its own handle (at     *)
(* every position) in one suspend point, awaits it and then suspends on    *)
(* something nobody has made ready.                                        *)
(***************************************************************************)
EXTENDS Naturals, Sequences, FiniteSets, TLC

CONSTANTS N,         \* max number of coroutines ever created (ids 1..N in order of creation)
          MaxSteps,  \* freely chosen steps per coroutine; the step after them is a forced "re"
          K,         \* number of future/promise pairs
          M,         \* number of mutexes (0 or 1)
          Roots,     \* max number of coroutines spawned by native code
          NatSteps,  \* max number of freely chosen native steps
          Kinds,     \* step kinds coroutines may use
          NatKinds,  \* step kinds native code may use, subset of {"sd","rd","up","qd","pr","ir","ix","cr","cx"}
          Prune,     \* TRUE: steps that are no-ops in the current state are not generated
          Plan       \* "free" | "wide" | "wideq" | "self"

ASSUME M \in {0, 1}

VARIABLES script,   \* script[c]: steps chosen so far, c \in 0..N (0 = native driver)
          pc,       \* pc[c]: number of completed steps
          st,       \* st[c]: "new" | "ready" (handle in the deque / in a suspend point being processed)
                    \*        | "run" | "call" (on the stack, inside a nested start() it called)
                    \*        | "wait" (subscribed somewhere) | "done"
          mid,      \* mid[c]: c is suspended inside step pc[c]+1 (an "e" event is due on resumption)
          bind,     \* bind[c]: <<"n",0>> detached | <<"f",k>> completion resolves fut[k] | <<"p",p>> co_awaited by p
                    \*          | <<"s",p>> started by p (future in p's frame), p not (yet) awaiting
          created,  \* number of coroutines created so far
          stack,    \* call stack above native code
          inst,     \* coro_queue::instance != nullptr
          queue,    \* coro_queue::queue_impl::_queue
          fut,      \* fut[k] = [s |-> "pend"|"bound"|"done", w |-> awaiter chain, head = latest subscriber]
          parked,   \* FIFO of parked coroutines
          mtx,      \* mtx[m] = [own |-> owner or 0, w |-> FIFO of waiting coroutines]
          qu,       \* cocls::queue<void>: [n |-> stored items, w |-> FIFO of coroutines parked in pop()]
          nph,      \* native phase: "run" | "clean" | "done"
          ev,       \* ghost: event history
          disc,     \* ghost: <<waker, wakee, Len(ev) at that time>> for every readying through a DISCARDED
                    \*        suspend point (or coro_queue::resume) by a running coroutine
          enqs,     \* ghost: every coroutine ever pushed to the deque, in push order
          ndeq,     \* ghost: number of pop_front's
          nrd, nrs, \* ghost: per coroutine number of readyings / resumptions
          ptasks,   \* thread_pool::_queue: <<"h",c>> closure calling coro_queue::resume(h) | <<"run",c>> closure
                    \* calling fn.start(promise) | <<"obs",0>> the harness' observation task
          thr,      \* executing thread: 0 native thread, 1 the pool's worker
          nat,      \* "idle" | "pool": the native thread waits until the pool has run dry
          acc,      \* acc[c]: handles held by c's reused suspend_point variable (array order)
          wcase     \* Plan = "wide": the chosen case <<A, S, B, P>>; Plan = "self": <<A, Pos, Aft, P>>

vars == <<script, pc, st, mid, bind, created, stack, inst, queue, fut, parked, mtx, qu, nph,
          ev, disc, enqs, ndeq, nrd, nrs, ptasks, thr, nat, acc, wcase>>
ext == <<ptasks, thr, nat, acc, wcase>>

Cor == 1..N
All == 0..N

Frame(t, c, rest, prev) == [t |-> t, c |-> c, rest |-> rest, prev |-> prev]
Top == stack[Len(stack)]
Running == stack # <<>> /\ Top.t = "co"
B(x) == IF x THEN 1 ELSE 0
MD == B(inst) + 2 * thr      \* the "mode" field of an event
PoolKinds == {"po", "pr", "pw", "px"}
PoolOn == (Kinds \cap PoolKinds # {}) \/ ("pr" \in NatKinds)
Obs == <<"obs", 0>>
(* Family of long deque histories: <<A, S, B, P>> = the root detaches A workers and returns; worker
   number S detaches B children; every other coroutine pauses once first (P = 1) or returns at once *)
WideCases == IF Plan = "wideq" THEN {<<10, 4, 12, 0>>, <<6, 2, 30, 1>>}      \* quick tier
             ELSE {<<10, 4, 12, 0>>, <<10, 4, 12, 1>>, <<6, 2, 30, 0>>, <<6, 2, 30, 1>>, <<14, 9, 20, 1>>,
                   <<18, 17, 18, 0>>, <<3, 3, 40, 1>>}
(* Family of the `co_await self()` pattern: <<A, Pos, Aft, P>> = the root puts A detached children and its
   own handle (after Pos of the children) into its suspend point variable, awaits it, then parks
   (Aft = 1: nobody but native code may wake it), pauses (Aft = 2), yields by hand (Aft = 3) or returns
   (Aft = 0); the children pause once first (P = 1) or return at once.  A = 4 leaves the inline array of
   the suspend point (suspend_point.h:42) *)
SelfCases == {w \in (1..4) \X (0..4) \X (0..3) \X (0..1) : w[2] <= w[1]}
Last(s) == s[Len(s)]
Front(s) == SubSeq(s, 1, Len(s) - 1)
In(x, H) == \E j \in 1..Len(H) : H[j] = x
Bump(f, H) == [x \in Cor |-> f[x] + Cardinality({j \in 1..Len(H) : H[j] = x})]
Ready(S, H) == [x \in Cor |-> IF In(x, H) THEN "ready" ELSE S[x]]
SwapTop(t) == [stack EXCEPT ![Len(stack)] = Frame("co", t, <<>>, FALSE)]
Pop == SubSeq(stack, 1, Len(stack) - 1)

Init == /\ script = [c \in All |-> <<>>]
        /\ pc = [c \in All |-> 0]
        /\ st = [c \in Cor |-> "new"]
        /\ mid = [c \in Cor |-> FALSE]
        /\ bind = [c \in Cor |-> <<"n", 0>>]
        /\ created = 0
        /\ stack = <<>> /\ inst = FALSE /\ queue = <<>>
        /\ fut = [k \in 1..K |-> [s |-> "pend", w |-> <<>>]]
        /\ parked = <<>>
        /\ mtx = [m \in 1..M |-> [own |-> 0, w |-> <<>>]]
        /\ qu = [n |-> 0, w |-> <<>>]
        /\ nph = "run"
        /\ ev = <<>> /\ disc = <<>> /\ enqs = <<>> /\ ndeq = 0
        /\ nrd = [c \in Cor |-> 0] /\ nrs = [c \in Cor |-> 0]
        /\ ptasks = <<>> /\ thr = 0 /\ nat = "idle"
        /\ acc = [c \in Cor |-> <<>>]
        /\ wcase \in (IF Plan \in {"wide", "wideq"} THEN WideCases
                     ELSE IF Plan = "self" THEN SelfCases ELSE {<<0, 0, 0, 0>>})

-----------------------------------------------------------------------------
(* Transfer of control.  S, P, Mi, E, Q are the values of st, pc, mid, ev, queue after the effects
   the calling action has had so far; I = 1 iff coroutine mode is on at that moment. *)

(* h.resume() / symmetric transfer to coroutine t; stk = the resulting stack (t's frame on top) *)
Resume(t, stk, S, P, Mi, E, Q, I) ==
    /\ stack' = stk
    /\ st' = [S EXCEPT ![t] = IF S[t] = "ready" THEN "run" ELSE "REENTER"]
    /\ pc' = IF Mi[t] THEN [P EXCEPT ![t] = @ + 1] ELSE P
    /\ mid' = [Mi EXCEPT ![t] = FALSE]
    /\ ev' = IF Mi[t] THEN Append(E, <<t, P[t] + 1, "e", Q, I>>) ELSE E
    /\ queue' = Q
    /\ nrs' = [nrs EXCEPT ![t] = @ + 1]

(* the running coroutine gives control back to whoever called resume(): await_suspend returned
   void/true, or final_awaiter returned noop_coroutine *)
Back(S, P, Mi, E, Q) ==
    /\ stack' = Pop /\ st' = S /\ pc' = P /\ mid' = Mi /\ ev' = E /\ queue' = Q /\ nrs' = nrs

(* the running coroutine c completes its step without giving up control *)
Cont(c, hasAwait, S, E, Q) ==
    /\ stack' = stack /\ st' = S /\ mid' = mid /\ queue' = Q /\ nrs' = nrs
    /\ pc' = [pc EXCEPT ![c] = @ + 1]
    /\ ev' = IF hasAwait THEN Append(E, <<c, pc[c] + 1, "e", Q, MD>>) ELSE E

EvB(c) == Append(ev, <<c, pc[c] + 1, "b", queue, MD>>)
EvS(E, c) == Append(E, <<c, pc[c] + 1, "s", queue, MD>>)

(* A suspend_point holding handles H (array order) is DISCARDED by running coroutine c:
   ~suspend_point -> suspend_now, coroutine mode on -> push all in array order
   (suspend_point.h:97-99,130-135).  coro_queue::resume(h) in coroutine mode is the same with one
   handle (coro_queue.h:132-134).  S0 = st with the caller's other changes. *)
DiscardSPx(c, H, S0, NB) ==      \* NB: the coroutines whose readying is counted by this action
    LET E0 == EvB(c) IN
    /\ Cont(c, FALSE, Ready(S0, H), E0, queue \o H)
    /\ enqs' = enqs \o H /\ ndeq' = ndeq /\ nrd' = Bump(nrd, NB)
    /\ disc' = disc \o [j \in 1..Len(H) |-> <<c, H[j], Len(E0)>>]
DiscardSP(c, H, S0) == DiscardSPx(c, H, S0, H)

(* The suspend point is co_awaited by running coroutine c (suspend_point.h:148-183): empty ->
   await_ready, no suspension; otherwise pop the LAST handle for symmetric transfer, push the
   remaining handles in array order, push c itself UNLESS its own handle is among H (`co_await
   self()`, step hs): the awaiting coroutine is made ready exactly once (suspend_point.h:171-182);
   its own handle in the last place is the target of the transfer: it continues at once. *)
AwaitSPx(c, H, S0, NB) ==
    LET E0 == EvB(c) IN
    IF H = <<>>
      THEN /\ Cont(c, TRUE, S0, E0, queue)
           /\ nrd' = Bump(nrd, NB)
           /\ UNCHANGED <<enqs, ndeq, disc>>
      ELSE LET out == Last(H)
               P == IF In(c, H) THEN Front(H) ELSE Front(H) \o <<c>>
           IN /\ Resume(out, SwapTop(out), Ready(S0, H \o <<c>>), pc, [mid EXCEPT ![c] = TRUE],
                        EvS(E0, c), queue \o P, MD)
              /\ enqs' = enqs \o P /\ ndeq' = ndeq /\ nrd' = Bump(nrd, NB \o <<c>>)
              /\ disc' = disc
AwaitSP(c, H, S0) == AwaitSPx(c, H, S0, H)

(* c suspends and is subscribed somewhere; control returns to the resumer *)
Suspend(c) ==
    /\ Back([st EXCEPT ![c] = "wait"], pc, [mid EXCEPT ![c] = TRUE], EvS(EvB(c), c), queue)
    /\ UNCHANGED <<enqs, ndeq, nrd, disc>>

(* co_await of something that is ready: no suspension *)
NoSuspend(c) ==
    /\ Cont(c, TRUE, st, EvB(c), queue)
    /\ UNCHANGED <<enqs, ndeq, nrd, disc>>

-----------------------------------------------------------------------------
(* Which steps may be chosen *)

FutKinds == {"rd", "ra", "aw", "bd", "ba", "pr", "pw", "ha", "hm", "cd", "ca", "ct", "ir", "ix", "cr", "cx"}
UsedF == UNION {{script[x][j][2] : j \in {j \in 1..Len(script[x]) : script[x][j][1] \in FutKinds}} : x \in All}
(* futures are named in order of first use (symmetry reduction) *)
AllowedF == {k \in 1..K : \A k2 \in 1..(k - 1) : k2 \in UsedF}
KS(kind, ks) == IF kind \in Kinds THEN {<<kind, k>> : k \in ks} ELSE {}
K0(kind, cond) == IF kind \in Kinds /\ cond THEN {<<kind, 0>>} ELSE {}

WideChoice(c) ==
    LET i == Len(script[c]) + 1 IN
    IF c = 1 THEN (IF i <= wcase[1] THEN <<"sd", 0>> ELSE <<"re", 0>>)
    ELSE IF c = wcase[2] + 1 THEN (IF i <= wcase[3] THEN <<"sd", 0>> ELSE <<"re", 0>>)
    ELSE IF wcase[4] = 1 /\ i = 1 THEN <<"pa", 0>> ELSE <<"re", 0>>

(* the root of Plan = "self" *)
SelfChoice(c) ==
    LET i == Len(script[c]) + 1
        A == wcase[1]
    IN IF c = 1 THEN (IF i <= A + 1 THEN (IF i = wcase[2] + 1 THEN <<"hs", 0>> ELSE <<"hd", 0>>)
                      ELSE IF i = A + 2 THEN <<"hw", 0>>
                      ELSE IF i = A + 3 /\ wcase[3] # 0
                             THEN <<(CASE wcase[3] = 1 -> "pk" [] wcase[3] = 2 -> "pa" [] OTHER -> "hy"), 0>>
                      ELSE <<"re", 0>>)
       ELSE IF wcase[4] = 1 /\ i = 1 THEN <<"pa", 0>> ELSE <<"re", 0>>

(* c's suspend point variable holds c's own handle *)
OwnHeld(c) == In(c, acc[c])

Choices(c) ==
    IF Plan \in {"wide", "wideq"} THEN {WideChoice(c)}
    ELSE IF Plan = "self" THEN {SelfChoice(c)}
    \* a coroutine holding its own handle has to await it before it may finish
    ELSE IF Len(script[c]) >= MaxSteps THEN (IF OwnHeld(c) THEN {<<"hw", 0>>} ELSE {<<"re", 0>>})
    ELSE (IF OwnHeld(c) THEN {} ELSE {<<"re", 0>>} \cup K0("rx", TRUE))
      \cup K0("pa", TRUE)
      \cup KS("rd", {k \in AllowedF : Prune => fut[k].s = "pend"})
      \cup KS("ra", {k \in AllowedF : Prune => fut[k].s = "pend"})
      \* a coroutine somebody waits for never waits for a coroutine-bound future: keeps every
      \* generated program free of wait cycles (a deadlocked program is of no interest here)
      \cup KS("aw", {k \in AllowedF : /\ Prune => fut[k].s # "done"
                                      /\ fut[k].s = "bound" => bind[c][1] = "n"})
      \cup K0("sd", created < N) \cup K0("sa", created < N) \cup K0("sc", created < N)
      \cup K0("st", created < N)
      \cup KS("bd", {k \in AllowedF : created < N /\ fut[k].s = "pend"})
      \cup KS("ba", {k \in AllowedF : created < N /\ fut[k].s = "pend"})
      \cup K0("pk", TRUE)
      \cup K0("up", Prune => parked # <<>>)
      \cup KS("lk", {m \in 1..M : mtx[m].own # c})
      \cup KS("ld", {m \in 1..M : mtx[m].own = c})
      \cup KS("la", {m \in 1..M : mtx[m].own = c})
      \cup K0("qo", TRUE)
      \cup K0("qd", TRUE) \cup K0("qa", TRUE)
      \cup K0("po", TRUE) \cup K0("px", created < N)
      \cup KS("pr", {k \in AllowedF : Prune => fut[k].s = "pend"})
      \cup KS("pw", {k \in AllowedF : /\ Prune => fut[k].s # "done"
                                      /\ fut[k].s = "bound" => bind[c][1] = "n"})
      \cup KS("ha", {k \in AllowedF : Prune => fut[k].s = "pend"})
      \cup KS("hm", {k \in AllowedF : Prune => fut[k].s = "pend"})
      \cup K0("hd", created < N)
      \cup K0("hw", Prune => acc[c] # <<>>) \cup K0("hf", (Prune => acc[c] # <<>>) /\ ~OwnHeld(c))
      \cup K0("hs", ~OwnHeld(c)) \cup K0("hy", TRUE) \cup K0("pc", TRUE)
      \cup KS("cd", {k \in AllowedF : Prune => fut[k].s = "pend"})
      \cup KS("ca", {k \in AllowedF : Prune => fut[k].s = "pend"})
      \cup KS("ct", {k \in AllowedF : Prune => fut[k].s = "pend"})

Can(c, s) == /\ Running /\ Top.c = c /\ st[c] = "run"
             /\ s \in Choices(c)

Pick(c, s) == script' = [script EXCEPT ![c] = Append(@, s)]

(* handles released by calling promise k: the awaiter chain is a stack, resume_chain_lk walks it from
   the head, so the array order is latest subscriber first (awaiter.h:102-111) *)
(* a waiter x >= 100 is coroutine x - 100 waiting through `co_await pool(fut)`: its awaiter's resume
   function hands the coroutine to the pool DURING the chain walk and contributes nothing to the
   returned suspend point (thread_pool.h:163-167) *)
Plain(w) == SelectSeq(w, LAMBDA x : x < 100)
ViaPool(w) == SelectSeq(w, LAMBDA x : x >= 100)
PWIds(w) == [j \in 1..Len(ViaPool(w)) |-> ViaPool(w)[j] - 100]
PWTasks(w) == [j \in 1..Len(ViaPool(w)) |-> <<"h", ViaPool(w)[j] - 100>>]
Rev(H) == [j \in 1..Len(H) |-> H[Len(H) + 1 - j]]
HTasks(H) == [j \in 1..Len(H) |-> <<"h", H[j]>>]
PromW(k) == IF fut[k].s = "pend" THEN fut[k].w ELSE <<>>
PromH(k) == Plain(PromW(k))
PromX(k) == PWIds(PromW(k))
PromPT(k) == PWTasks(PromW(k))
PromFut(k) == IF fut[k].s = "pend" THEN [fut EXCEPT ![k] = [s |-> "done", w |-> <<>>]] ELSE fut

-----------------------------------------------------------------------------
(* Steps of the running coroutine *)

(* pause::await_suspend: push self to the back, pop the front, transfer (coro_queue.h:211-219) *)
Pause(c) ==
    /\ Can(c, <<"pa", 0>>) /\ Pick(c, <<"pa", 0>>)
    /\ LET Q0 == Append(queue, c)
           t == Head(Q0)
       IN Resume(t, SwapTop(t), [st EXCEPT ![c] = "ready"], pc, [mid EXCEPT ![c] = TRUE],
                 EvS(EvB(c), c), Tail(Q0), MD)
    /\ enqs' = Append(enqs, c) /\ ndeq' = ndeq + 1 /\ nrd' = Bump(nrd, <<c>>)
    /\ UNCHANGED <<bind, created, inst, fut, parked, mtx, qu, nph, disc>>
    /\ UNCHANGED ext

ResolveDiscard(c, k) ==
    /\ Can(c, <<"rd", k>>) /\ Pick(c, <<"rd", k>>)
    /\ DiscardSPx(c, PromH(k), Ready(st, PromX(k)), PromH(k) \o PromX(k))
    /\ fut' = PromFut(k)
    /\ ptasks' = ptasks \o PromPT(k)
    /\ UNCHANGED <<bind, created, inst, parked, mtx, qu, nph, thr, nat, acc, wcase>>

ResolveAwait(c, k) ==
    /\ Can(c, <<"ra", k>>) /\ Pick(c, <<"ra", k>>)
    /\ AwaitSPx(c, PromH(k), Ready(st, PromX(k)), PromH(k) \o PromX(k))
    /\ fut' = PromFut(k)
    /\ ptasks' = ptasks \o PromPT(k)
    /\ UNCHANGED <<bind, created, inst, parked, mtx, qu, nph, thr, nat, acc, wcase>>

(* co_await future: ready -> continue; else subscribe (push on the awaiter stack) and return to the
   resumer (co_awaiter::await_suspend returns true, awaiter.h:183-186) *)
AwaitFuture(c, k) ==
    /\ Can(c, <<"aw", k>>) /\ Pick(c, <<"aw", k>>)
    /\ IF fut[k].s = "done"
         THEN NoSuspend(c) /\ fut' = fut
         ELSE Suspend(c) /\ fut' = [fut EXCEPT ![k].w = <<c>> \o @]
    /\ UNCHANGED <<bind, created, inst, parked, mtx, qu, nph>>
    /\ UNCHANGED ext

Child == created + 1

SpawnDetachDiscard(c) ==
    /\ Can(c, <<"sd", 0>>) /\ Pick(c, <<"sd", 0>>)
    /\ DiscardSP(c, <<Child>>, st)
    /\ created' = Child
    /\ UNCHANGED <<bind, inst, fut, parked, mtx, qu, nph>>
    /\ UNCHANGED ext

SpawnDetachAwait(c) ==
    /\ Can(c, <<"sa", 0>>) /\ Pick(c, <<"sa", 0>>)
    /\ AwaitSP(c, <<Child>>, st)
    /\ created' = Child
    /\ UNCHANGED <<bind, inst, fut, parked, mtx, qu, nph>>
    /\ UNCHANGED ext

(* co_await async: co_awaiter::await_suspend binds the child's completion to the awaiting
   coroutine and returns the child's handle; the parent is NOT queued (async.h:104-111) *)
SpawnCoAwait(c) ==
    /\ Can(c, <<"sc", 0>>) /\ Pick(c, <<"sc", 0>>)
    /\ Resume(Child, SwapTop(Child), [st EXCEPT ![c] = "wait", ![Child] = "ready"], pc,
              [mid EXCEPT ![c] = TRUE], EvS(EvB(c), c), queue, MD)
    /\ bind' = [bind EXCEPT ![Child] = <<"p", c>>]
    /\ created' = Child
    /\ nrd' = Bump(nrd, <<Child>>)
    /\ UNCHANGED <<inst, fut, parked, mtx, qu, nph, enqs, ndeq, disc>>
    /\ UNCHANGED ext

(* future<void> f = body(child).start(): coroutine mode is on, so start() calls h.resume() directly
   (async.h:55-57): the child runs NESTED on top of the caller's activation until control comes back
   to this resume() call *)
StartNested(c) ==
    /\ Can(c, <<"st", 0>>) /\ Pick(c, <<"st", 0>>)
    /\ Resume(Child, Append(stack, Frame("co", Child, <<>>, FALSE)),
              [st EXCEPT ![c] = "call", ![Child] = "ready"], pc, mid, EvB(c), queue, MD)
    /\ bind' = [bind EXCEPT ![Child] = <<"s", c>>]
    /\ created' = Child
    /\ nrd' = Bump(nrd, <<Child>>)
    /\ UNCHANGED <<inst, fut, parked, mtx, qu, nph, enqs, ndeq, disc>>
    /\ UNCHANGED ext

(* the nested resume() has returned: start() returns the future, then `co_await f` *)
Started(c) == CHOOSE x \in Cor : bind[x] = <<"s", c>>
StartReturn(c) ==
    /\ Running /\ Top.c = c /\ st[c] = "call"
    /\ LET E0 == Append(ev, <<c, pc[c] + 1, "r", queue, MD>>)
           x == Started(c)
       IN IF st[x] = "done"
            THEN /\ Cont(c, TRUE, [st EXCEPT ![c] = "run"], E0, queue)
                 /\ bind' = [bind EXCEPT ![x] = <<"n", 0>>]
            ELSE /\ Back([st EXCEPT ![c] = "wait"], pc, [mid EXCEPT ![c] = TRUE], EvS(E0, c), queue)
                 /\ bind' = [bind EXCEPT ![x] = <<"p", c>>]
    /\ UNCHANGED <<script, created, inst, fut, parked, mtx, qu, nph, enqs, ndeq, nrd, disc>>
    /\ UNCHANGED ext

(* async::start(promise&): the child claims promise k; suspend_point<bool>{h, true} (async.h:70-74) *)
SpawnBoundDiscard(c, k) ==
    /\ Can(c, <<"bd", k>>) /\ Pick(c, <<"bd", k>>)
    /\ DiscardSP(c, <<Child>>, st)
    /\ created' = Child
    /\ bind' = [bind EXCEPT ![Child] = <<"f", k>>]
    /\ fut' = [fut EXCEPT ![k].s = "bound"]
    /\ UNCHANGED <<inst, parked, mtx, qu, nph>>
    /\ UNCHANGED ext

SpawnBoundAwait(c, k) ==
    /\ Can(c, <<"ba", k>>) /\ Pick(c, <<"ba", k>>)
    /\ AwaitSP(c, <<Child>>, st)
    /\ created' = Child
    /\ bind' = [bind EXCEPT ![Child] = <<"f", k>>]
    /\ fut' = [fut EXCEPT ![k].s = "bound"]
    /\ UNCHANGED <<inst, parked, mtx, qu, nph>>
    /\ UNCHANGED ext

Park(c) ==
    /\ Can(c, <<"pk", 0>>) /\ Pick(c, <<"pk", 0>>)
    /\ Suspend(c)
    /\ parked' = Append(parked, c)
    /\ UNCHANGED <<bind, created, inst, fut, mtx, qu, nph>>
    /\ UNCHANGED ext

(* coro_queue::resume(h) while in coroutine mode: enqueue (coro_queue.h:132-134) *)
Unpark(c) ==
    /\ Can(c, <<"up", 0>>) /\ Pick(c, <<"up", 0>>)
    /\ DiscardSP(c, IF parked = <<>> THEN <<>> ELSE <<Head(parked)>>, st)
    /\ parked' = IF parked = <<>> THEN <<>> ELSE Tail(parked)
    /\ UNCHANGED <<bind, created, inst, fut, mtx, qu, nph>>
    /\ UNCHANGED ext

(* co_await mx.lock(): await_ready = try_lock; otherwise the request is appended and the coroutine
   stays suspended (mutex.h:180-207); hand-off is FIFO (mutex.h:149-177) *)
Lock(c, m) ==
    /\ Can(c, <<"lk", m>>) /\ Pick(c, <<"lk", m>>)
    /\ IF mtx[m].own = 0
         THEN NoSuspend(c) /\ mtx' = [mtx EXCEPT ![m].own = c]
         ELSE Suspend(c) /\ mtx' = [mtx EXCEPT ![m].w = Append(@, c)]
    /\ UNCHANGED <<bind, created, inst, fut, parked, qu, nph>>
    /\ UNCHANGED ext

MtxH(c, m) == IF mtx[m].own = c /\ mtx[m].w # <<>> THEN <<Head(mtx[m].w)>> ELSE <<>>
MtxRel(c, m) == IF mtx[m].own # c THEN mtx
                ELSE IF mtx[m].w = <<>> THEN [mtx EXCEPT ![m].own = 0]
                ELSE [mtx EXCEPT ![m] = [own |-> Head(mtx[m].w), w |-> Tail(mtx[m].w)]]

ReleaseDiscard(c, m) ==
    /\ Can(c, <<"ld", m>>) /\ Pick(c, <<"ld", m>>)
    /\ DiscardSP(c, MtxH(c, m), st)
    /\ mtx' = MtxRel(c, m)
    /\ UNCHANGED <<bind, created, inst, fut, parked, qu, nph>>
    /\ UNCHANGED ext

ReleaseAwait(c, m) ==
    /\ Can(c, <<"la", m>>) /\ Pick(c, <<"la", m>>)
    /\ AwaitSP(c, MtxH(c, m), st)
    /\ mtx' = MtxRel(c, m)
    /\ UNCHANGED <<bind, created, inst, fut, parked, qu, nph>>
    /\ UNCHANGED ext

(* co_await q.pop(): item available -> the future is born resolved; else the promise is parked *)
QPop(c) ==
    /\ Can(c, <<"qo", 0>>) /\ Pick(c, <<"qo", 0>>)
    /\ IF qu.n > 0
         THEN NoSuspend(c) /\ qu' = [qu EXCEPT !.n = @ - 1]
         ELSE Suspend(c) /\ qu' = [qu EXCEPT !.w = Append(@, c)]
    /\ UNCHANGED <<bind, created, inst, fut, parked, mtx, nph>>
    /\ UNCHANGED ext

QH == IF qu.w = <<>> THEN <<>> ELSE <<Head(qu.w)>>
QPushed == IF qu.w = <<>> THEN [qu EXCEPT !.n = @ + 1] ELSE [qu EXCEPT !.w = Tail(@)]

QPushDiscard(c) ==
    /\ Can(c, <<"qd", 0>>) /\ Pick(c, <<"qd", 0>>)
    /\ DiscardSP(c, QH, st)
    /\ qu' = QPushed
    /\ UNCHANGED <<bind, created, inst, fut, parked, mtx, nph>>
    /\ UNCHANGED ext

QPushAwait(c) ==
    /\ Can(c, <<"qa", 0>>) /\ Pick(c, <<"qa", 0>>)
    /\ AwaitSP(c, QH, st)
    /\ qu' = QPushed
    /\ UNCHANGED <<bind, created, inst, fut, parked, mtx, nph>>
    /\ UNCHANGED ext

(* co_await pool: the awaiter hands a closure calling coro_queue::resume(h) to the pool and the
   coroutine stays suspended (thread_pool.h:113-137) *)
PoolHop(c) ==
    /\ Can(c, <<"po", 0>>) /\ Pick(c, <<"po", 0>>)
    /\ Back([st EXCEPT ![c] = "ready"], pc, [mid EXCEPT ![c] = TRUE], EvS(EvB(c), c), queue)
    /\ ptasks' = Append(ptasks, <<"h", c>>)
    /\ nrd' = Bump(nrd, <<c>>)
    /\ UNCHANGED <<bind, created, inst, fut, parked, mtx, qu, nph, enqs, ndeq, disc, thr, nat, acc, wcase>>

(* pool.resume(prom[k]()) by a running coroutine: the waiters go to the pool, LAST handle first *)
PoolResume(c, k) ==
    /\ Can(c, <<"pr", k>>) /\ Pick(c, <<"pr", k>>)
    /\ Cont(c, FALSE, Ready(st, PromH(k) \o PromX(k)), EvB(c), queue)
    /\ ptasks' = ptasks \o PromPT(k) \o HTasks(Rev(PromH(k)))
    /\ nrd' = Bump(nrd, PromH(k) \o PromX(k))
    /\ fut' = PromFut(k)
    /\ UNCHANGED <<bind, created, inst, parked, mtx, qu, nph, enqs, ndeq, disc, thr, nat, acc, wcase>>

(* co_await pool(fut[k]): ready -> continue here; else subscribe with a resume FUNCTION that hands the
   coroutine to the pool when the future is resolved (thread_pool.h:151-170) *)
PoolAwait(c, k) ==
    /\ Can(c, <<"pw", k>>) /\ Pick(c, <<"pw", k>>)
    /\ IF fut[k].s = "done"
         THEN NoSuspend(c) /\ fut' = fut
         ELSE Suspend(c) /\ fut' = [fut EXCEPT ![k].w = <<c + 100>> \o @]
    /\ UNCHANGED <<bind, created, inst, parked, mtx, qu, nph>>
    /\ UNCHANGED ext

(* { future<void> f = pool.run(body(child)); co_await f; }: the closure owning the child goes to the
   pool (thread_pool.h:288-298); the future cannot be ready yet, the caller waits for the child *)
PoolRun(c) ==
    /\ Can(c, <<"px", 0>>) /\ Pick(c, <<"px", 0>>)
    /\ Back([st EXCEPT ![c] = "wait", ![Child] = "ready"], pc, [mid EXCEPT ![c] = TRUE], EvS(EvB(c), c), queue)
    /\ ptasks' = Append(ptasks, <<"run", Child>>)
    /\ bind' = [bind EXCEPT ![Child] = <<"p", c>>]
    /\ created' = Child
    /\ nrd' = Bump(nrd, <<Child>>)
    /\ UNCHANGED <<inst, fut, parked, mtx, qu, nph, enqs, ndeq, disc, thr, nat, acc, wcase>>

(* acc = prom[k]() / acc << prom[k](): the released coroutines are KEPT in the reused suspend point
   variable, appended in array order; operator= is documented and implemented as a merge
   (suspend_point.h:65-79,92-93) *)
HoldProm(c, kind, k) ==
    /\ Can(c, <<kind, k>>) /\ Pick(c, <<kind, k>>)
    /\ Cont(c, FALSE, Ready(st, PromH(k) \o PromX(k)), EvB(c), queue)
    /\ acc' = [acc EXCEPT ![c] = @ \o PromH(k)]
    /\ nrd' = Bump(nrd, PromH(k) \o PromX(k))
    /\ fut' = PromFut(k)
    /\ ptasks' = ptasks \o PromPT(k)
    /\ UNCHANGED <<bind, created, inst, parked, mtx, qu, nph, enqs, ndeq, disc, thr, nat, wcase>>

(* acc = body(child).detach() *)
HoldDetach(c) ==
    /\ Can(c, <<"hd", 0>>) /\ Pick(c, <<"hd", 0>>)
    /\ Cont(c, FALSE, [st EXCEPT ![Child] = "ready"], EvB(c), queue)
    /\ acc' = [acc EXCEPT ![c] = Append(@, Child)]
    /\ created' = Child
    /\ nrd' = Bump(nrd, <<Child>>)
    /\ UNCHANGED <<bind, inst, fut, parked, mtx, qu, nph, enqs, ndeq, disc, ptasks, thr, nat, wcase>>

(* co_await acc *)
HoldAwait(c) ==
    /\ Can(c, <<"hw", 0>>) /\ Pick(c, <<"hw", 0>>)
    /\ AwaitSPx(c, acc[c], st, <<>>)
    /\ acc' = [acc EXCEPT ![c] = <<>>]
    /\ UNCHANGED <<bind, created, inst, fut, parked, mtx, qu, nph, ptasks, thr, nat, wcase>>

(* acc.clear(): suspend_now, coroutine mode on -> everything held is pushed *)
HoldFlush(c) ==
    /\ Can(c, <<"hf", 0>>) /\ Pick(c, <<"hf", 0>>)
    /\ DiscardSPx(c, acc[c], st, <<>>)
    /\ acc' = [acc EXCEPT ![c] = <<>>]
    /\ UNCHANGED <<bind, created, inst, fut, parked, mtx, qu, nph, ptasks, thr, nat, wcase>>

(* acc << co_await cocls::self(): self::await_suspend stores the handle and returns false (no
   suspension, self.h:19-22); await_resume wraps the handle in a suspend_point<void> (self.h:23-25) *)
HoldSelf(c) ==
    /\ Can(c, <<"hs", 0>>) /\ Pick(c, <<"hs", 0>>)
    /\ Cont(c, FALSE, st, EvB(c), queue)
    /\ acc' = [acc EXCEPT ![c] = Append(@, c)]
    /\ UNCHANGED <<bind, created, inst, fut, parked, mtx, qu, nph, enqs, ndeq, nrd, disc, ptasks, thr, nat, wcase>>

(* { auto me = co_await self(); }  co_await std::suspend_always{};  the discarded own suspend point
   pushes the running coroutine to the back of the deque (suspend_point.h:97-99,130-135); it then
   suspends and the resumer (flush_queue / the nested start()) goes on *)
SelfYield(c) ==
    /\ Can(c, <<"hy", 0>>) /\ Pick(c, <<"hy", 0>>)
    /\ LET Q1 == Append(queue, c)
           E1 == Append(EvB(c), <<c, pc[c] + 1, "s", Q1, MD>>)
       IN Back([st EXCEPT ![c] = "ready"], pc, [mid EXCEPT ![c] = TRUE], E1, Q1)
    /\ enqs' = Append(enqs, c) /\ ndeq' = ndeq /\ nrd' = Bump(nrd, <<c>>)
    /\ UNCHANGED <<bind, created, inst, fut, parked, mtx, qu, nph, disc>>
    /\ UNCHANGED ext

(* co_await of a STOPPED thread pool: thread_pool::enqueue drops the closure (thread_pool.h:358-364), the
   closure's deleter runs still inside await_suspend and calls coro_queue::resume(h) (thread_pool.h:
   116-120): coroutine mode is on, so the coroutine is appended to the deque; await_suspend returns
   void, control goes back to the resumer; the cancelled coroutine neither pre-empts anybody nor
   overtakes the coroutines queued before it *)
PoolCancelled(c) ==
    /\ Can(c, <<"pc", 0>>) /\ Pick(c, <<"pc", 0>>)
    /\ Back([st EXCEPT ![c] = "ready"], pc, [mid EXCEPT ![c] = TRUE], EvS(EvB(c), c), Append(queue, c))
    /\ enqs' = Append(enqs, c) /\ ndeq' = ndeq /\ nrd' = Bump(nrd, <<c>>)
    /\ UNCHANGED <<bind, created, inst, fut, parked, mtx, qu, nph, disc>>
    /\ UNCHANGED ext

(* coro_queue::create_suspend_point(fn) called by a running coroutine (suspend_point.h:322-340): fn =
   prom[k]() with the suspend point discarded -> the released handles are pushed; the new entries are
   then taken from the BACK of the deque into the returned suspend point, which therefore holds them in
   REVERSE order; discarded (cd): pushed again in that order; awaited (ca): as every suspend point *)
CreateDiscard(c, k) ==
    /\ Can(c, <<"cd", k>>) /\ Pick(c, <<"cd", k>>)
    /\ DiscardSP(c, Rev(PromH(k)), st)
    /\ fut' = PromFut(k)
    /\ UNCHANGED <<bind, created, inst, parked, mtx, qu, nph>>
    /\ UNCHANGED ext

CreateAwait(c, k) ==
    /\ Can(c, <<"ca", k>>) /\ Pick(c, <<"ca", k>>)
    /\ AwaitSP(c, Rev(PromH(k)), st)
    /\ fut' = PromFut(k)
    /\ UNCHANGED <<bind, created, inst, parked, mtx, qu, nph>>
    /\ UNCHANGED ext

(* fn throws after prom[k](): nothing is collected, the entries stay queued in push order
   (suspend_point.h:327,334); the coroutine catches the exception and goes on *)
CreateThrow(c, k) ==
    /\ Can(c, <<"ct", k>>) /\ Pick(c, <<"ct", k>>)
    /\ DiscardSP(c, PromH(k), st)
    /\ fut' = PromFut(k)
    /\ UNCHANGED <<bind, created, inst, parked, mtx, qu, nph>>
    /\ UNCHANGED ext

(* co_return: locals are destroyed (a held ownership releases the mutex, the next owner's suspend
   point is discarded: mutex.h:40-42), then final_awaiter::await_suspend (async.h:217-230): resolve
   the bound future, destroy the frame, symmetric transfer to the popped LAST handle; the rest is
   pushed by the suspend point's destructor; no handle -> noop_coroutine -> back to the resumer.
   kd = "rx": the body is left by an exception instead: the same locals are destroyed by the unwinding,
   unhandled_exception stores the exception in the bound future (async.h:247-249), then final_suspend *)
Finish(c, kd) ==
    /\ Can(c, <<kd, 0>>) /\ Pick(c, <<kd, 0>>)
    /\ LET E0 == EvB(c)
           H0 == acc[c]                                   \* ~suspend_point of the reused variable: pushed
           H1 == IF M = 1 THEN MtxH(c, 1) ELSE <<>>
           Q1 == queue \o H0 \o H1
           E1 == Append(E0, <<c, pc[c] + 1, "f", Q1, MD>>)
           W == IF bind[c][1] = "f" THEN fut[bind[c][2]].w ELSE <<>>
           H == IF bind[c][1] = "f" THEN Plain(W)
                ELSE IF bind[c][1] = "p" THEN <<bind[c][2]>> ELSE <<>>
           S1 == [Ready(st, H1 \o H \o PWIds(W)) EXCEPT ![c] = "done"]
           P1 == [pc EXCEPT ![c] = @ + 1]
       IN /\ IF H = <<>>
               THEN /\ Back(S1, P1, mid, E1, Q1)
                    /\ enqs' = enqs \o H0 \o H1
               ELSE /\ Resume(Last(H), SwapTop(Last(H)), S1, P1, mid, E1, Q1 \o Front(H), MD)
                    /\ enqs' = enqs \o H0 \o H1 \o Front(H)
          /\ nrd' = Bump(nrd, H1 \o H \o PWIds(W))
          /\ disc' = disc \o [j \in 1..Len(H0 \o H1) |-> <<c, (H0 \o H1)[j], Len(E0)>>]
          /\ fut' = IF bind[c][1] = "f" THEN [fut EXCEPT ![bind[c][2]] = [s |-> "done", w |-> <<>>]] ELSE fut
          /\ ptasks' = ptasks \o PWTasks(W)
    /\ mtx' = IF M = 1 THEN MtxRel(c, 1) ELSE mtx
    /\ acc' = [acc EXCEPT ![c] = <<>>]
    /\ UNCHANGED <<bind, created, inst, parked, qu, nph, ndeq, thr, nat, wcase>>

Return(c) == st[c] = "run" /\ Finish(c, "re")      \* (conjunctions: TLC then names the actions Return / Throw)
Throw(c) == st[c] = "run" /\ Finish(c, "rx")

-----------------------------------------------------------------------------
(* install_queue_and_call frame on top of the stack (coro_queue.h:103-111; the callee is
   `h.resume()` (coro_queue.h:122-126) or the loop of suspend_now (suspend_point.h:137-141)) *)

(* the callee's loop resumes the next handle of the suspend point *)
IqNext ==
    /\ stack # <<>> /\ Top.t = "iq" /\ Top.rest # <<>>
    /\ LET t == Head(Top.rest)
       IN Resume(t, Append([stack EXCEPT ![Len(stack)].rest = Tail(@)], Frame("co", t, <<>>, FALSE)),
                 st, pc, mid, ev, queue, MD)
    /\ UNCHANGED <<script, bind, created, inst, fut, parked, mtx, qu, nph, disc, enqs, ndeq, nrd>>
    /\ UNCHANGED ext

(* trailer: flush_queue takes the FRONT of the deque and resumes it (coro_queue.h:63-70) *)
Flush ==
    /\ stack # <<>> /\ Top.t = "iq" /\ Top.rest = <<>> /\ queue # <<>>
    /\ LET t == Head(queue)
       IN Resume(t, Append(stack, Frame("co", t, <<>>, FALSE)), st, pc, mid, ev, Tail(queue), MD)
    /\ ndeq' = ndeq + 1
    /\ UNCHANGED <<script, bind, created, inst, fut, parked, mtx, qu, nph, disc, enqs, nrd>>
    /\ UNCHANGED ext

(* trailer: deque empty -> instance = prev, return to the caller (coro_queue.h:107); the trailer is the
   destructor of a local (coro_queue.h:23-34,105): it runs on normal return AND when fn throws *)
IqExit ==
    /\ stack # <<>> /\ Top.t = "iq" /\ Top.rest = <<>> /\ queue = <<>>
    /\ inst' = Top.prev
    /\ stack' = Pop
    /\ IF Len(stack) = 1 /\ thr = 0 /\ ~PoolOn
         \* (Top.c = 1: the frame of ix/cx, left by the exception of fn: the trailer runs during unwinding)
         THEN /\ ev' = Append(ev, <<0, pc[0] + 1, IF Top.c = 1 THEN "t" ELSE "e", queue, B(Top.prev)>>)
              /\ pc' = [pc EXCEPT ![0] = @ + 1]
              /\ UNCHANGED <<nat, ptasks>>
         ELSE IF Len(stack) = 1 /\ thr = 0
         \* the native thread now lets the pool's worker run and waits until the pool is dry
         THEN /\ nat' = "pool" /\ ptasks' = Append(ptasks, Obs)
              /\ UNCHANGED <<ev, pc>>
         ELSE UNCHANGED <<ev, pc, nat, ptasks>>     \* nested, or back in the worker's loop
    /\ UNCHANGED <<script, st, mid, bind, created, queue, fut, parked, mtx, qu, nph, disc, enqs, ndeq, nrd, nrs,
                   thr, acc, wcase>>

-----------------------------------------------------------------------------
(* Native code (coroutine mode off).  A discarded suspend point / coro_queue::resume runs the
   coroutines NOW: install the queue, resume every handle in array order, flush, uninstall
   (suspend_point.h:136-142, coro_queue.h:135-137). *)

InstKinds == {"ir", "ix", "cr", "cx"}
NRoots == Cardinality({j \in 1..Len(script[0]) : \/ script[0][j][1] = "sd"
                                                 \/ script[0][j][1] \in InstKinds /\ script[0][j][2] = 0})

(* after its own script the native code releases whatever is still blocked, so that every coroutine
   of every program runs to completion *)
CleanStep ==
    IF \E k \in 1..K : fut[k].s = "pend" /\ fut[k].w # <<>>
      THEN <<"rd", CHOOSE k \in 1..K : /\ fut[k].s = "pend" /\ fut[k].w # <<>>
                                       /\ \A k2 \in 1..(k - 1) : ~(fut[k2].s = "pend" /\ fut[k2].w # <<>>)>>
    ELSE IF parked # <<>> THEN <<"up", 0>>
    ELSE IF qu.w # <<>> THEN <<"qd", 0>>
    ELSE <<"re", 0>>

NatChoices ==
    IF nph = "clean" THEN {CleanStep} \ {<<"re", 0>>}
    ELSE IF nph # "run" \/ Len(script[0]) >= NatSteps THEN {}
    ELSE (IF "sd" \in NatKinds /\ created < N /\ NRoots < Roots THEN {<<"sd", 0>>} ELSE {})
      \cup (IF "rd" \in NatKinds
              THEN {<<"rd", k>> : k \in {k \in AllowedF : Prune => (fut[k].s = "pend" /\ fut[k].w # <<>>)}}
              ELSE {})
      \cup (IF "up" \in NatKinds /\ (Prune => parked # <<>>) THEN {<<"up", 0>>} ELSE {})
      \cup (IF "qd" \in NatKinds /\ (Prune => qu.w # <<>>) THEN {<<"qd", 0>>} ELSE {})
      \cup (IF "pr" \in NatKinds
              THEN {<<"pr", k>> : k \in {k \in AllowedF : Prune => (fut[k].s = "pend" /\ fut[k].w # <<>>)}}
              ELSE {})
      \* (the pool interplay of these entries is not modelled)
      \cup (IF PoolOn THEN {}
            ELSE {<<kd, a>> : kd \in NatKinds \cap InstKinds,
                             a \in {k \in AllowedF : Prune => (fut[k].s = "pend" /\ fut[k].w # <<>>)}
                                  \cup (IF created < N /\ NRoots < Roots THEN {0} ELSE {})})

NatIdle == stack = <<>> /\ nat = "idle"

(* H: handles resumed by the call on the native thread; PT / X: closures the call hands to the pool
   and the coroutines in them *)
NatDo(s, H, PT, X) ==
    /\ NatIdle /\ s \in NatChoices
    /\ script' = [script EXCEPT ![0] = Append(@, s)]
    /\ LET E0 == Append(ev, <<0, pc[0] + 1, "b", queue, MD>>)
       IN IF H = <<>>
            THEN /\ IF PoolOn
                      THEN /\ ev' = E0 /\ pc' = pc /\ nat' = "pool" /\ ptasks' = ptasks \o PT \o <<Obs>>
                      ELSE /\ ev' = Append(E0, <<0, pc[0] + 1, "e", queue, MD>>)
                           /\ pc' = [pc EXCEPT ![0] = @ + 1]
                           /\ nat' = nat /\ ptasks' = ptasks \o PT
                 /\ st' = Ready(st, X) /\ nrd' = Bump(nrd, X)
                 /\ UNCHANGED <<mid, stack, inst, queue, nrs>>
            ELSE /\ inst' = TRUE
                 /\ Resume(Head(H), <<Frame("iq", 0, Tail(H), inst), Frame("co", Head(H), <<>>, FALSE)>>,
                           Ready(st, H \o X), pc, mid, E0, queue, 1)
                 /\ nrd' = Bump(nrd, H \o X)
                 /\ nat' = nat /\ ptasks' = ptasks \o PT
    /\ UNCHANGED <<bind, nph, disc, enqs, ndeq, thr, acc, wcase>>

NatSpawn ==
    /\ NatDo(<<"sd", 0>>, <<Child>>, <<>>, <<>>)
    /\ created' = Child
    /\ UNCHANGED <<fut, parked, mtx, qu>>

NatResolve(k) ==
    /\ NatDo(<<"rd", k>>, PromH(k), PromPT(k), PromX(k))
    /\ fut' = PromFut(k)
    /\ UNCHANGED <<created, parked, mtx, qu>>

(* pool.resume(prom[k]()): every handle of the suspend point is popped (LAST first) and handed to the
   pool as a closure calling coro_queue::resume(h) (thread_pool.h:204-213); nothing runs here *)
NatPoolResume(k) ==
    /\ NatDo(<<"pr", k>>, <<>>, PromPT(k) \o HTasks(Rev(PromH(k))), PromX(k) \o PromH(k))
    /\ fut' = PromFut(k)
    /\ UNCHANGED <<created, parked, mtx, qu>>

NatUnpark ==
    /\ NatDo(<<"up", 0>>, IF parked = <<>> THEN <<>> ELSE <<Head(parked)>>, <<>>, <<>>)
    /\ parked' = IF parked = <<>> THEN <<>> ELSE Tail(parked)
    /\ UNCHANGED <<created, fut, mtx, qu>>

NatQPush ==
    /\ NatDo(<<"qd", 0>>, QH, <<>>, <<>>)
    /\ qu' = QPushed
    /\ UNCHANGED <<created, fut, parked, mtx>>

(* User-level entry into coroutine mode from native code: coro_queue::install_queue_and_call(fn)
   (coro_queue.h:103-111) installs the queue and calls fn; fn makes the coroutines H ready (a = k:
   prom[k](), a = 0: body(child).detach(); the suspend point is discarded in coroutine mode: queued,
   nothing runs) and returns (ir) or THROWS (ix).  Either way the trailer drains the deque and
   uninstalls the queue before the call is left: by return, or by the exception that the native caller
   catches.  create_suspend_point(fn) from native code with a throwing fn (cx) is the same: its
   install_queue_and_call frame is unwound (suspend_point.h:342-344), the collection loop is skipped. *)
InstH(a) == IF a = 0 THEN <<Child>> ELSE PromH(a)

NatInstall(kd, a) ==
    /\ kd \in {"ir", "ix", "cx"}
    /\ NatIdle /\ <<kd, a>> \in NatChoices
    /\ script' = [script EXCEPT ![0] = Append(@, <<kd, a>>)]
    /\ LET H == InstH(a)
           E0 == Append(ev, <<0, pc[0] + 1, "b", queue, MD>>)
       IN /\ ev' = Append(E0, <<0, pc[0] + 1, "x", queue \o H, 1>>)
          /\ stack' = <<Frame("iq", B(kd # "ir"), <<>>, inst)>>
          /\ inst' = TRUE
          /\ queue' = queue \o H /\ enqs' = enqs \o H
          /\ st' = Ready(st, H) /\ nrd' = Bump(nrd, H)
          /\ disc' = disc \o [j \in 1..Len(H) |-> <<0, H[j], Len(E0)>>]
    /\ created' = IF a = 0 THEN Child ELSE created
    /\ fut' = IF a = 0 THEN fut ELSE PromFut(a)
    /\ UNCHANGED <<pc, mid, bind, parked, mtx, qu, nph, ndeq, nrs>>
    /\ UNCHANGED ext

(* create_suspend_point(fn) from native code, fn returns (suspend_point.h:341-345,322-340): under the
   installed queue fn makes H ready (queued), the entries are withdrawn from the BACK of the deque into
   the suspend point (REVERSE order), the trailer finds the deque empty and uninstalls the queue; native
   code now holds the suspend point (event h: deque empty, coroutine mode off, nothing has run) and
   discards it: coroutine mode off -> install the queue again, resume in array order, drain
   (suspend_point.h:136-142) *)
NatCreate(a) ==
    /\ NatIdle /\ <<"cr", a>> \in NatChoices
    /\ script' = [script EXCEPT ![0] = Append(@, <<"cr", a>>)]
    /\ LET H == InstH(a)
           R == Rev(H)
           E0 == Append(ev, <<0, pc[0] + 1, "b", queue, MD>>)
           E1 == Append(E0, <<0, pc[0] + 1, "y", queue \o H, 1>>)
           E2 == Append(E1, <<0, pc[0] + 1, "h", queue, MD>>)
       IN /\ IF H = <<>>
               THEN /\ ev' = Append(E2, <<0, pc[0] + 1, "e", queue, MD>>)
                    /\ pc' = [pc EXCEPT ![0] = @ + 1]
                    /\ UNCHANGED <<st, mid, stack, inst, queue, nrs>>
               ELSE /\ inst' = TRUE
                    /\ Resume(Head(R), <<Frame("iq", 0, Tail(R), inst), Frame("co", Head(R), <<>>, FALSE)>>,
                              Ready(st, H), pc, mid, E2, queue, 1)
          /\ nrd' = Bump(nrd, H)
          /\ disc' = disc \o [j \in 1..Len(H) |-> <<0, H[j], Len(E0)>>]
    /\ created' = IF a = 0 THEN Child ELSE created
    /\ fut' = IF a = 0 THEN fut ELSE PromFut(a)
    /\ UNCHANGED <<bind, parked, mtx, qu, nph, enqs, ndeq>>
    /\ UNCHANGED ext

(* The pool's worker (thread_pool::worker, thread_pool.h:52-66) takes the next closure.  It is an
   ordinary thread, NOT in coroutine mode: coro_queue::resume(h) / the discarded suspend point of
   fn.start(promise) install the worker thread's own ready queue, resume the coroutine and drain the
   queue before the closure returns (coro_queue.h:135-137, suspend_point.h:136-142): whatever thread
   a coroutine runs on, it runs in coroutine mode. *)
PoolCoro ==
    /\ stack = <<>> /\ nat = "pool" /\ ptasks # <<>> /\ Head(ptasks) # Obs
    /\ LET c == Head(ptasks)[2]
       IN Resume(c, <<Frame("iq", 0, <<>>, FALSE), Frame("co", c, <<>>, FALSE)>>, st, pc, mid, ev, queue, 3)
    /\ inst' = TRUE /\ thr' = 1 /\ ptasks' = Tail(ptasks)
    /\ UNCHANGED <<script, bind, created, fut, parked, mtx, qu, nph, disc, enqs, ndeq, nrd, nat, acc, wcase>>

(* the harness' observation closure, run by the worker between the library's closures; if closures
   are still queued behind it, it is queued again *)
PoolObs ==
    /\ stack = <<>> /\ nat = "pool" /\ ptasks # <<>> /\ Head(ptasks) = Obs
    /\ ev' = Append(ev, <<0, pc[0] + 1, "w", queue, B(inst) + 2>>)
    /\ ptasks' = IF Tail(ptasks) = <<>> THEN <<>> ELSE Append(Tail(ptasks), Obs)
    /\ thr' = 1
    /\ UNCHANGED <<script, pc, st, mid, bind, created, stack, inst, queue, fut, parked, mtx, qu, nph,
                   disc, enqs, ndeq, nrd, nrs, nat, acc, wcase>>

(* the pool is dry: the native thread's call is over *)
PoolEnd ==
    /\ stack = <<>> /\ nat = "pool" /\ ptasks = <<>>
    /\ ev' = Append(ev, <<0, pc[0] + 1, "e", queue, B(inst)>>)
    /\ pc' = [pc EXCEPT ![0] = @ + 1]
    /\ nat' = "idle" /\ thr' = 0
    /\ UNCHANGED <<script, st, mid, bind, created, stack, inst, queue, fut, parked, mtx, qu, nph,
                   disc, enqs, ndeq, nrd, nrs, ptasks, acc, wcase>>

NatEnd ==
    /\ NatIdle /\ nph = "run" /\ created >= 1
    /\ nph' = "clean"
    /\ UNCHANGED <<script, pc, st, mid, bind, created, stack, inst, queue, fut, parked, mtx, qu,
                   ev, disc, enqs, ndeq, nrd, nrs>>
    /\ UNCHANGED ext

NatDone ==
    /\ NatIdle /\ nph = "clean" /\ CleanStep = <<"re", 0>>
    /\ nph' = "done"
    /\ UNCHANGED <<script, pc, st, mid, bind, created, stack, inst, queue, fut, parked, mtx, qu,
                   ev, disc, enqs, ndeq, nrd, nrs>>
    /\ UNCHANGED ext

Next ==
    \/ NatSpawn \/ (\E k \in 1..K : NatResolve(k) \/ NatPoolResume(k)) \/ NatUnpark \/ NatQPush \/ NatEnd \/ NatDone
    \/ (\E a \in 0..K : NatCreate(a) \/ \E kd \in InstKinds : NatInstall(kd, a))
    \/ IqNext \/ Flush \/ IqExit \/ PoolCoro \/ PoolObs \/ PoolEnd
    \/ \E c \in Cor :
         \/ Pause(c) \/ Park(c) \/ Unpark(c) \/ Return(c) \/ Throw(c) \/ HoldSelf(c) \/ SelfYield(c) \/ PoolCancelled(c)
         \/ SpawnDetachDiscard(c) \/ SpawnDetachAwait(c) \/ SpawnCoAwait(c)
         \/ StartNested(c) \/ StartReturn(c)
         \/ QPop(c) \/ QPushDiscard(c) \/ QPushAwait(c)
         \/ PoolHop(c) \/ PoolRun(c) \/ HoldDetach(c) \/ HoldAwait(c) \/ HoldFlush(c)
         \/ \E k \in 1..K : \/ ResolveDiscard(c, k) \/ ResolveAwait(c, k) \/ AwaitFuture(c, k)
                            \/ SpawnBoundDiscard(c, k) \/ SpawnBoundAwait(c, k)
                            \/ PoolResume(c, k) \/ PoolAwait(c, k)
                            \/ HoldProm(c, "ha", k) \/ HoldProm(c, "hm", k)
                            \/ CreateDiscard(c, k) \/ CreateAwait(c, k) \/ CreateThrow(c, k)
         \/ \E m \in 1..M : Lock(c, m) \/ ReleaseDiscard(c, m) \/ ReleaseAwait(c, m)

Spec == Init /\ [][Next]_vars

-----------------------------------------------------------------------------
(* Properties (C05) *)

EvIdx == 1..Len(ev)
CoFrames == {i \in 1..Len(stack) : stack[i].t = "co"}

TypeOK ==
    /\ \A c \in Cor : /\ st[c] \in {"new", "ready", "run", "call", "wait", "done", "REENTER"}
                      /\ Len(script[c]) = pc[c] + B(mid[c] \/ st[c] = "call")
                      /\ (c > created) <=> st[c] = "new"
                      /\ mid[c] => st[c] \in {"ready", "wait"}
    /\ \A i \in 1..Len(stack) : stack[i].t = (IF i = 1 THEN "iq" ELSE "co")
    /\ "st" \notin Kinds => Len(stack) <= 2

(* a running coroutine is always in coroutine mode *)
CoroMode == stack # <<>> => inst

(* a coroutine made ready by the running coroutine through a discarded suspend point executes
   nothing before the waker's next suspension ("s") or finish ("f") event; made ready by a native
   function running under install_queue_and_call / create_suspend_point (waker 0): nothing before that
   function is left ("x", "y") *)
RunToSuspension ==
    \A r \in 1..Len(disc) :
      LET w == disc[r][1]
          d == disc[r][2]
          at == disc[r][3]
      IN \A j \in EvIdx : (j > at /\ ev[j][1] = d) =>
            \E n \in EvIdx : n > at /\ n < j /\ ev[n][1] = w /\ ev[n][3] \in {"s", "f", "x", "y"}

(* Reading for programs with NESTED activations ("st"): while a child started by start() runs nested
   inside its caller, "the running coroutine" is the innermost one (README "Rizeni korutin v coro
   mode": suspension or termination of the CURRENTLY running coroutine resumes the next one from the
   queue): a queued coroutine executes only after SOME running coroutine has suspended or finished
   since the readying.  Without nested activations this is the same statement as RunToSuspension,
   because nobody but the waker runs before the waker suspends or finishes. *)
RunToSuspensionInner ==
    \A r \in 1..Len(disc) :
      LET d == disc[r][2]
          at == disc[r][3]
      IN \A j \in EvIdx : (j > at /\ ev[j][1] = d) =>
            \E n \in EvIdx : n > at /\ n < j /\ ev[n][3] \in {"s", "f", "x", "y"}

(* the deque is exactly the not yet dequeued suffix of everything ever enqueued: pop_front order =
   push_back order *)
QueueFIFO == queue = SubSeq(enqs, ndeq + 1, Len(enqs))

(* ... and whoever is taken from the deque is resumed at once *)
FIFOStep ==
    [][ndeq' # ndeq => /\ ndeq' = ndeq + 1
                       /\ stack' # <<>> /\ stack'[Len(stack')].t = "co"
                       /\ stack'[Len(stack')].c = enqs'[ndeq']]_vars

(* what the coroutines themselves observe: coroutines sitting in the deque at some event start
   running in the order in which they sit there *)
FirstAfter(n, x) == LET s == {j \in EvIdx : j > n /\ ev[j][1] = x}
                    IN IF s = {} THEN 0 ELSE CHOOSE j \in s : \A o \in s : j <= o
ObservedOrder ==      \* stated for neighbours in the deque; it is transitive
    \A n \in EvIdx :
      \* (not for what create_suspend_point is about to withdraw from the deque again, event "y": those
      \* coroutines are handed to the caller in a suspend point, whose array order the property leaves open)
      LET q == IF ev[n][3] = "y" THEN <<>> ELSE ev[n][4] IN
      \A x \in 1..(Len(q) - 1) :
        LET fx == FirstAfter(n, q[x])
            fy == FirstAfter(n, q[x + 1])
        IN fy # 0 => (fx # 0 /\ fx < fy)

(* each readying leads to exactly one resumption; a ready coroutine is held in exactly one place *)
\* (its OWN handle in its own suspend point variable, step hs, is not a readying: it becomes one
\* when the variable is awaited)
Held(c) == Cardinality({i \in 1..Len(ptasks) : ptasks[i] # Obs /\ ptasks[i][2] = c})
           + Cardinality({x \in Cor \ {c} : In(c, acc[x])})
Occ(c) == Cardinality({i \in 1..Len(queue) : queue[i] = c})
          + (IF stack # <<>> THEN Cardinality({i \in 1..Len(stack[1].rest) : stack[1].rest[i] = c}) ELSE 0)
          + Held(c)
ResumeOncePerReadying ==
    \A c \in Cor :
      /\ nrs[c] <= nrd[c] /\ nrd[c] <= nrs[c] + 1
      /\ (nrd[c] = nrs[c] + 1) <=> (st[c] = "ready")
      /\ Occ(c) = (IF st[c] = "ready" THEN 1 ELSE 0)
      /\ \A i, j \in 1..Len(acc[c]) : i # j => acc[c][i] # acc[c][j]

(* no coroutine is resumed while it runs / after it finished; never twice on the stack *)
NoReentrancy ==
    /\ \A c \in Cor : st[c] # "REENTER"
    /\ \A i, j \in CoFrames : i # j => stack[i].c # stack[j].c
    /\ \A c \in Cor : (st[c] \in {"run", "call"}) <=> (\E i \in CoFrames : stack[i].c = c)
    \* only the innermost activation executes; the ones below it are inside a nested start()
    /\ \A i \in CoFrames : i < Len(stack) => st[stack[i].c] = "call"

(* co_await pause(): everybody who was queued runs before the pausing coroutine continues *)
RoundRobin ==
    \A n \in EvIdx :
      (ev[n][1] # 0 /\ ev[n][3] = "s" /\ script[ev[n][1]][ev[n][2]][1] = "pa") =>
        LET c == ev[n][1]
            m == FirstAfter(n, c)
            q == ev[n][4]
        IN m # 0 => \A x \in 1..Len(q) : \E j \in EvIdx : j > n /\ j < m /\ ev[j][1] = q[x]

(* when the outermost activation returns to native code nothing is left queued and coroutine mode
   is off; native code observes the same *)
FullDrain ==
    \* (a ready coroutine may still sit in a closure handed to the thread pool or in a suspend point
    \* VARIABLE its holder has neither awaited nor destroyed yet: that is the holder's decision)
    /\ stack = <<>> => (queue = <<>> /\ ~inst /\ \A c \in Cor : st[c] = "ready" => Held(c) = 1)
    \* native code, and the pool's worker between two closures, see an empty deque, coroutine mode off
    \* (also when the call was left by an exception, "t"); inside fn of install_queue_and_call /
    \* create_suspend_point ("x", "y") coroutine mode is on
    /\ \A n \in EvIdx : ev[n][1] = 0 =>
          IF ev[n][3] \in {"x", "y"} THEN ev[n][5] = 1
          ELSE (ev[n][4] = <<>> /\ ev[n][5] = (IF ev[n][3] = "w" THEN 2 ELSE 0))

(* no ready coroutine left behind; (and, thanks to the clean-up phase and the choice guards, every
   created coroutine has finished: the generated programs are deadlock free) *)
AllDoneAtEnd == nph = "done" => (ptasks = <<>> /\ \A c \in Cor : st[c] \in {"new", "done"} /\ acc[c] = <<>>)

(* the own handle is used as the specification's programs are allowed to: never flushed or destroyed
   while its coroutine runs (guards of Choices) *)
OwnHandleUse == \A c \in Cor : (In(c, queue) \/ \E x \in Cor \ {c} : In(c, acc[x])) => st[c] = "ready"

(* every coroutine that was handed to the pool continues ON the worker, in coroutine mode *)
OnWorkerInCoroMode == \A n \in EvIdx : ev[n][1] # 0 => ev[n][5] \in {1, 3}

(* The history properties are safety properties of the growing history: once violated they stay
   violated, and every behaviour ends in a state with nph = "done".  For the long histories of
   Plan = "wide" they are therefore evaluated on the complete history only. *)
EndRunToSuspension == nph = "done" => RunToSuspension
EndObservedOrder == nph = "done" => ObservedOrder
EndRoundRobin == nph = "done" => RoundRobin

=============================================================================
