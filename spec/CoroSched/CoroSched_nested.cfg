SPECIFICATION Spec
CONSTANTS
  N = 3
  MaxSteps = 2
  K = 1
  M = 0
  Roots = 2
  NatSteps = 2
  Kinds = {"pa", "rd", "aw", "st", "sd"}
  NatKinds = {"sd"}
  Prune = TRUE
  Plan = "free"
INVARIANTS TypeOK CoroMode RunToSuspensionInner QueueFIFO ObservedOrder ResumeOncePerReadying NoReentrancy RoundRobin FullDrain AllDoneAtEnd
PROPERTY FIFOStep
CHECK_DEADLOCK FALSE
