SPECIFICATION Spec
CONSTANTS
  N = 3
  MaxSteps = 2
  K = 1
  M = 0
  Roots = 3
  NatSteps = 3
  Kinds = {"pa", "rd", "ra", "aw"}
  NatKinds = {"sd"}
  Prune = FALSE
  Plan = "free"
INVARIANTS TypeOK CoroMode RunToSuspension QueueFIFO ObservedOrder ResumeOncePerReadying NoReentrancy RoundRobin FullDrain AllDoneAtEnd
PROPERTY FIFOStep
CHECK_DEADLOCK FALSE
