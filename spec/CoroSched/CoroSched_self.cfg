SPECIFICATION Spec
CONSTANTS
  N = 5
  MaxSteps = 0
  K = 0
  M = 0
  Roots = 1
  NatSteps = 1
  Kinds = {"hs", "hd", "hw", "pk", "pa", "hy"}
  NatKinds = {"sd"}
  Prune = TRUE
  Plan = "self"
INVARIANTS TypeOK CoroMode RunToSuspension QueueFIFO ObservedOrder ResumeOncePerReadying NoReentrancy RoundRobin FullDrain AllDoneAtEnd OwnHandleUse
PROPERTY FIFOStep
CHECK_DEADLOCK FALSE
