SPECIFICATION Spec
CONSTANTS
  N = 3
  MaxSteps = 2
  K = 1
  M = 1
  Roots = 3
  NatSteps = 4
  Kinds = {"pa", "lk", "ld", "la", "aw", "rd"}
  NatKinds = {"sd", "rd"}
  Prune = TRUE
  Plan = "free"
INVARIANTS TypeOK CoroMode RunToSuspension QueueFIFO ObservedOrder ResumeOncePerReadying NoReentrancy RoundRobin FullDrain AllDoneAtEnd
PROPERTY FIFOStep
CHECK_DEADLOCK FALSE
