SPECIFICATION Spec
CONSTANTS
  N = 3
  MaxSteps = 2
  K = 0
  M = 0
  Roots = 1
  NatSteps = 1
  Kinds = {"pa", "sd", "sa", "sc"}
  NatKinds = {"sd"}
  Prune = FALSE
  Plan = "free"
INVARIANTS TypeOK CoroMode RunToSuspension QueueFIFO ObservedOrder ResumeOncePerReadying NoReentrancy RoundRobin FullDrain AllDoneAtEnd
PROPERTY FIFOStep
CHECK_DEADLOCK FALSE
