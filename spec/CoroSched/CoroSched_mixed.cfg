SPECIFICATION Spec
CONSTANTS
  N = 3
  MaxSteps = 2
  K = 1
  M = 0
  Roots = 2
  NatSteps = 2
  Kinds = {"pa", "rd", "ra", "aw", "sd", "sa", "sc"}
  NatKinds = {"sd"}
  Prune = TRUE
  Plan = "free"
INVARIANTS TypeOK CoroMode RunToSuspension QueueFIFO ObservedOrder ResumeOncePerReadying NoReentrancy RoundRobin FullDrain AllDoneAtEnd
PROPERTY FIFOStep
CHECK_DEADLOCK FALSE
