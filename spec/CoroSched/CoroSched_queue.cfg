SPECIFICATION Spec
CONSTANTS
  N = 3
  MaxSteps = 2
  K = 0
  M = 0
  Roots = 3
  NatSteps = 3
  Kinds = {"pa", "qo", "qd", "qa"}
  NatKinds = {"sd", "qd"}
  Prune = TRUE
  Plan = "free"
INVARIANTS TypeOK CoroMode RunToSuspension QueueFIFO ObservedOrder ResumeOncePerReadying NoReentrancy RoundRobin FullDrain AllDoneAtEnd
PROPERTY FIFOStep
CHECK_DEADLOCK FALSE
