SPECIFICATION Spec
CONSTANTS
  N = 44
  MaxSteps = 0
  K = 0
  M = 0
  Roots = 1
  NatSteps = 1
  Kinds = {"sd", "pa"}
  NatKinds = {"sd"}
  Prune = TRUE
  Plan = "wide"
INVARIANTS TypeOK CoroMode QueueFIFO ResumeOncePerReadying NoReentrancy FullDrain AllDoneAtEnd EndRunToSuspension EndObservedOrder EndRoundRobin
PROPERTY FIFOStep
CHECK_DEADLOCK FALSE
