SPECIFICATION Spec
CONSTANTS
  N = 3
  MaxSteps = 2
  K = 0
  M = 0
  Roots = 1
  NatSteps = 1
  Kinds = {"hs", "hd", "hw", "pk", "hy", "pc"}
  NatKinds = {"sd"}
  Prune = TRUE
  Plan = "free"
INVARIANTS TypeOK CoroMode RunToSuspension QueueFIFO ObservedOrder ResumeOncePerReadying NoReentrancy RoundRobin FullDrain AllDoneAtEnd OwnHandleUse
PROPERTY FIFOStep
CHECK_DEADLOCK FALSE
