------------------------------ MODULE StorageWMM ------------------------------
(***************************************************************************)
(* reusable_storage_mtsafe (coro_storage.h:153-176) over the WMM machine:  *)
(* two threads create and finish coroutine frames on one storage.  The     *)
(* thread that wins `_busy.exchange(true)` uses the shared block (plain    *)
(* accesses to the block: the frame, and to the storage's _ptr/_capacity); *)
(* the loser uses the heap.  Completion stores _busy = false.              *)
(*   MO_busy_xchg   alloc():   _busy.exchange(true, ...)                   *)
(*   MO_busy_store  dealloc(): _busy.store(false, ...)                     *)
(* Each thread performs two create/finish rounds so that a block released  *)
(* by one thread can be taken by the other.                                *)
(***************************************************************************)
EXTENDS WMM

CONSTANTS MO_busy_xchg, MO_busy_store

SThreads == {"a", "b"}
SALocs == {"busy"}
SNLocs == {"block"}
SInit == [x \in SALocs |-> "false"]

Round(base) ==
    << [op |-> "xchg", loc |-> "busy", val |-> "true", reg |-> "r1", mo |-> MO_busy_xchg],
       [op |-> "jne", reg |-> "r1", val |-> "false", to |-> base + 6],     \* busy: heap fallback, nothing shared
       [op |-> "naw", loc |-> "block"],                                    \* reusable_storage::alloc + frame construction
       [op |-> "nar", loc |-> "block"],                                    \* frame runs; dealloc reads me->_ptr
       [op |-> "store", loc |-> "busy", val |-> "false", mo |-> MO_busy_store] >>

SProg == [t \in SThreads |-> Round(0) \o Round(5)]

=============================================================================
