------------------------------ MODULE FutureWMM ------------------------------
(***************************************************************************)
(* future/promise/awaiter publication protocol over the WMM machine.       *)
(* The memory order of every atomic site is a CONSTANT whose value is      *)
(* extracted from the running code by the check (tools/checks/c03.py):     *)
(*   MO_resolve    awaiter::resume_chain_set_ready  exchange     aw.h:96   *)
(*   MO_ready      future_common::ready             load         fut.h:159 *)
(*   MO_sub_ok/MO_sub_fail  awaiter::subscribe_check_ready CAS   aw.h:119  *)
(*   MO_fence      awaiter::subscribe_check_ready   fence        aw.h:124  *)
(*   MO_flag_store / MO_flag_wait  sync_awaiter flag store / wait          *)
(* Scenario: one resolver (plain write of the payload, resolving exchange, *)
(* walk of the detached chain: plain read+write of the waiter's node, then *)
(* wake-up) against one waiter that polls ready(), and if not ready writes *)
(* its node (plain) and subscribes by CAS; a refused subscription goes     *)
(* through the fence and reads the payload; a blocking waiter waits for    *)
(* the flag, reads the payload and destroys its node; a coroutine waiter's *)
(* continuation reads the payload on the resolver's thread.                *)
(***************************************************************************)
EXTENDS WMM

CONSTANTS MO_resolve, MO_ready, MO_sub_ok, MO_sub_fail, MO_fence, MO_flag_store, MO_flag_wait,
          Blocking     \* TRUE: waiter is a blocking thread (sync_awaiter), FALSE: coroutine

FThreads == {"res", "w"}
FALocs == {"slot", "flag"}
FNLocs == {"payload", "node"}
FInit == [x \in FALocs |-> IF x = "slot" THEN "null" ELSE "false"]

ResProg ==
    << [op |-> "naw", loc |-> "payload"],                                              \* 1 future::set
       [op |-> "xchg", loc |-> "slot", val |-> "ready", reg |-> "r1", mo |-> MO_resolve], \* 2
       [op |-> "jne", reg |-> "r1", val |-> "node", to |-> 8],                          \* 3 empty chain -> end
       [op |-> "nar", loc |-> "node"],                                                 \* 4 chain->_next, handle
       [op |-> "naw", loc |-> "node"],                                                 \* 5 y->_next = nullptr
       IF Blocking THEN [op |-> "store", loc |-> "flag", val |-> "true", mo |-> MO_flag_store]   \* 6 wakeup
                   ELSE [op |-> "nar", loc |-> "payload"],                             \*   continuation reads here
       [op |-> "jmp", to |-> 8] >>

WProg ==
    << [op |-> "load", loc |-> "slot", reg |-> "r1", mo |-> MO_ready],                  \* 1 ready()
       [op |-> "jne", reg |-> "r1", val |-> "ready", to |-> 5],                         \* 2
       [op |-> "nar", loc |-> "payload"],                                              \* 3 value()
       [op |-> "jmp", to |-> 99],                                                      \* 4
       [op |-> "naw", loc |-> "node"],                                                 \* 5 set_handle / sync_awaiter ctor
       [op |-> "cas", loc |-> "slot", exp |-> "null", val |-> "node", reg |-> "r2", okreg |-> "ok",
        mo |-> MO_sub_ok, mof |-> MO_sub_fail],                                        \* 6
       [op |-> "jne", reg |-> "ok", val |-> "false", to |-> 11],                        \* 7 subscribed -> 11
       [op |-> "fence", mo |-> MO_fence],                                              \* 8 refused
       [op |-> "nar", loc |-> "payload"],                                              \* 9
       [op |-> "jmp", to |-> 99],                                                      \* 10
       IF Blocking THEN [op |-> "await", loc |-> "flag", val |-> "true", mo |-> MO_flag_wait]    \* 11 flag.wait
                   ELSE [op |-> "jmp", to |-> 99],
       [op |-> "nar", loc |-> "payload"],                                              \* 12
       [op |-> "naw", loc |-> "node"] >>                                               \* 13 ~sync_awaiter

FProg == [t \in FThreads |-> IF t = "res" THEN ResProg ELSE WProg]

(* the poller sees a complete result: whenever it read "ready" its view covers the payload write *)
PublishesSafely ==
    \A t \in FThreads : (t = "w" /\ pcw[t] = 3) => cur[t]["payload"] = cnt["payload"]

=============================================================================
