------------------------------ MODULE GenBlockWMM ------------------------------
(***************************************************************************)
(* generator<T>::promise_type::_block (generator.h:90,124,227,235): the    *)
(* synchronous consumer resets the flag, resumes the generator, and blocks *)
(* on the flag; an asynchronous body that completes its awaited operation  *)
(* on another thread produces the value (plain write of the hand-over      *)
(* record) there and sets the flag.                                        *)
(*   MO_block_reset  next_sync():    _block.store(false, ...)              *)
(*   MO_block_set    unblock_sync(): _block.store(true, ...)               *)
(*   MO_block_wait   next_sync():    _block.wait(false, ...)               *)
(* The hand-off of the body to the other thread (the awaited operation,    *)
(* e.g. a future resolved by a pool thread) is modelled by a seq_cst       *)
(* store/await pair on "go"; it is not part of the generator.              *)
(***************************************************************************)
EXTENDS WMM

CONSTANTS MO_block_reset, MO_block_set, MO_block_wait

GThreads == {"cons", "body"}
GALocs == {"block", "go"}
GNLocs == {"rec"}
GInit == [x \in GALocs |-> "false"]

ConsProg ==
    << [op |-> "store", loc |-> "block", val |-> "false", mo |-> MO_block_reset],
       [op |-> "naw", loc |-> "rec"],                                   \* _caller = &_internal, set_resume_fn
       [op |-> "store", loc |-> "go", val |-> "true", mo |-> "seq_cst"],  \* body suspends on an operation completed elsewhere
       [op |-> "await", loc |-> "block", val |-> "true", mo |-> MO_block_wait],
       [op |-> "nar", loc |-> "rec"] >>                                 \* value()

BodyProg ==
    << [op |-> "await", loc |-> "go", val |-> "true", mo |-> "seq_cst"],
       [op |-> "nar", loc |-> "rec"],                                   \* yield_suspend reads _caller
       [op |-> "naw", loc |-> "rec"],                                   \* _ret = &value, _caller = nullptr
       [op |-> "store", loc |-> "block", val |-> "true", mo |-> MO_block_set] >>

GProg == [t \in GThreads |-> IF t = "cons" THEN ConsProg ELSE BodyProg]

=============================================================================
