------------------------------- MODULE MutexWMM -------------------------------
(***************************************************************************)
(* cocls::mutex over the WMM machine: does every way of acquiring the      *)
(* mutex order the new owner's plain accesses to the protected data (and   *)
(* to the awaiter nodes) after the previous owner's?                       *)
(*   MO_try   mutex::ready        CAS null->doorman        mutex.h:183     *)
(*   MO_msub  mutex::subscribe    CAS prev->node           mutex.h         *)
(*   MO_bq    mutex::build_queue  exchange(doorman)        mutex.h:213     *)
(*   MO_ucas  mutex::unlock       CAS doorman->null        mutex.h:156     *)
(*   MO_flag_store / MO_flag_wait sync_awaiter (blocking contender)        *)
(* Scenario "pair": owner A (initially holding: req = door) writes the     *)
(* protected data and unlocks; B tries try-lock (ready()), and when that   *)
(* fails publishes its node by CAS; B ends up owner by one of: successful  *)
(* try-lock after A's unlock; subscribe finding the mutex free (then       *)
(* build_queue); hand-over by A (coroutine: B's critical section runs on   *)
(* A's thread; blocking: through the flag).                                *)
(***************************************************************************)
EXTENDS WMM

CONSTANTS MO_try, MO_try_fail, MO_msub, MO_msub_fail, MO_bq, MO_ucas, MO_ucas_fail, MO_flag_store, MO_flag_wait,
          Blocking

MThreads == {"a", "b"}
MALocs == {"req", "flag"}
MNLocs == {"data", "node"}
MInit == [x \in MALocs |-> IF x = "req" THEN "door" ELSE "false"]

AProg ==
    << [op |-> "naw", loc |-> "data"],                                                   \* 1 critical section
       [op |-> "cas", loc |-> "req", exp |-> "door", val |-> "null", reg |-> "r1", okreg |-> "ok",
        mo |-> MO_ucas, mof |-> MO_ucas_fail],                                           \* 2 unlock fast path
       [op |-> "jne", reg |-> "ok", val |-> "false", to |-> 99],                          \* 3 unlocked -> end
       [op |-> "xchg", loc |-> "req", val |-> "door", reg |-> "r2", mo |-> MO_bq],         \* 4 build_queue(doorman)
       [op |-> "jne", reg |-> "r2", val |-> "node", to |-> 99],                           \* 5
       [op |-> "nar", loc |-> "node"],                                                   \* 6 req->_next
       [op |-> "naw", loc |-> "node"],                                                   \* 7 x->_next = _queue; first->_next = nullptr
       IF Blocking THEN [op |-> "store", loc |-> "flag", val |-> "true", mo |-> MO_flag_store]
                   ELSE [op |-> "naw", loc |-> "data"],                                  \* 8 B's critical section on A's thread
       [op |-> "jmp", to |-> 99] >>

BProg ==
    << [op |-> "cas", loc |-> "req", exp |-> "null", val |-> "door", reg |-> "r1", okreg |-> "ok",
        mo |-> MO_try, mof |-> MO_try_fail],                                             \* 1 ready()
       [op |-> "jne", reg |-> "ok", val |-> "true", to |-> 5],                            \* 2
       [op |-> "naw", loc |-> "data"],                                                   \* 3 acquired by try-lock
       [op |-> "jmp", to |-> 99],                                                        \* 4
       [op |-> "naw", loc |-> "node"],                                                   \* 5 set_handle, aw->_next = prev
       [op |-> "cas", loc |-> "req", exp |-> "door", val |-> "node", reg |-> "r2", okreg |-> "ok",
        mo |-> MO_msub, mof |-> MO_msub_fail],                                           \* 6 publish on top of the doorman
       [op |-> "jne", reg |-> "ok", val |-> "true", to |-> 12],                           \* 7 failed -> 12
       IF Blocking THEN [op |-> "await", loc |-> "flag", val |-> "true", mo |-> MO_flag_wait]
                   ELSE [op |-> "jmp", to |-> 99],                                       \* 8 parked
       [op |-> "naw", loc |-> "data"],                                                   \* 9 blocking contender's critical section
       [op |-> "naw", loc |-> "node"],                                                   \* 10 ~sync_awaiter
       [op |-> "jmp", to |-> 99],                                                        \* 11
       [op |-> "naw", loc |-> "node"],                                                   \* 12 aw->_next = prev (null)
       [op |-> "cas", loc |-> "req", exp |-> "null", val |-> "node", reg |-> "r2", okreg |-> "ok",
        mo |-> MO_msub, mof |-> MO_msub_fail],                                           \* 13 publish: found the mutex free
       [op |-> "jne", reg |-> "ok", val |-> "true", to |-> 99],                           \* 14
       [op |-> "xchg", loc |-> "req", val |-> "door", reg |-> "r3", mo |-> MO_bq],         \* 15 build_queue(aw)
       [op |-> "naw", loc |-> "data"] >>                                                 \* 16 critical section

MProg == [t \in MThreads |-> IF t = "a" THEN AProg ELSE BProg]

=============================================================================
