INIT WInit
NEXT WNext
CONSTANTS
  Threads <- MThreads
  ALocs <- MALocs
  NLocs <- MNLocs
  Prog <- MProg
  InitVal <- MInit
INVARIANTS DataRaceFree
CONSTRAINT MemBound
CHECK_DEADLOCK FALSE
