INIT WInit
NEXT WNext
CONSTANTS
  Threads <- GThreads
  ALocs <- GALocs
  NLocs <- GNLocs
  Prog <- GProg
  InitVal <- GInit
INVARIANTS DataRaceFree
CONSTRAINT MemBound
CHECK_DEADLOCK FALSE
