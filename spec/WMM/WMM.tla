--------------------------------- MODULE WMM ---------------------------------
(***************************************************************************)
(* A view-based operational model of the C++11 release/acquire/relaxed     *)
(* fragment (timestamps + per-thread views: the promise-free part of the   *)
(* "promising" semantics), as a small interpreter of per-thread programs.  *)
(*                                                                         *)
(* Atomic location x: modification order mem[x] = sequence of messages     *)
(* [val, view]; the timestamp of a message is its index.  New writes are   *)
(* appended (writes are never inserted in the middle of the modification   *)
(* order -- a simplification that is exact for the RMW-dominated idioms    *)
(* modelled here).  Thread t has views cur[t] (what it has observed,       *)
(* closed under happens-before), acq[t] (additionally what relaxed loads   *)
(* have seen: becomes current at an acquire fence) and rel[t] (the view at *)
(* its last release fence: attached to later relaxed stores).              *)
(*   load   may read ANY message not older than cur[t][x] (stale reads     *)
(*          that x86 never shows are explored); acquire joins the message  *)
(*          view into cur, relaxed only into acq.                          *)
(*   store  appends; release attaches cur, relaxed attaches rel.           *)
(*   RMW    (xchg / successful cas) reads the LAST message (atomicity),    *)
(*          and its message inherits the view of the message it read       *)
(*          (release sequences continue through RMWs, C++20).              *)
(*   seq_cst accesses and fences additionally join/update a global view.   *)
(* Non-atomic location y: cnt[y] counts its writes; a per-thread ghost     *)
(* location "y@t" counts t's reads.    A plain access races iff the       *)
(* accessing thread's cur view has not observed the latest conflicting     *)
(* access (i.e. it is not ordered after it by happens-before).             *)
(*                                                                         *)
(* Programs: Prog[t] is a sequence of instructions (records):              *)
(*   [op|->"store", loc, val, mo]      [op|->"load", loc, reg, mo]         *)
(*   [op|->"xchg", loc, val, reg, mo]                                      *)
(*   [op|->"cas", loc, exp, val, reg, okreg, mo, mof]  exp/val literal     *)
(*   [op|->"fence", mo]    [op|->"naw", loc]    [op|->"nar", loc]          *)
(*   [op|->"jne", reg, val, to]  (jump to `to` unless regs[reg] = val)     *)
(*   [op|->"jmp", to]            [op|->"await", loc, val, mo]              *)
(*        (await = a load that is only enabled when it can read val: a     *)
(*         blocking wait; it reads a message with that value)              *)
(***************************************************************************)
EXTENDS Naturals, Sequences, FiniteSets, TLC

CONSTANTS Threads, ALocs, NLocs, Prog, InitVal

VARIABLES mem, cnt, cur, acq, rel, sc, pcw, regs, race, racedesc

wvars == <<mem, cnt, cur, acq, rel, sc, pcw, regs, race, racedesc>>

RdLoc(y, t) == y \o "@" \o t      \* locations are strings (TLC cannot mix strings and tuples in one domain)
RdLocs == {RdLoc(y, t) : y \in NLocs, t \in Threads}
AllLocs == ALocs \cup NLocs \cup RdLocs

IsAcq(mo) == mo \in {"acquire", "consume", "acq_rel", "seq_cst"}
IsRel(mo) == mo \in {"release", "acq_rel", "seq_cst"}
IsSC(mo) == mo = "seq_cst"

Join(v, w) == [l \in AllLocs |-> IF v[l] >= w[l] THEN v[l] ELSE w[l]]
ZeroView == [l \in AllLocs |-> IF l \in ALocs THEN 1 ELSE 0]

WInit ==
    /\ mem = [x \in ALocs |-> <<[val |-> InitVal[x], view |-> ZeroView]>>]
    /\ cnt = [y \in NLocs \cup RdLocs |-> 0]
    /\ cur = [t \in Threads |-> ZeroView]
    /\ acq = [t \in Threads |-> ZeroView]
    /\ rel = [t \in Threads |-> ZeroView]
    /\ sc = ZeroView
    /\ pcw = [t \in Threads |-> 1]
    /\ regs = [t \in Threads |-> [r \in {"r1", "r2", "r3", "ok"} |-> "undef"]]
    /\ race = FALSE
    /\ racedesc = "none"

Instr(t) == Prog[t][pcw[t]]
Running(t) == pcw[t] <= Len(Prog[t])

Advance(t) == pcw' = [pcw EXCEPT ![t] = pcw[t] + 1]

(* views after reading message m of x at index i with order mo *)
ReadViews(t, x, i, mo) ==
    LET m == mem[x][i]
        c0 == [cur[t] EXCEPT ![x] = IF cur[t][x] >= i THEN cur[t][x] ELSE i]
        a0 == [acq[t] EXCEPT ![x] = IF acq[t][x] >= i THEN acq[t][x] ELSE i]
        c1 == IF IsAcq(mo) THEN Join(c0, m.view) ELSE c0
        a1 == Join(Join(a0, m.view), c1)
        c2 == IF IsSC(mo) THEN Join(c1, sc) ELSE c1
        a2 == Join(a1, c2)
    IN [cur |-> c2, acq |-> a2]

(* views/message after writing to x with order mo, starting from views c,a; inherit = view of the
   message read by an RMW (release-sequence continuation) or ZeroView *)
WriteMsg(t, x, v, mo, c, a, inherit) ==
    LET i == Len(mem[x]) + 1
        c1 == [c EXCEPT ![x] = i]
        a1 == [a EXCEPT ![x] = i]
        base == IF IsRel(mo) THEN c1 ELSE [rel[t] EXCEPT ![x] = i]
        mv == Join(base, inherit)
    IN [msg |-> [val |-> v, view |-> mv], cur |-> c1, acq |-> a1]

SCUpdate(mo, c) == IF IsSC(mo) THEN Join(sc, c) ELSE sc

DoLoad(t, ins) ==
    \E i \in 1..Len(mem[ins.loc]) :
        /\ i >= cur[t][ins.loc]
        /\ LET rv == ReadViews(t, ins.loc, i, ins.mo) IN
             /\ cur' = [cur EXCEPT ![t] = rv.cur]
             /\ acq' = [acq EXCEPT ![t] = rv.acq]
             /\ sc' = SCUpdate(ins.mo, rv.cur)
        /\ regs' = [regs EXCEPT ![t][ins.reg] = mem[ins.loc][i].val]
        /\ Advance(t)
        /\ UNCHANGED <<mem, cnt, rel, race, racedesc>>

DoAwait(t, ins) ==
    \E i \in 1..Len(mem[ins.loc]) :
        /\ i >= cur[t][ins.loc]
        /\ mem[ins.loc][i].val = ins.val
        /\ LET rv == ReadViews(t, ins.loc, i, ins.mo) IN
             /\ cur' = [cur EXCEPT ![t] = rv.cur]
             /\ acq' = [acq EXCEPT ![t] = rv.acq]
             /\ sc' = SCUpdate(ins.mo, rv.cur)
        /\ Advance(t)
        /\ UNCHANGED <<mem, cnt, rel, regs, race, racedesc>>

DoStore(t, ins) ==
    LET w == WriteMsg(t, ins.loc, ins.val, ins.mo, IF IsSC(ins.mo) THEN Join(cur[t], sc) ELSE cur[t], acq[t], ZeroView) IN
    /\ mem' = [mem EXCEPT ![ins.loc] = Append(@, w.msg)]
    /\ cur' = [cur EXCEPT ![t] = w.cur]
    /\ acq' = [acq EXCEPT ![t] = Join(w.acq, w.cur)]
    /\ sc' = SCUpdate(ins.mo, w.cur)
    /\ Advance(t)
    /\ UNCHANGED <<cnt, rel, regs, race, racedesc>>

(* exchange: reads the last message, writes a new one *)
DoXchg(t, ins) ==
    LET i == Len(mem[ins.loc])
        rv == ReadViews(t, ins.loc, i, ins.mo)
        w == WriteMsg(t, ins.loc, ins.val, ins.mo, rv.cur, rv.acq, mem[ins.loc][i].view)
    IN
    /\ mem' = [mem EXCEPT ![ins.loc] = Append(@, w.msg)]
    /\ cur' = [cur EXCEPT ![t] = w.cur]
    /\ acq' = [acq EXCEPT ![t] = Join(w.acq, w.cur)]
    /\ sc' = SCUpdate(ins.mo, w.cur)
    /\ regs' = [regs EXCEPT ![t][ins.reg] = mem[ins.loc][i].val]
    /\ Advance(t)
    /\ UNCHANGED <<cnt, rel, race, racedesc>>

(* compare-exchange: success reads the last message (must equal exp) with order mo and writes;
   failure is a load (of any admissible message whose value differs from exp) with order mof *)
DoCas(t, ins) ==
    \/ LET i == Len(mem[ins.loc]) IN
         /\ mem[ins.loc][i].val = ins.exp
         /\ LET rv == ReadViews(t, ins.loc, i, ins.mo)
                w == WriteMsg(t, ins.loc, ins.val, ins.mo, rv.cur, rv.acq, mem[ins.loc][i].view)
            IN /\ mem' = [mem EXCEPT ![ins.loc] = Append(@, w.msg)]
               /\ cur' = [cur EXCEPT ![t] = w.cur]
               /\ acq' = [acq EXCEPT ![t] = Join(w.acq, w.cur)]
               /\ sc' = SCUpdate(ins.mo, w.cur)
         /\ regs' = [regs EXCEPT ![t][ins.reg] = ins.exp, ![t][ins.okreg] = "true"]
         /\ Advance(t)
         /\ UNCHANGED <<cnt, rel, race, racedesc>>
    \/ \E i \in 1..Len(mem[ins.loc]) :
         /\ i >= cur[t][ins.loc]
         /\ mem[ins.loc][i].val # ins.exp
         /\ LET rv == ReadViews(t, ins.loc, i, ins.mof) IN
              /\ cur' = [cur EXCEPT ![t] = rv.cur]
              /\ acq' = [acq EXCEPT ![t] = rv.acq]
              /\ sc' = SCUpdate(ins.mof, rv.cur)
         /\ regs' = [regs EXCEPT ![t][ins.reg] = mem[ins.loc][i].val, ![t][ins.okreg] = "false"]
         /\ Advance(t)
         /\ UNCHANGED <<mem, cnt, rel, race, racedesc>>

DoFence(t, ins) ==
    LET c1 == IF IsAcq(ins.mo) THEN acq[t] ELSE cur[t]
        c2 == IF IsSC(ins.mo) THEN Join(c1, sc) ELSE c1
    IN
    /\ cur' = [cur EXCEPT ![t] = c2]
    /\ acq' = [acq EXCEPT ![t] = Join(acq[t], c2)]
    /\ rel' = [rel EXCEPT ![t] = IF IsRel(ins.mo) THEN c2 ELSE rel[t]]
    /\ sc' = SCUpdate(ins.mo, c2)
    /\ Advance(t)
    /\ UNCHANGED <<mem, cnt, regs, race, racedesc>>

(* plain write of y: must have observed every earlier write and every read by any thread *)
DoNaw(t, ins) ==
    LET y == ins.loc
        bad == \/ cur[t][y] < cnt[y]
               \/ \E u \in Threads : cur[t][RdLoc(y, u)] < cnt[RdLoc(y, u)]
    IN
    /\ cnt' = [cnt EXCEPT ![y] = cnt[y] + 1]
    /\ cur' = [cur EXCEPT ![t][y] = cnt[y] + 1]
    /\ acq' = [acq EXCEPT ![t][y] = cnt[y] + 1]
    /\ race' = (race \/ bad)
    /\ racedesc' = IF bad /\ ~race THEN "write:" \o y \o ":" \o t ELSE racedesc
    /\ Advance(t)
    /\ UNCHANGED <<mem, rel, sc, regs>>

DoNar(t, ins) ==
    LET y == ins.loc
        bad == cur[t][y] < cnt[y]
        k == RdLoc(y, t)
    IN
    /\ cnt' = [cnt EXCEPT ![k] = cnt[k] + 1]
    /\ cur' = [cur EXCEPT ![t][k] = cnt[k] + 1]
    /\ acq' = [acq EXCEPT ![t][k] = cnt[k] + 1]
    /\ race' = (race \/ bad)
    /\ racedesc' = IF bad /\ ~race THEN "read:" \o y \o ":" \o t ELSE racedesc
    /\ Advance(t)
    /\ UNCHANGED <<mem, rel, sc, regs>>

DoJne(t, ins) ==
    /\ pcw' = [pcw EXCEPT ![t] = IF regs[t][ins.reg] = ins.val THEN pcw[t] + 1 ELSE ins.to]
    /\ UNCHANGED <<mem, cnt, cur, acq, rel, sc, regs, race, racedesc>>

DoJmp(t, ins) ==
    /\ pcw' = [pcw EXCEPT ![t] = ins.to]
    /\ UNCHANGED <<mem, cnt, cur, acq, rel, sc, regs, race, racedesc>>

Step(t) ==
    /\ Running(t)
    /\ ~race
    /\ LET ins == Instr(t) IN
         CASE ins.op = "load" -> DoLoad(t, ins)
           [] ins.op = "await" -> DoAwait(t, ins)
           [] ins.op = "store" -> DoStore(t, ins)
           [] ins.op = "xchg" -> DoXchg(t, ins)
           [] ins.op = "cas" -> DoCas(t, ins)
           [] ins.op = "fence" -> DoFence(t, ins)
           [] ins.op = "naw" -> DoNaw(t, ins)
           [] ins.op = "nar" -> DoNar(t, ins)
           [] ins.op = "jne" -> DoJne(t, ins)
           [] ins.op = "jmp" -> DoJmp(t, ins)

WNext == \E t \in Threads : Step(t)
WSpec == WInit /\ [][WNext]_wvars

DataRaceFree == ~race
(* bound on the modification orders (state constraint) *)
MemBound == \A x \in ALocs : Len(mem[x]) <= 7

=============================================================================
