INIT WInit
NEXT WNext
CONSTANTS
  Threads <- SThreads
  ALocs <- SALocs
  NLocs <- SNLocs
  Prog <- SProg
  InitVal <- SInit
INVARIANTS DataRaceFree
CONSTRAINT MemBound
CHECK_DEADLOCK FALSE
