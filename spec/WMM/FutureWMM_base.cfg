INIT WInit
NEXT WNext
CONSTANTS
  Threads <- FThreads
  ALocs <- FALocs
  NLocs <- FNLocs
  Prog <- FProg
  InitVal <- FInit
INVARIANTS DataRaceFree PublishesSafely
CONSTRAINT MemBound
CHECK_DEADLOCK FALSE
