SPECIFICATION Spec
CONSTANTS
  WithArg = FALSE
  BodyKinds = {"yield", "apend", "throw", "return"}
  Styles = {"sync", "coawait", "future", "begin", "inc"}
  MaxBody = 4
  MaxAcc = 3
  MaxAfterEnd = 1
  EarlyDestroy = FALSE
  Threaded = TRUE
INVARIANTS TypeOK SameSequence SingleEOS ExceptionAtPosition ArgDelivered LocalsDestroyedOnce BlockedOnlyOnPending RecordClean TerminalOK
CHECK_DEADLOCK FALSE
