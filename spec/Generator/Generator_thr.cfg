\* C13, see tools/checks/c13.py for the constant overrides of the two tiers
SPECIFICATION Spec
CONSTANTS
  WithArg = FALSE
  BodyKinds = {"yield", "apend", "throw", "return"}
  Styles = {"sync", "coawait", "future", "begin", "inc"}
  MaxBody = 4
  MaxAcc = 3
  MaxAfterEnd = 1
  EarlyDestroy = FALSE
  MaxObj = 0
  PostIncMoves = FALSE
  Threaded = TRUE
INVARIANTS TypeOK SameSequence PayloadIntact SingleEOS ExceptionAtPosition ArgDelivered LocalsDestroyedOnce BlockedOnlyOnPending RecordClean TerminalOK
CHECK_DEADLOCK FALSE
