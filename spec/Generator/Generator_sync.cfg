SPECIFICATION Spec
CONSTANTS
  WithArg = FALSE
  BodyKinds = {"yield", "aready", "throw", "return"}
  Styles = {"sync", "coawait", "future"}
  MaxBody = 4
  MaxAcc = 5
  MaxAfterEnd = 2
  EarlyDestroy = TRUE
  Threaded = FALSE
INVARIANTS TypeOK SameSequence SingleEOS ExceptionAtPosition ArgDelivered LocalsDestroyedOnce BlockedOnlyOnPending RecordClean TerminalOK
CHECK_DEADLOCK FALSE
