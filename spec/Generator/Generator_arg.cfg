\* C13, see tools/checks/c13.py for the constant overrides of the two tiers
SPECIFICATION Spec
CONSTANTS
  WithArg = TRUE
  BodyKinds = {"yield", "ynull", "aready", "apend", "throw", "return"}
  Styles = {"sync", "coawait", "future"}
  MaxBody = 4
  MaxAcc = 4
  MaxAfterEnd = 2
  EarlyDestroy = TRUE
  MaxObj = 0
  PostIncMoves = FALSE
  Threaded = FALSE
INVARIANTS TypeOK SameSequence PayloadIntact SingleEOS ExceptionAtPosition ArgDelivered LocalsDestroyedOnce BlockedOnlyOnPending RecordClean TerminalOK
CHECK_DEADLOCK FALSE
