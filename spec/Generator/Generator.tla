----------------------------- MODULE Generator -----------------------------
(***************************************************************************)
(* cocls::generator<Ret,Arg> (src/cocls/generator.h, iterator.h).          *)
(*                                                                         *)
(* State = the hand-over record the generator's coroutine promise keeps    *)
(* (generator.h:78-96: _caller, _internal's resume function, _arg, _ret,   *)
(* _exp, _done, _block, _awaiting), the suspension state of the body, the  *)
(* adapters' own flags (iterator::_next), and ghost observations.          *)
(*                                                                         *)
(* One action per code site: the three ways to ask (next_sync, next_async, *)
(* next_future together with the adapter code in front of them), the body  *)
(* being resumed (yield_suspend::await_resume), one body step, the end     *)
(* marking (return_void / unhandled_exception, final_suspend), the hand    *)
(* back (yield_suspend::await_suspend) and what the resumed party does     *)
(* (unblock_sync, unblock_future, the co_awaiting consumer coroutine), the *)
(* return of the blocked sync caller, completion of an operation the body  *)
(* awaits (ExternalResolve) and destruction of the generator object.       *)
(*                                                                         *)
(* All of it is sequential code: `pc` says which code site runs next, so a *)
(* behaviour is a deterministic execution once the two programs are fixed. *)
(* The programs (body script, consumer script) are NOT fixed in advance:   *)
(* whenever the body needs its next step / the consumer its next access    *)
(* the action picks it and appends it to the history variable `bscript` /  *)
(* `cscript` (lazy program enumeration, DESIGN.md 3.4), hence every        *)
(* root-to-terminal path of the state graph is one (body, consumer)        *)
(* program pair together with its execution, and pairs share prefixes.     *)
(*                                                                         *)
(* Values: the n-th co_yield yields content n ("yield"), or var*10+n when  *)
(* the item is computed from / is the body's own variable ("yt","yv","ym", *)
(* see YieldKinds and `pay`).  The i-th access of a generator with         *)
(* argument passes 100+i.  The k-th pending await is completed with k.     *)
(*                                                                         *)
(* Threaded = FALSE: one thread; a blocking (sync) access is never made    *)
(* to wait for an operation only this thread could complete, i.e. the body *)
(* step `apend` is not offered while a sync access is outstanding.         *)
(* Threaded = TRUE: the sync caller may block in _block.wait (pc =         *)
(* "syncwait", block = FALSE) and ExternalResolve is then performed by     *)
(* another thread which runs the body up to its next suspension.           *)
(***************************************************************************)
EXTENDS Naturals, Sequences, FiniteSets, TLC

CONSTANTS WithArg,      \* TRUE: generator<int,int>, FALSE: generator<int>
          BodyKinds,    \* subset of {"yield","yt","yv","ym","ynull","aready","apend","return"} \cup ThrowKinds
          Styles,       \* subset of {"sync","coawait","future","begin","inc","postinc","kbool","kco"}
          MaxBody,      \* bound on body script length (the last step is forced to end the body)
          MaxAcc,       \* bound on the number of consumer accesses
          MaxAfterEnd,  \* bound on accesses made after the first end/exception indication
          EarlyDestroy, \* TRUE: the generator may be destroyed at every parked point
          Threaded,     \* see above
          MaxObj,       \* bound on object-level operations (ObjOp) on the generator OBJECT
          PostIncMoves  \* FALSE: generator_iterator::operator++(int) copies the current item (the code since 97856c3);
                        \* TRUE: it moves it out of the yielded object (the code before: known finding
                        \* iterator_postincrement_moves_item) -- PayloadIntact is then violated

ASSUME WithArg => Styles \cap {"begin", "inc", "postinc"} = {}   \* begin() calls next() without argument: static_assert
(* a KEPT next() object carries no argument of its own: next(arg) stores the pointer to the argument when the object is made
   (set_arg, generator.h:395-403) and every hand-over clears it (:152), so awaiting the object again would resume a body
   that reads a null argument: reuse is only meaningful for a generator without argument *)
ASSUME WithArg => Styles \cap {"kbool", "kco"} = {}
ASSUME ~WithArg => "ynull" \notin BodyKinds

VARIABLES pr,        \* the promise's hand-over record
          bst,       \* body: "init" (initial_suspend) | "run" | "yield" | "await" | "final" | "gone"
          pendk,     \* number of the awaited operation the body is suspended on (0: none)
          nawait,    \* number of pending awaits so far
          bscript,   \* history: body steps executed so far
          cscript,   \* history: consumer accesses so far
          obs,       \* per access what the consumer saw: [r, v, p]
          got,       \* what the body saw as result of co_yield / co_yield nullptr: [a, v]
          finAt,     \* ghost: access during which the body ended (0: not ended)
          loc,       \* body's RAII local: constructions / destructions
          par,       \* live copies of the coroutine's by-value parameter
          it,        \* generator_iterator::_next of the consumer's iterator: "none" | "true" | "false"
          alive,     \* the generator object exists
          pc,        \* code site to run next, "idle" = no library code on any stack
          nx,        \* the consumer's KEPT next() object (`auto nx = gen.next();` reused for several accesses): "none" no such
                     \* object; "unknown" / "item": its cached flag next_awt::_state is false / true (generator.h:343);
                     \* "stale": true, but the generator was stepped past that item by other means since
          pay        \* payload: the yielded objects.  var/moved: content and moved-from flag of the body's own named
                     \* variable; rvar: _ret points at that variable (else at a temporary / a dying local);
                     \* cp, mv: copy / move constructions of the value type made so far; ylog: contents yielded;
                     \* on: object-level operations made; octor, odtor: constructions / destructions of the RAII local
                     \* of the OTHER generators those operations replaced; ek: the kind of exception that left the
                     \* body ("none": none did)

vars == <<pr, bst, pendk, nawait, bscript, cscript, obs, got, finAt, loc, par, it, alive, pc, pay, nx>>

(* obs[i].r, what access i reported:                                                        *)
(*   "pending"  nothing yet (access in progress, or its future / co_await is outstanding)    *)
(*   "val"      a value, obs[i].v                                                            *)
(*   "end"      end of sequence: next()/co_await next()/iterator gave false, the future of   *)
(*              gen() resolved without value; v = what value() returned on top (must be 0 =  *)
(*              value_not_ready_exception)                                                   *)
(*   "exc"      the exception that left the body (value() / the future rethrows it); v =     *)
(*              ExcCode of its kind: the consumer catches THE exception object the body threw *)
(*   "again"    a conversion to bool of the kept next() object whose state is known (an item  *)
(*              or exception is loaded) does not advance (generator.h:297): the consumer      *)
(*              reads the item it already has once more; v = that item (900 + ExcCode: the    *)
(*              exception again)                                                              *)
(*   "nomore"   the access itself threw no_more_values_exception: what the code does for     *)
(*              gen() after the end and for every access after an exception was reported     *)
(*              (_done stays false then, generator.h:178-183, so the h.done() tests fire)    *)
(*   "notready" / "crash": true was reported but there is neither value nor exception / a    *)
(*              null pointer was dereferenced -- never reachable (SameSequence, TypeOK)      *)
(* obs[i].p: value handed out by a post-increment (iterator.h:60-64), else 0.               *)
(* styles: "sync" if (gen.next()) gen.value();  "coawait" co_await gen.next();              *)
(*   "future" gen() -> future<T> (looked at when ready, waited for, or co_awaited);          *)
(*   "begin" it = gen.begin();  "inc" ++it;  "postinc" it++  (each followed by it != end()   *)
(*   and *it; begin + inc runs are what a range-for executes)                                *)
(*   "kbool" if (nx) gen.value();  "kco" co_await nx;  on ONE object `auto nx = gen.next()`   *)
(*   the consumer keeps and reuses (made at the first such access, dropped with the generator *)
(*   object it refers to).  Every co_await of it asks for the next item (await_ready :314     *)
(*   looks at done() only); a conversion to bool asks for one only while the object's state   *)
(*   is unknown (:296-301), so `if (nx)` after a successful `if (nx)` / `co_await nx` is      *)
(*   a re-read ("again").  A true cached state describes the generator only as long as every  *)
(*   access since went through the object: a conversion on a "stale" state is not generated   *)
(*   (the consumer would be told about an item that is long gone); co_await of it is.         *)

SyncStyles == {"sync", "begin", "inc", "postinc", "kbool"}
AsyncStyles == {"coawait", "kco"}
KeptStyles == {"kbool", "kco"}
(* what may leave the body: an application exception type derived from std::exception ("throw"), the library's own
   exception types -- which is what a body gets that steps a finished source generator once more, reads a dropped
   future, ... and does not catch -- and a type that is not derived from std::exception.  unhandled_exception
   (generator.h:178) stores whatever it is. *)
ThrowKinds == {"throw", "thr_nomore", "thr_cancel", "thr_notready", "thr_nolonger", "thr_nonstd"}
ExcCode(k) == CASE k = "throw" -> 1 [] k = "thr_nomore" -> 2 [] k = "thr_cancel" -> 3 [] k = "thr_notready" -> 4
                [] k = "thr_nolonger" -> 5 [] k = "thr_nonstd" -> 6 [] OTHER -> 0
ArgVal(i) == IF WithArg THEN 100 + i ELSE 0
Ob(r, v, p) == [r |-> r, v |-> v, p |-> p]
(* ways to yield: "yield" a fresh object with content n (n-th co_yield; the replayer alternates a local variable
   that dies afterwards and a temporary); "yt" co_yield T(var*10+n), a temporary computed from the body's variable;
   "yv" var = var*10+n; co_yield var  (the body keeps using var afterwards: content 1, 12, 123 ...);
   "ym" var = var*10+n; co_yield std::move(var)  (yield_value(Ret &&) bound to the variable itself) *)
YieldKinds == {"yield", "yt", "yv", "ym"}
NYield == Cardinality({j \in 1..Len(bscript) : bscript[j] \in YieldKinds})

Init ==
    /\ pr = [caller |-> "null", ifn |-> "none", arg |-> 0, ret |-> 0, exp |-> FALSE, done |-> FALSE,
             block |-> FALSE, awaiting |-> 0]
    /\ bst = "init" /\ pendk = 0 /\ nawait = 0
    /\ bscript = <<>> /\ cscript = <<>> /\ obs = <<>> /\ got = <<>> /\ finAt = 0
    /\ loc = [ctor |-> 0, dtor |-> 0] /\ par = 1
    /\ it = "none" /\ alive = TRUE /\ pc = "idle"
    /\ pay = [var |-> 0, moved |-> FALSE, rvar |-> FALSE, cp |-> 0, mv |-> 0, ylog |-> <<>>,
              on |-> 0, octor |-> 0, odtor |-> 0, ek |-> "none"]
    /\ nx = "none"

-----------------------------------------------------------------------------
(* consumer side *)

(* generator::value(), generator.h:412-418 *)
ValueProbe(p) == IF p.exp THEN "exc" ELSE IF p.ret # 0 THEN "val" ELSE "notready"

(* what a next()/co_await next()/iterator consumer sees once the access completed:
   next_awt::await_resume (generator.h:329) gives !done; if true the consumer reads value();
   if false it still probes value() (must throw value_not_ready_exception: v = 0; 999 = it threw
   the body's exception) *)
ExcV == ExcCode(pay.ek)
ObsNext(p, prev) ==
    IF ~p.done
      THEN Ob(ValueProbe(p), IF ValueProbe(p) = "val" THEN p.ret ELSE IF ValueProbe(p) = "exc" THEN ExcV ELSE 0, prev)
      ELSE Ob("end", IF p.exp THEN 999 ELSE p.ret, prev)
(* _state after next_awt::await_resume (:329-332) *)
NxAfter(p) == IF p.done THEN "unknown" ELSE "item"
(* the kept object is made at the first access through it *)
NxMade == IF nx = "none" THEN "unknown" ELSE nx
(* an access that does not go through the kept object leaves its cached flag alone: a true flag then no longer
   describes the generator ("stale": _state is still true) *)
NxOther == IF nx = "item" THEN "stale" ELSE nx

EndCount == Cardinality({i \in 1..Len(obs) : obs[i].r \in {"end", "exc", "nomore"}})

(* library preconditions: no access while another is outstanding (assert "Generator is busy") *)
CanAccess ==
    /\ pc = "idle" /\ alive /\ pr.caller = "null"
    /\ Len(cscript) < MaxAcc
    /\ EndCount <= MaxAfterEnd

(* next(args...) [set_arg, generator.h:395-403] followed by next_awt::operator bool
   (generator.h:296-301) and next_sync (generator.h:219-236) up to h.resume(); the same code is
   reached from generator::begin (:357), generator_iterator::operator++ (iterator.h:38) and
   operator++(int) (iterator.h:60, which reads value() first), and from a conversion of the kept object ("kbool") *)
NextSync(style) ==
    /\ CanAccess /\ style \in Styles \cap SyncStyles
    /\ style \in {"inc", "postinc"} => it = "true"                       \* incrementable iterator
    /\ style = "postinc" => (obs # <<>> /\ obs[Len(obs)].r = "val")        \* dereferenceable iterator
    /\ style = "kbool" => nx # "stale"                                    \* no conversion on a stale state
    /\ LET i == Len(cscript) + 1
           p == IF style = "postinc" THEN pr.ret ELSE 0
           pr1 == [pr EXCEPT !.arg = ArgVal(i)]
           k == style = "kbool"
       IN /\ cscript' = Append(cscript, style)
          /\ IF k /\ nx = "item"             \* if (_state) return true (:297): nothing is asked for
               THEN /\ obs' = Append(obs, Ob("again", IF pr.exp THEN 900 + ExcV ELSE pr.ret, 0))
                    /\ UNCHANGED <<pr, it, pc, nx>>
               ELSE IF pr.done
               THEN /\ obs' = Append(obs, ObsNext(pr1, p))
                    /\ it' = IF style \in {"sync", "kbool"} THEN it ELSE "false"
                    /\ pr' = pr1
                    /\ nx' = IF k THEN "unknown" ELSE NxOther
                    /\ UNCHANGED pc
               ELSE IF bst = "final"          \* h.done(): throw no_more_values_exception (:225)
               THEN /\ obs' = Append(obs, Ob("nomore", 0, p))
                    /\ pr' = pr1
                    /\ nx' = IF k THEN NxMade ELSE NxOther
                    /\ UNCHANGED <<it, pc>>
               ELSE /\ obs' = Append(obs, Ob("pending", 0, p))
                    /\ pr' = [pr1 EXCEPT !.block = FALSE, !.caller = "internal", !.ifn = "sync"]
                    /\ pc' = "body"
                    /\ nx' = IF k THEN NxMade ELSE NxOther
                    /\ UNCHANGED it
    \* it++ takes the current item first: storage z{std::move(_gen->value())}, iterator.h:61
    /\ pay' = IF style # "postinc" THEN pay
              ELSE IF PostIncMoves
                THEN [pay EXCEPT !.mv = @ + 1, !.var = IF pay.rvar THEN 0 ELSE @, !.moved = IF pay.rvar THEN TRUE ELSE @]
                ELSE [pay EXCEPT !.cp = @ + 1]
    /\ UNCHANGED <<bst, pendk, nawait, bscript, got, finAt, loc, par, alive>>

(* co_await gen.next(args...) / co_await of the kept object ("kco"): await_ready (:314), await_suspend -> next_async
   (:319, :204-215); note next_async stores _caller before it tests h.done().  await_ready does not look at the
   object's cached state: every co_await asks for the next item; await_resume (:329) refreshes the state, an
   exception out of await_suspend leaves it as it was *)
NextAsync(style) ==
    /\ CanAccess /\ style \in Styles \cap AsyncStyles
    /\ LET i == Len(cscript) + 1
           pr1 == [pr EXCEPT !.arg = ArgVal(i)]
           k == style = "kco"
       IN /\ cscript' = Append(cscript, style)
          /\ IF pr.done
               THEN /\ obs' = Append(obs, ObsNext(pr1, 0))
                    /\ pr' = pr1
                    /\ nx' = IF k THEN "unknown" ELSE NxOther
                    /\ UNCHANGED pc
               ELSE IF bst = "final"
               THEN /\ obs' = Append(obs, Ob("nomore", 0, 0))
                    /\ pr' = [pr1 EXCEPT !.caller = "awt"]
                    /\ nx' = IF k THEN NxMade ELSE NxOther
                    /\ UNCHANGED pc
               ELSE /\ obs' = Append(obs, Ob("pending", 0, 0))
                    /\ pr' = [pr1 EXCEPT !.caller = "awt"]
                    /\ nx' = IF k THEN NxMade ELSE NxOther
                    /\ pc' = "body"
    /\ UNCHANGED <<bst, pendk, nawait, bscript, got, finAt, loc, par, it, alive, pay>>

(* gen(args...): set_arg, next_future (:239-258) *)
NextFuture ==
    /\ CanAccess /\ "future" \in Styles
    /\ LET i == Len(cscript) + 1
           pr1 == [pr EXCEPT !.arg = ArgVal(i)]
       IN /\ cscript' = Append(cscript, "future")
          /\ IF bst = "final"                 \* h.done(): throw no_more_values_exception (:247)
               THEN /\ obs' = Append(obs, Ob("nomore", 0, 0))
                    /\ pr' = pr1
                    /\ UNCHANGED pc
               ELSE /\ obs' = Append(obs, Ob("pending", 0, 0))
                    /\ pr' = [pr1 EXCEPT !.awaiting = i, !.caller = "internal", !.ifn = "future"]
                    /\ pc' = "body"
    /\ nx' = NxOther
    /\ UNCHANGED <<bst, pendk, nawait, bscript, got, finAt, loc, par, it, alive, pay>>

-----------------------------------------------------------------------------
(* body side *)

(* the coroutine is resumed from initial_suspend (first activation: locals are constructed) or from
   a co_yield: yield_suspend::await_resume returns *_arg (:156-160) *)
BodyResume ==
    /\ pc = "body" /\ bst \in {"init", "yield"}
    /\ bst' = "run"
    /\ loc' = IF bst = "init" THEN [loc EXCEPT !.ctor = @ + 1] ELSE loc
    /\ got' = IF bst = "yield" /\ WithArg THEN Append(got, [a |-> Len(cscript), v |-> pr.arg]) ELSE got
    /\ UNCHANGED <<pr, pendk, nawait, bscript, cscript, obs, finAt, par, it, alive, pc, pay, nx>>

(* where control goes when the body suspends without handing anything back: to the blocked sync
   caller's _block.wait (:235) or out of the library *)
AfterSuspend == IF pr.caller = "internal" /\ pr.ifn = "sync" THEN "syncwait" ELSE "idle"

BodyStep(kind) ==
    /\ pc = "body" /\ bst = "run" /\ kind \in BodyKinds
    /\ Len(bscript) < MaxBody
    /\ Len(bscript) = MaxBody - 1 => kind \in {"return"} \cup ThrowKinds
    /\ bscript' = Append(bscript, kind)
    /\ kind \notin YieldKinds \cup ThrowKinds => UNCHANGED pay
    /\ CASE kind \in YieldKinds -> \* yield_value(Ret &) / yield_value(Ret &&): _ret = &x (:184-191)
              LET n == NYield + 1
                  c == IF kind = "yield" THEN n ELSE pay.var * 10 + n
                  v == kind \in {"yv", "ym"}
              IN /\ pr' = [pr EXCEPT !.ret = c]
                 /\ pay' = [pay EXCEPT !.var = IF v THEN c ELSE @, !.moved = IF v THEN FALSE ELSE @,
                                       !.rvar = v, !.ylog = Append(@, c)]
                 /\ pc' = "ysusp"
                 /\ UNCHANGED <<bst, pendk, nawait, got, finAt, loc>>
         [] kind = "ynull" ->       \* yield_null::await_resume returns *_arg, no suspension (:163-171)
              /\ got' = Append(got, [a |-> Len(cscript), v |-> pr.arg])
              /\ UNCHANGED <<pr, pc, bst, pendk, nawait, finAt, loc>>
         [] kind = "aready" ->      \* co_await of a resolved future: no suspension
              UNCHANGED <<pr, pc, bst, pendk, nawait, got, finAt, loc>>
         [] kind = "apend" ->       \* co_await of a pending future: the body suspends, nothing is handed back
              /\ Threaded \/ ~(pr.caller = "internal" /\ pr.ifn = "sync")
              /\ bst' = "await" /\ pendk' = nawait + 1 /\ nawait' = nawait + 1
              /\ pc' = AfterSuspend
              /\ UNCHANGED <<pr, got, finAt, loc>>
         [] kind \in ThrowKinds -> \* locals unwound, unhandled_exception (:178): _exp = whatever it is
              /\ loc' = [loc EXCEPT !.dtor = @ + 1]
              /\ pr' = [pr EXCEPT !.exp = TRUE]
              /\ pay' = [pay EXCEPT !.ek = kind]
              /\ finAt' = Len(cscript)
              /\ pc' = "fin"
              /\ UNCHANGED <<bst, pendk, nawait, got>>
         [] kind = "return" ->      \* locals destroyed, return_void (:181)
              /\ loc' = [loc EXCEPT !.dtor = @ + 1]
              /\ pr' = [pr EXCEPT !.done = TRUE]
              /\ finAt' = Len(cscript)
              /\ pc' = "fin"
              /\ UNCHANGED <<bst, pendk, nawait, got>>
    /\ UNCHANGED <<cscript, obs, par, it, alive, nx>>

(* final_suspend (:174-177) *)
FinalSuspend ==
    /\ pc = "fin"
    /\ pr' = [pr EXCEPT !.ret = 0]
    /\ bst' = "final"
    /\ pc' = "ysusp"
    /\ UNCHANGED <<pendk, nawait, bscript, cscript, obs, got, finAt, loc, par, it, alive, pay, nx>>

(* yield_suspend::await_suspend (:150-155): _arg = nullptr, caller = exchange(_caller, nullptr),
   caller->resume() *)
YieldSuspend ==
    /\ pc = "ysusp"
    /\ pr' = [pr EXCEPT !.arg = 0, !.caller = "null"]
    /\ bst' = IF bst = "final" THEN "final" ELSE "yield"
    /\ pc' = CASE pr.caller = "internal" /\ pr.ifn = "sync" -> "unb_sync"
               [] pr.caller = "internal" /\ pr.ifn = "future" -> "unb_fut"
               [] pr.caller = "awt" -> "res_awt"
               [] OTHER -> "crash"          \* null _caller dereferenced
    /\ UNCHANGED <<pendk, nawait, bscript, cscript, obs, got, finAt, loc, par, it, alive, pay, nx>>

(* resume_fn_sync -> unblock_sync (:104-108, :123-126) *)
UnblockSync ==
    /\ pc = "unb_sync"
    /\ pr' = [pr EXCEPT !.block = TRUE]
    /\ pc' = "syncwait"
    /\ UNCHANGED <<bst, pendk, nawait, bscript, cscript, obs, got, finAt, loc, par, it, alive, pay, nx>>

(* _block.wait(false) passes (:235); back in the adapter: await_resume (:300, :329), the consumer
   looks at the result; iterators keep the flag (iterator.h:29,39,62) *)
SyncReturn ==
    /\ pc = "syncwait" /\ pr.block
    /\ LET i == Len(cscript)
           o == ObsNext(pr, obs[i].p)
       IN /\ obs' = [obs EXCEPT ![i] = o]
          /\ it' = IF cscript[i] \in {"sync", "kbool"} THEN it ELSE (IF pr.done THEN "false" ELSE "true")
          /\ nx' = IF cscript[i] = "kbool" THEN NxAfter(pr) ELSE nx
    /\ pc' = "idle"
    /\ UNCHANGED <<pr, bst, pendk, nawait, bscript, cscript, got, finAt, loc, par, alive, pay>>

(* resume_fn_future -> unblock_future (:118-121, :128-133): the parked promise is resolved *)
UnblockFuture ==
    /\ pc = "unb_fut"
    /\ LET i == pr.awaiting
           o == IF pr.done THEN Ob("end", 0, 0)
                ELSE IF pr.exp THEN Ob("exc", ExcV, 0)
                ELSE IF pr.ret # 0 THEN Ob("val", pr.ret, 0)
                ELSE Ob("crash", 0, 0)       \* *_ret with _ret = nullptr
       IN obs' = [obs EXCEPT ![i] = o]
    /\ pr' = [pr EXCEPT !.awaiting = 0]
    \* _awaiting(*_ret): the future's value is COPY constructed from the yielded object, whatever it is (:132)
    /\ pay' = IF ~pr.done /\ ~pr.exp /\ pr.ret # 0 THEN [pay EXCEPT !.cp = @ + 1] ELSE pay
    /\ pc' = "idle"
    /\ UNCHANGED <<bst, pendk, nawait, bscript, cscript, got, finAt, loc, par, it, alive, nx>>

(* the co_awaiting consumer coroutine is resumed by symmetric transfer (:154): next_awt::await_resume *)
ResumeAwt ==
    /\ pc = "res_awt"
    /\ obs' = [obs EXCEPT ![Len(cscript)] = ObsNext(pr, 0)]
    /\ nx' = IF cscript[Len(cscript)] = "kco" THEN NxAfter(pr) ELSE nx
    /\ pc' = "idle"
    /\ UNCHANGED <<pr, bst, pendk, nawait, bscript, cscript, got, finAt, loc, par, it, alive, pay>>

(* the operation the body awaits is completed: the body is resumed inside the completing call.
   Single thread: only between accesses; Threaded: also while the sync caller is blocked *)
ExternalResolve(k) ==
    /\ bst = "await" /\ pendk = k /\ alive
    /\ \/ pc = "idle"
       \/ Threaded /\ pc = "syncwait" /\ ~pr.block
    /\ bst' = "run" /\ pendk' = 0
    /\ pc' = "body"
    /\ UNCHANGED <<pr, nawait, bscript, cscript, obs, got, finAt, loc, par, it, alive, pay, nx>>

(* ~generator: deleter -> handle.destroy() (:474-478).  Legal only while the body is parked at
   initial_suspend, at a co_yield or at final_suspend and no access is outstanding. *)
Destroy ==
    /\ pc = "idle" /\ alive /\ bst \in {"init", "yield", "final"}
    /\ EarlyDestroy \/ ~ENABLED (NextSync("sync") \/ NextSync("begin") \/ NextSync("inc") \/ NextSync("postinc")
                                  \/ NextSync("kbool") \/ NextAsync("coawait") \/ NextAsync("kco") \/ NextFuture)
    /\ alive' = FALSE
    /\ bst' = "gone"
    /\ loc' = IF bst = "yield" THEN [loc EXCEPT !.dtor = @ + 1] ELSE loc
    /\ par' = 0
    /\ nx' = "none"             \* the kept object refers to the generator object: dropped before it
    /\ UNCHANGED <<pr, pendk, nawait, bscript, cscript, obs, got, finAt, it, pc, pay>>

(* operations on the generator OBJECT (generator.h:472-480: the object owns the coroutine through a unique_ptr with a
   destroying deleter; move construction / assignment are the defaulted ones), made between accesses while the body is
   parked.  The coroutine frame with its locals follows the object; consumption continues through the new object;
   iterators and the kept next() object obtained from the old object are gone.
     "movector"      G b(std::move(a)); the moved-from a is destroyed (empty: nothing happens)
     "assign_X"      a target t -- default constructed ("empty"), never started ("fresh"), parked at a co_yield ("yield"),
                     finished ("final") -- is move ASSIGNED from the generator: t = std::move(a).  The coroutine t owned
                     before is destroyed exactly once, at the assignment: its locals die once if it was started and still
                     parked, are already dead if it had finished, never existed if it was fresh; its parameters die with it
     "swap_X"        std::swap(a, t); the object now holding t's former coroutine is destroyed: same bookkeeping
   octor/odtor count the RAII local of those other coroutines; their by-value parameters are all dead after the operation
   (replayer). *)
ObjKinds == {"movector", "assign_empty", "assign_fresh", "assign_yield", "assign_final", "swap_fresh", "swap_yield", "swap_final"}
ObjOp(kind) ==
    /\ pc = "idle" /\ alive /\ pr.caller = "null" /\ bst \in {"init", "yield", "final"}
    /\ pay.on < MaxObj /\ kind \in ObjKinds
    /\ LET started == IF kind \in {"assign_yield", "assign_final", "swap_yield", "swap_final"} THEN 1 ELSE 0
       IN pay' = [pay EXCEPT !.on = @ + 1, !.octor = @ + started, !.odtor = @ + started]
    /\ it' = "none"
    /\ nx' = "none"
    /\ UNCHANGED <<pr, bst, pendk, nawait, bscript, cscript, obs, got, finAt, loc, par, alive, pc>>

Next ==
    \/ \E k \in ObjKinds : ObjOp(k)
    \/ \E s \in SyncStyles : NextSync(s)
    \/ \E s \in AsyncStyles : NextAsync(s)
    \/ NextFuture
    \/ BodyResume
    \/ \E k \in BodyKinds : BodyStep(k)
    \/ FinalSuspend \/ YieldSuspend \/ UnblockSync \/ SyncReturn \/ UnblockFuture \/ ResumeAwt
    \/ \E k \in 1..MaxBody : ExternalResolve(k)
    \/ Destroy

Spec == Init /\ [][Next]_vars

-----------------------------------------------------------------------------
(* Properties (C13) *)

TypeOK ==
    /\ pr.caller \in {"null", "internal", "awt"} /\ pr.ifn \in {"none", "sync", "future"}
    /\ pr.arg \in Nat /\ pr.ret \in Nat /\ pr.awaiting \in 0..MaxAcc
    /\ bst \in {"init", "run", "yield", "await", "final", "gone"}
    /\ pc \in {"idle", "body", "fin", "ysusp", "unb_sync", "unb_fut", "res_awt", "syncwait"}   \* never "crash"
    /\ Len(obs) = Len(cscript)
    /\ it \in {"none", "true", "false"}
    /\ nx \in {"none", "unknown", "item", "stale"}
    /\ pay.ek \in {"none"} \cup ThrowKinds

Quiet == pc = "idle" /\ bst # "await"      \* no access in progress or outstanding

Vals == SelectSeq(obs, LAMBDA o : o.r = "val")

(* the consumer saw exactly 1,2,...,m = everything yielded so far, in this order, each once; while a
   hand-over is in progress at most the newest value is not yet seen *)
SameSequence ==
    /\ \A j \in 1..Len(Vals) : j <= Len(pay.ylog) /\ Vals[j].v = pay.ylog[j]
    /\ Len(pay.ylog) = NYield
    /\ Len(Vals) <= NYield /\ NYield <= Len(Vals) + 1
    /\ Quiet => Len(Vals) = NYield
    /\ \A i \in 1..Len(obs) : obs[i].r \notin {"notready", "crash"}
    /\ \A i \in 1..Len(obs) : obs[i].r = "pending" => (i = Len(obs) /\ ~Quiet)
    \* a post-increment hands out the value that was current before it advanced
    /\ \A i \in 2..Len(obs) : cscript[i] = "postinc" => obs[i].p = obs[i-1].v
    \* the kept next() object: every co_await of it delivers the NEXT item like a fresh next() does (it is an access
    \* like any other above); a conversion that does not ask (state known) shows the item the consumer was given last
    /\ \A i \in 1..Len(obs) : obs[i].r = "again" =>
          /\ cscript[i] = "kbool"
          /\ \E j \in 1..(i-1) :
                /\ obs[j].r \in {"val", "exc"} /\ cscript[j] \in KeptStyles
                /\ \A m \in (j+1)..(i-1) : obs[m].r \in {"again", "nomore"} /\ cscript[m] \in KeptStyles
                /\ obs[i].v = IF obs[j].r = "val" THEN obs[j].v ELSE 900 + obs[j].v
    /\ \A i \in 1..Len(obs) : cscript[i] = "kco" => obs[i].r # "again"
    \* the cached state of the kept object is true iff the last access through it delivered an item / the exception
    /\ (Quiet /\ nx = "item") => (~pr.done /\ (pr.ret # 0 \/ pr.exp))

(* the yielded OBJECTS (copyable value type): the library never moves from or modifies what the body yielded.  A consumer
   reading through next()/value(), *it, range-for or co_await next() works on the object itself; gen() resolves its
   future with exactly one COPY (also of a temporary and of co_yield std::move(var): the item stays visible through
   value(), so both views of an item agree); it++ hands out a COPY (iterator.h:60-72 since 97856c3; with a value type
   that cannot be copied it++ moves the item out -- the documented exception, not exercised here).  Hence the body's
   own variable is intact after co_yield var / co_yield std::move(var) in every access form.
   PostIncMoves = TRUE is the code before 97856c3: TLC then reports this invariant violated (kept as a self-test). *)
PayloadIntact ==
    /\ ~pay.moved
    /\ pay.mv = 0
    /\ pay.cp = Cardinality({i \in 1..Len(obs) : cscript[i] = "future" /\ obs[i].r = "val"})
                + Cardinality({i \in 1..Len(cscript) : cscript[i] = "postinc"})

(* after the body returned: the access during which it returned reports the end, every access
   before it reported a value, every later one reports the end again (next()/co_await: false,
   gen(): no_more_values_exception), and none of them comes with a value *)
SingleEOS ==
    /\ (Quiet /\ pr.done) =>
          /\ finAt \in 1..Len(obs)
          /\ obs[finAt].r = "end"
          /\ \A i \in 1..Len(obs) : (i < finAt => obs[i].r \in {"val", "again"})
                                   /\ (i > finAt => obs[i].r \in {"end", "nomore"})
    /\ \A i \in 1..Len(obs) : obs[i].r \in {"end", "nomore"} =>
          /\ obs[i].v = 0
          /\ finAt # 0 /\ i >= finAt
          /\ obs[i].r = "nomore" => (pr.exp \/ cscript[i] = "future")
    /\ pr.done => pr.ret = 0 \/ pc = "fin"

(* an exception leaving the body is reported by exactly the access during which it was thrown, and what is reported
   is what was thrown -- whatever its type is, the library's own exception types included: it is never turned into
   an end of the sequence or into another exception *)
ExceptionAtPosition ==
    /\ (Quiet /\ pr.exp) =>
          /\ finAt \in 1..Len(obs)
          /\ obs[finAt].r = "exc"
          /\ \A i \in 1..Len(obs) : (i < finAt => obs[i].r \in {"val", "again"})
                                   /\ (i > finAt => obs[i].r \in {"nomore", "again"})
    /\ \A i \in 1..Len(obs) : obs[i].r = "exc" => (pr.exp /\ i = finAt /\ obs[i].v = ExcCode(bscript[Len(bscript)]))
    /\ ~(pr.exp /\ pr.done)
    /\ pr.exp <=> pay.ek # "none"
    /\ (bscript # <<>> /\ bscript[Len(bscript)] \in ThrowKinds) =>
          (pay.ek = bscript[Len(bscript)] /\ pr.exp /\ ~pr.done /\ ExcV > 0)
    /\ \A j \in 1..(Len(bscript) - 1) : bscript[j] \notin ThrowKinds

(* what co_yield / co_yield nullptr returned is the argument of the access that resumed the body *)
ArgDelivered ==
    /\ \A j \in 1..Len(got) : got[j].a \in 1..Len(cscript) /\ got[j].v = ArgVal(got[j].a)
    /\ \A j \in 1..(Len(got) - 1) : got[j].a <= got[j+1].a

(* body locals: constructed on first activation, destroyed exactly once (by leaving the body or with
   the frame); never started -> never constructed; the by-value parameter dies with the frame *)
LocalsDestroyedOnce ==
    /\ loc.ctor <= 1 /\ loc.dtor <= loc.ctor
    /\ bst = "init" => loc.ctor = 0
    /\ (bst \in {"run", "yield", "await"} /\ pc # "fin") => (loc.ctor = 1 /\ loc.dtor = 0)
    /\ bst = "final" => (loc.ctor = 1 /\ loc.dtor = 1)
    /\ alive => par = 1
    /\ ~alive => (par = 0 /\ loc.dtor = loc.ctor /\ (loc.ctor = 1 <=> bscript # <<>>))

(* a blocked sync caller is blocked for a reason: the body waits for an operation *)
BlockedOnlyOnPending ==
    (pc = "syncwait" /\ ~pr.block) => (Threaded /\ bst = "await" /\ pendk # 0)

(* hand-over record is clean whenever nothing is outstanding *)
RecordClean ==
    Quiet /\ alive => (pr.awaiting = 0 /\ (bst # "final" => pr.arg = 0) /\ (pr.caller = "null" \/ (pr.caller = "awt" /\ pr.exp)))

(* every behaviour ends with the generator destroyed (nothing is stuck) *)
TerminalOK == alive => ENABLED Next

=============================================================================
