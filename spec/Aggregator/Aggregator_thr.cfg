\* C14 histories with a second thread completing the operations (blocking accesses, blocking drain); NS and the bounds are overridden by tools/checks/c14.py
SPECIFICATION Spec
CONSTANTS
  NS = 2
  WithArg = FALSE
  SrcKinds = {"yield", "apend", "throw", "return"}
  MaxSteps = 3
  MaxAcc = 5
  MaxAfterEnd = 1
  Classes = {"b", "n"}
  EarlyDestroy = TRUE
  Threaded = TRUE
INVARIANTS TypeOK PerSourceOrder MultisetUnion EndsIffAllEnded ExceptionReportedOthersKept ArgGoesToLastSource DestroyWaitsAndFrees CountOK TerminalOK
CHECK_DEADLOCK FALSE
