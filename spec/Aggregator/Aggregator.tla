---------------------------- MODULE Aggregator ----------------------------
(***************************************************************************)
(* cocls::generator_aggregator (src/cocls/generator_aggregator.h) on top   *)
(* of generator.h and queue.h.                                             *)
(*                                                                         *)
(* The aggregate is itself a generator coroutine.  Its state here is what  *)
(* the coroutine keeps in its frame: the active-source counter `_count`    *)
(* (controller, :53-72), the completion queue (`queue` = _queue, `waiter`  *)
(* = the single-item _awaiters slot, :16,97), the stored exception `exp`   *)
(* (:90), the callback/source pair it is handing out (`cur`), and where    *)
(* its body is suspended (`ast`).  A source is a scripted generator: its   *)
(* suspension state, how many values it yielded, its RAII local, the       *)
(* pending operation it awaits.  The generator hand-over of each single    *)
(* generator (caller, _ret, _arg ...) is C13's subject (Generator.tla) and *)
(* is abstracted here to: "charge" resumes the source until it produces    *)
(* (value / end / exception -> GenCallback::resume -> queue.push) or       *)
(* suspends on an operation completed later (ExternalResolve).             *)
(*                                                                         *)
(* One action per code site: the consumer's access (class "b": blocking    *)
(* next()/iterator, class "n": gen() future / co_await next()), start of   *)
(* the body (:95-112), one initial charge (:102-111), resumption from      *)
(* co_yield with re-charge (:121-125), the loop head with queue.pop        *)
(* (:113-114, queue.h:197-211), treatment of the popped source (:115-131), *)
(* the end (:134 + destruction of the locals), one step of a source body,  *)
(* GenCallback's push (:22-26, queue.h:148-159), completion of an awaited  *)
(* operation, and the destruction of the aggregate with the controller's   *)
(* drain loop (:57-66).                                                    *)
(*                                                                         *)
(* All code is sequential per thread; `pc` is the code site running next.  *)
(* Source scripts and the consumer's accesses are chosen lazily and        *)
(* recorded in history variables (sscr, cscript): a root-to-terminal path  *)
(* is one program family with its execution and schedule (the order in     *)
(* which pending operations complete is a real choice).                    *)
(*                                                                         *)
(* Values: the j-th value of source s is (s, j).  Access i passes 100+i.   *)
(*                                                                         *)
(* A source FAILS by a step of ThrowSteps; the step tells the KIND of      *)
(* exception that leaves its body: a user type, a type that is not a       *)
(* std::exception, or one of the library's own types (exceptions.h:14-35)  *)
(* -- what a source that relays other cocls objects fails with: the value  *)
(* of a pending future / of a generator past its end, one more call of a   *)
(* finished generator, a dropped promise.  The library uses the same types *)
(* for its own signalling (generator.h:212-247,417); the aggregate tells   *)
(* an ended source by done() (:115) and NOT by what value()/next() throw,  *)
(* so every kind is treated alike (:127-130): whatever escapes a source is *)
(* what the consumer gets (obs.k = the kind, obs.s = the source; the       *)
(* replayer observes the dynamic type and the identity of the object),     *)
(* never a silent end of that source.                                      *)
(*                                                                         *)
(* Threaded = FALSE: one thread.  A blocking access / the destructor is    *)
(* never made to wait for an operation only the same thread could          *)
(* complete.  Threaded = TRUE: the consumer thread may block (pc =         *)
(* "blocked": in the aggregate's _block.wait; "drainwait": in the          *)
(* controller destructor's pop().wait()) while another thread completes    *)
(* the operations.                                                         *)
(***************************************************************************)
EXTENDS Naturals, Sequences, FiniteSets, TLC

CONSTANTS NS,           \* number of sources
          WithArg,      \* generator<int,int> sources
          SrcKinds,     \* subset of {"ynull","yield","apend","return"} \cup ThrowSteps
          MaxSteps,     \* bound on a source's script (its last step is forced to end the source)
          MaxAcc,       \* bound on consumer accesses
          MaxAfterEnd,  \* accesses made after the end / exception was reported
          Classes,      \* subset of {"b","n"}
          EarlyDestroy, \* destroy at every parked point (else only when no access is possible)
          Threaded

Src == 1..NS

(* the steps by which a source fails, and the kind of exception each one lets out of the source's body *)
ThrowSteps == {"throw", "throw_vnr", "throw_nomore", "throw_cancel", "throw_nonstd"}
ExcKindOf(step) == CASE step = "throw"        -> "user"     \* a user type derived from std::exception
                     [] step = "throw_vnr"    -> "vnr"      \* cocls::value_not_ready_exception, exceptions.h:22
                     [] step = "throw_nomore" -> "nomore"   \* cocls::no_more_values_exception, exceptions.h:29
                     [] step = "throw_cancel" -> "cancel"   \* cocls::await_canceled_exception, exceptions.h:14
                     [] step = "throw_nonstd" -> "nonstd"   \* a type that is not a std::exception
ExcKinds == {ExcKindOf(t) : t \in ThrowSteps}

VARIABLES ast,      \* aggregate body: "init" | "run" | "pop" (suspended in co_await queue.pop()) | "yield" | "final" | "gone"
          count,    \* controller::_count
          queue,    \* completion queue: sources whose callback was pushed
          waiter,   \* promise parked in the queue's single waiter slot: "none" | "agg" | "drain"
          aexp,     \* stored exception: 0 or the source it came from
          cur,      \* source whose value is at the consumer (0: none)
          ci,       \* initial charging loop index
          h,        \* source just popped
          sst,      \* per source: "init" | "run" | "yield" | "await" | "done" | "exc" | "gone" | "crash"
          sseq,     \* per source: values yielded so far
          sscr,     \* per source: history of its steps
          sloc,     \* per source: RAII local [ctor, dtor]
          spar,     \* per source: live by-value parameter copies
          sop,      \* per source: number of the operation it awaits (0 none)
          sgot,     \* per source: arguments received [j, v]: j = 0 for co_yield nullptr, else as result of the j-th co_yield
          nops,
          cscript,  \* history: class of each access
          obs,      \* per access [r, s, v, k]: result "pending" | "val" | "end" | "exc", source, sequence number, kind of exception ("none")
          out,      \* class of the outstanding access ("none")
          run,      \* source whose body is executing (0)
          ctx,      \* who resumed it: "init_charge" | "loop_charge" | "ext"
          base,     \* where the consumer thread is while another thread completes an operation
          alive, pc

vars == <<ast, count, queue, waiter, aexp, cur, ci, h, sst, sseq, sscr, sloc, spar, sop, sgot, nops,
          cscript, obs, out, run, ctx, base, alive, pc>>

ArgVal(i) == IF WithArg THEN 100 + i ELSE 0
Ob(r, s, v) == [r |-> r, s |-> s, v |-> v, k |-> "none"]
(* the exception that left source s (the last step of its script) *)
ThrownBy(s) == ExcKindOf(sscr[s][Len(sscr[s])])
ObExc(s) == [r |-> "exc", s |-> s, v |-> 0, k |-> ThrownBy(s)]
InFlight == {s \in Src : sst[s] = "await"}

Init ==
    /\ ast = "init" /\ count = 0 /\ queue = <<>> /\ waiter = "none" /\ aexp = 0 /\ cur = 0 /\ ci = 0 /\ h = 0
    /\ sst = [s \in Src |-> "init"] /\ sseq = [s \in Src |-> 0] /\ sscr = [s \in Src |-> <<>>]
    /\ sloc = [s \in Src |-> [ctor |-> 0, dtor |-> 0]] /\ spar = [s \in Src |-> 1]
    /\ sop = [s \in Src |-> 0] /\ sgot = [s \in Src |-> <<>>] /\ nops = 0
    /\ cscript = <<>> /\ obs = <<>> /\ out = "none" /\ run = 0 /\ ctx = "none" /\ base = "idle"
    /\ alive = TRUE /\ pc = "idle"

-----------------------------------------------------------------------------
(* consumer *)

EndCount == Cardinality({i \in 1..Len(obs) : obs[i].r \in {"end", "exc"}})

(* an access of the aggregate generator (C13 covers the access styles; here only whether the caller
   blocks its thread until the aggregate yields ("b") or gets a future / suspends ("n")) *)
Access(cls) ==
    /\ pc = "idle" /\ alive /\ out = "none" /\ cls \in Classes
    /\ Len(cscript) < MaxAcc /\ EndCount <= MaxAfterEnd
    /\ (cls = "b" /\ ~Threaded) => InFlight = {}
    /\ cscript' = Append(cscript, cls)
    /\ CASE ast = "final" ->        \* nothing runs: false / no_more_values_exception (Generator.tla)
              /\ obs' = Append(obs, Ob("end", 0, 0))
              /\ UNCHANGED <<out, pc>>
         [] ast = "init" ->
              /\ obs' = Append(obs, Ob("pending", 0, 0))
              /\ out' = cls /\ pc' = "agg_start"
         [] ast = "yield" ->
              /\ obs' = Append(obs, Ob("pending", 0, 0))
              /\ out' = cls /\ pc' = "agg_resume"
    /\ UNCHANGED <<ast, count, queue, waiter, aexp, cur, ci, h, sst, sseq, sscr, sloc, spar, sop, sgot, nops, run, ctx, base, alive>>

-----------------------------------------------------------------------------
(* the aggregate's body *)

(* first activation: locals constructed, [co_yield nullptr reads the first argument], :90-101,107 *)
AggStart ==
    /\ pc = "agg_start"
    /\ ast' = "run" /\ count' = NS /\ ci' = 1
    /\ pc' = "agg_init"
    /\ UNCHANGED <<queue, waiter, aexp, cur, h, sst, sseq, sscr, sloc, spar, sop, sgot, nops, cscript, obs, out, run, ctx, base, alive>>

(* cbs.emplace_back(queue, move(x)); cbs.back().charge([arg]) -> next_async(cb).resume(), :102-111 *)
AggInit ==
    /\ pc = "agg_init"
    /\ IF ci > NS
         THEN /\ pc' = "agg"
              /\ UNCHANGED <<ci, run, ctx, sst, sloc>>
         ELSE /\ run' = ci /\ ctx' = "init_charge" /\ ci' = ci + 1
              /\ sst' = [sst EXCEPT ![ci] = "run"]
              /\ sloc' = [sloc EXCEPT ![ci].ctor = @ + 1]
              /\ pc' = "src"
    /\ UNCHANGED <<ast, count, queue, waiter, aexp, cur, h, sseq, sscr, spar, sop, sgot, nops, cscript, obs, out, base, alive>>

(* resumed from co_yield g.value(): [arg = the resuming access's argument]; gcb->charge([arg]): the source whose
   value was handed out last is resumed; its co_yield returns the argument, :121-125 *)
AggResume ==
    /\ pc = "agg_resume"
    /\ ast' = "run"
    /\ run' = cur /\ ctx' = "loop_charge" /\ cur' = 0
    /\ sst' = [sst EXCEPT ![cur] = "run"]
    /\ sgot' = IF WithArg THEN [sgot EXCEPT ![cur] = Append(@, [j |-> sseq[cur], v |-> ArgVal(Len(cscript))])] ELSE sgot
    /\ pc' = "src"
    /\ UNCHANGED <<count, queue, waiter, aexp, ci, h, sseq, sscr, sloc, spar, sop, nops, cscript, obs, out, base, alive>>

(* where the consumer thread is once the aggregate's body has suspended without producing *)
Parked == IF out = "b" THEN "blocked" ELSE "idle"

(* while (cnt) { gcb = co_await queue.pop(); ..., :113-114; queue::pop, queue.h:197-211 *)
AggLoop ==
    /\ pc = "agg" /\ count > 0
    /\ IF queue # <<>>
         THEN /\ h' = Head(queue) /\ queue' = Tail(queue)
              /\ pc' = "agg_got"
              /\ UNCHANGED <<waiter, ast>>
         ELSE /\ waiter' = "agg" /\ ast' = "pop"
              /\ pc' = Parked
              /\ UNCHANGED <<h, queue>>
    /\ UNCHANGED <<count, aexp, cur, ci, sst, sseq, sscr, sloc, spar, sop, sgot, nops, cscript, obs, out, run, ctx, base, alive>>

(* g.done() -> fin; g.value() rethrows what left the source (generator.h:413-414), of whatever type -> exp, fin;
   else co_yield g.value(), :115-131 *)
AggGot ==
    /\ pc = "agg_got"
    /\ CASE sst[h] = "done" ->
              /\ count' = count - 1 /\ pc' = "agg"
              /\ UNCHANGED <<aexp, cur, ast, obs, out>>
         [] sst[h] = "exc" ->
              /\ aexp' = h /\ count' = count - 1 /\ pc' = "agg"
              /\ UNCHANGED <<cur, ast, obs, out>>
         [] sst[h] = "yield" ->
              /\ obs' = [obs EXCEPT ![Len(obs)] = Ob("val", h, sseq[h])]
              /\ cur' = h /\ ast' = "yield" /\ out' = "none" /\ pc' = "idle"
              /\ UNCHANGED <<count, aexp>>
         [] OTHER ->
              /\ pc' = "crash" /\ UNCHANGED <<count, aexp, cur, ast, obs, out>>
    /\ UNCHANGED <<queue, waiter, ci, h, sst, sseq, sscr, sloc, spar, sop, sgot, nops, cscript, run, ctx, base, alive>>

(* loop left: locals destroyed (controller: nothing to drain, queue, callbacks with their source generators),
   if (exp) rethrow, :134-136; the consumer sees the end / the exception *)
AggEnd ==
    /\ pc = "agg" /\ count = 0
    /\ sst' = [s \in Src |-> IF sst[s] \in {"done", "exc"} THEN "gone" ELSE "crash"]
    /\ spar' = [s \in Src |-> 0]
    /\ obs' = [obs EXCEPT ![Len(obs)] = IF aexp # 0 THEN ObExc(aexp) ELSE Ob("end", 0, 0)]
    /\ ast' = "final" /\ out' = "none" /\ pc' = "idle"
    /\ UNCHANGED <<count, queue, waiter, aexp, cur, ci, h, sseq, sscr, sloc, sop, sgot, nops, cscript, run, ctx, base, alive>>

-----------------------------------------------------------------------------
(* sources *)

AfterSrc == CASE ctx = "init_charge" -> "agg_init"
              [] ctx = "loop_charge" -> "agg"
              [] OTHER -> base

SrcStep(s, kind) ==
    /\ pc = "src" /\ run = s /\ kind \in SrcKinds
    /\ Len(sscr[s]) < MaxSteps
    /\ Len(sscr[s]) = MaxSteps - 1 => kind \in {"return"} \cup ThrowSteps
    /\ kind = "ynull" => (WithArg /\ sscr[s] = <<>>)
    /\ sscr' = [sscr EXCEPT ![s] = Append(@, kind)]
    /\ CASE kind = "ynull" ->       \* co_yield nullptr on first activation: the argument of the first access
              /\ sgot' = [sgot EXCEPT ![s] = Append(@, [j |-> 0, v |-> ArgVal(1)])]
              /\ UNCHANGED <<sst, sseq, sloc, sop, nops, pc, run>>
         [] kind = "yield" ->
              /\ sseq' = [sseq EXCEPT ![s] = @ + 1]
              /\ sst' = [sst EXCEPT ![s] = "yield"]
              /\ pc' = "push"
              /\ UNCHANGED <<sgot, sloc, sop, nops, run>>
         [] kind = "apend" ->       \* awaits an operation completed later
              /\ Threaded \/ out # "b"
              /\ sst' = [sst EXCEPT ![s] = "await"]
              /\ sop' = [sop EXCEPT ![s] = nops + 1] /\ nops' = nops + 1
              /\ pc' = AfterSrc /\ run' = 0
              /\ UNCHANGED <<sgot, sseq, sloc>>
         [] kind \in ThrowSteps -> \* an exception of kind ExcKindOf(kind) leaves the body: unhandled_exception, generator.h:174-176
              /\ sloc' = [sloc EXCEPT ![s].dtor = @ + 1]
              /\ sst' = [sst EXCEPT ![s] = "exc"]
              /\ pc' = "push"
              /\ UNCHANGED <<sgot, sseq, sop, nops, run>>
         [] kind = "return" ->
              /\ sloc' = [sloc EXCEPT ![s].dtor = @ + 1]
              /\ sst' = [sst EXCEPT ![s] = "done"]
              /\ pc' = "push"
              /\ UNCHANGED <<sgot, sseq, sop, nops, run>>
    /\ UNCHANGED <<ast, count, queue, waiter, aexp, cur, ci, h, spar, cscript, obs, out, ctx, base, alive>>

(* the source hands over to its caller = GenCallback: _q.push(this), :22-26; queue::push, queue.h:148-159:
   a parked waiter gets the item (the aggregate's body continues inside this call / the draining
   destructor's thread is released), else the item is queued *)
Push ==
    /\ pc = "push"
    /\ CASE waiter = "agg" ->
              /\ waiter' = "none" /\ h' = run /\ ast' = "run"
              /\ pc' = "agg_got"
              /\ UNCHANGED <<queue, count>>
         [] waiter = "drain" ->
              /\ waiter' = "none" /\ count' = count - 1
              /\ pc' = "drain"
              /\ UNCHANGED <<queue, h, ast>>
         [] OTHER ->
              /\ queue' = Append(queue, run)
              /\ pc' = AfterSrc
              /\ UNCHANGED <<waiter, h, ast, count>>
    /\ run' = 0
    /\ UNCHANGED <<aexp, cur, ci, sst, sseq, sscr, sloc, spar, sop, sgot, nops, cscript, obs, out, ctx, base, alive>>

(* an operation a source awaits is completed: the source continues inside the completing call *)
ExternalResolve(k) ==
    /\ alive
    /\ \/ pc = "idle"
       \/ Threaded /\ pc \in {"blocked", "drainwait"}
    /\ \E s \in Src :
          /\ sst[s] = "await" /\ sop[s] = k
          /\ sst' = [sst EXCEPT ![s] = "run"]
          /\ sop' = [sop EXCEPT ![s] = 0]
          /\ run' = s
    /\ ctx' = "ext" /\ base' = pc
    /\ pc' = "src"
    /\ UNCHANGED <<ast, count, queue, waiter, aexp, cur, ci, h, sseq, sscr, sloc, spar, sgot, nops, cscript, obs, out, alive>>

-----------------------------------------------------------------------------
(* destruction of the aggregate generator object while parked *)

CanAccessAny == \E c \in Classes : ENABLED Access(c)

Destroy ==
    /\ pc = "idle" /\ alive /\ out = "none" /\ ast \in {"init", "yield", "final"}
    /\ ~Threaded => InFlight = {}           \* else the drain would wait for this very thread
    /\ EarlyDestroy \/ ~CanAccessAny
    /\ CASE ast = "init" ->         \* never started: the parameter vector dies with the frame
              /\ sst' = [s \in Src |-> "gone"] /\ spar' = [s \in Src |-> 0]
              /\ ast' = "gone" /\ alive' = FALSE
              /\ UNCHANGED <<pc, sloc>>
         [] ast = "final" ->
              /\ ast' = "gone" /\ alive' = FALSE
              /\ UNCHANGED <<pc, sst, spar, sloc>>
         [] ast = "yield" ->        \* frame destroyed: locals in reverse order, the controller first
              /\ pc' = "drain"
              /\ UNCHANGED <<ast, alive, sst, spar, sloc>>
    /\ UNCHANGED <<count, queue, waiter, aexp, cur, ci, h, sseq, sscr, sop, sgot, nops, cscript, obs, out, run, ctx, base>>

(* ~controller: while (_count>1) { _queue.pop().wait(); _count--; }, :57-66; then queue, callbacks, sources *)
Drain ==
    /\ pc = "drain"
    /\ IF count > 1
         THEN IF queue # <<>>
                THEN /\ queue' = Tail(queue) /\ count' = count - 1
                     /\ UNCHANGED <<waiter, pc, sst, spar, sloc, ast, alive>>
                ELSE /\ waiter' = "drain" /\ pc' = "drainwait"
                     /\ UNCHANGED <<queue, count, sst, spar, sloc, ast, alive>>
         ELSE /\ sst' = [s \in Src |-> IF sst[s] \in {"yield", "done", "exc"} THEN "gone" ELSE "crash"]
              /\ sloc' = [s \in Src |-> IF sst[s] = "yield" THEN [sloc[s] EXCEPT !.dtor = @ + 1] ELSE sloc[s]]
              /\ spar' = [s \in Src |-> 0]
              /\ ast' = "gone" /\ alive' = FALSE /\ pc' = "idle"
              /\ UNCHANGED <<queue, count, waiter>>
    /\ UNCHANGED <<aexp, cur, ci, h, sseq, sscr, sop, sgot, nops, cscript, obs, out, run, ctx, base>>

Next ==
    \/ \E c \in {"b", "n"} : Access(c)
    \/ AggStart \/ AggInit \/ AggResume \/ AggLoop \/ AggGot \/ AggEnd
    \/ \E s \in Src, k \in SrcKinds : SrcStep(s, k)
    \/ Push
    \/ \E k \in 1..(NS * MaxSteps) : ExternalResolve(k)
    \/ Destroy \/ Drain

Spec == Init /\ [][Next]_vars

-----------------------------------------------------------------------------
(* Properties (C14) *)

TypeOK ==
    /\ pc \in {"idle", "agg_start", "agg_init", "agg_resume", "agg", "agg_got", "src", "push", "blocked", "drain", "drainwait"}
    /\ \A s \in Src : sst[s] # "crash"
    /\ Len(obs) = Len(cscript)
    /\ count \in 0..NS
    /\ waiter \in {"none", "agg", "drain"}
    /\ \A i \in 1..Len(obs) : obs[i].k \in ExcKinds \cup {"none"}

Ended(s) == sscr[s] # <<>> /\ sscr[s][Len(sscr[s])] \in {"return"} \cup ThrowSteps
Threw(s) == sscr[s] # <<>> /\ sscr[s][Len(sscr[s])] \in ThrowSteps
ValsOf(s) == SelectSeq(obs, LAMBDA o : o.r = "val" /\ o.s = s)
IdxOf(s, j) == CHOOSE i \in 1..Len(obs) : obs[i].r = "val" /\ obs[i].s = s /\ obs[i].v = j

(* every source value at most once, in the source's order, nothing invented; at most the newest value of a
   source is still on its way *)
PerSourceOrder ==
    \A s \in Src :
        /\ \A j \in 1..Len(ValsOf(s)) : ValsOf(s)[j].v = j
        /\ Len(ValsOf(s)) <= sseq[s] /\ sseq[s] <= Len(ValsOf(s)) + 1

(* once the aggregate has ended every value every source yielded was delivered exactly once *)
MultisetUnion ==
    ast \in {"final"} => \A s \in Src : Len(ValsOf(s)) = sseq[s]

(* the end (or the final exception) is reported only when all sources have ended, and an aggregate whose
   sources have all ended and whose values are all delivered does not keep an access waiting *)
EndsIffAllEnded ==
    /\ \A i \in 1..Len(obs) : obs[i].r \in {"end", "exc"} => \A s \in Src : Ended(s)
    /\ (ast = "pop" /\ pc \in {"idle", "blocked"}) => InFlight # {}
    /\ (pc = "idle" /\ out = "none") => \A i \in 1..Len(obs) : obs[i].r # "pending"
    /\ \A i \in 1..Len(obs) : obs[i].r = "pending" => i = Len(obs)
    /\ \A i, j \in 1..Len(obs) : (i < j /\ obs[i].r \in {"end", "exc"}) => obs[j].r = "end"

(* a source's exception is what the aggregate finally reports (instead of a plain end), after all values: the
   very exception that left a failed source, whatever its kind; a failure of any kind is never taken for the end of
   that source (an aggregate with a failed source does not end plainly), a source that ended normally is never
   reported as failed *)
ExceptionReportedOthersKept ==
    /\ ast = "final" =>
          LET fi == CHOOSE i \in 1..Len(obs) : obs[i].r \in {"end", "exc"} /\ \A j \in 1..(i-1) : obs[j].r = "val"
          IN IF \E s \in Src : Threw(s)
               THEN obs[fi].r = "exc" /\ Threw(obs[fi].s)
               ELSE obs[fi].r = "end"
    /\ \A i \in 1..Len(obs) : obs[i].r = "exc" => (obs[i].s \in Src /\ Threw(obs[i].s) /\ obs[i].k = ThrownBy(obs[i].s))
    /\ \A i \in 1..Len(obs) : obs[i].r # "exc" => obs[i].k = "none"
    /\ \A s \in Src : sst[s] = "exc" <=> (Threw(s) /\ sst[s] # "gone")
    /\ aexp # 0 => (aexp \in Src /\ Threw(aexp))

(* co_yield nullptr gives the first access's argument; the j-th co_yield of source s returns the argument
   of the access that followed the one which returned (s, j) *)
ArgGoesToLastSource ==
    \A s \in Src : \A n \in 1..Len(sgot[s]) :
        LET g == sgot[s][n]
        IN IF g.j = 0 THEN g.v = ArgVal(1)
           ELSE /\ \E i \in 1..Len(obs) : obs[i].r = "val" /\ obs[i].s = s /\ obs[i].v = g.j
                /\ g.v = ArgVal(IdxOf(s, g.j) + 1)

(* destruction: the drain waits exactly for the charged sources; no source frame is destroyed while its
   body is in flight; every local is destroyed exactly once; nothing is left *)
DestroyWaitsAndFrees ==
    /\ \A s \in Src : sloc[s].ctor <= 1 /\ sloc[s].dtor <= sloc[s].ctor
    /\ \A s \in Src : sst[s] = "gone" <=> spar[s] = 0
    /\ \A s \in Src : sst[s] = "gone" => sloc[s].dtor = sloc[s].ctor
    /\ ~alive => (\A s \in Src : sst[s] = "gone") /\ queue = <<>> /\ waiter = "none"
    /\ pc \in {"blocked", "drainwait"} => (Threaded /\ InFlight # {})
    /\ pc = "drainwait" => waiter = "drain"

(* the counter is the number of sources the aggregate has not seen ending *)
CountOK ==
    (pc \in {"idle", "blocked", "agg", "agg_got"} /\ ast \in {"run", "pop", "yield"}) =>
        count = Cardinality({s \in Src : ~(sst[s] \in {"done", "exc"} /\ ~(\E i \in 1..Len(queue) : queue[i] = s) /\ ~(pc = "agg_got" /\ h = s))})

TerminalOK == alive => ENABLED Next

=============================================================================
