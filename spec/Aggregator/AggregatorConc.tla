-------------------------- MODULE AggregatorConc --------------------------
(***************************************************************************)
(* cocls::generator_aggregator (src/cocls/generator_aggregator.h) with     *)
(* ASYNCHRONOUS sources whose steps complete CONCURRENTLY on different     *)
(* threads, at the grain of the critical sections of the aggregate's       *)
(* internal queue (GenAggrQueue = queue<GenCallback*, std_queue,           *)
(* single_item_queue>, generator_aggregator.h:16; queue.h:148-159 push,    *)
(* queue.h:197-211 pop).                                                   *)
(*                                                                         *)
(* Threads: 0 is the consumer's thread (it makes the accesses and destroys *)
(* the aggregate); thread s (1..NS) is the thread on which the operation   *)
(* awaited by source s completes (a thread pool's worker, an I/O thread):  *)
(* source s continues there, produces (value / end / exception) and its    *)
(* GenCallback pushes it into the internal queue (:22-26).  The body of    *)
(* the aggregate itself runs on whichever thread resumed it: the           *)
(* consumer's thread (access) or a source's thread (hand-over of the       *)
(* parked pop promise, queue.h:150-154) -- hence every thread can be found *)
(* inside queue.pop() of the aggregate's loop (:114).                      *)
(*                                                                         *)
(* One action = one step of ONE thread between two scheduling points of    *)
(* the lock grain: "before taking _mx", "right after dropping _mx",        *)
(* "blocked in a wait" (generator's _block.wait of a blocking access, the  *)
(* sync awaiter of the controller destructor's pop().wait(), :63), "idle". *)
(* A critical section is therefore exactly one action (XxxCS), the code    *)
(* that follows the unlock (resolution of the promise taken out of the     *)
(* queue, co_await of the pop future, unwinding) is an action of its own.  *)
(*                                                                         *)
(* The consumer-visible part of the state has the same variables with the  *)
(* same meaning as Aggregator.tla, and the C14 properties are NOT restated *)
(* here: they are Aggregator.tla's invariants, evaluated through           *)
(*     A == INSTANCE Aggregator WITH pc <- APc, ...                        *)
(* (one source of truth for the property; APc maps the per-thread program  *)
(* counters to the sequential specification's single pc).  Only what is    *)
(* specific to the thread structure (lock discipline, conservation of the  *)
(* items over the places they can be in, no stuck state) is added.         *)
(*                                                                         *)
(* Every step of a source is asynchronous: charge -> the source awaits an  *)
(* operation; Resolve(s, kind) completes it on thread s and chooses        *)
(* (lazily, recorded in sscr) what the source does next.                   *)
(***************************************************************************)
EXTENDS Naturals, Sequences, FiniteSets, TLC

CONSTANTS NS,           \* number of sources (>= 1) = number of source threads
          SrcKinds,     \* subset of {"yield", "return"} \cup ThrowSteps (Aggregator.tla: a failure has a kind of exception)
          MaxSteps,     \* bound on a source's script (its last step is forced to end the source)
          MaxAcc,       \* bound on consumer accesses
          MaxAfterEnd,  \* accesses made after the end / exception was reported
          Classes,      \* subset of {"b","n"}: blocking access / coroutine (or future) access
          EarlyDestroy  \* destroy at every parked point (else only when no access is possible)

ASSUME NS >= 1

Src == 1..NS
Thr == 0..NS

VARIABLES ast, count, queue, waiter, aexp, cur, h, sst, sseq, sscr, sloc, spar, cscript, obs, out, alive,   \* as in Aggregator.tla
          tpc,      \* per thread: "idle" | "push_lock" | "push_resolve" | "push_done" | "pop_lock" | "pop_after" |
                    \*             "wait" | "drain_lock" | "drain_after" | "drain_wait"
          hold,     \* per thread: the promise it took out of the waiter slot, to be resolved outside the lock: "none" | "agg" | "drain"
          pf,       \* the future of the outstanding queue.pop(): "none" | "parked" (promise in the waiter slot) |
                    \*             "held" (promise in a pusher's hands) | "ready" (resolved with source h)
          sub       \* the popper has subscribed to that future (aggregate's coroutine suspended in co_await / sync awaiter registered)

vars == <<ast, count, queue, waiter, aexp, cur, h, sst, sseq, sscr, sloc, spar, cscript, obs, out, alive, tpc, hold, pf, sub>>

(* the sequential specification's pc: a thread in the middle of an operation = "src" (no property constrains it),
   everything parked = "idle" / "blocked" / "drainwait" *)
Quiet == \A s \in Src : tpc[s] = "idle"
APc == IF ~Quiet THEN "src"
       ELSE CASE tpc[0] = "idle" -> "idle"
              [] tpc[0] = "wait" /\ out # "none" -> "blocked"
              [] tpc[0] = "drain_wait" /\ pf # "ready" -> "drainwait"
              [] OTHER -> "src"

A == INSTANCE Aggregator WITH WithArg <- FALSE, Threaded <- TRUE, pc <- APc,
                              ci <- 0, run <- 0, ctx <- "none", base <- "idle", nops <- 0,
                              sop <- [s \in Src |-> 0], sgot <- [s \in Src |-> <<>>]

Ob(r, s, v) == A!Ob(r, s, v)

Init ==
    /\ ast = "init" /\ count = 0 /\ queue = <<>> /\ waiter = "none" /\ aexp = 0 /\ cur = 0 /\ h = 0
    /\ sst = [s \in Src |-> "init"] /\ sseq = [s \in Src |-> 0] /\ sscr = [s \in Src |-> <<>>]
    /\ sloc = [s \in Src |-> [ctor |-> 0, dtor |-> 0]] /\ spar = [s \in Src |-> 1]
    /\ cscript = <<>> /\ obs = <<>> /\ out = "none" /\ alive = TRUE
    /\ tpc = [t \in Thr |-> "idle"] /\ hold = [t \in Thr |-> "none"] /\ pf = "none" /\ sub = FALSE

-----------------------------------------------------------------------------
(* where thread t ends up when the aggregate's body, running on t, suspends or hands a result to the consumer:
   the consumer's own blocking access returns into _block.wait (generator.h:235, a scheduling point even when
   the flag is already set); everything else unwinds to the thread's idle loop *)
Unwind(t) == IF t = 0 /\ out = "b" THEN "wait" ELSE "idle"

(* the aggregate's body continues on thread t with the popped source s, :115-131, up to its next suspension:
   co_yield (the consumer is released: unblock_sync / its coroutine continues right here / its future is
   resolved), the end (:134, locals destroyed), or the next queue.pop() (thread t arrives at the lock).
   Sets ast count aexp cur sst spar obs out tpc pf sub h. *)
AggCont(t, s) ==
    /\ pf' = "none" /\ sub' = FALSE /\ h' = 0
    /\ CASE sst[s] = "yield" ->
              /\ obs' = [obs EXCEPT ![Len(obs)] = Ob("val", s, sseq[s])]
              /\ cur' = s /\ ast' = "yield" /\ out' = "none"
              /\ tpc' = [tpc EXCEPT ![t] = Unwind(t)]
              /\ UNCHANGED <<count, aexp, sst, spar>>
         [] sst[s] \in {"done", "exc"} ->
              LET e == IF sst[s] = "exc" THEN s ELSE aexp IN
              /\ count' = count - 1 /\ aexp' = e
              /\ IF count = 1
                   THEN /\ sst' = [x \in Src |-> IF sst[x] \in {"done", "exc"} THEN "gone" ELSE "crash"]
                        /\ spar' = [x \in Src |-> 0]
                        /\ obs' = [obs EXCEPT ![Len(obs)] = IF e # 0 THEN A!ObExc(e) ELSE Ob("end", 0, 0)]
                        /\ ast' = "final" /\ out' = "none"
                        /\ tpc' = [tpc EXCEPT ![t] = Unwind(t)]
                        /\ UNCHANGED cur
                   ELSE /\ ast' = "run"
                        /\ tpc' = [tpc EXCEPT ![t] = "pop_lock"]
                        /\ UNCHANGED <<sst, spar, obs, out, cur>>
         [] OTHER ->
              /\ tpc' = [tpc EXCEPT ![t] = "crash"]
              /\ UNCHANGED <<ast, count, aexp, cur, sst, spar, obs, out>>

-----------------------------------------------------------------------------
(* consumer thread *)

(* an access: the body starts (:90-112, every source charged: it runs up to its first awaited operation) or is
   resumed from co_yield (:121-125, the source whose value was handed out is re-charged), then reaches
   co_await queue.pop() (:114): the consumer's thread arrives at the queue's lock *)
Access(cls) ==
    /\ tpc[0] = "idle" /\ alive /\ out = "none" /\ cls \in Classes
    /\ Len(cscript) < MaxAcc /\ A!EndCount <= MaxAfterEnd
    /\ cscript' = Append(cscript, cls)
    /\ CASE ast = "final" ->
              /\ obs' = Append(obs, Ob("end", 0, 0))
              /\ UNCHANGED <<out, tpc, ast, count, sst, sloc, cur>>
         [] ast = "init" ->
              /\ obs' = Append(obs, Ob("pending", 0, 0))
              /\ out' = cls /\ ast' = "run" /\ count' = NS
              /\ sst' = [s \in Src |-> "await"]
              /\ sloc' = [s \in Src |-> [ctor |-> 1, dtor |-> 0]]
              /\ tpc' = [tpc EXCEPT ![0] = "pop_lock"]
              /\ UNCHANGED cur
         [] ast = "yield" ->
              /\ obs' = Append(obs, Ob("pending", 0, 0))
              /\ out' = cls /\ ast' = "run"
              /\ sst' = [sst EXCEPT ![cur] = "await"] /\ cur' = 0
              /\ tpc' = [tpc EXCEPT ![0] = "pop_lock"]
              /\ UNCHANGED <<count, sloc>>
    /\ UNCHANGED <<queue, waiter, aexp, h, sseq, sscr, spar, alive, hold, pf, sub>>

(* the blocked (or about to block) consumer thread leaves _block.wait: the access returns *)
Wake ==
    /\ tpc[0] = "wait" /\ out = "none"
    /\ tpc' = [tpc EXCEPT ![0] = "idle"]
    /\ UNCHANGED <<ast, count, queue, waiter, aexp, cur, h, sst, sseq, sscr, sloc, spar, cscript, obs, out, alive, hold, pf, sub>>

-----------------------------------------------------------------------------
(* the aggregate's queue.pop(), on whichever thread runs the body *)

(* critical section of queue::pop, queue.h:199-210: item there -> the promise is resolved inside the lock;
   else the promise is parked in the (single) waiter slot *)
PopCS(t) ==
    /\ tpc[t] = "pop_lock"
    /\ IF queue # <<>>
         THEN /\ h' = Head(queue) /\ queue' = Tail(queue) /\ pf' = "ready"
              /\ UNCHANGED waiter
         ELSE /\ waiter' = "agg" /\ pf' = "parked"
              /\ UNCHANGED <<h, queue>>
    /\ tpc' = [tpc EXCEPT ![t] = "pop_after"]
    /\ UNCHANGED <<ast, count, aexp, cur, sst, sseq, sscr, sloc, spar, cscript, obs, out, alive, hold, sub>>

(* after the unlock: co_await of the returned future.  Ready (resolved inside the lock, or by a pusher in the
   meantime) -> the body goes on; else the coroutine subscribes and is suspended, the thread unwinds *)
PopAfter(t) ==
    /\ tpc[t] = "pop_after"
    /\ IF pf = "ready"
         THEN AggCont(t, h)
         ELSE /\ sub' = TRUE /\ ast' = "pop"
              /\ tpc' = [tpc EXCEPT ![t] = Unwind(t)]
              /\ UNCHANGED <<count, aexp, cur, h, sst, spar, obs, out, pf>>
    /\ UNCHANGED <<queue, waiter, sseq, sscr, sloc, cscript, alive, hold>>

-----------------------------------------------------------------------------
(* source threads *)

(* the operation source s awaits completes on thread s: the source's body continues there, produces, and its
   GenCallback arrives at the lock of _q.push(this), :22-26 *)
Resolve(s, kind) ==
    /\ tpc[s] = "idle" /\ sst[s] = "await" /\ kind \in SrcKinds
    /\ Len(sscr[s]) < MaxSteps
    /\ Len(sscr[s]) = MaxSteps - 1 => kind \in {"return"} \cup A!ThrowSteps
    /\ sscr' = [sscr EXCEPT ![s] = Append(@, kind)]
    /\ CASE kind = "yield" ->
              /\ sseq' = [sseq EXCEPT ![s] = @ + 1]
              /\ sst' = [sst EXCEPT ![s] = "yield"]
              /\ UNCHANGED sloc
         [] kind \in A!ThrowSteps ->    \* an exception of kind A!ExcKindOf(kind) leaves the source's body
              /\ sloc' = [sloc EXCEPT ![s].dtor = @ + 1]
              /\ sst' = [sst EXCEPT ![s] = "exc"]
              /\ UNCHANGED sseq
         [] kind = "return" ->
              /\ sloc' = [sloc EXCEPT ![s].dtor = @ + 1]
              /\ sst' = [sst EXCEPT ![s] = "done"]
              /\ UNCHANGED sseq
    /\ tpc' = [tpc EXCEPT ![s] = "push_lock"]
    /\ UNCHANGED <<ast, count, queue, waiter, aexp, cur, h, spar, cscript, obs, out, alive, hold, pf, sub>>

(* critical section of queue::push, queue.h:149-158: a parked promise is taken out (resolved outside the lock),
   else the item is queued *)
PushCS(s) ==
    /\ tpc[s] = "push_lock"
    /\ IF waiter # "none"
         THEN /\ hold' = [hold EXCEPT ![s] = waiter] /\ waiter' = "none" /\ pf' = "held"
              /\ tpc' = [tpc EXCEPT ![s] = "push_resolve"]
              /\ UNCHANGED queue
         ELSE /\ queue' = Append(queue, s)
              /\ tpc' = [tpc EXCEPT ![s] = "push_done"]
              /\ UNCHANGED <<waiter, hold, pf>>
    /\ UNCHANGED <<ast, count, aexp, cur, h, sst, sseq, sscr, sloc, spar, cscript, obs, out, alive, sub>>

(* `return p(args)` after lk.unlock(), queue.h:153-154: the pop future becomes ready.  If the aggregate's
   coroutine is already suspended on it, the body continues on THIS thread (the returned suspend point is
   dropped by GenCallback's resume function); if the draining destructor waits on it, that thread is released *)
PushResolve(s) ==
    /\ tpc[s] = "push_resolve"
    /\ hold' = [hold EXCEPT ![s] = "none"]
    /\ CASE hold[s] = "agg" /\ sub -> AggCont(s, s)
         [] hold[s] = "agg" /\ ~sub ->
              /\ pf' = "ready" /\ h' = s
              /\ tpc' = [tpc EXCEPT ![s] = "idle"]
              /\ UNCHANGED <<ast, count, aexp, cur, sst, spar, obs, out, sub>>
         [] OTHER ->        \* "drain"
              /\ pf' = "ready"
              /\ tpc' = [tpc EXCEPT ![s] = "idle"]
              /\ UNCHANGED <<ast, count, aexp, cur, sst, spar, obs, out, sub, h>>
    /\ UNCHANGED <<queue, waiter, sseq, sscr, sloc, cscript, alive>>

(* after the unlock of a push that queued its item: nothing left to do but to return *)
PushDone(s) ==
    /\ tpc[s] = "push_done"
    /\ tpc' = [tpc EXCEPT ![s] = "idle"]
    /\ UNCHANGED <<ast, count, queue, waiter, aexp, cur, h, sst, sseq, sscr, sloc, spar, cscript, obs, out, alive, hold, pf, sub>>

-----------------------------------------------------------------------------
(* destruction of the aggregate while parked; ~controller: while (_count>1) { _queue.pop().wait(); _count--; }, :57-66 *)

CanAccessAny == \E c \in Classes : ENABLED Access(c)

(* queue, callbacks and source generators die with the frame *)
Dead ==
    /\ sst' = [s \in Src |-> IF sst[s] \in {"yield", "done", "exc"} THEN "gone" ELSE "crash"]
    /\ sloc' = [s \in Src |-> IF sst[s] = "yield" THEN [sloc[s] EXCEPT !.dtor = @ + 1] ELSE sloc[s]]
    /\ spar' = [s \in Src |-> 0]
    /\ ast' = "gone" /\ alive' = FALSE

Destroy ==
    /\ tpc[0] = "idle" /\ alive /\ out = "none" /\ ast \in {"init", "yield", "final"}
    /\ EarlyDestroy \/ ~CanAccessAny
    /\ CASE ast = "init" ->
              /\ sst' = [s \in Src |-> "gone"] /\ spar' = [s \in Src |-> 0]
              /\ ast' = "gone" /\ alive' = FALSE
              /\ UNCHANGED <<tpc, sloc>>
         [] ast = "final" ->
              /\ ast' = "gone" /\ alive' = FALSE
              /\ UNCHANGED <<tpc, sst, spar, sloc>>
         [] ast = "yield" ->
              IF count > 1
                THEN /\ tpc' = [tpc EXCEPT ![0] = "drain_lock"]
                     /\ UNCHANGED <<ast, alive, sst, spar, sloc>>
                ELSE Dead /\ UNCHANGED tpc
    /\ UNCHANGED <<count, queue, waiter, aexp, cur, h, sseq, sscr, cscript, obs, out, hold, pf, sub>>

DrainCS ==
    /\ tpc[0] = "drain_lock"
    /\ IF queue # <<>>
         THEN /\ queue' = Tail(queue) /\ pf' = "ready"
              /\ UNCHANGED waiter
         ELSE /\ waiter' = "drain" /\ pf' = "parked"
              /\ UNCHANGED queue
    /\ tpc' = [tpc EXCEPT ![0] = "drain_after"]
    /\ UNCHANGED <<ast, count, aexp, cur, h, sst, sseq, sscr, sloc, spar, cscript, obs, out, alive, hold, sub>>

(* the popped item is dropped, _count--, next round or the rest of the frame's destruction.
   Sets pf sub count tpc sst sloc spar ast alive. *)
DrainNext ==
    /\ pf' = "none" /\ sub' = FALSE /\ count' = count - 1
    /\ IF count - 1 > 1
         THEN /\ tpc' = [tpc EXCEPT ![0] = "drain_lock"]
              /\ UNCHANGED <<ast, alive, sst, spar, sloc>>
         ELSE /\ Dead
              /\ tpc' = [tpc EXCEPT ![0] = "idle"]

(* .wait() after the unlock: ready -> go on, else a sync awaiter subscribes and the thread blocks *)
DrainAfter ==
    /\ tpc[0] = "drain_after"
    /\ IF pf = "ready"
         THEN DrainNext
         ELSE /\ sub' = TRUE
              /\ tpc' = [tpc EXCEPT ![0] = "drain_wait"]
              /\ UNCHANGED <<pf, count, ast, alive, sst, spar, sloc>>
    /\ UNCHANGED <<queue, waiter, aexp, cur, h, sseq, sscr, cscript, obs, out, hold>>

DrainWake ==
    /\ tpc[0] = "drain_wait" /\ pf = "ready"
    /\ DrainNext
    /\ UNCHANGED <<queue, waiter, aexp, cur, h, sseq, sscr, cscript, obs, out, hold>>

-----------------------------------------------------------------------------
Next ==
    \/ \E c \in {"b", "n"} : Access(c)
    \/ Wake
    \/ \E t \in Thr : PopCS(t) \/ PopAfter(t)
    \/ \E s \in Src, k \in SrcKinds : Resolve(s, k)
    \/ \E s \in Src : PushCS(s) \/ PushResolve(s) \/ PushDone(s)
    \/ Destroy \/ DrainCS \/ DrainAfter \/ DrainWake

Spec == Init /\ [][Next]_vars /\ WF_vars(Next)

-----------------------------------------------------------------------------
(* Properties.  C14 = Aggregator.tla's invariants over the shared variables *)

TypeOK == A!TypeOK
PerSourceOrder == A!PerSourceOrder
MultisetUnion == A!MultisetUnion
EndsIffAllEnded == A!EndsIffAllEnded          \* includes: the aggregate never sleeps in pop with nothing in flight (lost wake-up)
ExceptionReportedOthersKept == A!ExceptionReportedOthersKept
DestroyWaitsAndFrees == A!DestroyWaitsAndFrees
CountOK == A!CountOK

SrcPcs == {"idle", "push_lock", "push_resolve", "push_done", "pop_lock", "pop_after"}
ConsPcs == {"idle", "pop_lock", "pop_after", "wait", "drain_lock", "drain_after", "drain_wait"}
Draining == tpc[0] \in {"drain_lock", "drain_after", "drain_wait"}
Runners == {t \in Thr : tpc[t] \in {"pop_lock", "pop_after"}}

ConcTypeOK ==
    /\ tpc[0] \in ConsPcs /\ \A s \in Src : tpc[s] \in SrcPcs
    /\ \A t \in Thr : hold[t] \in {"none", "agg", "drain"}
    /\ hold[0] = "none"
    /\ pf \in {"none", "parked", "held", "ready"}
    /\ sub \in BOOLEAN
    /\ h \in 0..NS

(* the guarded state and the hand-over protocol around it *)
LockDiscipline ==
    /\ queue # <<>> => waiter = "none"                          \* never an item and a waiter
    /\ (pf = "parked") <=> (waiter # "none")
    /\ (pf = "held") <=> (\E t \in Thr : hold[t] # "none")
    /\ Cardinality({t \in Thr : hold[t] # "none"}) <= 1         \* the single waiter slot is handed to one pusher
    /\ \A t \in Thr : (hold[t] # "none") <=> (tpc[t] = "push_resolve")
    /\ waiter = "drain" => Draining
    /\ \A t \in Thr : hold[t] = "drain" => Draining
    /\ waiter = "agg" => ~Draining
    /\ sub => (pf \in {"parked", "held"} \/ (pf = "ready" /\ tpc[0] = "drain_wait"))
    /\ (pf = "ready" /\ ~Draining) => h \in Src
    /\ Cardinality(Runners) <= 1                                \* one thread at a time runs the aggregate's body
    /\ (ast = "run") <=> (Runners # {})
    /\ (ast = "pop") => (sub /\ ~Draining)
    /\ pf = "none" => ~sub

(* the places a produced, not yet consumed item of source s can be in *)
AtLock(s) == tpc[s] = "push_lock"
InQueue(s) == \E i \in 1..Len(queue) : queue[i] = s
InHand(s) == tpc[s] = "push_resolve"
InFuture(s) == pf = "ready" /\ ~Draining /\ h = s
AtConsumer(s) == cur = s
Places(s) == (IF AtLock(s) THEN 1 ELSE 0) + Cardinality({i \in 1..Len(queue) : queue[i] = s}) + (IF InHand(s) THEN 1 ELSE 0)
             + (IF InFuture(s) THEN 1 ELSE 0) + (IF AtConsumer(s) THEN 1 ELSE 0)
Produced(s) == sst[s] \in {"yield", "done", "exc"}
Consumed(s) == Produced(s) /\ Places(s) = 0

(* conservation: an item is in at most one place, only produced items are anywhere, and the counter is exactly
   the number of sources whose item has not been consumed (an end seen by the loop, anything dropped by the drain);
   the item a draining pop has just taken is consumed from the queue's point of view but not yet counted *)
Conservation ==
    ast \in {"run", "pop", "yield"} =>
        /\ \A s \in Src : Places(s) <= 1
        /\ \A s \in Src : Places(s) = 1 => Produced(s)
        /\ \A s \in Src : AtConsumer(s) => sst[s] = "yield"
        /\ count = NS - Cardinality({s \in Src : Consumed(s)}) + (IF Draining /\ pf = "ready" THEN 1 ELSE 0)

(* no stuck state: as long as the aggregate exists or a thread is inside an operation something can happen
   (every behaviour is finite: with this, every behaviour ends with the aggregate destroyed and all threads idle) *)
NoStuckState == (alive \/ \E t \in Thr : tpc[t] # "idle") => ENABLED Next

Termination == <>[](~alive /\ \A t \in Thr : tpc[t] = "idle")

=============================================================================
