\* C14 at lock grain: asynchronous sources completing on their own threads, consumer on its own thread; NS and the bounds are overridden by tools/checks/c14.py
SPECIFICATION Spec
CONSTANTS
  NS = 2
  SrcKinds = {"yield", "throw", "return"}
  MaxSteps = 2
  MaxAcc = 3
  MaxAfterEnd = 0
  Classes = {"b", "n"}
  EarlyDestroy = TRUE
INVARIANTS TypeOK ConcTypeOK PerSourceOrder MultisetUnion EndsIffAllEnded ExceptionReportedOthersKept DestroyWaitsAndFrees CountOK LockDiscipline Conservation NoStuckState
PROPERTY Termination
CHECK_DEADLOCK FALSE
