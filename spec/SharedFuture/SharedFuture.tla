---------------------------- MODULE SharedFuture ----------------------------
(***************************************************************************)
(* cocls::shared_future<T> (src/cocls/shared_future.h) on top of future<T> *)
(* / awaiter (future.h, awaiter.h): the heap allocated future              *)
(* (future_internal, created by std::make_shared), the std::shared_ptr use *)
(* count decomposed into its owners, the resolve tracer (resolve_cb) that  *)
(* holds a self reference exactly while the future is pending, and the     *)
(* awaiter chain of the underlying future as in spec/Future/Future.tla.    *)
(*                                                                         *)
(* Grain: the finest one the controlled scheduler replays (vsched with     *)
(* yield_after, as spec/Mutex/Mutex.tla): every instrumented atomic        *)
(* operation X is a step of its own ("pre_X" = parked before X, the step   *)
(* performs X) and the thread-local code that follows it up to the next    *)
(* atomic operation is a step of its own ("post_X").  The reference count  *)
(* operations of std::shared_ptr (libstdc++ atomics, not instrumented) are *)
(* thread safe by themselves and happen inside local steps: copy / drop of *)
(* a handle, the tracer's `_ptr = nullptr` during the chain walk           *)
(* (shared_future.h:213), destruction of a finished coroutine frame that   *)
(* holds a handle.  So "the resolving exchange has been performed but the  *)
(* chain (and with it the tracer) has not been walked yet" is a state of   *)
(* its own in which the handle threads may observe `ready`, read and drop. *)
(*                                                                         *)
(*  sites   claim   promise::claim  _owner.exchange(nullptr)  future.h:697 *)
(*          dload   promise::~promise  _owner.load()          future.h:601 *)
(*          final   (harness mark) resumption of the async coroutine whose *)
(*                  completion resolves the future (async.h:217-231)       *)
(*          swap    resume_chain_set_ready  exchange(&disabled) aw.h:101   *)
(*          fstore / notify   sync_awaiter::wakeup            aw.h:279-280 *)
(*          pload   future_common::pending() in the ReturnsFuture           *)
(*                  constructor                        shared_future.h:109 *)
(*          check   future_common::ready()  load(acquire)     future.h:160 *)
(*          cas     subscribe_check_ready: one compare_exchange  aw.h:124  *)
(*          fence   subscribe_check_ready: refused            aw.h:129     *)
(*          wait    sync() / force_sync(): flag.wait(false)   aw.h:324,333 *)
(*          op      (harness mark) the thread is between two public calls  *)
(*                                                                         *)
(* Construction modes (thread Ctor constructs; the other threads receive   *)
(* their handles through Copy):                                            *)
(*   fn        shared_future(Fn) with Fn(promise): fn hands the promise to *)
(*             the resolver thread, which may run concurrently with        *)
(*             charge()                                 shared_future.h:89 *)
(*   fnsync    same constructor, fn resolves the promise synchronously:    *)
(*             charge() finds the future ready and takes the reference back*)
(*   retfut    shared_future(Fn) with Fn returning a pending future<T>     *)
(*             (result_of, then `if (pending()) charge`)  sh_f.h:106-110   *)
(*   async     the same constructor given an async<T> coroutine that       *)
(*             suspends; it completes on the resolver thread (kind final)  *)
(*   asyncsync async<T> that completes inside the constructor              *)
(*   setval / setexc   shared_future::set_value / set_exception: already   *)
(*             resolved, the tracer must not be wired     sh_f.h:120-127   *)
(*   factthrow shared_future(Fn) with Fn THROWING: future::result_of stores  *)
(*             the exception (future.h:296-305): resolved, tracer not      *)
(*             wired                                                       *)
(*   late      default constructed, then get_promise(): init_if_needed +   *)
(*             get_promise of the future + charge         sh_f.h:130-145   *)
(*   init      default constructed, init_if_needed() called explicitly     *)
(*             (twice: the second call must do nothing): a fresh state     *)
(*             exists (slot = &awaiter::instance, "inst") BEFORE the       *)
(*             promise is taken.  Handles are copied, polled and dropped   *)
(*             (not the last one), then any holder calls get_promise(): it *)
(*             must keep the existing state (init_if_needed does nothing), *)
(*             make it pending and charge the tracer -- every earlier copy *)
(*             shares the state that is resolved.  Awaiting a fresh state  *)
(*             is illegal in the underlying future (future::get_promise    *)
(*             overwrites the slot, future.h:283-284 asserts), so awaits   *)
(*             start only after get_promise() has returned.                *)
(*   shl       default constructed, init_if_needed(), then `f << fn` with  *)
(*             fn returning a pending future<T>           sh_f.h:197-205   *)
(*             Fixed = FALSE: the code as found before /repo 75cf97d --    *)
(*             operator<< replaces the future in the state and returns:    *)
(*             the tracer is NOT charged, the pending state is kept alive  *)
(*             by the handles only (violates AliveWhilePending).           *)
(*             Fixed = TRUE: the repaired operator<< (init_if_needed,      *)
(*             result_of, `if (pending()) charge`) = the steps of retfut.  *)
(*                                                                         *)
(* Rounds.  A resolved shared state may be re-armed (round k -> k+1, up to   *)
(* MaxRounds) in the ways the code allows on an existing state:            *)
(*   ReArmShl     `f << fn` through any handle, fn returning a pending     *)
(*                future<T> (kind val/exc/drop/dtor/unwind) or a ready one *)
(*                ("ready" value, "readyexc" exception, "readynone" no     *)
(*                value) or THROWING ("throws": result_of's catch path     *)
(*                stores the exception, future.h:301-304; the previous     *)
(*                content has been destroyed exactly once before the       *)
(*                factory ran): result_of destroys the stored result and   *)
(*                builds the new future in place, every copy shares the    *)
(*                re-armed state, `if (pending()) charge` wires the tracer *)
(*                AGAIN                               shared_future.h:197  *)
(*   ReArmAssign  `f = shared_future(fn)` (the implicit assignment): a new *)
(*                state is built (the resolver may race with its charge)   *)
(*                and assigned; the old state loses its reference and,     *)
(*                modelled for the sole holder of one handle, is freed     *)
(*                with its value at the end of the call.                   *)
(* get_promise() on a resolved state is NOT legal (future::get_promise     *)
(* asserts the future is fresh, future.h:283-284, and would not destroy    *)
(* the stored result) and is not modelled.  The result is a plain variable *)
(* once ready (class comment): re-arming needs exclusive access, so it     *)
(* happens only when the resolver is done and every thread is between two  *)
(* calls.  Every round has its own resolver, each thread may make each     *)
(* kind of call once per round, observations are per round.               *)
(*                                                                         *)
(* Blocking forms (API-form rotation, DESIGN 13.2).  The blocking waiter   *)
(* "bl" of a handle thread enters through one of shared_future's own       *)
(* blocking entry points.  All of them run the same protocol steps on the  *)
(* underlying future -- co_awaiter::sync / force_sync, awaiter.h:319-335:  *)
(* ready check, one sync_awaiter subscribed by CAS, flag.wait unless the   *)
(* subscription was refused -- and differ in what they hand to the caller: *)
(*   wait    f.wait()                               shared_future.h:163    *)
(*   fwait   f.force_wait(), called by a thread in coroutine mode (a       *)
(*           coro_queue is installed: the form exists to override the      *)
(*           "blocking in a coroutine" assertion)   shared_future.h:171    *)
(*   join    f.join()  "same as wait()"             shared_future.h:177    *)
(*             these three deliver the result: the value, or they rethrow  *)
(*             the stored exception / throw await_canceled_exception when  *)
(*             the promise was dropped                                     *)
(*   syncval f.sync(); then f.value()               shared_future.h:183    *)
(*             sync() delivers nothing and never throws; the result is     *)
(*             read through value() in the local code after it             *)
(*   fsync   f.force_sync() in coroutine mode       shared_future.h:189    *)
(*             delivers nothing, never throws; the caller does not read    *)
(*             (does not touch the state any more): its observation is     *)
(*             "synced" -- released, exactly once, not before the state is *)
(*             ready -- and it may drop its handle, possibly the last one, *)
(*             right after the call has returned.                          *)
(* The form does not interact with the protocol, so instead of multiplying *)
(* the state graph by the forms, BeginWait uses ONE form, a function of    *)
(* the construction mode, the resolver kind, the round, the thread and the *)
(* constant FormShift (the driver varies FormShift per configuration and   *)
(* per seed); FreeForms = TRUE makes the form a free choice (small         *)
(* configurations).  On a default constructed (empty) object only ready()  *)
(* and value() are defined (NullPoll, shared_future.h:148-157); the        *)
(* blocking forms and co_await dereference the null pointer there and are  *)
(* not driven.                                                             *)
(*                                                                         *)
(* Resolver kind "unwind": the producer takes the promise into a local     *)
(* (move = claim, future.h:598), fails with an exception before resolving  *)
(* it, and the local is destroyed by stack unwinding (~promise: load, then *)
(* resolve as a broken promise, future.h:600-603) -- as "drop" for the     *)
(* awaiters and the tracer, whatever the handles did before.               *)
(*                                                                         *)
(* Variant = "code" is the implementation.  "notracer" (charge takes no    *)
(* self reference), "noreset" (the tracer never gives it back) and         *)
(* "chargeonce" (operator<< charges the tracer in the first round only)    *)
(* are deliberately broken variants used by the check to show that the     *)
(* invariants are not vacuous.                                             *)
(***************************************************************************)
EXTENDS Naturals, Sequences, FiniteSets, TLC

CONSTANTS H,           \* handle threads (strings)
          Ctor,        \* the thread that constructs the shared_future
          Modes,       \* construction modes explored (see above)
          RKinds,      \* resolver kinds for the modes with a promise: "val" "exc" "drop" "dtor" "unwind"
          HCo, HBl, HCb, HPoll,   \* threads allowed to co_await / wait() / subscribe a callback / poll
          MaxCopies,   \* bound: number of handle copies made in a behaviour
          MaxHandles,  \* bound: handles held by one thread at a time
          Fixed,       \* TRUE: repaired shared_future::operator<< (see mode shl)
          MaxRounds,   \* bound: rounds (1 = the state is armed once)
          ReArmWays,   \* subset of {"shl", "shlready", "shlreadyexc", "shlreadynone", "shlthrows", "assign"}
          BlForms,     \* blocking forms in use: subset of {"wait", "syncval", "fsync", "join", "fwait"}
          FormShift,   \* rotation offset of the form choice
          FreeForms,   \* TRUE: any form of BlForms at every blocking call (multiplies the graph)
          Variant

FormOrder == <<"wait", "syncval", "fsync", "join", "fwait">>
AllForms == {FormOrder[i] : i \in 1..Len(FormOrder)}
ASSUME BlForms \subseteq AllForms /\ (HBl # {} => BlForms # {}) /\ FormShift \in Nat /\ FreeForms \in BOOLEAN
ASSUME Fixed \in BOOLEAN /\ Ctor \in H /\ HCo \subseteq H /\ HBl \subseteq H /\ HCb \subseteq H /\ HPoll \subseteq H

R == "r"
N(h, k) == h \o "." \o k
CoN == {N(h, "co") : h \in H}     \* co_awaiter nodes in the frames of the waiting coroutines
BlN == {N(h, "bl") : h \in H}     \* sync_awaiter nodes on the stacks of the blocking waiters
CbN == {N(h, "cb") : h \in H}     \* callback awaiters subscribed through co_awaiter::subscribe
PoN == {N(h, "po") : h \in H}     \* not a node: the observation made by ready()/value()
TR == "tr"                        \* future_internal::resolve_tracer (lives inside the shared state)
ChainNodes == CoN \cup BlN \cup CbN \cup {TR}
Obs == CoN \cup BlN \cup CbN \cup PoN
OwnerOf(n) == CHOOSE h \in H : n \in {N(h, "co"), N(h, "bl"), N(h, "cb"), N(h, "po")}

VARIABLES
    mode, rkind,   \* chosen by Setup, constant afterwards
    st,        \* the shared state (future_internal + control block): "none" | "alive" | "freed"
    slot,      \* future::_awaiter: "null" | "ready" | "inst" (fresh, &awaiter::instance) | node
    nxt,       \* awaiter::_next of every node (doubles as the expected value of its CAS)
    tag,       \* future::_state: "none" | "val" | "exc"
    payload,   \* who stored the result
    nh,        \* handles (shared_future objects with non-null _ptr) held by each thread
    cref,      \* handle held in the frame of the coroutine started by the thread (0/1)
    tref,      \* resolve_cb::_ptr, the tracer's self reference (0/1)
    tmp,       \* by-value parameter `ptr` of a charge() call in progress (0/1)
    copies,    \* number of Copy actions so far
    vlive,     \* live instances of the stored value
    vdtor,     \* destructions of the stored value
    rpc,       \* resolver pc
    cur,       \* resolver: blocking node being woken
    rest,      \* resolver: local `chain` of resume_chain_lk (rest of the detached chain)
    sp,        \* resolver: coroutines collected in the suspend point
    flag,      \* sync_awaiter::flag per thread
    pc,        \* handle thread pc
    cop,       \* public call the thread is in: "none" "charge" "ctor2" "po" "bl" "co" "cb"
    did,       \* calls already made by the thread (each kind once)
    seen,      \* what every observer read
    resumes,   \* how many times every observer was released / read
    uaf,       \* ghost: some step touched the shared state while it was not alive
    round,     \* current round (1..MaxRounds)
    old,       \* per thread: reference it still holds on the PREVIOUS state while assigning a new one (0/1)
    oldlive,   \* live stored value of that previous state (0/1)
    vctor,     \* constructions of stored values so far
    form,      \* per thread: the blocking form of its wait in this round ("none" before)
    threw      \* per thread: did that blocking call itself leave by an exception: "none" (not returned yet) "yes" "no"

vars == <<mode, rkind, st, slot, nxt, tag, payload, nh, cref, tref, tmp, copies, vlive, vdtor,
          rpc, cur, rest, sp, flag, pc, cop, did, seen, resumes, uaf, round, old, oldlive, vctor, form, threw>>

NoRes == [tag |-> "unread", payload |-> "unread"]
NotReady == [tag |-> "notready", payload |-> "notready"]
Synced == [tag |-> "synced", payload |-> "synced"]     \* released by sync()/force_sync(): nothing delivered
Result == [tag |-> tag, payload |-> payload]

RECURSIVE SumOver(_, _)
SumOver(f, D) == IF D = {} THEN 0 ELSE LET x == CHOOSE x \in D : TRUE IN f[x] + SumOver(f, D \ {x})
SumF(f) == SumOver(f, DOMAIN f)

(* std::shared_ptr use count of the control block *)
Use == tref + tmp + SumF(nh) + SumF(cref)

ReadyModes == {"fnsync", "setval", "setexc", "asyncsync", "factthrow"}
ReadyKinds == {"ready", "readyexc", "readynone", "throws"}    \* factories of operator<< that leave the state resolved
ChargeModes == {"fn", "fnsync"}
StartPc(k) == CASE k = "dtor" -> "pre_dload" [] k = "final" -> "pre_final" [] k = "none" -> "done" [] OTHER -> "pre_claim"
TrefOn == IF Variant = "notracer" THEN 0 ELSE 1
RPay == IF round = 1 THEN "r" ELSE "r" \o ToString(round)     \* who stores the result of the round

(* the blocking form of thread h: rotation over the forms in use *)
ModeIx == [fn |-> 0, retfut |-> 1, late |-> 2, init |-> 3, shl |-> 4,
           async |-> 0, fnsync |-> 1, asyncsync |-> 2, setval |-> 3, setexc |-> 4, factthrow |-> 2, unset |-> 0]
KindIx == [val |-> 0, exc |-> 1, drop |-> 2, dtor |-> 3, unwind |-> 4, final |-> 1, none |-> 0, unset |-> 0]
FormsInUse == SelectSeq(FormOrder, LAMBDA f : f \in BlForms)
FormOf(h) == FormsInUse[((ModeIx[mode] + KindIx[rkind] + round + (IF h = Ctor THEN 0 ELSE 1) + FormShift) % Len(FormsInUse)) + 1]
FormChoice(h) == IF FreeForms THEN BlForms ELSE {FormOf(h)}
Delivers(f) == f # "fsync"
(* wait / force_wait / join hand the result over themselves: the call returns the value or leaves by the stored
   exception / await_canceled_exception; sync / force_sync never throw (a later value() does) *)
ThrowsResult(f) == f \in {"wait", "fwait", "join"}

(* Before Setup nothing exists; Setup(m, k) chooses the construction mode and the resolver kind and
   runs the constructing thread up to its first scheduling point (the state graph has one root, the
   first step of every behaviour tells the replayer what to build). *)
Init ==
    /\ mode = "unset"
    /\ rkind = "unset"
    /\ st = "none"
    /\ slot = "null"
    /\ nxt = [n \in ChainNodes |-> "null"]
    /\ tag = "none"
    /\ payload = "none"
    /\ nh = [h \in H |-> 0]
    /\ cref = [h \in H |-> 0]
    /\ tref = 0
    /\ tmp = 0
    /\ copies = 0
    /\ vlive = 0
    /\ vdtor = 0
    /\ rpc = "done"
    /\ cur = "null"
    /\ rest = "null"
    /\ sp = <<>>
    /\ flag = [h \in H |-> FALSE]
    /\ pc = [h \in H |-> "idle"]
    /\ cop = [h \in H |-> "none"]
    /\ did = [h \in H |-> {}]
    /\ seen = [o \in Obs |-> NoRes]
    /\ resumes = [o \in Obs |-> 0]
    /\ uaf = FALSE
    /\ round = 1
    /\ old = [h \in H |-> 0]
    /\ oldlive = 0
    /\ vctor = 0
    /\ form = [h \in H |-> "none"]
    /\ threw = [h \in H |-> "none"]

KindsOf(m) == IF m \in ReadyModes THEN {"none"} ELSE IF m = "async" THEN {"final"} ELSE RKinds

Setup(m, k) ==
    /\ mode = "unset"
    /\ mode' = m
    /\ rkind' = k
    /\ st' = IF m = "late" THEN "none" ELSE "alive"
    /\ slot' = IF m \in ReadyModes THEN "ready" ELSE IF m = "init" THEN "inst" ELSE "null"
    /\ tag' = CASE m \in {"fnsync", "setval", "asyncsync"} -> "val" [] m \in {"setexc", "factthrow"} -> "exc" [] OTHER -> "none"
    /\ payload' = CASE m = "fnsync" -> "fn" [] m \in {"setval", "setexc"} -> "sv" [] m = "asyncsync" -> "coro" [] m = "factthrow" -> "ft" [] OTHER -> "none"
    /\ nh' = [h \in H |-> IF h = Ctor /\ m # "late" THEN 1 ELSE 0]
    (* fn/fnsync: the thread is parked at the CAS of charge(): `_ptr = ptr` already executed *)
    /\ tref' = IF m \in ChargeModes THEN TrefOn ELSE 0
    /\ tmp' = IF m \in ChargeModes THEN 1 ELSE 0
    /\ vlive' = IF m \in {"fnsync", "setval", "asyncsync"} THEN 1 ELSE 0
    /\ rpc' = IF m \in {"fn", "retfut", "async", "shl"} THEN StartPc(k) ELSE IF m \in {"late", "init"} THEN "nopromise" ELSE "done"
    (* shl as found: operator<< has returned, nothing was charged *)
    /\ pc' = [h \in H |-> IF h # Ctor THEN "idle"
                          ELSE CASE m \in ChargeModes -> "pre_cas" [] m = "late" -> "null_idle" [] m = "init" -> "idle"
                                 [] m = "shl" /\ ~Fixed -> "idle" [] OTHER -> "pre_pload"]
    /\ cop' = [h \in H |-> IF h # Ctor THEN "none"
                           ELSE CASE m \in ChargeModes -> "charge" [] m \in {"late", "init"} -> "none"
                                  [] m = "shl" /\ ~Fixed -> "none" [] OTHER -> "ctor2"]
    /\ vctor' = IF m \in {"fnsync", "setval", "asyncsync"} THEN 1 ELSE 0
    /\ UNCHANGED <<form, threw, nxt, cref, copies, vdtor, cur, rest, sp, flag, did, seen, resumes, uaf, round, old, oldlive>>

-----------------------------------------------------------------------------
(* helpers *)

(* the step touches the shared state (the future, the tracer node or the control block) *)
Touch == uaf' = (uaf \/ st # "alive")

(* the step gives up exactly one reference: the last one destroys the state (~future_internal:
   the stored value / exception is destroyed) and frees it *)
Unref ==
    IF Use = 1 /\ st = "alive"
      THEN /\ st' = "freed"
           /\ vdtor' = vdtor + vlive
           /\ vlive' = 0
      ELSE UNCHANGED <<st, vdtor, vlive>>

Idle(h) == /\ pc' = [pc EXCEPT ![h] = "idle"]
           /\ cop' = [cop EXCEPT ![h] = "none"]

ReadBy(o) == /\ seen' = [seen EXCEPT ![o] = Result]
             /\ resumes' = [resumes EXCEPT ![o] = @ + 1]

NodeOf(h) == IF cop[h] = "charge" THEN TR ELSE N(h, cop[h])

(* the call of thread h returns: a poll, a callback run by the subscriber itself and the delivering blocking
   forms read the result (wait / force_wait / join return or throw it, syncval reads value() after sync()
   has returned); force_sync() hands nothing over and the state is not touched any more *)
Release(h) ==
    /\ IF cop[h] = "bl" /\ ~Delivers(form[h])
         THEN /\ seen' = [seen EXCEPT ![N(h, "bl")] = Synced]
              /\ resumes' = [resumes EXCEPT ![N(h, "bl")] = @ + 1]
              /\ UNCHANGED uaf
         ELSE /\ ReadBy(N(h, cop[h]))
              /\ Touch
    /\ threw' = IF cop[h] = "bl"
                  THEN [threw EXCEPT ![h] = IF ThrowsResult(form[h]) /\ tag # "val" THEN "yes" ELSE "no"]
                  ELSE threw

(* the coroutine of thread h reads the result (await_resume), runs to its end, its frame is
   destroyed together with the handle it holds *)
CoFinish(h) ==
    /\ ReadBy(N(h, "co"))
    /\ cref' = [cref EXCEPT ![h] = 0]
    /\ Unref
    /\ Idle(h)

-----------------------------------------------------------------------------
(* handle threads: public calls started when the thread is idle *)

(* shared_future copy constructor: h makes a handle for g (g = h: a second local copy) *)
Copy(h, g) ==
    /\ pc[h] = "idle" /\ nh[h] >= 1
    /\ copies < MaxCopies /\ nh[g] < MaxHandles
    /\ nh' = [nh EXCEPT ![g] = @ + 1]
    /\ copies' = copies + 1
    /\ Touch
    /\ UNCHANGED <<form, threw, round, old, oldlive, vctor, mode, rkind, st, slot, nxt, tag, payload, cref, tref, tmp, vlive, vdtor, rpc, cur, rest, sp, flag, pc, cop, did, seen, resumes>>

(* ~shared_future of one handle *)
Drop(h) ==
    /\ pc[h] = "idle" /\ nh[h] >= 1
    /\ ~(slot = "inst" /\ Use = 1)      \* mode init: somebody keeps a handle to take the promise with
    /\ nh' = [nh EXCEPT ![h] = @ - 1]
    /\ Touch
    /\ Unref
    /\ UNCHANGED <<form, threw, round, old, oldlive, vctor, mode, rkind, slot, nxt, tag, payload, cref, tref, tmp, copies, rpc, cur, rest, sp, flag, pc, cop, did, seen, resumes>>

(* a thread is inside a constructor / get_promise() / operator<<: charge() in progress, or the pending() check
   before it.  While the future of a shared state is being (re)built the caller has exclusive access to it
   (result_of destroys and constructs it in place): the other holders start no call on it, and nobody
   awaits before the tracer has been subscribed (the tracer must be the first node of the chain) *)
Charging == \E g \in H : cop[g] = "charge"
InCtor2 == \E g \in H : cop[g] = "ctor2"

Begin(h, k, first) ==
    /\ pc[h] = "idle" /\ nh[h] >= 1 /\ k \notin did[h]
    /\ ~InCtor2 /\ (k # "po" => ~Charging)
    /\ pc' = [pc EXCEPT ![h] = first]
    /\ cop' = [cop EXCEPT ![h] = k]
    /\ did' = [did EXCEPT ![h] = @ \cup {k}]

(* if (f.ready()) f.value() *)
BeginPoll(h) ==
    /\ h \in HPoll
    /\ Begin(h, "po", "pre_check")
    /\ UNCHANGED <<form, threw, round, old, oldlive, vctor, mode, rkind, st, slot, nxt, tag, payload, nh, cref, tref, tmp, copies, vlive, vdtor, rpc, cur, rest, sp, flag, seen, resumes, uaf>>

(* the blocking forms: f.wait() / f.sync() + f.value() / f.force_sync() / f.join() / f.force_wait()
   (shared_future.h:163-191); all of them start with the ready check of co_awaiter::sync / force_sync;
   the form is FormOf(h) (see the module comment) *)
BeginWait(h, f) ==
    /\ h \in HBl /\ rpc # "nopromise"
    /\ f \in FormChoice(h)
    /\ Begin(h, "bl", "pre_check")
    /\ form' = [form EXCEPT ![h] = f]
    /\ UNCHANGED <<threw, round, old, oldlive, vctor, mode, rkind, st, slot, nxt, tag, payload, nh, cref, tref, tmp, copies, vlive, vdtor, rpc, cur, rest, sp, flag, seen, resumes, uaf>>

(* a coroutine taking the shared_future by value is started: the frame holds its own handle;
   it runs up to the load of await_ready *)
BeginCo(h) ==
    /\ h \in HCo /\ rpc # "nopromise"
    /\ Begin(h, "co", "pre_check")
    /\ cref' = [cref EXCEPT ![h] = 1]
    /\ Touch
    /\ UNCHANGED <<form, threw, round, old, oldlive, vctor, mode, rkind, st, slot, nxt, tag, payload, nh, tref, tmp, copies, vlive, vdtor, rpc, cur, rest, sp, flag, seen, resumes>>

(* f.operator co_await().subscribe(&cb): no readiness check before the CAS.  The callback keeps no
   handle: it reads the result through the future reference it was given *)
BeginCb(h) ==
    /\ h \in HCb /\ rpc # "nopromise"
    /\ Begin(h, "cb", "pre_cas")
    /\ UNCHANGED <<form, threw, round, old, oldlive, vctor, mode, rkind, st, slot, nxt, tag, payload, nh, cref, tref, tmp, copies, vlive, vdtor, rpc, cur, rest, sp, flag, seen, resumes, uaf>>

(* default constructed object: ready() is false, value() throws value_not_ready_exception *)
NullPoll(h) ==
    /\ pc[h] = "null_idle" /\ "np" \notin did[h]
    /\ did' = [did EXCEPT ![h] = @ \cup {"np"}]
    /\ seen' = [seen EXCEPT ![N(h, "po")] = NotReady]
    /\ UNCHANGED <<form, threw, round, old, oldlive, vctor, mode, rkind, st, slot, nxt, tag, payload, nh, cref, tref, tmp, copies, vlive, vdtor, rpc, cur, rest, sp, flag, pc, cop, resumes, uaf>>

(* get_promise() on the default constructed object: init_if_needed allocates the state,
   future::get_promise makes it pending, charge() runs up to its CAS *)
LateInit(h) ==
    /\ pc[h] = "null_idle"
    /\ st' = "alive"
    /\ nh' = [nh EXCEPT ![h] = 1]
    /\ tref' = TrefOn
    /\ tmp' = 1
    /\ pc' = [pc EXCEPT ![h] = "pre_cas"]
    /\ cop' = [cop EXCEPT ![h] = "charge"]
    /\ UNCHANGED <<form, threw, round, old, oldlive, vctor, mode, rkind, slot, nxt, tag, payload, cref, copies, vlive, vdtor, rpc, cur, rest, sp, flag, did, seen, resumes, uaf>>

(* mode init: get_promise() through a handle of the already existing fresh state: init_if_needed does
   nothing (the state and with it every other copy is kept), future::get_promise makes the state
   pending, charge() runs up to its CAS *)
GetPromise(h) ==
    /\ pc[h] = "idle" /\ nh[h] >= 1
    /\ slot = "inst"
    /\ slot' = "null"
    /\ tref' = TrefOn
    /\ tmp' = 1
    /\ pc' = [pc EXCEPT ![h] = "pre_cas"]
    /\ cop' = [cop EXCEPT ![h] = "charge"]
    /\ Touch
    /\ UNCHANGED <<form, threw, round, old, oldlive, vctor, mode, rkind, st, nxt, tag, payload, nh, cref, copies, vlive, vdtor, rpc, cur, rest, sp, flag, did, seen, resumes>>

(* ---- rounds: re-arming a resolved state ---- *)
Quiescent == /\ rpc = "done" /\ slot = "ready" /\ st = "alive" /\ tref = 0 /\ tmp = 0
             /\ \A g \in H : pc[g] = "idle" /\ cref[g] = 0

NewRound ==
    /\ round' = round + 1
    /\ did' = [g \in H |-> {}]
    /\ seen' = [o \in Obs |-> NoRes]
    /\ resumes' = [o \in Obs |-> 0]
    /\ flag' = [g \in H |-> FALSE]
    /\ form' = [g \in H |-> "none"]
    /\ threw' = [g \in H |-> "none"]

(* `f << fn` through a handle of the resolved state (shared_future.h:197-205): init_if_needed does nothing,
   future::result_of destroys the stored result and constructs fn's future in place (fn hands the promise to
   the resolver of the new round, or returns an already resolved future); the thread runs up to the pending()
   load, after which the tracer is charged again exactly as in the ReturnsFuture constructor *)
ReArmShl(h, k) ==
    /\ round < MaxRounds /\ Quiescent /\ nh[h] >= 1
    /\ \/ k \in RKinds /\ "shl" \in ReArmWays
       \/ k \in ReadyKinds /\ ("shl" \o k) \in ReArmWays
    /\ NewRound
    /\ vdtor' = vdtor + vlive          \* the previous content is destroyed exactly once (future.h:297)
    /\ IF k \in ReadyKinds
         THEN /\ tag' = CASE k = "ready" -> "val" [] k = "readynone" -> "none" [] OTHER -> "exc"
              /\ payload' = CASE k = "readynone" -> "none" [] k = "throws" -> "ft" \o ToString(round + 1)
                               [] OTHER -> "sv" \o ToString(round + 1)
              /\ vlive' = IF k = "ready" THEN 1 ELSE 0
              /\ vctor' = vctor + (IF k = "ready" THEN 1 ELSE 0)
              /\ rpc' = "done"
              /\ rkind' = "none"
              /\ UNCHANGED slot
         ELSE /\ tag' = "none"
              /\ payload' = "none"
              /\ vlive' = 0
              /\ slot' = "null"
              /\ rpc' = StartPc(k)
              /\ rkind' = k
              /\ UNCHANGED vctor
    /\ pc' = [pc EXCEPT ![h] = "pre_pload"]
    /\ cop' = [cop EXCEPT ![h] = "ctor2"]
    /\ Touch
    /\ UNCHANGED <<mode, st, nxt, nh, cref, tref, tmp, copies, cur, rest, sp, old, oldlive>>

(* `f = shared_future(fn)` by the sole holder of one handle: the promise constructor builds a NEW state (its
   promise goes to the resolver of the new round, which may run concurrently with charge()); the thread runs
   up to the CAS of charge().  From here on the model's state variables describe the new state; the previous
   one is kept alive by `old` until the assignment itself executes (PostCAS / PostFence) *)
ReArmAssign(h, k) ==
    /\ round < MaxRounds /\ Quiescent /\ "assign" \in ReArmWays /\ k \in RKinds
    /\ nh[h] = 1 /\ Use = 1
    /\ NewRound
    /\ old' = [old EXCEPT ![h] = 1]
    /\ oldlive' = vlive
    /\ vlive' = 0
    /\ slot' = "null"
    /\ tag' = "none"
    /\ payload' = "none"
    /\ tref' = TrefOn
    /\ tmp' = 1
    /\ rpc' = StartPc(k)
    /\ rkind' = k
    /\ pc' = [pc EXCEPT ![h] = "pre_cas"]
    /\ cop' = [cop EXCEPT ![h] = "charge"]
    /\ UNCHANGED <<mode, st, nxt, nh, cref, copies, vdtor, vctor, cur, rest, sp, uaf>>

-----------------------------------------------------------------------------
(* handle threads: atomic operations and the local code after them *)

(* shared_future.h:109  if (_ptr->pending()) *)
PrePload(h) ==
    /\ pc[h] = "pre_pload"
    /\ pc' = [pc EXCEPT ![h] = IF slot = "ready" THEN "post_pload_n" ELSE "post_pload_p"]
    /\ Touch
    /\ UNCHANGED <<form, threw, round, old, oldlive, vctor, mode, rkind, st, slot, nxt, tag, payload, nh, cref, tref, tmp, copies, vlive, vdtor, rpc, cur, rest, sp, flag, cop, did, seen, resumes>>

(* pending: charge(_ptr) up to its CAS (`_ptr = ptr` executed, parameter alive); else the constructor returns *)
PostPload(h) ==
    /\ pc[h] \in {"post_pload_p", "post_pload_n"}
    /\ IF pc[h] = "post_pload_p" /\ ~(Variant = "chargeonce" /\ round > 1)
         THEN /\ tref' = TrefOn
              /\ tmp' = 1
              /\ pc' = [pc EXCEPT ![h] = "pre_cas"]
              /\ cop' = [cop EXCEPT ![h] = "charge"]
              /\ Touch
         ELSE /\ Idle(h)
              /\ UNCHANGED <<tref, tmp, uaf>>
    /\ UNCHANGED <<form, threw, round, old, oldlive, vctor, mode, rkind, st, slot, nxt, tag, payload, nh, cref, copies, vlive, vdtor, rpc, cur, rest, sp, flag, did, seen, resumes>>

(* future_common::ready(): load(acquire) == &disabled *)
PreCheck(h) ==
    /\ pc[h] = "pre_check"
    /\ pc' = [pc EXCEPT ![h] = IF slot = "ready" THEN "post_check_r" ELSE "post_check_n"]
    /\ Touch
    /\ UNCHANGED <<form, threw, round, old, oldlive, vctor, mode, rkind, st, slot, nxt, tag, payload, nh, cref, tref, tmp, copies, vlive, vdtor, rpc, cur, rest, sp, flag, cop, did, seen, resumes>>

PostCheck(h) ==
    /\ pc[h] \in {"post_check_r", "post_check_n"}
    /\ IF pc[h] = "post_check_r"
         THEN IF cop[h] = "co"
                THEN /\ CoFinish(h)
                     /\ Touch
                     /\ UNCHANGED threw
                ELSE /\ Release(h)
                     /\ Idle(h)
                     /\ UNCHANGED <<cref, st, vdtor, vlive>>
         ELSE IF cop[h] = "po"
                THEN /\ seen' = [seen EXCEPT ![N(h, "po")] = NotReady]
                     /\ Idle(h)
                     /\ UNCHANGED <<resumes, cref, st, vdtor, vlive, uaf, threw>>
                ELSE (* sync() / force_sync(): the sync_awaiter is built, subscribe; coroutine: await_suspend *)
                     /\ pc' = [pc EXCEPT ![h] = "pre_cas"]
                     /\ UNCHANGED <<cop, seen, resumes, cref, st, vdtor, vlive, uaf, threw>>
    /\ UNCHANGED <<form, round, old, oldlive, vctor, mode, rkind, slot, nxt, tag, payload, nh, tref, tmp, copies, rpc, cur, rest, sp, flag, did>>

(* one iteration of compare_exchange(_next, this) *)
PreCAS(h) ==
    /\ pc[h] = "pre_cas"
    /\ LET n == NodeOf(h) IN
       IF slot = nxt[n]
         THEN /\ slot' = n
              /\ pc' = [pc EXCEPT ![h] = "post_cas_ok"]
              /\ UNCHANGED nxt
         ELSE /\ nxt' = [nxt EXCEPT ![n] = slot]
              /\ pc' = [pc EXCEPT ![h] = "post_cas_fail"]
              /\ UNCHANGED slot
    /\ Touch
    /\ UNCHANGED <<form, threw, round, old, oldlive, vctor, mode, rkind, st, tag, payload, nh, cref, tref, tmp, copies, vlive, vdtor, rpc, cur, rest, sp, flag, cop, did, seen, resumes>>

PostCAS(h) ==
    /\ pc[h] \in {"post_cas_ok", "post_cas_fail"}
    /\ LET n == NodeOf(h) IN
       CASE pc[h] = "post_cas_ok" /\ cop[h] = "charge" ->
                (* charge returns (its parameter dies), the constructor / get_promise returns;
                   late: the promise is now in the hands of the resolver thread *)
                /\ tmp' = 0
                /\ rpc' = IF rpc = "nopromise" THEN StartPc(rkind) ELSE rpc
                /\ Idle(h)
                /\ UNCHANGED nxt
         [] pc[h] = "post_cas_ok" /\ cop[h] = "bl" ->
                /\ pc' = [pc EXCEPT ![h] = "pre_wait"]
                /\ UNCHANGED <<cop, tmp, rpc, nxt>>
         [] pc[h] = "post_cas_ok" /\ cop[h] \in {"co", "cb"} ->
                (* coroutine suspended, detach() returns / callback armed *)
                /\ Idle(h)
                /\ UNCHANGED <<tmp, rpc, nxt>>
         [] pc[h] = "post_cas_fail" /\ nxt[n] = "ready" ->
                /\ nxt' = [nxt EXCEPT ![n] = "null"]
                /\ pc' = [pc EXCEPT ![h] = "pre_fence"]
                /\ UNCHANGED <<tmp, rpc, cop>>
         [] pc[h] = "post_cas_fail" /\ nxt[n] # "ready" ->
                /\ pc' = [pc EXCEPT ![h] = "pre_cas"]
                /\ UNCHANGED <<tmp, rpc, cop, nxt>>
    (* `f = shared_future(fn)`: the constructor returned, the assignment drops the reference to the previous
       state (held by this thread only): it is destroyed with its value and freed *)
    /\ IF pc[h] = "post_cas_ok" /\ cop[h] = "charge" /\ old[h] = 1
         THEN /\ old' = [old EXCEPT ![h] = 0]
              /\ oldlive' = 0
              /\ vdtor' = vdtor + oldlive
         ELSE UNCHANGED <<old, oldlive, vdtor>>
    /\ UNCHANGED <<form, threw, round, vctor, mode, rkind, st, slot, tag, payload, nh, cref, tref, copies, vlive, cur, rest, sp, flag, did, seen, resumes, uaf>>

PreFence(h) ==
    /\ pc[h] = "pre_fence"
    /\ pc' = [pc EXCEPT ![h] = "post_fence"]
    /\ UNCHANGED <<form, threw, round, old, oldlive, vctor, mode, rkind, st, slot, nxt, tag, payload, nh, cref, tref, tmp, copies, vlive, vdtor, rpc, cur, rest, sp, flag, cop, did, seen, resumes, uaf>>

(* subscription refused: the caller proceeds as if ready *)
PostFence(h) ==
    /\ pc[h] = "post_fence"
    /\ IF cop[h] = "charge"
         THEN (* shared_future.h:218  `_ptr = nullptr`, the parameter dies; the handle keeps the state alive *)
              /\ tref' = 0
              /\ tmp' = 0
              /\ Idle(h)
              /\ Touch
              (* an assignment in progress completes here as well (see PostCAS) *)
              /\ old' = [old EXCEPT ![h] = 0]
              /\ oldlive' = IF old[h] = 1 THEN 0 ELSE oldlive
              /\ vdtor' = vdtor + (IF old[h] = 1 THEN oldlive ELSE 0)
              /\ UNCHANGED <<seen, resumes, cref, st, vlive, threw>>
         ELSE IF cop[h] = "co"
                THEN /\ CoFinish(h)
                     /\ Touch
                     /\ UNCHANGED <<tref, tmp, old, oldlive, threw>>
                ELSE /\ Release(h)
                     /\ Idle(h)
                     /\ UNCHANGED <<tref, tmp, cref, st, vdtor, vlive, old, oldlive>>
    /\ UNCHANGED <<form, round, vctor, mode, rkind, slot, nxt, tag, payload, nh, copies, rpc, cur, rest, sp, flag, did>>

(* flag.wait(false) returns once the flag is set *)
PreWait(h) ==
    /\ pc[h] = "pre_wait"
    /\ flag[h]
    /\ pc' = [pc EXCEPT ![h] = "post_wait"]
    /\ UNCHANGED <<form, threw, round, old, oldlive, vctor, mode, rkind, st, slot, nxt, tag, payload, nh, cref, tref, tmp, copies, vlive, vdtor, rpc, cur, rest, sp, flag, cop, did, seen, resumes, uaf>>

PostWait(h) ==
    /\ pc[h] = "post_wait"
    /\ Release(h)
    /\ Idle(h)
    /\ UNCHANGED <<form, round, old, oldlive, vctor, mode, rkind, st, slot, nxt, tag, payload, nh, cref, tref, tmp, copies, vlive, vdtor, rpc, cur, rest, sp, flag, did>>

-----------------------------------------------------------------------------
(* resolver: resume_chain_lk (awaiter.h:103-112) over the detached chain.  Coroutine nodes are
   collected in the suspend point, callback nodes run inline (they read the result through the
   reference to the future they kept), the tracer gives its self reference back (the last
   reference destroys and frees the state), a blocking node stops the walk at its flag.store.  At
   the end of the chain the suspend point is released: every collected coroutine reads the result,
   finishes, and its frame -- with the handle in it -- is destroyed. *)

UnrefS(s, base) ==
    IF s.st = "alive" /\ s.tref + base + SumF(s.cref) = 0
      THEN [s EXCEPT !.st = "freed", !.vdtor = s.vdtor + s.vlive, !.vlive = 0]
      ELSE s

RECURSIVE ReleaseAll(_, _, _)
ReleaseAll(s, q, base) ==
    IF q = <<>> THEN s
    ELSE LET c == Head(q)
             s1 == [s EXCEPT !.seen[c] = Result, !.resumes[c] = @ + 1,
                             !.uaf = (@ \/ s.st # "alive"), !.cref[OwnerOf(c)] = 0]
         IN  ReleaseAll(UnrefS(s1, base), Tail(q), base)

RECURSIVE Walk(_, _, _)
Walk(n, s, base) ==
    IF n = "null"
      THEN [ReleaseAll(s, s.sp, base) EXCEPT !.sp = <<>>, !.pc = "done"]
      ELSE LET nx == s.nxt[n]
               s1 == [s EXCEPT !.nxt[n] = "null"]
           IN  CASE n = TR ->
                      (* the node is a member of the state: reading its _next touches the state *)
                      Walk(nx, UnrefS([s1 EXCEPT !.uaf = (@ \/ s.st # "alive"),
                                                 !.tref = IF Variant = "noreset" THEN @ ELSE 0], base), base)
                 [] n \in CoN -> Walk(nx, [s1 EXCEPT !.sp = Append(@, n)], base)
                 [] n \in CbN -> Walk(nx, [s1 EXCEPT !.seen[n] = Result, !.resumes[n] = @ + 1,
                                                     !.uaf = (@ \/ s.st # "alive")], base)
                 [] n \in BlN -> [s1 EXCEPT !.cur = n, !.rest = nx, !.pc = "pre_fstore"]

WalkFrom(n) ==
    LET s0 == [nxt |-> nxt, seen |-> seen, resumes |-> resumes, sp |-> sp, cur |-> "null", rest |-> "null",
               pc |-> "walk", tref |-> tref, cref |-> cref, st |-> st, vlive |-> vlive, vdtor |-> vdtor, uaf |-> uaf]
        s == Walk(n, s0, tmp + SumF(nh))
    IN  /\ nxt' = s.nxt
        /\ seen' = s.seen
        /\ resumes' = s.resumes
        /\ sp' = s.sp
        /\ cur' = s.cur
        /\ rest' = s.rest
        /\ rpc' = s.pc
        /\ tref' = s.tref
        /\ cref' = s.cref
        /\ st' = s.st
        /\ vlive' = s.vlive
        /\ vdtor' = s.vdtor
        /\ uaf' = s.uaf

(* promise::claim: the only promise object, a single resolver: the claim succeeds *)
PreClaim(r) ==
    /\ rpc = "pre_claim"
    /\ rpc' = "post_claim"
    /\ UNCHANGED <<form, threw, round, old, oldlive, vctor, mode, rkind, st, slot, nxt, tag, payload, nh, cref, tref, tmp, copies, vlive, vdtor, cur, rest, sp, flag, pc, cop, did, seen, resumes, uaf>>

(* future::set: the value is constructed in place / the exception pointer stored (plain stores into the state) *)
PostClaim(r) ==
    /\ rpc = "post_claim"
    (* unwind: the claim was the move into the producer's local; the exception propagates, ~promise of the local *)
    /\ rpc' = IF rkind = "unwind" THEN "pre_dload" ELSE "pre_swap"
    /\ IF rkind \in {"drop", "unwind"}
         THEN UNCHANGED <<tag, payload, vlive, vctor, uaf>>
         ELSE /\ tag' = rkind
              /\ payload' = RPay
              /\ vlive' = IF rkind = "val" THEN 1 ELSE 0
              /\ vctor' = vctor + (IF rkind = "val" THEN 1 ELSE 0)
              /\ Touch
    /\ UNCHANGED <<form, threw, round, old, oldlive, mode, rkind, st, slot, nxt, nh, cref, tref, tmp, copies, vdtor, cur, rest, sp, flag, pc, cop, did, seen, resumes>>

(* promise::~promise: load of the owner pointer, then resolve() *)
PreDload(r) ==
    /\ rpc = "pre_dload"
    /\ rpc' = "post_dload"
    /\ UNCHANGED <<form, threw, round, old, oldlive, vctor, mode, rkind, st, slot, nxt, tag, payload, nh, cref, tref, tmp, copies, vlive, vdtor, cur, rest, sp, flag, pc, cop, did, seen, resumes, uaf>>

PostDload(r) ==
    /\ rpc = "post_dload"
    /\ rpc' = "pre_swap"
    /\ UNCHANGED <<form, threw, round, old, oldlive, vctor, mode, rkind, st, slot, nxt, tag, payload, nh, cref, tref, tmp, copies, vlive, vdtor, cur, rest, sp, flag, pc, cop, did, seen, resumes, uaf>>

(* the suspended async coroutine is resumed: co_return stores the value (async_promise::resolve),
   final_suspend calls future::resolve *)
PreFinal(r) ==
    /\ rpc = "pre_final"
    /\ rpc' = "pre_swap"
    /\ tag' = "val"
    /\ payload' = r
    /\ vlive' = 1
    /\ vctor' = vctor + 1
    /\ Touch
    /\ UNCHANGED <<form, threw, round, old, oldlive, mode, rkind, st, slot, nxt, nh, cref, tref, tmp, copies, vdtor, cur, rest, sp, flag, pc, cop, did, seen, resumes>>

(* resume_chain_set_ready: exchange(&disabled); the old top of the chain is the walker's local *)
PreSwap(r) ==
    /\ rpc = "pre_swap"
    /\ slot' = "ready"
    /\ rest' = slot
    /\ rpc' = "post_swap"
    /\ Touch
    /\ UNCHANGED <<form, threw, round, old, oldlive, vctor, mode, rkind, st, nxt, tag, payload, nh, cref, tref, tmp, copies, vlive, vdtor, cur, sp, flag, pc, cop, did, seen, resumes>>

PostSwap(r) ==
    /\ rpc = "post_swap"
    /\ WalkFrom(rest)
    /\ UNCHANGED <<form, threw, round, old, oldlive, vctor, mode, rkind, slot, tag, payload, nh, tmp, copies, flag, pc, cop, did>>

PreFstore(r) ==
    /\ rpc = "pre_fstore"
    /\ flag' = [flag EXCEPT ![OwnerOf(cur)] = TRUE]
    /\ rpc' = "post_fstore"
    /\ UNCHANGED <<form, threw, round, old, oldlive, vctor, mode, rkind, st, slot, nxt, tag, payload, nh, cref, tref, tmp, copies, vlive, vdtor, cur, rest, sp, pc, cop, did, seen, resumes, uaf>>

PostFstore(r) ==
    /\ rpc = "post_fstore"
    /\ rpc' = "pre_notify"
    /\ UNCHANGED <<form, threw, round, old, oldlive, vctor, mode, rkind, st, slot, nxt, tag, payload, nh, cref, tref, tmp, copies, vlive, vdtor, cur, rest, sp, flag, pc, cop, did, seen, resumes, uaf>>

PreNotify(r) ==
    /\ rpc = "pre_notify"
    /\ rpc' = "post_notify"
    /\ UNCHANGED <<form, threw, round, old, oldlive, vctor, mode, rkind, st, slot, nxt, tag, payload, nh, cref, tref, tmp, copies, vlive, vdtor, cur, rest, sp, flag, pc, cop, did, seen, resumes, uaf>>

PostNotify(r) ==
    /\ rpc = "post_notify"
    /\ WalkFrom(rest)
    /\ UNCHANGED <<form, threw, round, old, oldlive, vctor, mode, rkind, slot, tag, payload, nh, tmp, copies, flag, pc, cop, did>>

-----------------------------------------------------------------------------
ResolverStep(r) == \/ PreClaim(r) \/ PostClaim(r) \/ PreDload(r) \/ PostDload(r) \/ PreFinal(r)
                   \/ PreSwap(r) \/ PostSwap(r) \/ PreFstore(r) \/ PostFstore(r) \/ PreNotify(r) \/ PostNotify(r)

HandleStep(h) == \/ Drop(h) \/ BeginPoll(h) \/ BeginCo(h) \/ BeginCb(h) \/ NullPoll(h) \/ LateInit(h) \/ GetPromise(h)
                 \/ PrePload(h) \/ PostPload(h) \/ PreCheck(h) \/ PostCheck(h) \/ PreCAS(h) \/ PostCAS(h)
                 \/ PreFence(h) \/ PostFence(h) \/ PreWait(h) \/ PostWait(h)
                 \/ \E g \in H : Copy(h, g)
                 \/ \E f \in AllForms : BeginWait(h, f)
                 \/ \E k \in RKinds \cup ReadyKinds : ReArmShl(h, k) \/ ReArmAssign(h, k)

Next == \/ \E m \in Modes : \E k \in KindsOf(m) : Setup(m, k)
        \/ \E r \in {R} : PreClaim(r) \/ PostClaim(r) \/ PreDload(r) \/ PostDload(r) \/ PreFinal(r)
                          \/ PreSwap(r) \/ PostSwap(r) \/ PreFstore(r) \/ PostFstore(r) \/ PreNotify(r) \/ PostNotify(r)
        \/ \E h \in H : \/ Drop(h) \/ BeginPoll(h) \/ BeginCo(h) \/ BeginCb(h) \/ NullPoll(h) \/ LateInit(h) \/ GetPromise(h)
                        \/ PrePload(h) \/ PostPload(h) \/ PreCheck(h) \/ PostCheck(h) \/ PreCAS(h) \/ PostCAS(h)
                        \/ PreFence(h) \/ PostFence(h) \/ PreWait(h) \/ PostWait(h)
        \/ \E h \in H : \E g \in H : Copy(h, g)
        \/ \E h \in H : \E f \in AllForms : BeginWait(h, f)
        \/ \E h \in H : \E k \in RKinds \cup ReadyKinds : ReArmShl(h, k) \/ ReArmAssign(h, k)

Fair == /\ WF_vars(\E m \in Modes : \E k \in KindsOf(m) : Setup(m, k))
        /\ WF_vars(ResolverStep(R))
        /\ \A h \in H : WF_vars(HandleStep(h))

Spec == Init /\ [][Next]_vars /\ Fair

-----------------------------------------------------------------------------
(* Properties *)

HPcs == {"idle", "null_idle", "pre_pload", "post_pload_p", "post_pload_n", "pre_check", "post_check_r", "post_check_n",
         "pre_cas", "post_cas_ok", "post_cas_fail", "pre_fence", "post_fence", "pre_wait", "post_wait"}
RPcs == {"nopromise", "pre_claim", "post_claim", "pre_dload", "post_dload", "pre_final", "pre_swap", "post_swap",
         "pre_fstore", "post_fstore", "pre_notify", "post_notify", "done"}

TypeOK ==
    /\ st \in {"none", "alive", "freed"}
    /\ slot \in {"null", "ready", "inst"} \cup ChainNodes
    /\ \A n \in ChainNodes : nxt[n] \in {"null", "ready"} \cup ChainNodes
    /\ tag \in {"none", "val", "exc"}
    /\ tref \in {0, 1} /\ tmp \in {0, 1}
    /\ \A h \in H : pc[h] \in HPcs /\ nh[h] \in 0..MaxHandles /\ cref[h] \in {0, 1}
    /\ rpc \in RPcs
    /\ vlive \in {0, 1} /\ oldlive \in {0, 1} /\ round \in 1..MaxRounds
    /\ \A h \in H : old[h] \in {0, 1}
    /\ \A h \in H : form[h] \in BlForms \cup {"none"} /\ (form[h] # "none" <=> "bl" \in did[h])
    /\ \A h \in H : threw[h] \in {"none", "yes", "no"}

Terminal == /\ mode # "unset"
            /\ rpc = "done"
            /\ \A h \in H : pc[h] = "idle" /\ nh[h] = 0 /\ cref[h] = 0

(* the shared state is alive exactly as long as something references it ... *)
RefcountExact == (st = "alive") <=> (Use > 0)

(* ... in particular while it is pending, whatever the handles do *)
AliveWhilePending == (st # "none" /\ slot \notin {"ready", "inst"}) => (st = "alive" /\ Use > 0)

(* the tracer holds its self reference exactly while the future is pending: from charge() on,
   until the chain walk reaches it -- which is after the resolving exchange *)
TracerWhilePending ==
    /\ (st = "alive" /\ slot \notin {"ready", "inst"} /\ ~InCtor2) => tref = 1
    /\ (rpc = "done" /\ ~Charging) => tref = 0
    /\ slot = "inst" => tref = 0

(* construction from an already resolved future never wires the tracer *)
NotWiredWhenReady == (round = 1 /\ mode \in {"setval", "setexc", "asyncsync", "factthrow"}) => (tref = 0 /\ tmp = 0 /\ nxt[TR] = "null" /\ slot = "ready")

(* the tracer was subscribed first, therefore it is the last node of the chain *)
RECURSIVE ChainFrom(_, _)
ChainFrom(n, fuel) == IF n \in {"null", "ready", "inst"} \/ fuel = 0 THEN <<>> ELSE <<n>> \o ChainFrom(nxt[n], fuel - 1)
Chain == ChainFrom(slot, Cardinality(ChainNodes) + 1)
TracerLast ==
    /\ Len(Chain) <= Cardinality(ChainNodes)
    /\ \A i, j \in 1..Len(Chain) : i # j => Chain[i] # Chain[j]
    /\ \A i \in 1..Len(Chain) : Chain[i] = TR => i = Len(Chain)
    /\ (slot \notin {"null", "ready", "inst"}) => Chain[Len(Chain)] = TR

(* the stored value lives exactly as long as the state; it is destroyed at most once *)
FreedOnce ==
    /\ vdtor + vlive + oldlive = vctor          \* every stored value is alive or was destroyed exactly once
    /\ (tag = "val") => (vlive = 1 <=> st = "alive")
    /\ (tag # "val") => vlive = 0
    /\ (st = "freed") => (vlive = 0 /\ vdtor = vctor)
    /\ (oldlive = 1) => \E h \in H : old[h] = 1
FreedForGood == [][(st = "freed" => st' = "freed") /\ vdtor' >= vdtor]_vars

(* every step that touches the state finds it alive; a thread inside a public call holds a handle *)
NoUseAfterFree ==
    /\ ~uaf
    /\ \A h \in H : pc[h] \notin {"idle", "null_idle"} => st = "alive"
    /\ rpc \in {"post_claim", "pre_final", "pre_swap"} => st = "alive"

(* one result for everybody *)
(* ... except that sync()/force_sync() alone hand nothing over (and the caller does not read) *)
Expected(o) == IF o \in BlN /\ ~Delivers(form[OwnerOf(o)]) THEN Synced ELSE Result
SameResultForAll == \A o \in Obs : resumes[o] > 0 => seen[o] = Expected(o)
(* wait() / force_wait() / join() leave by an exception exactly when the result is not a value (the stored
   exception, await_canceled_exception for a dropped promise); sync() / force_sync() never throw *)
ThrowsAsDocumented ==
    \A h \in H : /\ (threw[h] # "none") <=> (resumes[N(h, "bl")] > 0)
                 /\ threw[h] = "yes" => (ThrowsResult(form[h]) /\ slot = "ready" /\ tag # "val")
                 /\ threw[h] = "no" => (~ThrowsResult(form[h]) \/ tag = "val")
ResultStable == [][(slot = "ready" /\ round' = round) => UNCHANGED <<tag, payload, slot>>]_vars
NoEarlyWake == \A o \in Obs : resumes[o] > 0 => slot = "ready"
ExactlyOnce == \A o \in Obs : resumes[o] <= 1

(* at the end: resolved, every awaiter released exactly once, everything freed exactly once;
   in mode "late" the end is reachable only through get_promise() on the default constructed object *)
AtEnd ==
    Terminal =>
        /\ st = "freed" /\ Use = 0 /\ vlive = 0 /\ vdtor = vctor
        /\ \A h \in H : old[h] = 0
        /\ slot = "ready"
        /\ \A h \in H : \A k \in {"co", "bl", "cb"} : k \in did[h] => resumes[N(h, k)] = 1
        /\ \A h \in H : "po" \in did[h] => (resumes[N(h, "po")] = 1 \/ seen[N(h, "po")] = NotReady)
(* get_promise() on the default constructed object yields a live, pending, traced state and a promise *)
LateInitWorks ==
    mode = "late" =>
        /\ (st = "none") <=> (pc[Ctor] = "null_idle")
        /\ (st # "none" /\ cop[Ctor] # "charge") => rpc # "nopromise"
        /\ (rpc = "nopromise" /\ st # "none") => (st = "alive" /\ slot # "ready" /\ tref = 1)
(* mode init: the state that existed before get_promise() is the one that becomes pending, traced and resolved
   (there is one state in the model; on the real side the replayer's probe stays bound to the first state) *)
LateInitKeepsState ==
    mode = "init" =>
        /\ st # "none"
        /\ (slot = "inst") => (st = "alive" /\ rpc = "nopromise" /\ ~Charging)
        /\ (rpc = "nopromise" /\ slot # "inst") => (Charging /\ st = "alive" /\ tref = 1)

(* a round is complete when the resolver is done and every thread is between two calls: every awaiter of
   the round has been released exactly once (with the round's result: SameResultForAll) -- this is the
   situation in which the state may be re-armed and the per-round observations are reset *)
RoundComplete ==
    (rpc = "done" /\ mode # "unset" /\ \A g \in H : pc[g] = "idle") =>
        \A h \in H : \A k \in {"co", "bl", "cb"} : k \in did[h] => resumes[N(h, k)] = 1

NoStuckState == (~ ENABLED Next) => Terminal
NoHang == <>[]Terminal

=============================================================================
