SPECIFICATION Spec
INVARIANTS TypeOK RefcountExact AliveWhilePending TracerWhilePending NotWiredWhenReady TracerLast FreedOnce NoUseAfterFree SameResultForAll ThrowsAsDocumented NoEarlyWake ExactlyOnce AtEnd LateInitWorks LateInitKeepsState RoundComplete NoStuckState
PROPERTIES FreedForGood ResultStable
CHECK_DEADLOCK FALSE
