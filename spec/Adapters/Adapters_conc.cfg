SPECIFICATION Spec
CONSTANTS
  Ads = {"cbawait", "cbawait_v", "mkprom", "discard", "callfn", "conv_mem", "conv_mem_v", "conv_pp", "conv_pp_v", "conv_free", "conv_free_ctx"}
  Allocs = {"heap", "reusable", "mtsafe", "counting"}
  Grain = "atomic"
  Ctxs = {"plain"}
  ArgKinds = {"temp"}
  Res = {"r1"}
  Outcomes = {"val", "exc", "drop"}
  MaxRounds = 1
  FixVoidSrc = TRUE
  ArmLate = {}
  RegCtxs = {"plain"}
  ResCtxs = {"plain", "guard", "handler", "scope", "local"}
  FactoryFail = {}
  SkipUnwinding = {}
  ArgsByRef = FALSE
INVARIANTS TypeOK CallbackOnce RightOutcome HelperFreedOnce ConvertedValueOrException PublishedResumable ArgsAsPassed NoStuckState
PROPERTIES FreedByCompletion AllComplete
CHECK_DEADLOCK FALSE
