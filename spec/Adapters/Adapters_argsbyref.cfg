SPECIFICATION Spec
CONSTANTS
  Ads = {"cbawait"}
  Allocs = {"heap"}
  Grain = "call"
  Ctxs = {"plain", "coro"}
  ArgKinds = {"temp", "lvalue", "moved"}
  Res = {"r1"}
  Outcomes = {"val", "exc", "drop"}
  MaxRounds = 1
  FixVoidSrc = TRUE
  ArmLate = {}
  RegCtxs = {"plain"}
  ResCtxs = {"plain"}
  FactoryFail = {}
  SkipUnwinding = {}
  ArgsByRef = TRUE
INVARIANTS TypeOK CallbackOnce RightOutcome HelperFreedOnce ConvertedValueOrException PublishedResumable ArgsAsPassed NoStuckState
CHECK_DEADLOCK FALSE
