SPECIFICATION Spec
CONSTANTS
  Ads = {"cbawait", "cbawait_v", "mkprom", "discard", "callfn", "conv_mem", "conv_mem_v", "conv_pp", "conv_pp_v", "conv_free", "conv_free_ctx"}
  Allocs = {"heap", "reusable", "mtsafe", "counting"}
  Grain = "call"
  Ctxs = {"plain", "coro"}
  ArgKinds = {"temp", "lvalue", "moved"}
  Res = {"r1"}
  Outcomes = {"val", "exc", "drop"}
  MaxRounds = 3
  FixVoidSrc = TRUE
  ArmLate = {}
  RegCtxs = {"plain", "guard", "handler"}
  ResCtxs = {"plain", "guard", "handler", "scope", "local", "assign"}
  FactoryFail = {"fthrow"}
  SkipUnwinding = {}
  ArgsByRef = FALSE
INVARIANTS TypeOK CallbackOnce RightOutcome HelperFreedOnce ConvertedValueOrException PublishedResumable ArgsAsPassed NoStuckState
PROPERTIES FreedByCompletion AllComplete
CHECK_DEADLOCK FALSE
