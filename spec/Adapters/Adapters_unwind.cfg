SPECIFICATION Spec
CONSTANTS
  Ads = {"mkprom", "cbawait", "callfn", "conv_mem"}
  Allocs = {"heap"}
  Grain = "call"
  Ctxs = {"plain"}
  ArgKinds = {"temp"}
  Res = {"r1"}
  Outcomes = {"val", "exc", "drop"}
  MaxRounds = 1
  FixVoidSrc = TRUE
  ArmLate = {}
  RegCtxs = {"plain", "guard", "handler"}
  ResCtxs = {"plain", "guard", "handler", "scope", "local"}
  FactoryFail = {}
  SkipUnwinding = {"mkprom"}
  ArgsByRef = FALSE
INVARIANTS TypeOK CallbackOnce RightOutcome HelperFreedOnce ConvertedValueOrException PublishedResumable ArgsAsPassed NoStuckState
CHECK_DEADLOCK FALSE
