SPECIFICATION Spec
CONSTANTS
  Ads = {"conv_mem_v", "conv_pp_v"}
  Allocs = {"heap"}
  Grain = "call"
  Res = {"r1"}
  Outcomes = {"val", "exc", "drop"}
  MaxRounds = 1
  FixVoidSrc = FALSE
INVARIANTS TypeOK CallbackOnce RightOutcome HelperFreedOnce ConvertedValueOrException NoStuckState
CHECK_DEADLOCK FALSE
