SPECIFICATION Spec
CONSTANTS
  Ads = {"conv_mem_v", "conv_pp_v"}
  Allocs = {"heap"}
  Grain = "call"
  Ctxs = {"plain"}
  ArgKinds = {"temp"}
  Res = {"r1"}
  Outcomes = {"val", "exc", "drop"}
  MaxRounds = 1
  FixVoidSrc = FALSE
  ArmLate = {}
  RegCtxs = {"plain"}
  ResCtxs = {"plain"}
  FactoryFail = {}
  SkipUnwinding = {}
  ArgsByRef = FALSE
INVARIANTS TypeOK CallbackOnce RightOutcome HelperFreedOnce ConvertedValueOrException PublishedResumable ArgsAsPassed NoStuckState
CHECK_DEADLOCK FALSE
