SPECIFICATION Spec
CONSTANTS
  Ads = {"discard"}
  Allocs = {"heap"}
  Grain = "fine"
  Ctxs = {"plain"}
  ArgKinds = {"temp"}
  Res = {"r1"}
  Outcomes = {"val", "exc", "drop"}
  MaxRounds = 1
  FixVoidSrc = TRUE
  ArmLate = {"discard"}
  RegCtxs = {"plain"}
  ResCtxs = {"plain"}
  FactoryFail = {}
  SkipUnwinding = {}
  ArgsByRef = FALSE
INVARIANTS TypeOK CallbackOnce RightOutcome HelperFreedOnce ConvertedValueOrException PublishedResumable ArgsAsPassed NoStuckState
CHECK_DEADLOCK FALSE
