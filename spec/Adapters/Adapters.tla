------------------------------ MODULE Adapters ------------------------------
(***************************************************************************)
(* Callback adapters of cocls (property C18):                              *)
(*                                                                         *)
(*   cbawait     callback_await / callback_await_alloc<future<int>>        *)
(*   cbawait_v   the same on a future<void> (await_result<void> branch)    *)
(*                                   src/cocls/callback_awaiter.h:68-150   *)
(*   mkprom      make_promise (heap / storage)     src/cocls/future.h:878-950 *)
(*   discard     discard(fn)                       src/cocls/future.h:968-991 *)
(*   callfn      call_fn_future_awaiter            src/cocls/future.h:1026-1062 *)
(*   conv_X      the six future_conv forms         src/cocls/future_conv.h *)
(*     conv_mem      member function  To Ctx::fn(From &)          :56-75        *)
(*     conv_mem_v    member function  To Ctx::fn()  (From = void) :77-95        *)
(*     conv_pp       member function  suspend_point<void> Ctx::fn(From &, promise<To> &) :98-111 *)
(*     conv_pp_v     member function  suspend_point<void> Ctx::fn(promise<To> &)  :112-125 *)
(*     conv_free     free function    To fn(From &)               :127-144      *)
(*     conv_free_ctx free function    To fn(From &, Ctx ptr)      :146-159      *)
(*                                                                         *)
(* Every adapter owns a helper object which registers itself in the chain  *)
(* of the awaited future and completes ("fires") exactly when the future   *)
(* is resolved:                                                            *)
(*   cbawait   detached coroutine frame (allocated through the storage),   *)
(*             registers by co_await: await_ready() then subscribe CAS     *)
(*   mkprom    future_with_cb: IS the awaited future, placed in its own    *)
(*             chain by the constructor (future.h:884); fire = call, delete*)
(*   discard   heap awaiter holding the future; fire = delete              *)
(*   callfn    member future + awaiter (not allocated, reusable)           *)
(*   conv_*    member future + parked outer promise `_prom` (reusable)     *)
(*                                                                         *)
(* The awaited future follows the protocol of spec/Future/Future.tla,      *)
(* restricted to what the adapters use (one subscriber):                   *)
(*   owner     promise::_owner                "none" | "fut" | "null"      *)
(*   slot      future::_awaiter  "none" | "null" | "helper" | "ready"      *)
(*   tag,payload  future::_state and the stored value / exception          *)
(* with the atomic operations                                              *)
(*   Claim(r)  promise::claim        _owner.exchange(nullptr)   future.h:697 (+ future::set) *)
(*   Swap(r)   resume_chain_set_ready  chain.exchange(&disabled) + chain walk  awaiter.h:101-110 *)
(*   Check     co_awaiter::await_ready  _awaiter.load(acquire)  future.h:160 *)
(*   Cas       subscribe_check_ready  compare_exchange          awaiter.h:124 *)
(*   Fence     subscribe_check_ready  refused: fence, return false  awaiter.h:129 *)
(*                                                                         *)
(* The state is ONE record `s` and every atomic operation is a FUNCTION on *)
(* that record (ClaimF, SwapF, CheckF, CasF, FenceF, StartRound).  Two     *)
(* grains of actions are built from the same functions:                    *)
(*   Grain = "atomic"  one action per atomic operation: all interleavings  *)
(*                     of the registering thread "a" with the resolver     *)
(*                     thread(s) (replayed on real threads under vsched)   *)
(*   Grain = "fine"    the finest grain vsched can replay (yield_after):   *)
(*                     every atomic operation X is a step of its own (XOp) *)
(*                     and the plain code that follows it up to the next   *)
(*                     atomic operation is a step of its own (XLoc, action *)
(*                     PostX): plain code on the wrong side of an atomic   *)
(*                     operation (arming the helper after the publishing   *)
(*                     CAS) is exposed to the other thread in between.     *)
(*                     The atomic-grain functions ARE XLoc(XOp(..)).       *)
(*   Grain = "call"    one action per public call of a single thread:      *)
(*                     Register(timing,outcome,context) / Resolve(outcome, *)
(*                     context) are the compositions of the atomic         *)
(*                     functions in the only order a single thread can     *)
(*                     execute them                                        *)
(* Calling context (par.ctx, call grain): "plain" = ordinary code, "coro" = *)
(* from inside a running coroutine (coro_queue active).  There the helper  *)
(* coroutine of callback_await is only QUEUED by detach() (suspend_point.h *)
(* :130-135) and starts when the caller suspends/finishes (action Yield);  *)
(* its resumption after the awaited future resolved is queued likewise.    *)
(* The awaitable is built when the helper starts, from the helper's own    *)
(* copies of the arguments (callback_awaiter.h:69 takes them by value):    *)
(* par.argk says how the caller passed them (temporary / lvalue / moved    *)
(* named object); ArgsAsPassed demands they equal what was passed.         *)
(* The static choices (adapter, allocator, converter behaviour, ...) are   *)
(* the record `par`, picked in Init: one TLC run covers all combinations.  *)
(*                                                                         *)
(* Execution context of a thread (s.cx[thread]): WHERE in the user's       *)
(* program the registering call / the resolution of the promise happens:   *)
(*   "plain"    ordinary control flow, the promise is called               *)
(*   "guard"    in the destructor of an RAII guard that runs because an    *)
(*              exception is propagating (std::uncaught_exceptions() > 0)  *)
(*   "handler"  inside a catch handler (std::current_exception() is set;   *)
(*              an exception outcome is the handled exception itself:      *)
(*              p(std::current_exception()) / p.unhandled_exception())     *)
(*   "scope"    (resolution only) the promise is never called: it is       *)
(*              destroyed at the end of its scope -> broken promise        *)
(*   "local"    (resolution only) the same, but the scope is left by an    *)
(*              exception: the promise is a local destroyed by unwinding   *)
(* In the last two the future is resolved by ~promise (future.h:600-603:   *)
(* plain load of _owner, then resolve(); not an exchange, so legal only    *)
(* while no other thread uses the promise).  The property does not depend  *)
(* on the context: no action looks at it, CallbackOnce / RightOutcome /    *)
(* HelperFreedOnce must hold in every one of them.  (Only the seeded       *)
(* variant SkipUnwinding, a property self-test, looks at it.)              *)
(***************************************************************************)
EXTENDS Integers, Sequences, FiniteSets, TLC

CONSTANTS
    Ads,         \* adapters under test
    Allocs,      \* allocator choices of the allocating adapters: "heap" "reusable" "mtsafe" "counting"
    Grain,       \* "call" | "atomic" | "fine"
    Ctxs,        \* calling contexts: "plain" (ordinary code) "coro" (inside a running coroutine; call grain only)
    ArgKinds,    \* how callback_await's awaitable-constructor argument is passed: "temp" "lvalue" "moved"
    Res,         \* resolver threads, subset of {"r1","r2"}
    Outcomes,    \* subset of {"val","exc","drop"}
    MaxRounds,   \* awaited operations per scenario (reuse of the helper / of the storage)
    FixVoidSrc,  \* TRUE: the void-source converters propagate the source's exception / broken promise
                 \* (repaired, /repo commit 51599f2); FALSE: future_conv.h as pinned (they never look at the source)
    ArmLate,     \* {} as the code is.  Seeded variant (self-test): adapters that store the helper's resume
                 \* function AFTER the publishing CAS instead of before it
    ArgsByRef,   \* FALSE as the code is.  Seeded variant (self-test): the helper coroutine keeps references
                 \* to the caller's arguments instead of copies
    RegCtxs,     \* execution contexts of the registering call, subset of {"plain","guard","handler"}
    ResCtxs,     \* execution contexts of the resolution, subset of {"plain","guard","handler","scope","local","assign"}
    FactoryFail, \* {"fthrow"} | {}: the factory given to `adapter << factory` throws instead of returning a future
                 \* (future::result_of, future.h:299-304: the exception becomes the operation's outcome)
    SkipUnwinding \* {} as the code is.  Seeded variant (self-test): adapters whose completion does not enter the
                 \* user's callback while an exception is propagating in the completing thread

VARIABLES par, s
vars == <<par, s>>

ConvValue == {"conv_mem", "conv_mem_v", "conv_free", "conv_free_ctx"}    \* converter returns To
ConvPP    == {"conv_pp", "conv_pp_v"}                                    \* converter receives promise<To> &
Conv      == ConvValue \cup ConvPP
VoidSrc   == {"cbawait_v", "conv_mem_v", "conv_pp_v"}                    \* awaited future is future<void>
HasToVoid == {"conv_mem", "conv_mem_v", "conv_free"}                     \* forms with the is_void_v<To> branch
Functor   == {"cbawait", "cbawait_v", "mkprom"}                          \* helper stores the user's functor
Allocating == Functor                                                    \* helper allocated through a chosen storage
Coroutine == {"cbawait", "cbawait_v"}                                    \* registers through co_await
Callback  == Functor \cup {"callfn"}                                     \* completion = call of a user callback

Threads   == Res \cup {"a"}
DtorCtx   == {"scope", "local"}              \* the future is resolved by ~promise (future.h:600-603)
Unwinding(st, th) == st.cx[th] \in {"guard", "local"}     \* std::uncaught_exceptions() > 0 in thread th
(* a resolution by outcome o in context x is a legal use of the library *)
LegalRes(o, x) == /\ x \in DtorCtx => (o = "drop" /\ Cardinality(Res) = 1)
                  \* "assign": another promise (empty / of another future) is move-assigned into the promise variable
                  \* while it still holds the unresolved target: promise::operator=(promise &&), future.h:608-614,
                  \* drops the held target first (set_value(drop): claim exchange + resolve, as "plain" drop)
                  /\ x = "assign" => (o = "drop" /\ Cardinality(Res) = 1)
ASSUME RegCtxs \subseteq {"plain", "guard", "handler"} /\ ResCtxs \subseteq {"plain", "guard", "handler", "scope", "local", "assign"}

(* cv: what the user's converter does.  ok: converts (x+100) / resolves the passed promise; throw: throws;
   ignore: promise-passing converter returns without touching the promise; later: it moves the promise
   away and resolves it afterwards (UserResolve).
   tovoid: To = void.  reg: `outer = conv << fn` (ret) or `conv(std::move(prom)) << fn` (hlp). *)
Params ==
    {p \in [ad : Ads, alloc : Allocs \cup {"na"}, cv : {"na", "ok", "throw", "ignore", "later"},
            tovoid : BOOLEAN, reg : {"na", "ret", "hlp"}, ctx : Ctxs, argk : ArgKinds \cup {"na"}] :
        /\ (p.ad \in Allocating) = (p.alloc # "na")
        /\ (p.ad \in Coroutine) = (p.argk # "na")
        /\ p.ad \in ConvValue => p.cv \in {"ok", "throw"}
        /\ p.ad \in ConvPP => p.cv \in {"ok", "throw", "ignore", "later"}
        /\ p.ad \notin Conv => p.cv = "na"
        /\ p.tovoid => p.ad \in HasToVoid
        /\ (p.ad \in Conv) = (p.reg # "na")}

NoGot == [tag |-> "none", v |-> 0]
S0 == [round |-> 0,
       \* awaited future / its promise
       owner |-> "none", slot |-> "none", tag |-> "none", payload |-> 0,
       \* threads: the registering thread and the resolvers
       apc |-> "idle", rpc |-> [r \in Res |-> "idle"], rres |-> [r \in Res |-> "none"], rk |-> [r \in Res |-> "none"],
       cx |-> [t \in Threads |-> "plain"],     \* execution context of the thread's current call
       \* locals of a thread between an atomic operation and the plain code after it (fine grain)
       sawready |-> FALSE, casok |-> FALSE, won |-> [r \in Res |-> FALSE], chain |-> [r \in Res |-> "null"],
       armed |-> FALSE,   \* the helper's awaiter node has its resume function / coroutine handle set
       \* ready queue of the calling thread (ctx = "coro"): the helper coroutine's start / resumption
       q |-> "none", qpre |-> "none",
       badargs |-> 0,     \* awaitables built from arguments that differ from the ones passed
       \* helper block: abstract life cycle and what can be observed of it
       hlive |-> 0, hallocs |-> 0, hfrees |-> 0,
       heap |-> 0,        \* live blocks obtained from ::operator new by library code
       news |-> 0,        \* cumulative number of those allocations
       blk |-> 0,         \* reusable_storage[_mtsafe] owns a cached block (counted in heap)
       busy |-> FALSE,    \* reusable_storage_mtsafe::_busy
       fb |-> 0,          \* mtsafe: helper lives in a heap fall-back block (storage was busy)
       stA |-> 0, stD |-> 0,   \* counting storage: alloc / dealloc calls
       cb |-> 0,          \* live instances of the user's functor owned by the helper
       \* completion
       fired |-> 0, calls |-> 0, got |-> NoGot, by |-> "none",
       \* converters
       prom |-> "null", outer |-> [st |-> "none", v |-> 0], user |-> "none"]

(* atomic / fine grain: what every thread is going to do (outcome, context) is fixed at the start *)
Progs == {kx \in [Res -> Outcomes] \X [Threads -> RegCtxs \cup ResCtxs] :
            /\ kx[2]["a"] \in RegCtxs
            /\ \A r \in Res : kx[2][r] \in ResCtxs /\ LegalRes(kx[1][r], kx[2][r])}
Init == /\ par \in Params
        /\ s \in IF Grain \in {"atomic", "fine"} THEN {[S0 EXCEPT !.rk = kx[1], !.cx = kx[2]] : kx \in Progs} ELSE {S0}

Idx(r) == IF r = "r1" THEN 1 ELSE 2
ValOf(st, r) == IF par.ad \in VoidSrc THEN 0 ELSE 10 * st.round + Idx(r)
ExcOf(st, r) == 10 * st.round + Idx(r)

(* what a consumer of the awaited future obtains: value v, exception v, or the broken-promise state *)
Result(st) == [tag |-> IF st.tag = "none" THEN "drop" ELSE st.tag, v |-> st.payload]

-----------------------------------------------------------------------------
(* helper block *)

OnHeap == par.ad = "discard" \/ par.alloc = "heap"

(* callback_await: frame through Alloc::alloc (with_allocator.h:21); make_promise: new / new(storage)
   (future.h:941,948); discard: new Awt (future.h:989); coro_storage.h:48-55,155-165 *)
AllocHelper(st) ==
    LET s1 == [st EXCEPT !.hlive = 1, !.hallocs = @ + 1, !.cb = IF par.ad \in Functor THEN 1 ELSE 0] IN
    CASE OnHeap -> [s1 EXCEPT !.heap = @ + 1, !.news = @ + 1]
      [] par.alloc = "reusable" -> [s1 EXCEPT !.heap = @ + (1 - st.blk), !.news = @ + (1 - st.blk), !.blk = 1]
      [] par.alloc = "mtsafe" ->
            IF st.busy THEN [s1 EXCEPT !.heap = @ + 1, !.news = @ + 1, !.fb = 1]
            ELSE [s1 EXCEPT !.heap = @ + (1 - st.blk), !.news = @ + (1 - st.blk), !.blk = 1, !.busy = TRUE]
      [] par.alloc = "counting" -> [s1 EXCEPT !.stA = @ + 1]

(* final_awaiter: me.destroy() (async.h:227) / delete _this (future.h:888, 981) -> Alloc::dealloc *)
FreeHelper(st) ==
    LET s1 == [st EXCEPT !.hlive = 0, !.hfrees = @ + 1, !.cb = 0] IN
    CASE OnHeap -> [s1 EXCEPT !.heap = @ - 1]
      [] par.alloc = "reusable" -> s1
      [] par.alloc = "mtsafe" -> IF st.fb = 1 THEN [s1 EXCEPT !.heap = @ - 1, !.fb = 0] ELSE [s1 EXCEPT !.busy = FALSE]
      [] par.alloc = "counting" -> [s1 EXCEPT !.stD = @ + 1]

-----------------------------------------------------------------------------
(* completion *)

CvBase(st, res) == IF par.ad \in VoidSrc THEN 10 * st.round ELSE res.v

(* resume function of future_conv: p = std::move(_prom); try { p(fn(_fut.value())) } catch (...) { p(current_exception()) }
   reading the source future rethrows the source's exception, await_canceled_exception for a broken promise (future.h:338-346). *)
Convert(st, res, th) ==
    LET s1 == [st EXCEPT !.prom = "null"]
        looks == par.ad \notin VoidSrc \/ FixVoidSrc
    IN  IF looks /\ res.tag = "exc" THEN [s1 EXCEPT !.outer = [st |-> "excsrc", v |-> res.v]]
        ELSE IF looks /\ res.tag = "drop" THEN [s1 EXCEPT !.outer = [st |-> "canceled", v |-> 0]]
        ELSE LET base == CvBase(st, res)
                 s2 == [s1 EXCEPT !.calls = @ + 1, !.by = th,
                                  !.got = IF par.ad \in VoidSrc THEN [tag |-> "called", v |-> 0] ELSE res]
             IN  CASE par.cv = "ok" -> [s2 EXCEPT !.outer = [st |-> "val", v |-> IF par.tovoid THEN 0 ELSE base + 100]]
                   [] par.cv = "throw" -> [s2 EXCEPT !.outer = [st |-> "exccv", v |-> base]]
                   [] par.cv = "ignore" -> [s2 EXCEPT !.outer = [st |-> "drop", v |-> 0]]   \* ~promise of the local p
                   [] par.cv = "later" -> [s2 EXCEPT !.user = "held"]

(* the helper's completion runs on thread th, in whatever context th is executing *)
Fire(st, th) ==
    LET res == Result(st)
        s1 == [st EXCEPT !.fired = @ + 1]
        skip == par.ad \in SkipUnwinding /\ Unwinding(st, th)      \* seeded variant only
        s2 == IF skip THEN s1 ELSE [s1 EXCEPT !.calls = @ + 1, !.got = res, !.by = th] IN
    CASE par.ad \in Functor -> FreeHelper(s2)
      [] par.ad = "discard" -> FreeHelper(s1)
      [] par.ad = "callfn"  -> s2
      [] OTHER -> IF skip THEN s1 ELSE Convert(s1, res, th)

-----------------------------------------------------------------------------
(* the atomic operations as functions on the state *)

RoundDone(st) == /\ st.apc \in {"idle", "done"} /\ st.q = "none"
                 /\ \A r \in Res : st.rpc[r] \in {"idle", "done"}
                 /\ st.round > 0 => st.fired = 1
                 /\ st.user # "held"
CanStart(st) == RoundDone(st) /\ st.round < MaxRounds

(* the registration call up to its first atomic operation on the awaited future, in two parts:
   StartAlloc  the helper is allocated (callback_await: frame + the helper's copies of functor and arguments)
   StartBuild  the awaitable is built: future created, promise handed out.  make_promise has no registration:
               the helper sits in the chain from birth.  Hand-made awaiters are armed here, BEFORE the CAS
               (future.h:885,975,1034; future_conv.h constructors); co_await arms in await_suspend (CheckLoc). *)
StartAlloc(st) ==
    LET s1 == [st EXCEPT !.round = @ + 1, !.owner = "none", !.slot = "none", !.tag = "none", !.payload = 0, !.fired = 0,
                         !.rpc = [r \in Res |-> "idle"], !.rres = [r \in Res |-> "none"], !.apc = "queued"]
    IN  IF par.ad \in Allocating \cup {"discard"} THEN AllocHelper(s1) ELSE s1

Dangling == ArgsByRef /\ par.ctx = "coro" /\ par.argk \in {"temp", "moved"}

StartBuild(st) ==
    LET s1 == [st EXCEPT !.owner = "fut",
                         !.slot = IF par.ad = "mkprom" THEN "helper" ELSE "null",
                         !.armed = par.ad \notin Coroutine /\ par.ad \notin ArmLate,
                         !.rpc = [r \in Res |-> "claim"],
                         !.apc = IF par.ad = "mkprom" THEN "done" ELSE IF par.ad \in Coroutine THEN "check" ELSE "cas",
                         !.badargs = IF par.ad \in Coroutine /\ Dangling THEN @ + 1 ELSE @]
    IN  IF par.ad \in Conv
          THEN [s1 EXCEPT !.prom = "outer", !.outer = [st |-> "pending", v |-> 0], !.user = "none"]
          ELSE s1

StartRound(st) == StartBuild(StartAlloc(st))

(* The two halves of every atomic operation: XOp performs the operation and remembers what it observed in a
   local; XLoc is the plain code up to the thread's next atomic operation (locals are reset to their idle
   values there, so the coarser grains do not see them). *)

(* promise::claim: _owner.exchange(nullptr); the winner's future::set (plain stores) follows.
   ~promise (future.h:600-603) only loads _owner; the word disappears with the promise (SwapLoc) *)
ClaimOp(st, r) == IF st.cx[r] \in DtorCtx
                    THEN [st EXCEPT !.won[r] = (st.owner = "fut"), !.rpc[r] = "post_claim"]
                    ELSE [st EXCEPT !.won[r] = (st.owner = "fut"), !.owner = "null", !.rpc[r] = "post_claim"]
ClaimLoc(st, r) ==
    IF st.won[r]
      THEN LET k == st.rk[r] IN
           [st EXCEPT !.won[r] = FALSE,
                      !.tag = IF k = "drop" THEN "none" ELSE k,
                      !.payload = IF k = "val" THEN ValOf(st, r) ELSE IF k = "exc" THEN ExcOf(st, r) ELSE 0,
                      !.rpc[r] = "swap"]
      ELSE [st EXCEPT !.rpc[r] = "done", !.rres[r] = "false"]
ClaimF(st, r) == ClaimLoc(ClaimOp(st, r), r)

(* a coroutine helper resumed from inside a running coroutine is only queued (suspend_point.h:132-135) *)
Deferred == par.ctx = "coro" /\ par.ad \in Coroutine

(* resolving exchange; then the chain walk: resume() of the detached node calls whatever resume function the
   node has at that moment -- awaiter::null_fn (nothing happens, ever) if it was published unarmed *)
SwapOp(st, r) == [st EXCEPT !.chain[r] = IF st.slot = "helper" THEN "helper" ELSE "null", !.slot = "ready",
                            !.rpc[r] = "post_swap"]
SwapLoc(st, r) ==
    LET s1 == [st EXCEPT !.chain[r] = "null", !.rpc[r] = "done", !.rres[r] = "true",
                         !.owner = IF st.cx[r] \in DtorCtx THEN "none" ELSE @] IN
    IF st.chain[r] # "helper" \/ ~st.armed THEN s1
    ELSE IF Deferred THEN [s1 EXCEPT !.q = "resume"]
    ELSE Fire(s1, r)
SwapF(st, r) == SwapLoc(SwapOp(st, r), r)

(* co_awaiter::await_ready, then (not ready) await_suspend: set_handle (awaiter.h:184-187) *)
CheckOp(st) == [st EXCEPT !.sawready = (st.slot = "ready"), !.apc = "post_check"]
CheckLoc(st) == IF st.sawready THEN Fire([st EXCEPT !.sawready = FALSE, !.apc = "done"], "a")
                ELSE [st EXCEPT !.apc = "cas", !.armed = TRUE]
CheckF(st) == CheckLoc(CheckOp(st))

(* subscribe_check_ready: the CAS publishes the node; refused: _next = nullptr, fence *)
CasOp(st) == IF st.slot = "null" THEN [st EXCEPT !.slot = "helper", !.casok = TRUE, !.apc = "post_cas"]
             ELSE [st EXCEPT !.casok = FALSE, !.apc = "post_cas"]
CasLoc(st) == IF st.casok THEN [st EXCEPT !.casok = FALSE, !.apc = "done", !.armed = @ \/ par.ad \in ArmLate]
              ELSE [st EXCEPT !.apc = "fence"]
CasF(st) == CasLoc(CasOp(st))

(* refused registration: the registering thread runs the completion itself *)
FenceOp(st) == [st EXCEPT !.apc = "post_fence"]
FenceLoc(st) == Fire([st EXCEPT !.apc = "done", !.armed = @ \/ par.ad \in ArmLate], "a")
FenceF(st) == FenceLoc(FenceOp(st))

AStep(st) == CASE st.apc = "check" -> CheckF(st) [] st.apc = "cas" -> CasF(st) [] st.apc = "fence" -> FenceF(st)
RECURSIVE RunA(_)
RunA(st) == IF st.apc \in {"check", "cas", "fence"} THEN RunA(AStep(st)) ELSE st

(* call grain: the whole resolution in context x; the context is left when the call returns *)
ResolveF(st, o, x) ==
    LET s1 == SwapF(ClaimF([st EXCEPT !.rk["r1"] = o, !.cx["r1"] = x], "r1"), "r1") IN [s1 EXCEPT !.cx["r1"] = "plain"]

-----------------------------------------------------------------------------
(* Grain = "call": single thread *)

(* t = "before": the operation completes inside the function that starts it (the promise is resolved
   before the adapter subscribes); t = "after": it is still pending when the registration returns.
   x: the context the registering call is made in (the starting function runs nested in it) *)
BuildAndRun(st, o, x) == RunA(IF o # "none" THEN ResolveF(StartBuild(st), o, x) ELSE StartBuild(st))

Register(t, o, x) ==
    /\ Grain = "call" /\ CanStart(s)
    /\ (t = "before") = (o # "none")
    /\ par.ad = "mkprom" => t = "after"
    /\ o = "fthrow" => par.ad \in Conv \cup {"callfn"}      \* the `<<` forms (future.h:1049, future_conv.h)
    /\ LET s0 == [StartAlloc(s) EXCEPT !.cx["a"] = x]
           \* a throwing factory IS an operation resolved with that exception before the adapter subscribes
           oo == IF o = "fthrow" THEN "exc" ELSE o
           s1 == IF Deferred THEN [s0 EXCEPT !.q = "start", !.qpre = o]    \* detach(): helper queued
                 ELSE BuildAndRun(s0, oo, x)
       IN  s' = [s1 EXCEPT !.cx["a"] = "plain"]
    /\ UNCHANGED par

(* the calling coroutine suspends (or finishes): the thread's ready queue runs the helper coroutine *)
Yield ==
    /\ Grain = "call" /\ s.q # "none"
    /\ s' = IF s.q = "start" THEN BuildAndRun([s EXCEPT !.q = "none", !.qpre = "none"], s.qpre, "plain")
            ELSE Fire([s EXCEPT !.q = "none"], "a")
    /\ UNCHANGED par

Resolve(o, x) ==
    /\ Grain = "call" /\ s.owner = "fut" /\ s.apc = "done"
    /\ LegalRes(o, x)
    /\ s' = ResolveF(s, o, x)
    /\ UNCHANGED par

(* Grain = "atomic" *)
Start == Grain = "atomic" /\ CanStart(s) /\ s' = StartRound(s) /\ UNCHANGED par
Check == Grain = "atomic" /\ s.apc = "check" /\ s' = CheckF(s) /\ UNCHANGED par
Cas   == Grain = "atomic" /\ s.apc = "cas" /\ s' = CasF(s) /\ UNCHANGED par
Fence == Grain = "atomic" /\ s.apc = "fence" /\ s' = FenceF(s) /\ UNCHANGED par
Claim(r) == Grain = "atomic" /\ s.rpc[r] = "claim" /\ s' = ClaimF(s, r) /\ UNCHANGED par
Swap(r)  == Grain = "atomic" /\ s.rpc[r] = "swap" /\ s' = SwapF(s, r) /\ UNCHANGED par

(* Grain = "fine": the operation (same action names) and the plain code after it (PostX) *)
FStart == Grain = "fine" /\ CanStart(s) /\ s' = StartRound(s) /\ UNCHANGED par
FCheck == Grain = "fine" /\ s.apc = "check" /\ s' = CheckOp(s) /\ UNCHANGED par
PostCheck == Grain = "fine" /\ s.apc = "post_check" /\ s' = CheckLoc(s) /\ UNCHANGED par
FCas == Grain = "fine" /\ s.apc = "cas" /\ s' = CasOp(s) /\ UNCHANGED par
PostCas == Grain = "fine" /\ s.apc = "post_cas" /\ s' = CasLoc(s) /\ UNCHANGED par
FFence == Grain = "fine" /\ s.apc = "fence" /\ s' = FenceOp(s) /\ UNCHANGED par
PostFence == Grain = "fine" /\ s.apc = "post_fence" /\ s' = FenceLoc(s) /\ UNCHANGED par
FClaim(r) == Grain = "fine" /\ s.rpc[r] = "claim" /\ s' = ClaimOp(s, r) /\ UNCHANGED par
PostClaim(r) == Grain = "fine" /\ s.rpc[r] = "post_claim" /\ s' = ClaimLoc(s, r) /\ UNCHANGED par
FSwap(r) == Grain = "fine" /\ s.rpc[r] = "swap" /\ s' = SwapOp(s, r) /\ UNCHANGED par
PostSwap(r) == Grain = "fine" /\ s.rpc[r] = "post_swap" /\ s' = SwapLoc(s, r) /\ UNCHANGED par

(* the promise-passing converter kept the outer promise (cv = "later") and resolves it now *)
UserResolve ==
    /\ s.user = "held"
    /\ s' = [s EXCEPT !.user = "done", !.outer = [st |-> "val", v |-> CvBase(s, Result(s)) + 100]]
    /\ UNCHANGED par

Next == \/ \E t \in {"before", "after"}, o \in Outcomes \cup {"none"} \cup FactoryFail, x \in RegCtxs : Register(t, o, x)
        \/ \E o \in Outcomes, x \in ResCtxs : Resolve(o, x)
        \/ Yield
        \/ Start \/ Check \/ Cas \/ Fence
        \/ \E r \in Res : Claim(r) \/ Swap(r)
        \/ FStart \/ FCheck \/ PostCheck \/ FCas \/ PostCas \/ FFence \/ PostFence
        \/ \E r \in Res : FClaim(r) \/ PostClaim(r) \/ FSwap(r) \/ PostSwap(r)
        \/ UserResolve

Spec == Init /\ [][Next]_vars /\ WF_vars(Next)

-----------------------------------------------------------------------------
(* Properties (C18) *)

TypeOK ==
    /\ s.round \in 0..MaxRounds
    /\ s.owner \in {"none", "fut", "null"}
    /\ s.slot \in {"none", "null", "helper", "ready"}
    /\ s.tag \in {"none", "val", "exc"}
    /\ s.apc \in {"idle", "queued", "check", "post_check", "cas", "post_cas", "fence", "post_fence", "done"}
    /\ \A r \in Res : s.rpc[r] \in {"idle", "claim", "post_claim", "swap", "post_swap", "done"}
    /\ s.q \in {"none", "start", "resume"}
    /\ Grain # "call" => par.ctx = "plain"
    /\ s.cx["a"] \in RegCtxs \cup {"plain"} /\ \A r \in Res : s.cx[r] \in ResCtxs \cup {"plain"}
    /\ Grain = "call" => \A t \in Threads : s.cx[t] = "plain"      \* between calls no context is open
    /\ s.hlive \in {0, 1} /\ s.heap \in 0..2 /\ s.blk \in {0, 1} /\ s.fb \in {0, 1} /\ s.cb \in {0, 1}
    /\ s.fired \in {0, 1}

Resolved == s.slot = "ready"
Registered == s.apc = "done"

(* the completion runs exactly once per awaited operation: never before the operation is resolved, never
   twice, and never zero times once the operation is resolved and the registration call has returned --
   in whatever execution context (s.cx) the registration and the resolution happen *)
CallbackOnce ==
    /\ s.fired <= 1
    /\ s.fired = 1 => Resolved
    /\ (Resolved /\ Registered /\ s.q = "none" /\ \A r \in Res : s.rpc[r] # "post_swap") => s.fired = 1
    /\ par.ad \in Callback => s.calls = (IF s.round = 0 THEN 0 ELSE s.round - 1 + s.fired)
    /\ par.ad \in Conv => s.calls <= (IF s.round = 0 THEN 0 ELSE s.round - 1 + s.fired)
    /\ par.ad = "discard" => s.calls = 0

(* exactly one resolver wins and the stored result is the winner's (C01, restated for the adapters) *)
WinnerOf(r) == /\ s.rk[r] = "val" => s.tag = "val" /\ s.payload = ValOf(s, r)
               /\ s.rk[r] = "exc" => s.tag = "exc" /\ s.payload = ExcOf(s, r)
               /\ s.rk[r] = "drop" => s.tag = "none"

(* the callback receives exactly the operation's value, its exception, or the broken-promise state *)
RightOutcome ==
    /\ Cardinality({r \in Res : s.rres[r] = "true"}) <= 1
    /\ \A r \in Res : s.rres[r] = "true" => WinnerOf(r)
    /\ (par.ad \in Callback /\ s.fired = 1) => s.got = Result(s)
    \* the completion runs on the registering thread (registration refused) or on the winner's thread
    /\ (par.ad \in Callback /\ s.fired = 1) => s.by \in {"a"} \cup {r \in Res : s.rres[r] = "true"}
    /\ (par.ad = "mkprom" /\ s.fired = 1) => s.by # "a"

(* a published node is resumable: whoever can reach the helper through the chain finds its resume function
   (or coroutine handle) set -- it is stored before the publishing CAS *)
PublishedResumable == s.slot = "helper" => s.armed

(* the awaitable is built from values equal to the ones passed, whenever the helper actually starts *)
ArgsAsPassed == s.badargs = 0

(* the helper block is released exactly once, by the completion; afterwards nothing is left *)
HelperFreedOnce ==
    /\ s.hfrees <= s.hallocs
    /\ s.hlive = s.hallocs - s.hfrees
    /\ par.ad \in Allocating \cup {"discard"} => s.hallocs = s.round /\ s.hlive = (IF s.round = 0 THEN 0 ELSE 1 - s.fired)
    /\ par.ad \notin Allocating \cup {"discard"} => s.hallocs = 0 /\ s.heap = 0 /\ s.news = 0
    /\ s.hlive = 0 => /\ s.heap = s.blk        \* only the block cached by a reusable storage remains
                      /\ s.stA = s.stD
                      /\ ~s.busy /\ s.fb = 0
                      /\ s.cb = 0
    /\ s.fb = 0                                \* the mt-safe storage is never found busy by the next operation
    /\ s.news <= 1 \/ OnHeap                   \* a storage allocates its block once

(* released only in a step that ran the completion (callback first, then the release: the order inside
   the step is checked on the implementation by the replayer) *)
FreedByCompletion ==
    [][s'.hfrees > s.hfrees =>
          /\ s'.hfrees = s.hfrees + 1
          /\ s'.fired = 1 /\ (s.fired = 0 \/ s'.round > s.round)
          /\ par.ad \in Functor => s'.calls = s.calls + 1]_vars

(* converters: the outer future receives the converted value, or the source's exception (broken promise:
   await_canceled_exception), or the converter's exception; the parked promise is consumed by the completion *)
ConvertedValueOrException ==
    par.ad \in Conv =>
        /\ s.round > 0 /\ s.fired = 0 => s.prom = "outer" /\ s.outer.st = "pending"
        /\ s.fired = 1 =>
            LET res == Result(s) IN
            /\ s.prom = "null"
            /\ res.tag = "exc" => s.outer = [st |-> "excsrc", v |-> res.v]
            /\ res.tag = "drop" => s.outer = [st |-> "canceled", v |-> 0]
            /\ res.tag = "val" =>
                /\ par.ad \notin VoidSrc => s.got = res
                /\ par.cv = "ok" => s.outer = [st |-> "val", v |-> IF par.tovoid THEN 0 ELSE CvBase(s, res) + 100]
                /\ par.cv = "throw" => s.outer = [st |-> "exccv", v |-> CvBase(s, res)]
                /\ par.cv = "ignore" => s.outer = [st |-> "drop", v |-> 0]
                /\ par.cv = "later" => \/ s.user = "held" /\ s.outer.st = "pending"
                                       \/ s.user = "done" /\ s.outer = [st |-> "val", v |-> CvBase(s, res) + 100]

(* the only terminal states are the completed ones: every started operation completed *)
NoStuckState == (~ ENABLED Next) => (RoundDone(s) /\ s.round = MaxRounds)

AllComplete == <>[](RoundDone(s) /\ s.round = MaxRounds)
=============================================================================
