\* the code as found in the pinned tree (all Fix* = FALSE): TLC reports a violation (NoDuplicate after 7 states:
\* subscribe, publish, read 1, ready() false, close, subscribe() false, check_next() delivers 1 again)
SPECIFICATION Spec
CONSTANTS
  NSubs = 1
  MinLen = 1
  MaxLen = 99
  Modes = {"all"}
  Styles = {"split", "poll"}
  MaxPub = 2
  MaxBatch = 1
  MinBatch = 1
  PubClosed = FALSE
  MaxAhead = 0
  MaxJoin = 1
  AtPos = {}
  MaxKick = 0
  Serial = TRUE
  CopyBusy = FALSE
  CopyWoken = FALSE
  Founders = {1, 2, 3, 4, 5}
  FixCloseRace = FALSE
  FixGetValue = FALSE
  FixBlocking = FALSE
  FixCopyParked = FALSE
  FixCopyOfWoken = FALSE
INVARIANTS NoDuplicate
CHECK_DEADLOCK FALSE
