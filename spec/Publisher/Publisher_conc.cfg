\* subscriber critical sections interleaved with the publisher's wake-up loop (TLC only, not replayed)
SPECIFICATION Spec
CONSTANTS
  NSubs = 2
  MinLen = 1
  MaxLen = 2
  Modes = {"all", "recent"}
  Styles = {"split"}
  MaxPub = 3
  MaxBatch = 2
  MinBatch = 1
  PubClosed = FALSE
  MaxAhead = 0
  MaxJoin = 2
  AtPos = {0}
  MaxKick = 1
  Serial = FALSE
  CopyBusy = FALSE
  CopyWoken = FALSE
  Founders = {1, 2, 3, 4, 5}
  FixCloseRace = TRUE
  FixGetValue = TRUE
  FixBlocking = TRUE
  FixCopyParked = TRUE
  FixCopyOfWoken = TRUE
INVARIANTS TypeOK WindowShape WindowSufficient GapFreeInOrder NoDuplicate SkipMonotone EOSOnlyWhen CloseWakesAll NoLostWaiter PosConsistent FreeListSound
PROPERTIES RecentIsNewest BehindSkipsOnlyDropped NotReadyOnlyWhen CopyIndependent GrowOnlyWhenFull
CHECK_DEADLOCK FALSE
