----------------------------- MODULE Publisher -----------------------------
(***************************************************************************)
(* cocls::publisher<T> / cocls::subscriber<T> (src/cocls/publisher.h) at   *)
(* critical-section grain (C16).                                           *)
(*                                                                         *)
(* The specification mirrors the data structure of publisher<T>::queue:    *)
(*   pos       _pos        next position to publish (starts at 1)          *)
(*   q         _q          retained window, most recent first              *)
(*   regs      _regs       registration array; a slot that is not used     *)
(*                         keeps the free-list link in its `pos` field     *)
(*   nextFree  _next_free  head of the free list (0-based slot index,      *)
(*                         >= Len(regs) means "empty")                     *)
(*   closed    _closed                                                     *)
(* Published values are their positions (1,2,3,...), so every observation  *)
(* of a subscriber is decidable against the stream.                        *)
(*                                                                         *)
(* subscriber::next() is modelled as the code performs it:                 *)
(*   Ready(s)      await_ready()  -> ready()  -> advance_lk          (CS 1)*)
(*   Subscribe(s)  await_suspend()-> subscribe() -> advance_suspend_lk     *)
(*                 (CS 2, scheduled separately from CS 1)                  *)
(*   Wake(s)       awaiter::resume() called by push_lk / kick_lk after     *)
(*                 they dropped the lock                                   *)
(*   Fetch(s)      await_resume() -> check_next() -> get_value_lk    (CS 3)*)
(* The whole-call forms (a real coroutine doing `co_await sub.next()` once *)
(* ("coro") or in a `while (co_await sub.next())` loop that goes on inside *)
(* the publisher's wake-up ("loop"), the blocking conversion               *)
(* `bool(sub.next())`, the polling `next_ready()`) are the same critical   *)
(* sections run back to back by one thread; they are separate actions      *)
(* (NextWhole, Poll) so that the real calls are replayed.                  *)
(*                                                                         *)
(* Genuine defects of the pinned tree are modelled behind boolean          *)
(* constants (TRUE = repaired behaviour, FALSE = the code as found):       *)
(*   FixCloseRace   publisher.h:223  advance_suspend_lk returned early on  *)
(*                  _closed without advancing: close() between ready() and *)
(*                  subscribe() re-delivers the previous value (or loses   *)
(*                  the last one).  Repaired: advance first, park only if  *)
(*                  not closed.                                            *)
(*   FixGetValue    publisher.h:232-250  get_value_lk did not leave the    *)
(*                  registration in step with what it returned: the        *)
(*                  skipping modes did not record the position of the      *)
(*                  value they deliver (the next call delivers it again),  *)
(*                  an all_values subscriber that fell out of the window   *)
(*                  was not dropped for good (a polled next simply walks   *)
(*                  on: gap without end of stream), and `_pos == l._pos`   *)
(*                  missed positions past the end (old value / read of an  *)
(*                  empty deque after a polled end of stream).             *)
(*   FixBlocking    publisher.h:442-448  next_awt::operator bool went      *)
(*                  through co_awaiter::wait(), which ends in value(), not *)
(*                  in check_next(): a blocking next() that waits returns  *)
(*                  bool(previous value).                                  *)
(*   FixCopyParked  publisher.h:188-191  the copy of a parked subscriber   *)
(*                  took the pre-incremented position and skipped a value. *)
(*   FixCopyOfWoken the same for a subscriber whose awaiter push_lk has    *)
(*                  already taken out for the wake-up and which has not    *)
(*                  fetched its value yet (copied by a waiter resumed      *)
(*                  earlier in the same wake-up loop, or by another        *)
(*                  thread): repaired by a `woken` bit in the registration *)
(*                  (set by push_lk, cleared by get_value_lk).             *)
(***************************************************************************)
EXTENDS Integers, Sequences, FiniteSets, TLC

CONSTANTS NSubs,        \* subscriber identities 1..NSubs (an identity can be reused after leave)
          MinLen,       \* _min_queue_len
          MaxLen,       \* _max_queue_len; 99 stands for "unlimited"
          Modes,        \* subset of {"all","behind","recent"} new subscribers may choose from
          Styles,       \* subset of {"split","coro","loop","block","poll"}: how next() is called
          MaxPub,       \* total number of values published
          MaxBatch,     \* largest batch of one publish call
          MinBatch,     \* smallest batch: 1, or 0 = publish(begin,end) with an empty range is among the calls
          PubClosed,    \* TRUE: publish is also called on a closed publisher (the values are appended, nobody can be parked)
          MaxAhead,     \* subscribe-at-position may name a position up to MaxAhead past the newest published one
          MaxJoin,      \* bound on subscribe events
          AtPos,        \* positions subscribe-at-position may use (those <= pos-1+MaxAhead)
          MaxKick,      \* bound on kick events
          Serial,       \* TRUE: the wake-ups of one publisher call directly follow its critical section
          Founders,     \* identities that may subscribe at the publisher (the others come into being as copies only)
          CopyBusy,     \* TRUE: a subscriber may be copied while it is parked
          CopyWoken,    \* TRUE: ... also after push_lk collected its awaiter and before it fetched the value:
                        \*       by a waiter resumed earlier in the same wake-up loop (PlanCopy / WakeCopy, Serial),
                        \*       or by another thread (PublisherConc)
          FixCloseRace, FixGetValue, FixBlocking, FixCopyParked, FixCopyOfWoken

VARIABLES pos, q, regs, nextFree, closed,
          pubAlive,     \* the publisher object exists (the queue outlives it through shared_ptr)
          wakeq,        \* awaiters collected by push_lk/kick_lk, to be resumed outside the lock
          pc, hnd, mode, recv, res, wakes,   \* per subscriber identity
          start, oow, wasKicked,             \* per subscriber ghosts
          left,                              \* some subscriber has been destroyed (its pointer is stale)
          plan,                              \* [st,a,c,o]: the resumption handler of waiter a will copy subscriber o into c
          njoin, nkick

vars == <<pos, q, regs, nextFree, closed, pubAlive, wakeq, pc, hnd, mode, recv, res, wakes, start, oow, wasKicked, left, plan, njoin, nkick>>
pubvars == <<pos, q, closed, pubAlive>>

Subs == 1..NSubs
Unlimited == 99
Huge == 1000            \* a size_t difference that wrapped around

Max2(a, b) == IF a > b THEN a ELSE b
Min2(a, b) == IF a < b THEN a ELSE b
SetMax(S) == CHOOSE x \in S : \A y \in S : y <= x

Parked == {"parked", "parked_c", "parked_l", "parked_b"}
WFetchPc == {"wfetch_c", "wfetch_l", "wfetch_b"}
Live(s) == pc[s] # "unborn"
Slot(s) == regs[hnd[s] + 1]
LastSeen(s) == IF recv[s] = <<>> THEN start[s] ELSE recv[s][Len(recv[s])]

NoPlan == [st |-> "none", a |-> 0, c |-> 0, o |-> 0]

(* a wake-up loop is in progress (Serial: nothing else may happen in between) *)
Busy == wakeq # <<>> \/ plan.st = "due" \/ \E s \in Subs : pc[s] \in WFetchPc
CanAct == Serial => ~Busy
PubFree == wakeq = <<>> /\ CanAct

Init == /\ pos = 1 /\ q = <<>> /\ regs = <<>> /\ nextFree = 0 /\ closed = FALSE /\ pubAlive = TRUE
        /\ wakeq = <<>>
        /\ pc = [s \in Subs |-> "unborn"]
        /\ hnd = [s \in Subs |-> 0]
        /\ mode = [s \in Subs |-> "all"]
        /\ recv = [s \in Subs |-> <<>>]
        /\ res = [s \in Subs |-> "none"]
        /\ wakes = [s \in Subs |-> 0]
        /\ start = [s \in Subs |-> 0]
        /\ oow = [s \in Subs |-> FALSE]
        /\ wasKicked = [s \in Subs |-> FALSE]
        /\ left = FALSE
        /\ plan = NoPlan
        /\ njoin = 0 /\ nkick = 0

-----------------------------------------------------------------------------
(* The three critical sections of next(), as functions of a registration record *)

(* advance_lk, publisher.h:202-219 *)
AdvanceLk(l, m) ==
    IF l.kicked THEN [ok |-> FALSE, l |-> l]
    ELSE IF l.pos + 1 = pos /\ ~closed THEN [ok |-> FALSE, l |-> l]
    ELSE [ok |-> TRUE,
          l |-> [l EXCEPT !.pos = CASE m = "all" -> l.pos + 1
                                    [] m = "behind" -> Max2(l.pos + 1, pos - Len(q))
                                    [] m = "recent" -> Max2(l.pos + 1, pos - 1)]]

(* advance_suspend_lk, publisher.h:221-231.  Pinned tree: `if (l._kicked || _closed) return false;`
   before the increment.  Repaired: advance first, park only if not closed. *)
AdvSuspendLk(l, s) ==
    IF FixCloseRace
      THEN IF l.kicked THEN [park |-> FALSE, l |-> l]
           ELSE IF l.pos + 1 = pos /\ ~closed
                  THEN [park |-> TRUE, l |-> [l EXCEPT !.pos = @ + 1, !.awt = s]]
                  ELSE [park |-> FALSE, l |-> [l EXCEPT !.pos = @ + 1]]
      ELSE IF l.kicked \/ closed THEN [park |-> FALSE, l |-> l]
           ELSE IF l.pos + 1 = pos
                  THEN [park |-> TRUE, l |-> [l EXCEPT !.pos = @ + 1, !.awt = s]]
                  ELSE [park |-> FALSE, l |-> [l EXCEPT !.pos = @ + 1]]

(* get_value_lk, publisher.h:232-252.  v = 0 stands for a read of _q[0] of an empty deque
   (undefined behaviour; reachable only in the unrepaired variants). *)
GetValueLk(lw, m) ==
    LET l == [lw EXCEPT !.woken = FALSE] IN       \* (repaired copy-of-woken: the value is being fetched now)
    IF l.kicked \/ (IF FixGetValue THEN l.pos >= pos ELSE l.pos = pos)
      THEN [eos |-> TRUE, v |-> 0, l |-> l]
      ELSE LET rel == IF l.pos > pos THEN Huge ELSE pos - l.pos - 1 IN
           CASE m = "all" ->
                  IF rel >= Len(q) THEN [eos |-> TRUE, v |-> 0, l |-> IF FixGetValue THEN [l EXCEPT !.kicked = TRUE] ELSE l]
                                   ELSE [eos |-> FALSE, v |-> q[rel + 1], l |-> l]
             [] m = "behind" ->
                  IF Len(q) = 0 THEN [eos |-> FALSE, v |-> 0, l |-> l]
                  ELSE LET r2 == IF rel >= Len(q) THEN Len(q) - 1 ELSE rel IN
                       [eos |-> FALSE, v |-> q[r2 + 1],
                        l |-> IF FixGetValue /\ rel >= Len(q) THEN [l EXCEPT !.pos = pos - 1 - r2] ELSE l]
             [] m = "recent" ->
                  IF Len(q) = 0 THEN [eos |-> FALSE, v |-> 0, l |-> l]
                  ELSE [eos |-> FALSE, v |-> q[1], l |-> IF FixGetValue THEN [l EXCEPT !.pos = pos - 1] ELSE l]

(* what the caller of next() observes and records: g is a GetValueLk result *)
Deliver(s, g) ==
    /\ regs' = [regs EXCEPT ![hnd[s] + 1] = g.l]
    /\ res' = [res EXCEPT ![s] = "none"]
    /\ wakes' = [wakes EXCEPT ![s] = 0]
    /\ IF g.eos
         THEN /\ pc' = [pc EXCEPT ![s] = "eos"]
              /\ UNCHANGED recv
         ELSE /\ pc' = [pc EXCEPT ![s] = "idle"]
              /\ recv' = [recv EXCEPT ![s] = Append(@, g.v)]

(* the unrepaired blocking conversion returns bool(value()) without check_next(): the caller sees
   its previous value again (`l` is the registration as left by the critical sections run so far) *)
DeliverStale(s, l) ==
    /\ regs' = [regs EXCEPT ![hnd[s] + 1] = l]
    /\ pc' = [pc EXCEPT ![s] = "idle"]
    /\ res' = [res EXCEPT ![s] = "none"]
    /\ wakes' = [wakes EXCEPT ![s] = 0]
    /\ recv' = [recv EXCEPT ![s] = Append(@, @[Len(@)])]

-----------------------------------------------------------------------------
(* subscribe_lk, publisher.h:166-183: take a slot from the free list or grow the array *)
JoinCore(s, p, m, st, ow) ==
    /\ pc[s] = "unborn"
    /\ LET grow == nextFree >= Len(regs)
           h == IF grow THEN Len(regs) ELSE nextFree
           rec == [pos |-> p, used |-> TRUE, kicked |-> FALSE, awt |-> 0, woken |-> FALSE]
       IN /\ regs' = IF grow THEN Append(regs, rec) ELSE [regs EXCEPT ![h + 1] = rec]
          /\ nextFree' = IF grow THEN Len(regs) + 1 ELSE regs[h + 1].pos
          /\ hnd' = [hnd EXCEPT ![s] = h]
    /\ pc' = [pc EXCEPT ![s] = "idle"]
    /\ mode' = [mode EXCEPT ![s] = m]
    /\ recv' = [recv EXCEPT ![s] = <<>>]
    /\ res' = [res EXCEPT ![s] = "none"]
    /\ wakes' = [wakes EXCEPT ![s] = 0]
    /\ start' = [start EXCEPT ![s] = st]
    /\ oow' = [oow EXCEPT ![s] = ow]
    /\ wasKicked' = [wasKicked EXCEPT ![s] = FALSE]
    /\ UNCHANGED <<pos, q, closed, pubAlive, wakeq, left, nkick>>

Join(s, p, m, st, ow) ==
    /\ njoin < MaxJoin /\ CanAct
    /\ plan.st = "none" \/ s # plan.c         \* the identity is reserved for the planned copy
    /\ JoinCore(s, p, m, st, ow)
    /\ njoin' = njoin + 1
    /\ UNCHANGED plan

(* subscriber(pub, type), publisher.h:402, 184-187 *)
SubscribeRecent(s, m) == pubAlive /\ s \in Founders /\ Join(s, pos - 1, m, pos - 1, FALSE)

(* subscriber(pub, pos, type), publisher.h:409; oow: the value after p is no longer retained.
   p >= pos (MaxAhead > 0): a position that is not published yet -- the subscriber starts with value p+1 once the
   stream has got there; until then push_lk's `_pos - x._pos` wraps around (NeedLen: Huge), i.e. nothing but the
   maximum trims the window *)
SubscribeAt(s, p, m) == pubAlive /\ s \in Founders /\ p <= pos - 1 + MaxAhead /\ Join(s, p, m, p, p + 1 < pos - Len(q))

(* a subscriber that stands at a position not published yet does not call next() before the stream has reached it
   (its registration says "caught up and more", which no branch of advance_lk is written for); after close / kick
   the call is the ordinary end of stream *)
NotAhead(s) == MaxAhead = 0 \/ closed \/ Slot(s).kicked \/ Slot(s).pos < pos

(* subscriber(const subscriber &), publisher.h:421, 188-191 *)
Woken(o) == pc[o] \in ({"fetch"} \cup WFetchPc) /\ wakes[o] = 1     \* resumed, value not fetched yet
Collected(o) == pc[o] \in Parked /\ \E i \in 1..Len(wakeq) : wakeq[i] = o   \* awaiter taken out, not resumed yet
CopyOK(o) ==
    /\ Live(o) /\ ~Slot(o).kicked
    /\ \/ pc[o] = "idle"
       \/ CopyBusy /\ pc[o] \in Parked /\ (CopyWoken \/ ~Collected(o))
       \/ CopyWoken /\ (pc[o] \in Parked \/ Woken(o))
CopyPos(o) ==
    IF (FixCopyParked /\ Slot(o).awt # 0) \/ (FixCopyOfWoken /\ Slot(o).woken) THEN Slot(o).pos - 1 ELSE Slot(o).pos
CopyCore(c, o) == CopyOK(o) /\ JoinCore(c, CopyPos(o), mode[o], LastSeen(o), oow[o])

SubscribeCopy(c, o) ==
    /\ CopyOK(o)
    /\ Join(c, CopyPos(o), mode[o], LastSeen(o), oow[o])

(* the program arranges that the resumption handler of the parked waiter a (a resumed coroutine, a callback)
   copies the parked subscriber o into c; the copy is made inside the publisher's wake-up loop (WakeCopy) *)
PlanCopy(a, c, o) ==
    /\ CopyWoken /\ Serial /\ CanAct /\ plan.st = "none" /\ njoin < MaxJoin
    /\ a # o /\ pc[a] = "parked" /\ pc[o] \in (Parked \ {"parked_b"}) /\ pc[c] = "unborn"
    /\ plan' = [st |-> "armed", a |-> a, c |-> c, o |-> o]
    /\ njoin' = njoin + 1
    /\ UNCHANGED <<pubvars, regs, nextFree, wakeq, pc, hnd, mode, recv, res, wakes, start, oow, wasKicked, left, nkick>>

WakeCopy ==
    /\ plan.st = "due"
    /\ plan' = NoPlan
    /\ IF CopyOK(plan.o)
         THEN CopyCore(plan.c, plan.o) /\ UNCHANGED njoin
         ELSE /\ njoin' = njoin - 1          \* the original has reached its end of stream meanwhile: the handler gives up
              /\ UNCHANGED <<pubvars, regs, nextFree, wakeq, pc, hnd, mode, recv, res, wakes, start, oow, wasKicked, left, nkick>>

(* ~subscriber -> leave_lk, publisher.h:194-200.  A parked coroutine may be destroyed together with
   its subscriber (the stale _awt stays in the unused slot); a thread blocked in next() may not. *)
Leave(s) ==
    /\ Live(s) /\ pc[s] \notin ({"parked_b"} \cup WFetchPc) /\ CanAct
    /\ \A i \in 1..Len(wakeq) : wakeq[i] # s
    /\ plan.st = "none" \/ s \notin {plan.a, plan.o}
    /\ regs' = [regs EXCEPT ![hnd[s] + 1] = [@ EXCEPT !.pos = nextFree, !.used = FALSE]]
    /\ nextFree' = hnd[s]
    /\ pc' = [pc EXCEPT ![s] = "unborn"]
    /\ hnd' = [hnd EXCEPT ![s] = 0]
    /\ mode' = [mode EXCEPT ![s] = "all"]
    /\ recv' = [recv EXCEPT ![s] = <<>>]
    /\ res' = [res EXCEPT ![s] = "none"]
    /\ wakes' = [wakes EXCEPT ![s] = 0]
    /\ start' = [start EXCEPT ![s] = 0]
    /\ oow' = [oow EXCEPT ![s] = FALSE]
    /\ wasKicked' = [wasKicked EXCEPT ![s] = FALSE]
    /\ left' = TRUE
    /\ UNCHANGED <<pos, q, closed, pubAlive, wakeq, plan, njoin, nkick>>

-----------------------------------------------------------------------------
(* next(), one action per critical section *)
Ready(s) ==
    /\ "split" \in Styles /\ pc[s] = "idle" /\ CanAct /\ NotAhead(s)
    /\ LET r == AdvanceLk(Slot(s), mode[s]) IN
         /\ regs' = [regs EXCEPT ![hnd[s] + 1] = r.l]
         /\ pc' = [pc EXCEPT ![s] = IF r.ok THEN "fetch" ELSE "nr"]
    /\ res' = [res EXCEPT ![s] = "none"]
    /\ UNCHANGED <<pubvars, nextFree, wakeq, hnd, mode, recv, wakes, start, oow, wasKicked, left, plan, njoin, nkick>>

Subscribe(s) ==
    /\ pc[s] = "nr" /\ CanAct
    /\ LET a == AdvSuspendLk(Slot(s), s) IN
         /\ regs' = [regs EXCEPT ![hnd[s] + 1] = a.l]
         /\ pc' = [pc EXCEPT ![s] = IF a.park THEN "parked" ELSE "fetch"]
    /\ UNCHANGED <<pubvars, nextFree, wakeq, hnd, mode, recv, res, wakes, start, oow, wasKicked, left, plan, njoin, nkick>>

Fetch(s) ==
    /\ pc[s] = "fetch" /\ CanAct
    /\ Deliver(s, GetValueLk(Slot(s), mode[s]))
    /\ UNCHANGED <<pubvars, nextFree, wakeq, hnd, mode, start, oow, wasKicked, left, plan, njoin, nkick>>

(* next_ready(), publisher.h:490-494: await_ready(); if ready await_resume().  The caller cannot
   tell "not ready" from a consumed end of stream (documented).  The guard bounds repeated polls
   past the end of a closed stream (each one increments the position once more).  Such a poll leaves the
   position past the end without telling the caller: where the publisher goes on publishing after close()
   (PubClosed) a closed stream is not polled. *)
Poll(s) ==
    /\ "poll" \in Styles /\ pc[s] = "idle" /\ CanAct /\ Slot(s).pos <= pos /\ NotAhead(s)
    /\ PubClosed => ~closed
    /\ LET r == AdvanceLk(Slot(s), mode[s])
           g == GetValueLk(r.l, mode[s])
       IN IF r.ok /\ ~g.eos
            THEN Deliver(s, g)
            ELSE /\ regs' = [regs EXCEPT ![hnd[s] + 1] = IF r.ok THEN g.l ELSE r.l]
                 /\ res' = [res EXCEPT ![s] = "notready"]
                 /\ UNCHANGED <<pc, recv, wakes>>
    /\ UNCHANGED <<pubvars, nextFree, wakeq, hnd, mode, start, oow, wasKicked, left, plan, njoin, nkick>>

(* `while (co_await sub.next()) consume(sub.value());` run by one thread from a registration l and
   the values rcv received so far, until it parks or sees the end of the stream *)
RECURSIVE DrainFrom(_, _, _, _, _)
DrainFrom(s, l, rcv, m, fuel) ==
    IF fuel = 0 THEN [l |-> l, recv |-> rcv, end |-> "stuck"]
    ELSE LET r == AdvanceLk(l, m) IN
         IF r.ok
           THEN LET g == GetValueLk(r.l, m) IN
                IF g.eos THEN [l |-> g.l, recv |-> rcv, end |-> "eos"]
                         ELSE DrainFrom(s, g.l, Append(rcv, g.v), m, fuel - 1)
           ELSE LET a == AdvSuspendLk(r.l, s) IN
                IF a.park THEN [l |-> a.l, recv |-> rcv, end |-> "parked_l"]
                ELSE LET g == GetValueLk(a.l, m) IN
                     IF g.eos THEN [l |-> g.l, recv |-> rcv, end |-> "eos"]
                              ELSE DrainFrom(s, g.l, Append(rcv, g.v), m, fuel - 1)

Drained(s, d) ==
    /\ regs' = [regs EXCEPT ![hnd[s] + 1] = d.l]
    /\ recv' = [recv EXCEPT ![s] = d.recv]
    /\ pc' = [pc EXCEPT ![s] = d.end]
    /\ res' = [res EXCEPT ![s] = "none"]
    /\ wakes' = [wakes EXCEPT ![s] = 0]

(* a whole `co_await sub.next()` of a real coroutine ("coro"), or `bool(sub.next())` ("block",
   publisher.h:442-448 + awaiter.h:305-325), run by one thread without interference up to the
   point where it parks *)
NextWhole(s, style) ==
    /\ style \in Styles /\ pc[s] = "idle" /\ CanAct /\ NotAhead(s)
    /\ (style = "block" /\ ~FixBlocking) => recv[s] # <<>>     \* else value() of an empty optional: UB
    /\ LET r == AdvanceLk(Slot(s), mode[s])
           a == AdvSuspendLk(r.l, s)
       IN IF style = "loop" THEN Drained(s, DrainFrom(s, Slot(s), recv[s], mode[s], MaxPub + 3))
          ELSE IF r.ok THEN Deliver(s, GetValueLk(r.l, mode[s]))
          ELSE IF a.park
                 THEN /\ regs' = [regs EXCEPT ![hnd[s] + 1] = a.l]
                      /\ pc' = [pc EXCEPT ![s] = IF style = "coro" THEN "parked_c" ELSE "parked_b"]
                      /\ res' = [res EXCEPT ![s] = "none"]
                      /\ UNCHANGED <<recv, wakes>>
                 ELSE IF style = "block" /\ ~FixBlocking
                        THEN DeliverStale(s, a.l)
                        ELSE Deliver(s, GetValueLk(a.l, mode[s]))
    /\ UNCHANGED <<pubvars, nextFree, wakeq, hnd, mode, start, oow, wasKicked, left, plan, njoin, nkick>>

(* awaiter::resume() of one collected awaiter, publisher.h:271 / 287 *)
Wake(s) ==
    /\ wakeq # <<>> /\ Head(wakeq) = s
    /\ Serial => \A t \in Subs : pc[t] \notin WFetchPc
    /\ pc[s] \in Parked
    /\ wakeq' = Tail(wakeq)
    /\ pc' = [pc EXCEPT ![s] = CASE pc[s] = "parked" -> "fetch"
                                 [] pc[s] = "parked_c" -> "wfetch_c"
                                 [] pc[s] = "parked_l" -> "wfetch_l"
                                 [] pc[s] = "parked_b" -> "wfetch_b"]
    /\ wakes' = [wakes EXCEPT ![s] = @ + 1]
    /\ plan.st # "due"
    /\ plan' = IF plan.st = "armed" /\ plan.a = s THEN [plan EXCEPT !.st = "due"] ELSE plan
    /\ UNCHANGED <<pubvars, regs, nextFree, hnd, mode, recv, res, start, oow, wasKicked, left, njoin, nkick>>

(* the resumed coroutine / unblocked thread goes on to await_resume() at once *)
WFetch(s) ==
    /\ pc[s] \in WFetchPc
    /\ IF pc[s] = "wfetch_b" /\ ~FixBlocking
         THEN DeliverStale(s, Slot(s))
         ELSE IF pc[s] = "wfetch_l" /\ ~GetValueLk(Slot(s), mode[s]).eos
                THEN LET g == GetValueLk(Slot(s), mode[s]) IN
                     Drained(s, DrainFrom(s, g.l, Append(recv[s], g.v), mode[s], MaxPub + 3))
                ELSE Deliver(s, GetValueLk(Slot(s), mode[s]))
    /\ UNCHANGED <<pubvars, nextFree, wakeq, hnd, mode, start, oow, wasKicked, left, plan, njoin, nkick>>

-----------------------------------------------------------------------------
(* push_lk, publisher.h:254-274, up to lk.unlock(): np = new _pos, q1 = deque after the push_front's *)
NeedLen(np) ==
    SetMax({MinLen} \cup {IF regs[i].pos > np THEN Huge ELSE np - regs[i].pos : i \in {j \in 1..Len(regs) : regs[j].used}})

WakeList ==
    SelectSeq([i \in 1..Len(regs) |-> IF regs[i].used THEN regs[i].awt ELSE 0], LAMBDA x : x # 0)

(* ... without the wake-up list: the thread-structured wrapper keeps one list per publishing thread *)
PushLkCore(np, q1) ==
    /\ pos' = np
    /\ q' = SubSeq(q1, 1, Min2(Min2(NeedLen(np), MaxLen), Len(q1)))
    /\ regs' = [i \in 1..Len(regs) |->
                  IF regs[i].used /\ regs[i].awt # 0
                    THEN [regs[i] EXCEPT !.awt = 0, !.woken = FixCopyOfWoken]
                    ELSE regs[i]]

PushLk(np, q1) == PushLkCore(np, q1) /\ wakeq' = WakeList

(* publish(x) / publish(begin,end), publisher.h:109-128: n values pos..pos+n-1, newest in front.
   n = 0, publisher.h:119-127: publish(begin,end) with an empty range inserts nothing and does not get as far as
   push_lk: the position, the window and the registrations stay as they are and NOBODY IS WOKEN (a parked
   subscriber woken here would find nothing to read and report an end of stream that has no reason).
   closed (PubClosed): the publisher object accepts values after close() as before; nobody is parked on a closed
   queue (CloseWakesAll), so there is nobody to wake; who has not seen its end of stream yet reads on. *)
PushBody(n) ==
    /\ pubAlive /\ (closed => PubClosed)
    /\ pos - 1 + n <= MaxPub
    /\ IF n = 0 THEN UNCHANGED <<pos, q, regs>>
                ELSE PushLkCore(pos + n, [i \in 1..n |-> pos + n - i] \o q)
    /\ UNCHANGED <<nextFree, closed, pubAlive, pc, hnd, mode, recv, res, wakes, start, oow, wasKicked, left, plan, njoin, nkick>>

PushCS(n) == PubFree /\ PushBody(n) /\ wakeq' = IF n = 0 THEN wakeq ELSE WakeList

(* publisher::close() / ~publisher(), publisher.h:130-135, 351-359 *)
CloseBody(how) ==
    /\ pubAlive
    /\ how = "close" => ~closed
    /\ pubAlive' = (how = "close")
    /\ IF closed THEN UNCHANGED <<pos, q, regs, closed>>
                 ELSE closed' = TRUE /\ PushLkCore(pos, q)
    /\ UNCHANGED <<nextFree, pc, hnd, mode, recv, res, wakes, start, oow, wasKicked, left, plan, njoin, nkick>>

Close(how) == PubFree /\ CloseBody(how) /\ wakeq' = IF closed THEN wakeq ELSE WakeList

(* publisher::kick(&sub) / sub.kick_me(), publisher.h:136-139, 276-288 *)
KickCS(s, via) ==
    /\ Live(s) /\ PubFree /\ nkick < MaxKick
    /\ via = "pub" => pubAlive
    /\ plan.st = "none" \/ s # plan.o
    /\ wakeq' = IF Slot(s).awt # 0 THEN <<Slot(s).awt>> ELSE <<>>
    /\ regs' = [regs EXCEPT ![hnd[s] + 1] = [@ EXCEPT !.awt = 0, !.kicked = TRUE]]
    /\ nkick' = nkick + 1
    /\ wasKicked' = [wasKicked EXCEPT ![s] = TRUE]
    /\ UNCHANGED <<pubvars, nextFree, pc, hnd, mode, recv, res, wakes, start, oow, left, plan, njoin>>

(* publisher::kick(p) with the pointer of a subscriber that does not exist any more: documented to do
   nothing (publisher.h:363-368); the registration it once had may be unused or reused *)
KickGone ==
    /\ left /\ pubAlive /\ PubFree /\ nkick < MaxKick
    /\ nkick' = nkick + 1
    /\ UNCHANGED <<pubvars, regs, nextFree, wakeq, pc, hnd, mode, recv, res, wakes, start, oow, wasKicked, left, plan, njoin>>

Next == \/ \E s \in Subs, m \in Modes : SubscribeRecent(s, m)
        \/ \E s \in Subs, p \in AtPos, m \in Modes : SubscribeAt(s, p, m)
        \/ \E c \in Subs, o \in Subs : SubscribeCopy(c, o)
        \/ \E a \in Subs, c \in Subs, o \in Subs : PlanCopy(a, c, o)
        \/ WakeCopy
        \/ \E s \in Subs : Leave(s)
        \/ \E s \in Subs : Ready(s)
        \/ \E s \in Subs : Subscribe(s)
        \/ \E s \in Subs : Fetch(s)
        \/ \E s \in Subs : Poll(s)
        \/ \E s \in Subs, st \in {"coro", "loop", "block"} : NextWhole(s, st)
        \/ \E s \in Subs : Wake(s)
        \/ \E s \in Subs : WFetch(s)
        \/ \E n \in MinBatch..MaxBatch : PushCS(n)
        \/ \E how \in {"close", "destroy"} : Close(how)
        \/ \E s \in Subs, via \in {"pub", "me"} : KickCS(s, via)
        \/ KickGone

Spec == Init /\ [][Next]_vars

-----------------------------------------------------------------------------
(* Properties (C16) *)

RegOK(r) == /\ r.pos \in 0..(MaxPub + 3) /\ r.used \in BOOLEAN /\ r.kicked \in BOOLEAN /\ r.awt \in 0..NSubs
            /\ r.woken \in BOOLEAN

TypeOK ==
    /\ pos \in 1..(MaxPub + 1)
    /\ \A i \in 1..Len(regs) : RegOK(regs[i])
    /\ \A s \in Subs : /\ pc[s] \in {"unborn", "idle", "nr", "fetch", "eos"} \cup Parked \cup WFetchPc
                       /\ res[s] \in {"none", "notready"}
                       /\ mode[s] \in {"all", "behind", "recent"}
    /\ \A i \in 1..Len(wakeq) : wakeq[i] \in Subs

(* the window holds the newest Len(q) values, newest first; never longer than the maximum; keeps the
   configured minimum once that many values exist *)
WindowShape ==
    /\ \A i \in 1..Len(q) : q[i] = pos - i
    /\ Len(q) <= MaxLen /\ Len(q) <= pos - 1
    /\ Len(q) >= Min2(MinLen, pos - 1)

(* ... and everything a live subscriber still has to read, up to the maximum (unless it joined at
   a position that was not retained any more) *)
WindowSufficient ==
    \A s \in Subs : (Live(s) /\ pc[s] # "eos" /\ ~oow[s] /\ ~Slot(s).kicked /\ Slot(s).pos <= pos) =>
        LET unread == IF pc[s] \in {"idle", "nr"} THEN pos - 1 - Slot(s).pos ELSE pos - Slot(s).pos
        IN Len(q) >= Min2(unread, MaxLen)

(* all_values: contiguous run right after the subscription point *)
GapFreeInOrder ==
    \A s \in Subs : (Live(s) /\ mode[s] = "all") =>
        \A i \in 1..Len(recv[s]) : recv[s][i] = start[s] + i

NoDuplicate ==
    \A s \in Subs : \A i, j \in 1..Len(recv[s]) : i < j => recv[s][i] # recv[s][j]

(* skipping modes only move forward, beginning after the subscription point, and deliver published values *)
SkipMonotone ==
    \A s \in Subs : (Live(s) /\ mode[s] # "all") =>
        /\ \A i \in 1..Len(recv[s]) : recv[s][i] > start[s] /\ recv[s][i] < pos
        /\ \A i \in 1..(Len(recv[s]) - 1) : recv[s][i] < recv[s][i + 1]

(* skip_to_recent: a delivered value is the newest one at the time of the read *)
RecentIsNewest ==
    [][\A s \in Subs : (mode[s] = "recent" /\ pc[s] # "unborn" /\ Len(recv'[s]) = Len(recv[s]) + 1)
                           => recv'[s][Len(recv'[s])] = pos - 1]_vars

(* skip_if_behind: nothing that is still retained is skipped *)
BehindSkipsOnlyDropped ==
    [][\A s \in Subs : (mode[s] = "behind" /\ pc[s] # "unborn" /\ Len(recv'[s]) = Len(recv[s]) + 1)
                           => LET v == recv'[s][Len(recv'[s])] IN
                              \A w \in (LastSeen(s) + 1)..(v - 1) : w < pos - Len(q)]_vars

(* first end of stream only for a reason (LastSeen > pos - 1: joined at a position not published yet) *)
EOSReason(s) ==
    \/ wasKicked[s]
    \/ closed /\ LastSeen(s) >= pos - 1
    \/ mode[s] = "all" /\ (pos - 1 - LastSeen(s) > MaxLen \/ oow[s])

EOSOnlyWhen == \A s \in Subs : pc[s] = "eos" => EOSReason(s)

(* the same at the step that reports it: the form for histories that publish on a closed publisher, where
   "closed and drained" does not stay true of a subscriber that has seen its end of stream *)
EOSOnlyWhenStep ==
    [][\A s \in Subs : (pc[s] # "eos" /\ pc'[s] = "eos") => EOSReason(s)']_vars

(* next_ready() == false: nothing to read (or a kicked subscriber, or end of stream -- documented) *)
NotReadyOnlyWhen ==
    [][\A s \in Subs : (Poll(s) /\ res'[s] = "notready") =>
          \/ wasKicked[s]
          \/ LastSeen(s) >= pos - 1
          \/ mode[s] = "all" /\ (pos - 1 - LastSeen(s) > MaxLen \/ oow[s])]_vars

(* nobody stays parked after close / destroy / its own kick; a parked subscriber is registered *)
CloseWakesAll ==
    /\ (closed /\ wakeq = <<>>) => \A s \in Subs : pc[s] \notin Parked
    /\ \A s \in Subs : (pc[s] \in Parked /\ Slot(s).kicked) => \E i \in 1..Len(wakeq) : wakeq[i] = s
NoLostWaiter ==
    /\ \A s \in Subs : pc[s] \in Parked =>
          \/ Slot(s).awt = s /\ Slot(s).pos = pos
          \/ \E i \in 1..Len(wakeq) : wakeq[i] = s
    /\ \A i \in 1..Len(wakeq) : pc[wakeq[i]] \in Parked
    /\ \A i \in 1..Len(regs) : (regs[i].used /\ regs[i].awt # 0) =>
          pc[regs[i].awt] \in Parked /\ hnd[regs[i].awt] = i - 1
    /\ \A s \in Subs : wakes[s] <= 1

(* position() of a subscriber outside next() is the position of the value it holds *)
PosConsistent ==
    \A s \in Subs : (pc[s] = "idle" /\ (mode[s] = "all" \/ FixGetValue)) =>
        \/ Slot(s).pos = LastSeen(s)
        \/ closed /\ Slot(s).pos >= pos /\ LastSeen(s) = pos - 1     \* a poll consumed the end of stream
        \/ /\ Slot(s).kicked /\ Slot(s).pos = LastSeen(s) + 1             \* a poll found it dropped
           /\ mode[s] = "all" /\ (pos - 1 - LastSeen(s) > MaxLen \/ oow[s])
        \/ Slot(s).kicked /\ wasKicked[s] /\ Slot(s).pos > LastSeen(s)     \* kicked between the two critical sections of a poll

(* a copy starts at the value the original holds, with the original's mode; the original is untouched *)
CopyIndependent ==
    [][\A c \in Subs, o \in Subs : CopyCore(c, o) =>
          /\ mode'[c] = mode[o]
          /\ recv'[o] = recv[o] /\ pc'[o] = pc[o] /\ regs'[hnd[o] + 1] = regs[hnd[o] + 1]
          /\ \/ regs'[hnd'[c] + 1].pos = LastSeen(o)
             \/ Slot(o).pos >= pos /\ regs'[hnd'[c] + 1].pos = Slot(o).pos]_vars

(* state constraint of the copy-of-woken configuration (Publisher_copywoken.cfg): nobody leaves *)
NobodyLeft == ~left
(* ... of the two-publisher configuration: every subscriber joins before anything is published or closed *)
JoinFirst == (pos > 1 \/ closed) => njoin = MaxJoin

(* registration slots and free list *)
RECURSIVE FreeWalk(_, _)
FreeWalk(n, seen) == IF n >= Len(regs) THEN seen
                     ELSE IF n \in seen THEN seen \cup {-1}
                     ELSE FreeWalk(regs[n + 1].pos, seen \cup {n})

FreeListSound ==
    /\ FreeWalk(nextFree, {}) = {i \in 0..(Len(regs) - 1) : ~regs[i + 1].used}
    /\ \A s \in Subs : Live(s) => hnd[s] < Len(regs) /\ regs[hnd[s] + 1].used
    /\ \A s, t \in Subs : (Live(s) /\ Live(t) /\ s # t) => hnd[s] # hnd[t]
    /\ Cardinality({i \in 1..Len(regs) : regs[i].used}) = Cardinality({s \in Subs : Live(s)})
    /\ Len(regs) <= NSubs

(* the array grows only when no slot is free *)
GrowOnlyWhenFull ==
    [][Len(regs') > Len(regs) => \A i \in 1..Len(regs) : regs[i].used]_vars

=============================================================================
