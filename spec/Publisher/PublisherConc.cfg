\* thread-structured model (publisher thread + one thread per subscriber), replayed on real threads at lock grain by
\* harness/publisher_conc_replay.cpp; tools/checks/c16.py conc_replay() overrides the bounds by appending CONSTANTS
SPECIFICATION CSpec
CONSTANTS
  NSubs = 2
  MinLen = 1
  MaxLen = 2
  Modes = {"all"}
  Styles = {"split"}
  CStyles = {"block", "poll", "coro"}
  TwoPub = FALSE
  MaxPub = 2
  MaxBatch = 2
  MinBatch = 1
  PubClosed = FALSE
  MaxAhead = 0
  MaxJoin = 2
  AtPos = {}
  MaxKick = 1
  Serial = FALSE
  CopyBusy = TRUE
  CopyWoken = FALSE
  Founders = {1, 2, 3, 4, 5}
  FixCloseRace = TRUE
  FixGetValue = TRUE
  FixBlocking = TRUE
  FixCopyParked = TRUE
  FixCopyOfWoken = TRUE
INVARIANTS TypeOK WindowShape WindowSufficient GapFreeInOrder NoDuplicate SkipMonotone EOSOnlyWhen CloseWakesAll2 NoLostWaiter2 PosConsistent FreeListSound ThreadsOK NobodyForgotten WokenOnce
PROPERTIES RecentIsNewest BehindSkipsOnlyDropped CopyIndependent GrowOnlyWhenFull
CHECK_DEADLOCK FALSE
