\* copy of a collected / woken subscriber (waiter resumed earlier in the same wake-up loop copies a later one): three
\* identities (a, o, c), nobody leaves; tools/checks/c16.py overrides the bounds by appending CONSTANTS
SPECIFICATION Spec
CONSTANTS
  NSubs = 2
  MinLen = 1
  MaxLen = 99
  Modes = {"all"}
  Styles = {"split", "coro", "loop", "block", "poll"}
  MaxPub = 4
  MaxBatch = 2
  MinBatch = 1
  PubClosed = FALSE
  MaxAhead = 0
  MaxJoin = 3
  AtPos = {0, 1, 2, 3, 4, 5}
  MaxKick = 1
  Serial = TRUE
  CopyBusy = FALSE
  CopyWoken = FALSE
  Founders = {1, 2, 3, 4, 5}
  FixCloseRace = TRUE
  FixGetValue = TRUE
  FixBlocking = TRUE
  FixCopyParked = TRUE
  FixCopyOfWoken = TRUE
INVARIANTS TypeOK GapFreeInOrder NoDuplicate EOSOnlyWhen NoLostWaiter PosConsistent FreeListSound
PROPERTIES CopyIndependent
CONSTRAINT NobodyLeft
CHECK_DEADLOCK FALSE
