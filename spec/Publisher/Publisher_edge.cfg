\* degenerate forms of publish / subscribe-at: publish(begin,end) with an empty range (MinBatch = 0), batches longer
\* than the window maximum, min = max, publish on a closed publisher (PubClosed), subscribe at a position that is
\* not published yet (MaxAhead) or not retained any more; tools/checks/c16.py overrides the bounds by appending CONSTANTS.
\* EOSOnlyWhen is checked in its step form (publish after close() makes "closed and drained" a thing of the past).
SPECIFICATION Spec
CONSTANTS
  NSubs = 1
  MinLen = 2
  MaxLen = 2
  Modes = {"all", "behind", "recent"}
  Styles = {"split", "coro", "loop", "block", "poll"}
  MaxPub = 3
  MaxBatch = 3
  MinBatch = 0
  PubClosed = TRUE
  MaxAhead = 1
  MaxJoin = 1
  AtPos = {0, 1, 2, 3, 4}
  MaxKick = 0
  Serial = TRUE
  CopyBusy = FALSE
  CopyWoken = FALSE
  Founders = {1, 2, 3, 4, 5}
  FixCloseRace = TRUE
  FixGetValue = TRUE
  FixBlocking = TRUE
  FixCopyParked = TRUE
  FixCopyOfWoken = TRUE
INVARIANTS TypeOK WindowShape WindowSufficient GapFreeInOrder NoDuplicate SkipMonotone CloseWakesAll NoLostWaiter PosConsistent FreeListSound
PROPERTIES RecentIsNewest BehindSkipsOnlyDropped NotReadyOnlyWhen CopyIndependent GrowOnlyWhenFull EOSOnlyWhenStep
CHECK_DEADLOCK FALSE
