--------------------------- MODULE PublisherConc ---------------------------
(***************************************************************************)
(* Thread-structured wrapper of Publisher.tla (C16, and the lock           *)
(* discipline part of C03): WHICH THREAD runs which critical section of    *)
(* publisher<T>::queue, and what it does between its critical sections.    *)
(* The critical sections themselves (AdvanceLk, AdvSuspendLk, GetValueLk,  *)
(* PushLkCore, Join, Leave, KickCS, CloseBody, ...) are Publisher.tla's:   *)
(* this module only conjoins them with the program counters of threads.    *)
(*                                                                         *)
(* Threads:                                                                *)
(*   P    the publisher thread: publish (single/batch), close, kick,       *)
(*        ~publisher.  One call = critical section 1 (up to lk.unlock()),  *)
(*        the wake-up loop outside the lock, and -- for publish/close --   *)
(*        critical section 2 (lk.lock(); swap of the wake-up buffers;      *)
(*        unlock by ~unique_lock), publisher.h push_lk.  kick has no       *)
(*        second critical section.                                         *)
(*   P2   (TwoPub) a second thread that publishes / closes through the     *)
(*        same publisher: its critical sections may run while P is in its  *)
(*        wake-up loop (between the unlock and the first resume, and       *)
(*        between two resumes) and vice versa.  Each publishing thread     *)
(*        resumes exactly the waiters ITS critical section collected.      *)
(*   s    one thread per subscriber identity s: constructs its subscriber  *)
(*        (recent / at position / copy of another thread's subscriber),    *)
(*        calls next() in one of the whole-call forms, destroys it.        *)
(*        "block": bool(sub.next()): advance_lk; advance_suspend_lk;       *)
(*                 sync_awaiter::flag.wait(); get_value_lk -- all on s.    *)
(*        "poll":  next_ready(): advance_lk; get_value_lk.                 *)
(*        "coro":  a coroutine doing co_await sub.next(), started on s: if *)
(*                 it parks the thread returns; the publisher's wake-up    *)
(*                 loop resumes the coroutine ON THE PUBLISHER THREAD,     *)
(*                 which therefore runs its get_value_lk (in the middle of *)
(*                 the wake-up loop, holding no lock) before it goes on    *)
(*                 waking the remaining waiters.                           *)
(* Grain: one step = one lock..unlock critical section, or one stretch of  *)
(* code outside the lock that matters:                                     *)
(*   - the wake-up loop, ONE WAITER PER STEP (the controlled scheduler     *)
(*     parks the waking thread at sync_awaiter's notify, i.e. after the    *)
(*     released thread's flag is set; a resumed coroutine runs up to the   *)
(*     lock of its get_value);                                             *)
(*   - what follows the unlock of get_value up to the return of next()     *)
(*     (TTail / the beginning of PWake): the value next() hands out was    *)
(*     copied while the lock was held -- whatever other threads' critical  *)
(*     sections do to the window between the unlock and the return (a      *)
(*     publish whose resize() destroys the retained element) cannot        *)
(*     change it.                                                          *)
(***************************************************************************)
EXTENDS Publisher

CONSTANTS CStyles,     \* subset of {"block","poll","coro"}: whole-call forms the subscriber threads use
          TwoPub       \* TRUE: a second publishing thread P2 (then no coroutine form: P2 only releases blocked threads)

VARIABLES ppc,      \* publisher thread: "idle" | "wake" (in the wake-up loop, outside the lock)
                    \*                   | "co" (inside the loop, running the resumed coroutine of pco: at the lock of its get_value)
                    \*                   | "tail" (at lk.lock() of critical section 2)
          pkind,    \* "push" (publish/close: a tail follows the loop) | "kick" | "none"
          pnote,    \* P stands at the notify of the blocked thread it has just released (else: right after an unlock)
          pco,      \* subscriber whose coroutine the publisher thread is running (0: none)
          pdel,     \* subscriber whose coroutine P still has to let run on after get_value (hand-over of the value
                    \* to the caller) before it continues the wake-up loop (0: none)
          call,     \* per subscriber thread: form of the next() in progress ("none" | "block" | "poll" | "coro")
          tailp,    \* per subscriber: its thread has left the critical section of get_value, next() has not returned yet
          p2pc, p2kind, p2note, wq2    \* the second publishing thread and the waiters ITS critical section collected

cvars == <<ppc, pkind, pnote, pco, pdel, call, tailp, p2pc, p2kind, p2note, wq2>>
p1vars == <<ppc, pkind, pnote, pco, pdel>>
p2vars == <<p2pc, p2kind, p2note, wq2>>
allvars == <<vars, cvars>>

CInit == /\ Init
         /\ ppc = "idle" /\ pkind = "none" /\ pnote = FALSE /\ pco = 0 /\ pdel = 0
         /\ call = [s \in Subs |-> "none"]
         /\ tailp = [s \in Subs |-> FALSE]
         /\ p2pc = "idle" /\ p2kind = "none" /\ p2note = FALSE /\ wq2 = <<>>

(* the thread of s is at its command loop: no call in progress, or its coroutine is suspended in next() *)
ThreadIdle(s) == call[s] = "none" \/ (call[s] = "coro" /\ pc[s] = "parked")

AfterLoop == IF pkind = "push" THEN "tail" ELSE "idle"
InList(w, s) == \E i \in 1..Len(w) : w[i] = s

-----------------------------------------------------------------------------
(* subscriber threads *)
TJoinRecent(s, m) == call[s] = "none" /\ SubscribeRecent(s, m) /\ UNCHANGED cvars
TJoinAt(s, p, m) == call[s] = "none" /\ SubscribeAt(s, p, m) /\ UNCHANGED cvars

(* CopyWoken: the original may also be copied between the publisher's critical section that collected its
   awaiter and its own get_value (the registration then already points to the value the original is about to
   receive: the `woken` bit of the repaired code tells the copy so) *)
TJoinCopy(c, o) ==
    /\ call[c] = "none"
    /\ pc[o] = "parked" => (Slot(o).awt = o \/ CopyWoken)
    /\ pdel # o /\ ~tailp[o]
    /\ SubscribeCopy(c, o)
    /\ UNCHANGED cvars

(* ~subscriber; a thread may destroy its subscriber together with the coroutine parked on it *)
TLeave(s) ==
    /\ ThreadIdle(s) /\ pco # s /\ pdel # s /\ ~InList(wq2, s)
    /\ Leave(s)
    /\ call' = [call EXCEPT ![s] = "none"]
    /\ UNCHANGED <<p1vars, tailp, p2vars>>

(* first critical section of next(): await_ready() -> advance_lk *)
TReady(s, st) ==
    /\ st \in (CStyles \cap {"block", "coro"}) /\ call[s] = "none"
    /\ st = "coro" => ~TwoPub
    /\ Ready(s)
    /\ call' = [call EXCEPT ![s] = st]
    /\ UNCHANGED <<p1vars, tailp, p2vars>>

(* await_suspend() / sync(): subscribe() -> advance_suspend_lk *)
TSubscribe(s) ==
    /\ call[s] \in {"block", "coro"} /\ pdel # s /\ ~tailp[s]
    /\ Subscribe(s)
    /\ UNCHANGED cvars

(* await_resume() -> check_next() -> get_value_lk on the subscriber's own thread: the critical section ... *)
TFetch(s) ==
    /\ call[s] \in {"block", "coro"} /\ pco # s /\ pdel # s /\ ~tailp[s]
    /\ Fetch(s)
    /\ tailp' = [tailp EXCEPT ![s] = TRUE]
    /\ UNCHANGED <<p1vars, call, p2vars>>

(* ... and what follows its unlock up to the return of next() / next_ready() *)
TTail(s) ==
    /\ tailp[s]
    /\ tailp' = [tailp EXCEPT ![s] = FALSE]
    /\ call' = [call EXCEPT ![s] = "none"]
    /\ UNCHANGED <<vars, p1vars, p2vars>>

(* next_ready(): await_ready(); if ready await_resume() -- two critical sections *)
TPollReady(s) ==
    /\ "poll" \in CStyles /\ call[s] = "none" /\ pc[s] = "idle" /\ Slot(s).pos <= pos
    /\ LET r == AdvanceLk(Slot(s), mode[s]) IN
         /\ regs' = [regs EXCEPT ![hnd[s] + 1] = r.l]
         /\ IF r.ok THEN /\ pc' = [pc EXCEPT ![s] = "fetch"]
                         /\ call' = [call EXCEPT ![s] = "poll"]
                         /\ res' = [res EXCEPT ![s] = "none"]
                    ELSE /\ res' = [res EXCEPT ![s] = "notready"]
                         /\ UNCHANGED <<pc, call>>
    /\ UNCHANGED <<pubvars, nextFree, wakeq, hnd, mode, recv, wakes, start, oow, wasKicked, left, plan, njoin, nkick,
                   p1vars, tailp, p2vars>>

TPollFetch(s) ==
    /\ call[s] = "poll" /\ pc[s] = "fetch" /\ ~tailp[s]
    /\ LET g == GetValueLk(Slot(s), mode[s]) IN
         IF g.eos THEN /\ regs' = [regs EXCEPT ![hnd[s] + 1] = g.l]
                       /\ res' = [res EXCEPT ![s] = "notready"]
                       /\ pc' = [pc EXCEPT ![s] = "idle"]
                       /\ UNCHANGED <<recv, wakes>>
                  ELSE Deliver(s, g)
    /\ tailp' = [tailp EXCEPT ![s] = TRUE]
    /\ UNCHANGED <<pubvars, nextFree, wakeq, hnd, mode, start, oow, wasKicked, left, plan, njoin, nkick, p1vars, call, p2vars>>

-----------------------------------------------------------------------------
(* the publisher thread P: its wake-up list is Publisher.tla's wakeq *)
PPush(n) ==
    /\ ppc = "idle"
    /\ PushBody(n) /\ wakeq' = WakeList
    /\ ppc' = IF wakeq' = <<>> THEN "tail" ELSE "wake"
    /\ pkind' = "push" /\ pnote' = FALSE
    /\ UNCHANGED <<pco, pdel, call, tailp, p2vars>>

(* close() on a closed queue returns from its only critical section; the publisher is destroyed only while
   the second publishing thread is not inside a call *)
PClose(how) ==
    /\ ppc = "idle"
    /\ how = "destroy" => p2pc = "idle"
    /\ CloseBody(how) /\ wakeq' = (IF closed THEN wakeq ELSE WakeList)
    /\ ppc' = IF closed THEN "idle" ELSE IF wakeq' = <<>> THEN "tail" ELSE "wake"
    /\ pkind' = IF closed THEN "none" ELSE "push"
    /\ pnote' = FALSE
    /\ UNCHANGED <<pco, pdel, call, tailp, p2vars>>

PKick(s) ==
    /\ ppc = "idle"
    /\ KickCS(s, "pub")
    /\ ppc' = IF wakeq' = <<>> THEN "idle" ELSE "wake"
    /\ pkind' = "kick" /\ pnote' = FALSE
    /\ UNCHANGED <<pco, pdel, call, tailp, p2vars>>

(* one stretch of the wake-up loop: the coroutine whose get_value P has just run goes on (hands the value to its
   caller, suspends again), then the next collected waiter is resumed: a blocked thread is released (flag set; P
   stands at the notify) or a coroutine runs, on this thread, up to the lock of its get_value *)
PWake ==
    /\ ppc = "wake" /\ (wakeq # <<>> \/ pdel # 0)
    /\ call' = [s \in Subs |-> IF s = pdel THEN "none" ELSE call[s]]
    /\ pdel' = 0
    /\ IF wakeq = <<>>
         THEN /\ ppc' = AfterLoop /\ pnote' = FALSE
              /\ UNCHANGED <<pc, wakes, wakeq, pco>>
         ELSE LET s == Head(wakeq) IN
              /\ pc[s] = "parked"
              /\ pc' = [pc EXCEPT ![s] = "fetch"]
              /\ wakes' = [wakes EXCEPT ![s] = @ + 1]
              /\ wakeq' = Tail(wakeq)
              /\ IF call[s] = "block"
                   THEN /\ pco' = 0
                        /\ IF Tail(wakeq) = <<>> THEN ppc' = AfterLoop /\ pnote' = FALSE
                                                 ELSE ppc' = "wake" /\ pnote' = TRUE
                   ELSE pco' = s /\ ppc' = "co" /\ pnote' = FALSE
    /\ UNCHANGED <<pubvars, regs, nextFree, hnd, mode, recv, res, start, oow, wasKicked, left, plan, njoin, nkick, pkind,
                   tailp, p2vars>>

(* get_value_lk of the resumed coroutine, run by the publisher thread *)
PFetch ==
    /\ ppc = "co" /\ pco # 0
    /\ Fetch(pco)
    /\ pco' = 0 /\ pdel' = pco
    /\ ppc' = "wake" /\ pnote' = FALSE
    /\ UNCHANGED <<pkind, call, tailp, p2vars>>

(* critical section 2 of publish/close: lk.lock(); std::swap(wk, _wakeup_buffer); ~unique_lock *)
PTail ==
    /\ ppc = "tail"
    /\ ppc' = "idle" /\ pkind' = "none"
    /\ UNCHANGED <<vars, pnote, pco, pdel, call, tailp, p2vars>>

-----------------------------------------------------------------------------
(* the second publishing thread P2: publish / close; it releases blocked threads only (no coroutine form then) *)
P2Push(n) ==
    /\ TwoPub /\ p2pc = "idle"
    /\ PushBody(n) /\ wq2' = WakeList
    /\ p2pc' = IF wq2' = <<>> THEN "tail" ELSE "wake"
    /\ p2kind' = "push" /\ p2note' = FALSE
    /\ UNCHANGED <<wakeq, p1vars, call, tailp>>

P2Close ==
    /\ TwoPub /\ p2pc = "idle" /\ ~closed
    /\ CloseBody("close") /\ wq2' = WakeList
    /\ p2pc' = IF wq2' = <<>> THEN "tail" ELSE "wake"
    /\ p2kind' = "push" /\ p2note' = FALSE
    /\ UNCHANGED <<wakeq, p1vars, call, tailp>>

P2Wake ==
    /\ p2pc = "wake" /\ wq2 # <<>>
    /\ LET s == Head(wq2) IN
         /\ pc[s] = "parked" /\ call[s] = "block"
         /\ pc' = [pc EXCEPT ![s] = "fetch"]
         /\ wakes' = [wakes EXCEPT ![s] = @ + 1]
    /\ wq2' = Tail(wq2)
    /\ IF Tail(wq2) = <<>> THEN p2pc' = "tail" /\ p2note' = FALSE
                           ELSE p2pc' = "wake" /\ p2note' = TRUE
    /\ UNCHANGED <<pubvars, regs, nextFree, wakeq, hnd, mode, recv, res, start, oow, wasKicked, left, plan, njoin, nkick,
                   p1vars, call, tailp, p2kind>>

P2Tail ==
    /\ p2pc = "tail"
    /\ p2pc' = "idle" /\ p2kind' = "none"
    /\ UNCHANGED <<vars, p1vars, call, tailp, p2note, wq2>>

CNext == \/ \E s \in Subs, m \in Modes : TJoinRecent(s, m)
         \/ \E s \in Subs, p \in AtPos, m \in Modes : TJoinAt(s, p, m)
         \/ \E c \in Subs, o \in Subs : TJoinCopy(c, o)
         \/ \E s \in Subs : TLeave(s)
         \/ \E s \in Subs, st \in {"block", "coro"} : TReady(s, st)
         \/ \E s \in Subs : TSubscribe(s)
         \/ \E s \in Subs : TFetch(s)
         \/ \E s \in Subs : TTail(s)
         \/ \E s \in Subs : TPollReady(s)
         \/ \E s \in Subs : TPollFetch(s)
         \/ \E n \in 1..MaxBatch : PPush(n)
         \/ \E how \in {"close", "destroy"} : PClose(how)
         \/ \E s \in Subs : PKick(s)
         \/ PWake
         \/ PFetch
         \/ PTail
         \/ \E n \in 1..MaxBatch : P2Push(n)
         \/ P2Close
         \/ P2Wake
         \/ P2Tail

CSpec == CInit /\ [][CNext]_allvars

-----------------------------------------------------------------------------
(* thread-level invariants; the C16 invariants of Publisher.tla are listed in the cfg as well, those that speak
   about "the" wake-up list in the two-list form below *)
ThreadsOK ==
    /\ ppc \in {"idle", "wake", "co", "tail"} /\ p2pc \in {"idle", "wake", "tail"}
    /\ (ppc = "idle") => (wakeq = <<>> /\ pco = 0 /\ pdel = 0)
    /\ (p2pc \in {"idle", "tail"}) => wq2 = <<>>
    /\ (ppc = "co") <=> (pco # 0)
    /\ pco # 0 => (pc[pco] = "fetch" /\ call[pco] = "coro")
    /\ pdel # 0 => ppc = "wake"
    /\ \A s \in Subs : /\ call[s] = "none" => (pc[s] \in {"unborn", "idle", "eos"} /\ ~tailp[s])
                       /\ (call[s] = "poll" /\ ~tailp[s]) => pc[s] = "fetch"
                       /\ (call[s] \in {"block", "coro"} /\ pdel # s /\ ~tailp[s]) => pc[s] \in {"nr", "fetch", "parked"}
                       /\ (pdel = s \/ tailp[s]) => (call[s] # "none" /\ pc[s] \in {"idle", "eos"})
                       /\ ~(InList(wakeq, s) /\ InList(wq2, s))

(* a thread blocked in next() (or a parked coroutine) is released by somebody: it is registered, or it is in the
   wake-up list of a publishing thread that is still in its loop -- in exactly one of them, once *)
NobodyForgotten ==
    \A s \in Subs : pc[s] = "parked" =>
        \/ Slot(s).awt = s /\ ~InList(wakeq, s) /\ ~InList(wq2, s)
        \/ InList(wakeq, s) /\ ppc \in {"wake", "co"} /\ Slot(s).awt = 0
        \/ InList(wq2, s) /\ p2pc = "wake" /\ Slot(s).awt = 0

WokenOnce ==
    /\ \A s \in Subs : wakes[s] <= 1
    /\ \A i, j \in 1..Len(wakeq) : i # j => wakeq[i] # wakeq[j]
    /\ \A i, j \in 1..Len(wq2) : i # j => wq2[i] # wq2[j]
    /\ \A i \in 1..Len(wakeq) : pc[wakeq[i]] = "parked"
    /\ \A i \in 1..Len(wq2) : pc[wq2[i]] = "parked"

(* Publisher.tla's CloseWakesAll / NoLostWaiter with both lists *)
CloseWakesAll2 ==
    /\ (closed /\ wakeq = <<>> /\ wq2 = <<>>) => \A s \in Subs : pc[s] \notin Parked
    /\ \A s \in Subs : (pc[s] \in Parked /\ Slot(s).kicked) => (InList(wakeq, s) \/ InList(wq2, s))
NoLostWaiter2 ==
    /\ \A s \in Subs : pc[s] \in Parked =>
          \/ Slot(s).awt = s /\ Slot(s).pos = pos
          \/ InList(wakeq, s) \/ InList(wq2, s)
    /\ \A i \in 1..Len(regs) : (regs[i].used /\ regs[i].awt # 0) =>
          pc[regs[i].awt] \in Parked /\ hnd[regs[i].awt] = i - 1

=============================================================================
