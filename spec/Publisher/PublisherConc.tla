--------------------------- MODULE PublisherConc ---------------------------
(***************************************************************************)
(* Thread-structured wrapper of Publisher.tla (C16, and the lock           *)
(* discipline part of C03): WHICH THREAD runs which critical section of    *)
(* publisher<T>::queue, and what it does between its critical sections.    *)
(* The critical sections themselves (AdvanceLk, AdvSuspendLk, GetValueLk,  *)
(* PushLk, Join, Leave, KickCS, Close, ...) are Publisher.tla's: this      *)
(* module only conjoins them with the program counters of the threads.     *)
(*                                                                         *)
(* Threads:                                                                *)
(*   P    the publisher thread: publish (single/batch), close, kick,       *)
(*        ~publisher.  One call = critical section 1 (up to lk.unlock()),  *)
(*        the wake-up loop outside the lock, and -- for publish/close --   *)
(*        critical section 2 (lk.lock(); swap of the wake-up buffers;      *)
(*        unlock by ~unique_lock), publisher.h:254-274.  kick has no       *)
(*        second critical section (276-288).                               *)
(*   s    one thread per subscriber identity s: constructs its subscriber  *)
(*        (recent / at position / copy of another thread's subscriber),    *)
(*        calls next() in one of the whole-call forms, destroys it.        *)
(*        "block": bool(sub.next()): advance_lk; advance_suspend_lk;       *)
(*                 sync_awaiter::flag.wait(); get_value_lk -- all on s.    *)
(*        "poll":  next_ready(): advance_lk; get_value_lk.                 *)
(*        "coro":  a coroutine doing co_await sub.next(), started on s: if *)
(*                 it parks the thread returns; the publisher's wake-up    *)
(*                 loop resumes the coroutine ON THE PUBLISHER THREAD,     *)
(*                 which therefore runs its get_value_lk (in the middle of *)
(*                 the wake-up loop, holding no lock) before it goes on    *)
(*                 waking the remaining waiters.                           *)
(* Grain = lock grain of the controlled scheduler (vsched, lock_grain):    *)
(* one step = one lock..unlock critical section, or the code between an    *)
(* unlock and the next lock/wait of that thread when it has a visible      *)
(* effect (the wake-up loop: PWake).  Releasing several blocked threads    *)
(* (sync_awaiter flags) is one uninterrupted stretch of code.              *)
(***************************************************************************)
EXTENDS Publisher

CONSTANTS CStyles      \* subset of {"block","poll","coro"}: whole-call forms the subscriber threads use

VARIABLES ppc,      \* publisher thread: "idle" | "wake" (parked after the unlock, wake-up loop to run)
                    \*                   | "co" (inside the loop, running the resumed coroutine of pco: at the lock of its get_value)
                    \*                   | "tail" (at lk.lock() of critical section 2)
          pkind,    \* "push" (publish/close: a tail follows the loop) | "kick" | "none"
          pco,      \* subscriber whose coroutine the publisher thread is running (0: none)
          pdel,     \* subscriber whose coroutine P still has to let run on after get_value (delivery to the caller)
                    \* before it continues the wake-up loop (0: none) -- same stretch of code as the next PWake
          call      \* per subscriber thread: form of the next() in progress ("none" | "block" | "poll" | "coro")

cvars == <<ppc, pkind, pco, pdel, call>>
allvars == <<vars, cvars>>

CInit == /\ Init
         /\ ppc = "idle" /\ pkind = "none" /\ pco = 0 /\ pdel = 0
         /\ call = [s \in Subs |-> "none"]

(* the thread of s is at its command loop: no call in progress, or its coroutine is suspended in next() *)
ThreadIdle(s) == call[s] = "none" \/ (call[s] = "coro" /\ pc[s] = "parked")

AfterLoop == IF pkind = "push" THEN "tail" ELSE "idle"

-----------------------------------------------------------------------------
(* subscriber threads *)
TJoinRecent(s, m) == call[s] = "none" /\ SubscribeRecent(s, m) /\ UNCHANGED cvars
TJoinAt(s, p, m) == call[s] = "none" /\ SubscribeAt(s, p, m) /\ UNCHANGED cvars
(* CopyWoken: the original may also be copied between the publisher's critical section that collected its
   awaiter and its own get_value (the registration then already points to the value the original is about to
   receive: the `woken` bit of the repaired code tells the copy so) *)
TJoinCopy(c, o) ==
    /\ call[c] = "none"
    /\ pc[o] = "parked" => (Slot(o).awt = o \/ CopyWoken)
    /\ pdel # o
    /\ SubscribeCopy(c, o)
    /\ UNCHANGED cvars

(* ~subscriber; a thread may destroy its subscriber together with the coroutine parked on it *)
TLeave(s) ==
    /\ ThreadIdle(s) /\ pco # s /\ pdel # s
    /\ Leave(s)
    /\ call' = [call EXCEPT ![s] = "none"]
    /\ UNCHANGED <<ppc, pkind, pco, pdel>>

(* first critical section of next(): await_ready() -> advance_lk *)
TReady(s, st) ==
    /\ st \in (CStyles \cap {"block", "coro"}) /\ call[s] = "none"
    /\ Ready(s)
    /\ call' = [call EXCEPT ![s] = st]
    /\ UNCHANGED <<ppc, pkind, pco, pdel>>

(* await_suspend() / sync(): subscribe() -> advance_suspend_lk *)
TSubscribe(s) ==
    /\ call[s] \in {"block", "coro"} /\ pdel # s
    /\ Subscribe(s)
    /\ UNCHANGED cvars

(* await_resume() -> check_next() -> get_value_lk on the subscriber's own thread *)
TFetch(s) ==
    /\ call[s] \in {"block", "coro"} /\ pco # s /\ pdel # s
    /\ Fetch(s)
    /\ call' = [call EXCEPT ![s] = "none"]
    /\ UNCHANGED <<ppc, pkind, pco, pdel>>

(* next_ready(), publisher.h: await_ready(); if ready await_resume() -- two critical sections *)
TPollReady(s) ==
    /\ "poll" \in CStyles /\ call[s] = "none" /\ pc[s] = "idle" /\ Slot(s).pos <= pos
    /\ LET r == AdvanceLk(Slot(s), mode[s]) IN
         /\ regs' = [regs EXCEPT ![hnd[s] + 1] = r.l]
         /\ IF r.ok THEN /\ pc' = [pc EXCEPT ![s] = "fetch"]
                         /\ call' = [call EXCEPT ![s] = "poll"]
                         /\ res' = [res EXCEPT ![s] = "none"]
                    ELSE /\ res' = [res EXCEPT ![s] = "notready"]
                         /\ UNCHANGED <<pc, call>>
    /\ UNCHANGED <<pubvars, nextFree, wakeq, hnd, mode, recv, wakes, start, oow, wasKicked, left, plan, njoin, nkick,
                   ppc, pkind, pco, pdel>>

TPollFetch(s) ==
    /\ call[s] = "poll" /\ pc[s] = "fetch"
    /\ LET g == GetValueLk(Slot(s), mode[s]) IN
         IF g.eos THEN /\ regs' = [regs EXCEPT ![hnd[s] + 1] = g.l]
                       /\ res' = [res EXCEPT ![s] = "notready"]
                       /\ pc' = [pc EXCEPT ![s] = "idle"]
                       /\ UNCHANGED <<recv, wakes>>
                  ELSE Deliver(s, g)
    /\ call' = [call EXCEPT ![s] = "none"]
    /\ UNCHANGED <<pubvars, nextFree, wakeq, hnd, mode, start, oow, wasKicked, left, plan, njoin, nkick, ppc, pkind, pco, pdel>>

-----------------------------------------------------------------------------
(* the publisher thread *)
PPush(n) ==
    /\ ppc = "idle"
    /\ PushCS(n)
    /\ ppc' = IF wakeq' = <<>> THEN "tail" ELSE "wake"
    /\ pkind' = "push"
    /\ UNCHANGED <<pco, pdel, call>>

(* close() on a closed queue returns from its only critical section *)
PClose(how) ==
    /\ ppc = "idle"
    /\ Close(how)
    /\ ppc' = IF closed THEN "idle" ELSE IF wakeq' = <<>> THEN "tail" ELSE "wake"
    /\ pkind' = IF closed THEN "none" ELSE "push"
    /\ UNCHANGED <<pco, pdel, call>>

PKick(s) ==
    /\ ppc = "idle"
    /\ KickCS(s, "pub")
    /\ ppc' = IF wakeq' = <<>> THEN "idle" ELSE "wake"
    /\ pkind' = "kick"
    /\ UNCHANGED <<pco, pdel, call>>

(* the wake-up loop from where it stands up to the next lock operation of this thread: the blocked
   threads at the head of the list are released (their flags are set: they are runnable at once); the
   first coroutine is resumed and runs, on this thread, up to the lock of its get_value *)
RECURSIVE LeadBlocked(_)
LeadBlocked(w) == IF w # <<>> /\ call[Head(w)] = "block" THEN 1 + LeadBlocked(Tail(w)) ELSE 0

PWake ==
    /\ ppc = "wake" /\ wakeq # <<>>
    /\ LET k == LeadBlocked(wakeq)
           rest == SubSeq(wakeq, k + 1, Len(wakeq))
           woken == {wakeq[i] : i \in 1..k} \cup (IF rest # <<>> THEN {Head(rest)} ELSE {})
       IN /\ \A s \in woken : pc[s] = "parked"
          /\ pc' = [s \in Subs |-> IF s \in woken THEN "fetch" ELSE pc[s]]
          /\ wakes' = [s \in Subs |-> IF s \in woken THEN wakes[s] + 1 ELSE wakes[s]]
          /\ IF rest # <<>>
               THEN wakeq' = Tail(rest) /\ pco' = Head(rest) /\ ppc' = "co"
               ELSE wakeq' = <<>> /\ pco' = 0 /\ ppc' = AfterLoop
    /\ pdel' = 0
    /\ call' = [s \in Subs |-> IF s = pdel THEN "none" ELSE call[s]]     \* its coroutine has handed the result over
    /\ UNCHANGED <<pubvars, regs, nextFree, hnd, mode, recv, res, start, oow, wasKicked, left, plan, njoin, nkick, pkind>>

(* get_value_lk of the resumed coroutine, run by the publisher thread *)
PFetch ==
    /\ ppc = "co" /\ pco # 0
    /\ Fetch(pco)
    /\ pco' = 0
    /\ IF wakeq = <<>> THEN ppc' = AfterLoop /\ pdel' = 0 /\ call' = [call EXCEPT ![pco] = "none"]
                       ELSE ppc' = "wake" /\ pdel' = pco /\ UNCHANGED call
    /\ UNCHANGED pkind

(* critical section 2 of publish/close: lk.lock(); std::swap(wk, _wakeup_buffer); ~unique_lock *)
PTail ==
    /\ ppc = "tail"
    /\ ppc' = "idle" /\ pkind' = "none"
    /\ UNCHANGED <<vars, pco, pdel, call>>

CNext == \/ \E s \in Subs, m \in Modes : TJoinRecent(s, m)
         \/ \E s \in Subs, p \in AtPos, m \in Modes : TJoinAt(s, p, m)
         \/ \E c \in Subs, o \in Subs : TJoinCopy(c, o)
         \/ \E s \in Subs : TLeave(s)
         \/ \E s \in Subs, st \in {"block", "coro"} : TReady(s, st)
         \/ \E s \in Subs : TSubscribe(s)
         \/ \E s \in Subs : TFetch(s)
         \/ \E s \in Subs : TPollReady(s)
         \/ \E s \in Subs : TPollFetch(s)
         \/ \E n \in 1..MaxBatch : PPush(n)
         \/ \E how \in {"close", "destroy"} : PClose(how)
         \/ \E s \in Subs : PKick(s)
         \/ PWake
         \/ PFetch
         \/ PTail

CSpec == CInit /\ [][CNext]_allvars

-----------------------------------------------------------------------------
(* thread-level invariants (the C16 invariants of Publisher.tla are listed in the cfg as well) *)
ThreadsOK ==
    /\ ppc \in {"idle", "wake", "co", "tail"}
    /\ (ppc = "idle") => (wakeq = <<>> /\ pco = 0 /\ pdel = 0)
    /\ (ppc = "co") <=> (pco # 0)
    /\ pco # 0 => (pc[pco] = "fetch" /\ call[pco] = "coro")
    /\ pdel # 0 => ppc = "wake"
    /\ \A s \in Subs : /\ call[s] = "none" => pc[s] \in {"unborn", "idle", "eos"}
                       /\ call[s] = "poll" => pc[s] = "fetch"
                       /\ (call[s] \in {"block", "coro"} /\ pdel # s) => pc[s] \in {"nr", "fetch", "parked"}
                       /\ pdel = s => (call[s] = "coro" /\ pc[s] \in {"idle", "eos"})

(* a thread blocked in next() (or a parked coroutine) is released by somebody: it is registered, or
   collected in the publisher's wake-up list while the publisher thread is still in its loop *)
NobodyForgotten ==
    \A s \in Subs : pc[s] = "parked" =>
        \/ Slot(s).awt = s
        \/ (\E i \in 1..Len(wakeq) : wakeq[i] = s) /\ ppc \in {"wake", "co"}

=============================================================================
