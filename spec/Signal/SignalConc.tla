----------------------------- MODULE SignalConc -----------------------------
(***************************************************************************)
(* cocls::signal<T> with listeners subscribing on other threads than the   *)
(* collector -- the concurrent companion of Signal.tla, at the grain of    *)
(* the atomic operations on state::_chain (an awaiter_collector, i.e. an   *)
(* instrumented atomic under -DCOCLS_VERIF).  As in Future.tla a step of a *)
(* thread is "perform the pending visible operation, then run thread-local *)
(* code up to the next visible operation"; that is the step the controlled *)
(* scheduler (rt/include/cocls_verif/vsched.h) replays on real threads.    *)
(*                                                                         *)
(* Visible operations:                                                     *)
(*   xchg   awaiter::resume_chain  chain.exchange(nullptr)   awaiter.h:85  *)
(*          (from collector::operator(), signal.h:96-139, and from ~state, *)
(*          signal.h:47-50)                                                *)
(*   cas    awaiter::subscribe  one compare_exchange iteration awaiter.h:73*)
(*          (from emitter::await_suspend signal.h:196, Awt::initial_reg    *)
(*          :301 and Awt::resume :284/:291)                                *)
(*   emit / drop / start   harness marks: the next collector call, the     *)
(*          destruction of the collector thread's handle, the start of a   *)
(*          listener thread                                                *)
(*                                                                         *)
(* Threads: the collector thread C performs NEmit collector calls (the     *)
(* returned suspend point is discarded at once: a normal thread, so the    *)
(* released coroutines run nested in the call, and re-await the emitter    *)
(* there: the re-subscription CAS of a listener is executed by C), then      *)
(* destroys its collector.  Every listener of ThrL / ThrCb* has a thread   *)
(* of its own on which its first subscription happens: a coroutine started *)
(* with `co_await emitter` (loop listener), or signal::connect(fn) through *)
(* a signal object owned by that thread and destroyed after connect()      *)
(* returned.  PreL / PreCb* are subscribed before the threads start.       *)
(*                                                                         *)
(* Strong references: weak_ptr::lock in emitter::await_suspend / Awt::     *)
(* resume / Awt::initial_reg is a temporary strong reference that is held  *)
(* *across* the subscription CAS; whichever thread drops the last strong   *)
(* reference runs ~state (possibly a listener thread, at the end of its    *)
(* await_suspend).  The reference count itself (std::shared_ptr control    *)
(* block) is not a scheduling point: trusted.                              *)
(*                                                                         *)
(* HookL = {h}: there is no signal at the start; h's thread runs a         *)
(* coroutine whose first co_await is on signal::hook_up(fn)                *)
(* (hook_up_emitter::await_suspend, signal.h:331-339): it creates the      *)
(* signal, SUBSCRIBES the coroutine (CAS on the new chain) and only then   *)
(* calls fn with the collector; fn hands the collector to the collector    *)
(* thread (and prepares the emitters / signal objects of the other         *)
(* arriving threads), which may emit from that moment on -- while h's      *)
(* thread is still inside fn / await_suspend (harness mark "handed").      *)
(* Because the subscription precedes the hand-over, h receives every value *)
(* (RaceGuarantee with sub[h] = 0).                                        *)
(***************************************************************************)
EXTENDS Integers, Sequences, FiniteSets, TLC

CONSTANTS PreL, ThrL, HookL,               \* coroutine listeners (re-await in a loop until cancelled)
          PreCbT, PreCbF, ThrCbT, ThrCbF,  \* connected callbacks answering true (always) / false
          NEmit,
          Form                             \* "rvalue" | "lvalue": where the value lives during a call

CoroL == PreL \cup ThrL \cup HookL
CbTrue == PreCbT \cup ThrCbT
CbFalse == PreCbF \cup ThrCbF
Cbs == CbTrue \cup CbFalse
ThrCb == ThrCbT \cup ThrCbF
Thr == ThrL \cup ThrCb \cup HookL          \* listener threads, named after their listener
Pre == PreL \cup PreCbT \cup PreCbF
Listeners == CoroL \cup Cbs

ASSUME Cardinality(HookL) <= 1 /\ (HookL # {} => Pre = {})

CANCEL == -1
POISON == -9

VARIABLES
    slot,      \* state::_chain: "null" | listener on top of the stack
    nxt,       \* awaiter::_next of each listener's node (doubles as the expected value of its CAS)
    refs,      \* use_count of the shared state
    cur, stor, cvar,   \* _cur_val ("null"|"storage"|"caller"), _value_storage (0: none), caller's variable
    lst,       \* per listener: "new" | "casing" | "waiting" | "out" | "done" | "freed"
               \*   out = detached from the chain by an exchange, not yet resumed / called
    received,  \* per listener: values seen, CANCEL for await_canceled_exception
    sub,       \* ghost: number of exchanges performed before the listener's first subscription took effect (-1: not yet)
    nx,        \* ghost: number of emitting exchanges performed
    cpc,       \* collector thread: "emit" | "xchg" | "cas" | "drop" | "dxchg" | "done"
    k,         \* collector calls started
    walk,      \* C: rest of the detached chain still to be walked (local `chain` of resume_chain_lk)
    csp,       \* C: coroutine handles collected in the suspend point under construction
    run,       \* C: handles of the discarded suspend point still to be resumed
    casn,      \* C: the listener whose subscription CAS C is executing
    tpc        \* listener threads: "start" | "cas" | "handed" (HookL: inside fn, collector handed over) | "dxchg" | "done"

vars == <<slot, nxt, refs, cur, stor, cvar, lst, received, sub, nx, cpc, k, walk, csp, run, casn, tpc>>

RECURSIVE ChainFrom(_, _, _)
ChainFrom(n, f, fuel) == IF n = "null" \/ fuel = 0 THEN <<>> ELSE <<n>> \o ChainFrom(f[n], f, fuel - 1)
Chain == ChainFrom(slot, nxt, Cardinality(Listeners) + 1)

Injective(s) == \A i, j \in DOMAIN s : i # j => s[i] # s[j]

Init ==
    /\ \E order \in [1..Cardinality(Pre) -> Pre] :
          /\ Injective(order)
          (* subscribed in this order: the last one is on top *)
          /\ slot = IF Pre = {} THEN "null" ELSE order[Cardinality(Pre)]
          /\ nxt = [l \in Listeners |-> IF \E i \in 2..Cardinality(Pre) : order[i] = l
                                          THEN order[(CHOOSE i \in 2..Cardinality(Pre) : order[i] = l) - 1]
                                          ELSE "null"]
    /\ refs = IF HookL = {} THEN 1 + Cardinality(ThrCb) ELSE 0
    /\ cur = "null" /\ stor = 0 /\ cvar = 0
    /\ lst = [l \in Listeners |-> IF l \in Pre THEN "waiting" ELSE "new"]
    /\ received = [l \in Listeners |-> <<>>]
    /\ sub = [l \in Listeners |-> IF l \in Pre THEN 0 ELSE -1]
    /\ nx = 0
    /\ cpc = IF NEmit > 0 THEN "emit" ELSE "drop"
    /\ k = 0
    /\ walk = <<>> /\ csp = <<>> /\ run = <<>> /\ casn = "null"
    /\ tpc = [t \in Thr |-> "start"]

(* with hook_up() nobody but the hooked coroutine can act before its registration function has handed the
   collector over *)
Handed == \A h \in HookL : tpc[h] \in {"handed", "dxchg", "done"}

(* emitter::await_resume, signal.h:204-217 *)
ReadVal == IF refs = 0 \/ cur = "null" THEN CANCEL ELSE IF cur = "storage" THEN stor ELSE cvar

-----------------------------------------------------------------------------
(* Thread-local continuation of the collector thread inside collector::operator():
   resume_chain_lk (awaiter.h:102-111) walks the detached chain: a coroutine handle is appended to the
   suspend point; a callback node runs Awt::resume (signal.h:275-296) at once: lock (temporary strong
   reference), fn(value); true -> subscribe again = next visible operation (a CAS executed by C);
   false -> delete this.  After the walk the suspend point is discarded on a normal thread
   (suspend_point.h:130-142): each coroutine is resumed in array order, reads the value, loops and
   re-awaits the emitter: lock + subscribe = next visible operation (a CAS executed by C).
   S = [nxt, refs, lst, received, walk, csp, run, casn, cpc, cvar] *)
RECURSIVE CRun(_, _)
CRun(S, got) ==
    IF S.walk # <<>> THEN
        LET n == Head(S.walk)
            S1 == [S EXCEPT !.walk = Tail(@), !.nxt[n] = "null"]
        IN  IF n \in CoroL THEN CRun([S1 EXCEPT !.csp = Append(@, n)], got)
            ELSE LET S2 == [S1 EXCEPT !.received[n] = Append(@, got)]
                 IN  IF n \in CbTrue
                       THEN [S2 EXCEPT !.casn = n, !.cpc = "cas", !.lst[n] = "casing", !.refs = @ + 1]
                       ELSE CRun([S2 EXCEPT !.lst[n] = "freed"], got)
    ELSE IF S.csp # <<>> THEN CRun([S EXCEPT !.run = S.csp, !.csp = <<>>], got)
    ELSE IF S.run # <<>> THEN
        LET l == Head(S.run)
        IN  [S EXCEPT !.run = Tail(@), !.received[l] = Append(@, got),
                      !.casn = l, !.cpc = "cas", !.lst[l] = "casing", !.refs = @ + 1]
    ELSE (* the collector call returns; the referenced lvalue goes out of scope *)
        [S EXCEPT !.cpc = IF k < NEmit THEN "emit" ELSE "drop",
                  !.cvar = IF Form = "lvalue" THEN POISON ELSE @]

CLocal == [nxt |-> nxt, refs |-> refs, lst |-> lst, received |-> received, walk |-> walk, csp |-> csp,
           run |-> run, casn |-> casn, cpc |-> cpc, cvar |-> cvar]

ApplyC(S) ==
    /\ nxt' = S.nxt /\ refs' = S.refs /\ lst' = S.lst /\ received' = S.received /\ walk' = S.walk
    /\ csp' = S.csp /\ run' = S.run /\ casn' = S.casn /\ cpc' = S.cpc /\ cvar' = S.cvar

(* ~state after its exchange: every detached callback deletes itself without calling fn (lock fails),
   every detached coroutine is resumed (nested on a plain thread, through the coroutine queue on a
   listener thread) and await_resume throws; nobody re-awaits, so there is no further visible operation *)
DtorAll ==
    /\ slot' = "null"
    /\ nxt' = [l \in Listeners |-> "null"]
    /\ lst' = [l \in Listeners |-> IF lst[l] = "waiting" THEN (IF l \in CoroL THEN "done" ELSE "freed") ELSE lst[l]]
    /\ received' = [l \in Listeners |-> IF lst[l] = "waiting" /\ l \in CoroL THEN Append(received[l], CANCEL) ELSE received[l]]

-----------------------------------------------------------------------------
(* collector thread *)

(* mark "emit"; the value is written by plain stores before the exchange (signal.h:97-98,115-116,137) *)
CEmit ==
    /\ cpc = "emit" /\ Handed
    /\ k' = k + 1
    /\ IF Form = "lvalue"
         THEN cvar' = k + 1 /\ cur' = "caller" /\ UNCHANGED stor
         ELSE stor' = k + 1 /\ cur' = "storage" /\ UNCHANGED cvar
    /\ cpc' = "xchg"
    /\ UNCHANGED <<slot, nxt, refs, lst, received, sub, nx, walk, csp, run, casn, tpc>>

CXchg ==
    /\ cpc = "xchg"
    /\ slot' = "null"
    /\ nx' = nx + 1
    /\ LET det == [l \in Listeners |-> IF \E i \in 1..Len(Chain) : Chain[i] = l THEN "out" ELSE lst[l]]
       IN  ApplyC(CRun([CLocal EXCEPT !.walk = Chain, !.lst = det], ReadVal))
    /\ UNCHANGED <<cur, stor, sub, k, tpc>>

(* one iteration of compare_exchange(_next, this) for the node of `casn`, executed by C *)
CCas ==
    /\ cpc = "cas"
    /\ IF slot = nxt[casn]
         THEN /\ slot' = casn
              (* subscribed; the temporary strong reference of await_suspend / Awt::resume is released
                 (never the last one: C owns a collector) and the walk / the flush continues *)
              /\ ApplyC(CRun([CLocal EXCEPT !.lst[casn] = "waiting", !.refs = @ - 1, !.casn = "null"], ReadVal))
         ELSE /\ nxt' = [nxt EXCEPT ![casn] = slot]
              /\ UNCHANGED <<slot, refs, lst, received, walk, csp, run, casn, cpc, cvar>>
    /\ UNCHANGED <<cur, stor, sub, nx, k, tpc>>

(* mark "drop": C destroys its collector; the last strong reference runs ~state up to its exchange *)
CDrop ==
    /\ cpc = "drop" /\ Handed
    /\ refs' = refs - 1
    /\ IF refs = 1
         THEN cur' = "null" /\ stor' = 0 /\ cpc' = "dxchg"
         ELSE UNCHANGED <<cur, stor>> /\ cpc' = "done"
    /\ UNCHANGED <<slot, nxt, cvar, lst, received, sub, nx, k, walk, csp, run, casn, tpc>>

CDxchg ==
    /\ cpc = "dxchg"
    /\ DtorAll
    /\ cpc' = "done"
    /\ UNCHANGED <<refs, cur, stor, cvar, sub, nx, k, walk, csp, run, casn, tpc>>

-----------------------------------------------------------------------------
(* listener threads *)

(* mark "start": the coroutine runs up to await_suspend's CAS (lock succeeded) or is resumed at once with
   the exception (lock failed); connect() allocates the Awt, initial_reg locks (the thread owns a signal
   object, so the state is alive) and reaches the CAS *)
TStart(t) ==
    /\ tpc[t] = "start"
    /\ t \notin HookL => Handed
    /\ IF t \in HookL
         THEN (* `signal s;` (one reference) and the lock of emitter::await_suspend (a second one) *)
              /\ refs' = 2
              /\ lst' = [lst EXCEPT ![t] = "casing"]
              /\ tpc' = [tpc EXCEPT ![t] = "cas"]
              /\ UNCHANGED received
       ELSE IF t \in ThrL /\ refs = 0
         THEN /\ received' = [received EXCEPT ![t] = Append(@, CANCEL)]
              /\ lst' = [lst EXCEPT ![t] = "done"]
              /\ tpc' = [tpc EXCEPT ![t] = "done"]
              /\ UNCHANGED refs
         ELSE /\ refs' = refs + 1
              /\ lst' = [lst EXCEPT ![t] = "casing"]
              /\ tpc' = [tpc EXCEPT ![t] = "cas"]
              /\ UNCHANGED received
    /\ UNCHANGED <<slot, nxt, cur, stor, cvar, sub, nx, cpc, k, walk, csp, run, casn>>

TCas(t) ==
    /\ tpc[t] = "cas"
    /\ IF slot = nxt[t]
         THEN LET r == IF t \in HookL
                         (* the temporary reference goes, the collector made for fn stays (moved to the collector
                            thread) and fn makes a signal object for every connecting thread; `s` is still alive *)
                         THEN refs + Cardinality(ThrCb)
                         ELSE refs - (IF t \in ThrCb THEN 2 ELSE 1)   \* temporary reference; + the thread's own signal object
              IN  /\ slot' = t
                  /\ lst' = [lst EXCEPT ![t] = "waiting"]
                  /\ sub' = [sub EXCEPT ![t] = nx]
                  /\ refs' = r
                  /\ IF t \in HookL THEN UNCHANGED <<cur, stor>> /\ tpc' = [tpc EXCEPT ![t] = "handed"]
                     ELSE IF r = 0 THEN cur' = "null" /\ stor' = 0 /\ tpc' = [tpc EXCEPT ![t] = "dxchg"]
                              ELSE UNCHANGED <<cur, stor>> /\ tpc' = [tpc EXCEPT ![t] = "done"]
                  /\ UNCHANGED nxt
         ELSE /\ nxt' = [nxt EXCEPT ![t] = slot]
              /\ UNCHANGED <<slot, lst, sub, refs, cur, stor, tpc>>
    /\ UNCHANGED <<cvar, received, nx, cpc, k, walk, csp, run, casn>>

(* mark "handed": fn returns, await_suspend returns true, its local signal object `s` is destroyed *)
THanded(t) ==
    /\ tpc[t] = "handed"
    /\ refs' = refs - 1
    /\ IF refs = 1 THEN cur' = "null" /\ stor' = 0 /\ tpc' = [tpc EXCEPT ![t] = "dxchg"]
                   ELSE UNCHANGED <<cur, stor>> /\ tpc' = [tpc EXCEPT ![t] = "done"]
    /\ UNCHANGED <<slot, nxt, cvar, lst, received, sub, nx, cpc, k, walk, csp, run, casn>>

TDxchg(t) ==
    /\ tpc[t] = "dxchg"
    /\ DtorAll
    /\ tpc' = [tpc EXCEPT ![t] = "done"]
    /\ UNCHANGED <<refs, cur, stor, cvar, sub, nx, cpc, k, walk, csp, run, casn>>

Next == \/ CEmit \/ CXchg \/ CCas \/ CDrop \/ CDxchg
        \/ \E t \in Thr : TStart(t) \/ TCas(t) \/ THanded(t) \/ TDxchg(t)

Fair == /\ WF_vars(CEmit \/ CXchg \/ CCas \/ CDrop \/ CDxchg)
        /\ \A t \in Thr : WF_vars(TStart(t) \/ TCas(t) \/ THanded(t) \/ TDxchg(t))

Spec == Init /\ [][Next]_vars /\ Fair

-----------------------------------------------------------------------------
(* Properties *)

Range(s) == {s[i] : i \in 1..Len(s)}
Vals(a, b) == [i \in 1..(IF b > a THEN b - a ELSE 0) |-> a + i]      \* <<a+1, ..., b>>

TypeOK ==
    /\ slot \in {"null"} \cup Listeners
    /\ \A l \in Listeners : nxt[l] \in {"null"} \cup Listeners
    /\ \A l \in Listeners : lst[l] \in {"new", "casing", "waiting", "out", "done", "freed"}
    /\ refs >= 0
    /\ cpc \in {"emit", "xchg", "cas", "drop", "dxchg", "done"}
    /\ \A t \in Thr : tpc[t] \in {"start", "cas", "handed", "dxchg", "done"}

(* never lost: a listener whose subscription took effect is in the chain, or in the hands of the
   collector thread (detached, to be resumed), or finished; the chain is an acyclic list of distinct
   subscribed listeners *)
ChainWellFormed ==
    /\ Len(Chain) <= Cardinality(Listeners)
    /\ \A i, j \in 1..Len(Chain) : i # j => Chain[i] # Chain[j]
    /\ \A l \in Listeners : (lst[l] = "waiting") <=> (l \in Range(Chain))
    /\ \A l \in Listeners : (lst[l] = "out") <=> (l \in Range(walk \o csp \o run))
    /\ \A l \in Listeners : (lst[l] = "casing") <=> ((cpc = "cas" /\ casn = l) \/ (l \in Thr /\ tpc[l] = "cas"))
    /\ cpc # "cas" => casn = "null"

(* the state stays alive while somebody is inside a collector call or a subscription *)
RefsSound ==
    /\ (Handed /\ cpc \in {"emit", "xchg", "cas", "drop"}) => refs > 0
    /\ \A t \in Thr : tpc[t] \in {"cas", "handed"} => refs > 0
    /\ refs = 0 => cur = "null"

(* What is guaranteed when a subscription races with a collector call: the listener whose CAS took
   effect before the call's exchange (sub < that exchange's number) gets the value of this call; one whose
   CAS took effect after it is in the chain for the next call.  Never lost, never called twice for a
   value, no value skipped from the first one on (re-await misses none), values in order. *)
RaceGuarantee ==
    \A l \in Listeners :
        LET got == received[l] IN
        IF sub[l] < 0
          THEN (* not subscribed yet: nothing, or cancelled at once because the state was already gone *)
               got = IF lst[l] = "done" THEN <<CANCEL>> ELSE <<>>
          ELSE IF l \in CoroL
            THEN CASE lst[l] \in {"waiting", "casing"} -> got = Vals(sub[l], nx)
                   [] lst[l] = "out" -> got = Vals(sub[l], nx - 1)
                   [] lst[l] = "done" -> got = Vals(sub[l], nx) \o <<CANCEL>>
                   [] OTHER -> FALSE
          ELSE IF l \in CbTrue
            THEN CASE lst[l] \in {"waiting", "casing", "freed"} -> got = Vals(sub[l], nx)
                   [] lst[l] = "out" -> got = Vals(sub[l], nx - 1)
                   [] OTHER -> FALSE
          ELSE CASE lst[l] = "waiting" -> got = <<>> /\ nx = sub[l]
                 [] lst[l] = "out" -> got = <<>> /\ nx = sub[l] + 1
                 [] lst[l] = "freed" -> got = IF nx > sub[l] THEN <<sub[l] + 1>> ELSE <<>>
                 [] OTHER -> FALSE

(* nothing is read through a dangling pointer *)
NoDanglingRead == \A l \in Listeners : POISON \notin Range(received[l])

AllDone == cpc = "done" /\ \A t \in Thr : tpc[t] = "done"

(* when every thread has finished every handle is gone: nobody is left waiting, every coroutine got the
   exception exactly once (RaceGuarantee gives the exact sequence), every callback object is freed *)
DisconnectWakesAll ==
    AllDone => /\ refs = 0 /\ slot = "null"
               /\ \A l \in CoroL : lst[l] = "done" /\ Len(SelectSeq(received[l], LAMBDA x : x = CANCEL)) = 1
               /\ \A c \in Cbs : lst[c] = "freed" /\ CANCEL \notin Range(received[c])

(* ~state runs exactly when the count drops to zero and only then *)
DtorOnlyAtZero == (cpc = "dxchg" \/ \E t \in Thr : tpc[t] = "dxchg") => refs = 0

NoStuckState == (~ ENABLED Next) => AllDone
Termination == <>[]AllDone

=============================================================================
