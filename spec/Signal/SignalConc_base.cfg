SPECIFICATION Spec
INVARIANTS TypeOK ChainWellFormed RefsSound RaceGuarantee NoDanglingRead DisconnectWakesAll DtorOnlyAtZero NoStuckState
PROPERTIES Termination
CHECK_DEADLOCK FALSE
