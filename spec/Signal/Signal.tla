------------------------------- MODULE Signal -------------------------------
(***************************************************************************)
(* cocls::signal<T> (src/cocls/signal.h) on top of the awaiter chain       *)
(* (src/cocls/awaiter.h:69-111), suspend_point (suspend_point.h:97-191)    *)
(* and the thread's coroutine queue (coro_queue.h) -- sequential histories *)
(* at the grain of the public calls.  One action per call of the client:   *)
(*                                                                         *)
(*   Emit(s,form)    collector::operator()          signal.h:96-139        *)
(*                   (value written, chain.exchange(nullptr), walk:        *)
(*                    coroutine handles go to the returned suspend point,  *)
(*                    connected callbacks run *inside* the walk and        *)
(*                    re-subscribe / delete themselves, signal.h:275-296)  *)
(*   ReleaseSP(how)  the returned suspend_point is destroyed ("discard":   *)
(*                   suspend_point.h:97,130 -- normal thread: listeners    *)
(*                   run inside the destructor; inside a coroutine they    *)
(*                   are pushed to the coroutine queue) or co_awaited      *)
(*                   ("await": suspend_point.h:167, last handle first by   *)
(*                   symmetric transfer, then the queue, then the caller)  *)
(*   Yield           the emitting coroutine suspends (co_await pause()):   *)
(*                   the coroutine queue is flushed in FIFO order          *)
(*   ListenerAwait   a listener coroutine executes `co_await emitter`      *)
(*                   (emitter::await_suspend, signal.h:192-201: subscribes *)
(*                   if weak_ptr::lock succeeds, else resumes at once and  *)
(*                   await_resume throws await_canceled_exception :216)    *)
(*   Rebind          the emitter OBJECT a listener awaits is constructed / *)
(*                   assigned from another emitter (signal.h:173-185)      *)
(*   Connect         signal::connect(fn)  signal.h:261-312 (new Awt;       *)
(*                   initial_reg subscribes)                               *)
(*   ConnectDead     the same on a signal object that carries no state     *)
(*                   (initial_reg :302-304 -> resume :277-279 delete this) *)
(*   CopyHandle / MoveHandle / DropHandle / StateDtor   copies, moves and  *)
(*                   destruction of signal / collector objects (strong     *)
(*                   references); StateDtor = destruction of the last one  *)
(*                   = ~state (signal.h:47-50): _cur_val = nullptr, chain  *)
(*                   released                                              *)
(*   EndScope        the variable passed to the lvalue-reference form of   *)
(*                   the collector goes out of scope                       *)
(*                                                                         *)
(* What a released listener does is not an action of its own in a          *)
(* sequential history (it runs nested in ReleaseSP / Yield / StateDtor):   *)
(* ResumeOne below is emitter::await_resume (signal.h:204-217) followed by *)
(* the listener's own code.  A Loop listener "does nothing between signals *)
(* except re-await the emitter"; a Gated listener returns to a gate and    *)
(* re-awaits when the history says so (arrival/departure of listeners).    *)
(* Callbacks: CbT always returns true, CbOnce returns true on its first    *)
(* call only, CbF returns false on the first call.                         *)
(*                                                                         *)
(* Several signal objects (Sigs) live side by side; every coroutine        *)
(* listener owns ONE emitter object, which it awaits again and again and   *)
(* which the history re-binds while the listener is not suspended on it:   *)
(* bind[l] is the signal the emitter's weak reference designates (NOBIND:  *)
(* a default-constructed emitter / one obtained from a signal object       *)
(* without state).  The emitter has no other state of its own (signal.h    *)
(* :219-221): after a re-binding it behaves exactly like a fresh emitter   *)
(* of the source's signal, whatever it has seen before.                    *)
(*                                                                         *)
(* Values are numbered 1,2,3.. in emit order over all signals (0 for       *)
(* signal<void>, and 0 = T{} for the argument-less call on signal<T>).     *)
(* Strict = TRUE restricts the history generator to the discipline under   *)
(* which the implementation promises delivery of *every* value             *)
(* (signal.h:131-133,156-160; suspend_point.h:27-30): between two collector*)
(* calls, and before the last handle is dropped / the referenced lvalue    *)
(* dies, the suspend point of the previous call has been released and the  *)
(* released listeners have run (always the case for a discarded suspend    *)
(* point on a normal thread and for an awaited one).  Strict = FALSE       *)
(* generates all histories and models what the code does then: a released  *)
(* but not yet resumed listener reads the value that is current when it    *)
(* finally runs (a later one, a dead variable, or the cancel exception).   *)
(*                                                                         *)
(* Ways to obtain a listener/collector pair: `signal s;` first, then        *)
(* get_emitter() / get_collector() / connect() in any order (Hooked = {};   *)
(* the order of the getters has no effect on the state, the replayer varies *)
(* it), or signal::hook_up(fn) (signal.h:317-386; Hooked = {h}): the shared *)
(* state does not exist until h's first co_await, see HookUp.               *)
(*                                                                         *)
(* Listeners subscribing on another thread than the collector: see the     *)
(* companion module SignalConc.tla (atomic-operation grain on _chain).     *)
(* Configurations: Signal_seq.cfg (Strict), Signal_free.cfg (all           *)
(* histories), Signal_hook.cfg, Signal_rebind.cfg (two signals, emitter    *)
(* objects re-bound); tools/checks/c15.py derives its runs from            *)
(* Signal_base.cfg.                                                        *)
(***************************************************************************)
EXTENDS Integers, Sequences, FiniteSets, TLC

CONSTANTS Loop, Gated,          \* coroutine listeners
          CbT, CbOnce, CbF,     \* connected callbacks
          Forms,                \* call forms of the collector: subset of {"inplace","inplace2","rvalue","lvalue","default"},
                                \*   or {"void"} for signal<void>
          MaxEmit, MaxHandles,
          CoroMode,             \* TRUE: the history runs inside a coroutine (coro_queue active)
          Strict,
          Hooked,               \* {} or {h}, h \in Loop \cup Gated: h awaits a hook_up() emitter, which creates the signal
          RegEmit,              \* how many values the registration function of hook_up may emit before it returns
          Sigs,                 \* the signal objects: 1..n
          Rebinds,              \* forms of re-binding an emitter object: subset of {"cctor","mctor","cassign","massign"}
          Rebound,              \* the listeners whose emitter object is re-bound (the others' emitters are sources only)
          MaxCancel,            \* how often a listener goes on awaiting an emitter after it has thrown
          Shells                \* TRUE: signal objects without state (moved-from) are used too

ASSUME Sigs = 1..Cardinality(Sigs) /\ Sigs # {}
ASSUME Hooked # {} => (Sigs = {1} /\ Rebinds = {})
ASSUME Rebound \subseteq Loop \cup Gated

Coros == Loop \cup Gated
Cbs == CbT \cup CbOnce \cup CbF
Listeners == Coros \cup Cbs
Void == Forms = {"void"}

CANCEL == -1      \* await_canceled_exception
POISON == -9      \* content of a variable whose life time has ended
NOBIND == 0       \* an emitter whose weak reference is empty

VARIABLES
    refs,      \* per signal: number of live signal/collector objects = use_count of the shared state; 0: state destroyed
    chain,     \* per signal: state::_chain as the sequence of subscribed awaiters, top of the stack first
    cur,       \* per signal: state::_cur_val: "null" | "storage" | "caller"
    stor,      \* per signal: state::_value_storage: [has, v]
    cvar,      \* per signal: the caller's variable last passed by lvalue reference (0: none yet, POISON: dead)
    held,      \* a suspend point returned by the collector has not been released yet
    sp,        \* coroutine handles carried by that suspend point, array order
    queue,     \* coro_queue of the thread (coroutine mode): released listeners not yet resumed
    st,        \* per listener: "new" | "gate" | "waiting" | "released" | "done" | "freed"
    bind,      \* per listener: the signal its emitter object (its connect() node) is bound to, NOBIND for none
    received,  \* per listener: values seen by `co_await emitter` / the callback, CANCEL for the exception
    due,       \* ghost: what the property promises to the listener (see Emit, StateDtor, ListenerAwait)
    since,     \* ghost: number of emits before a Loop listener first subscribed
    elog,      \* ghost: the emissions so far, [s |-> signal, v |-> value]
    nemit

vars == <<refs, chain, cur, stor, cvar, held, sp, queue, st, bind, received, due, since, elog, nemit>>

Val(n) == IF Void THEN 0 ELSE n
NoStor == [has |-> FALSE, v |-> 0]

(* with hook_up() there is no shared state before the hooked listener's first co_await *)
Born == Hooked = {} \/ \E h \in Hooked : st[h] # "new"

Init ==
    /\ refs = [s \in Sigs |-> IF Hooked = {} THEN 1 ELSE 0]
    /\ chain = [s \in Sigs |-> <<>>]
    /\ cur = [s \in Sigs |-> "null"]
    /\ stor = [s \in Sigs |-> NoStor]
    /\ cvar = [s \in Sigs |-> 0]
    /\ held = FALSE
    /\ sp = <<>>
    /\ queue = <<>>
    /\ st = [l \in Listeners |-> "new"]
    /\ bind = [l \in Listeners |-> IF l \in Coros THEN 1 ELSE NOBIND]   \* `emitter e = s1.get_emitter()`
    /\ received = [l \in Listeners |-> <<>>]
    /\ due = [l \in Listeners |-> <<>>]
    /\ since = [l \in Listeners |-> 0]
    /\ elog = <<>>
    /\ nemit = 0

Count(s, x) == Cardinality({i \in 1..Len(s) : s[i] = x})
Front(s) == SubSeq(s, 1, Len(s) - 1)
Last(s) == s[Len(s)]
Range(s) == {s[i] : i \in 1..Len(s)}
Pending == sp # <<>> \/ queue # <<>>       \* some listener is released but has not run yet

-----------------------------------------------------------------------------
(* emitter::await_resume, signal.h:204-217, evaluated with the state's fields c (= _cur_val),
   s (= _value_storage), cv (= caller's variable) and `alive` = weak_ptr::lock succeeded *)
ReadVal(alive, c, s, cv) ==
    IF ~alive \/ c = "null" THEN CANCEL
    ELSE IF c = "storage" THEN s.v ELSE cv

(* what each listener's await_resume yields if it runs now: it reads through the weak reference of its own emitter *)
GotNow == [l \in Listeners |-> IF bind[l] = NOBIND THEN CANCEL
                                 ELSE ReadVal(refs[bind[l]] > 0, cur[bind[l]], stor[bind[l]], cvar[bind[l]])]
AllCancel == [l \in Listeners |-> CANCEL]

(* a released coroutine listener is resumed: await_resume, then its own code.
   W = [chain (per signal), st, received] *)
ResumeOne(W, l, got) ==
    LET W1 == [W EXCEPT !.received[l] = Append(@, got)]
    IN  IF l \in Loop
          THEN IF got = CANCEL
                 THEN [W1 EXCEPT !.st[l] = "done"]
                 (* `co_await emitter` again: await_suspend subscribes (awaiter::subscribe, push on top) *)
                 ELSE [W1 EXCEPT !.st[l] = "waiting", !.chain[bind[l]] = <<l>> \o @]
          ELSE [W1 EXCEPT !.st[l] = "gate"]

RECURSIVE RunAll(_, _, _)
RunAll(W, ls, gotf) == IF ls = <<>> THEN W ELSE RunAll(ResumeOne(W, Head(ls), gotf[Head(ls)]), Tail(ls), gotf)

(* awaiter::resume_chain_lk (awaiter.h:102-111) on the detached chain `nodes` of one signal while a value is being
   emitted: coroutine -> handle appended to the suspend point; connected callback -> Awt::resume
   (signal.h:275-296) runs now: calls fn(value); true: subscribes itself again, false: delete this.
   W = [chain (of that signal), st, received, sp] *)
RECURSIVE WalkEmit(_, _, _)
WalkEmit(W, nodes, got) ==
    IF nodes = <<>> THEN W
    ELSE LET n == Head(nodes)
             again == n \in CbT \/ (n \in CbOnce /\ W.received[n] = <<>>)
             W1 == IF n \in Coros
                     THEN [W EXCEPT !.sp = Append(@, n), !.st[n] = "released"]
                     ELSE LET R == [W EXCEPT !.received[n] = Append(@, got)]
                          IN  IF again THEN [R EXCEPT !.chain = <<n>> \o @]
                                       ELSE [R EXCEPT !.st[n] = "freed"]
         IN  WalkEmit(W1, Tail(nodes), got)

(* the same walk from ~state: weak_ptr::lock fails in Awt::resume -> delete this without calling fn *)
RECURSIVE WalkDtor(_, _)
WalkDtor(W, nodes) ==
    IF nodes = <<>> THEN W
    ELSE LET n == Head(nodes)
             W1 == IF n \in Coros
                     THEN [W EXCEPT !.sp = Append(@, n), !.st[n] = "released"]
                     ELSE [W EXCEPT !.st[n] = "freed"]
         IN  WalkDtor(W1, Tail(nodes))

-----------------------------------------------------------------------------
(* `co_await emitter` executed by a listener that is not suspended on the emitter *)
ListenerAwait(l) ==
    /\ l \in Coros /\ st[l] \in {"new", "gate"}
    /\ Born /\ ~(l \in Hooked /\ st[l] = "new")
    /\ IF bind[l] # NOBIND /\ refs[bind[l]] > 0
         THEN /\ chain' = [chain EXCEPT ![bind[l]] = <<l>> \o @]
              /\ st' = [st EXCEPT ![l] = "waiting"]
              /\ since' = IF st[l] = "new" THEN [since EXCEPT ![l] = nemit] ELSE since
              /\ UNCHANGED <<received, due>>
         ELSE (* disconnected: await_suspend returns false, await_resume throws *)
              /\ Count(received[l], CANCEL) < MaxCancel
              /\ received' = [received EXCEPT ![l] = Append(@, CANCEL)]
              /\ due' = [due EXCEPT ![l] = Append(@, CANCEL)]
              /\ st' = [st EXCEPT ![l] = IF l \in Loop THEN "done" ELSE "gate"]
              /\ since' = IF st[l] = "new" THEN [since EXCEPT ![l] = nemit] ELSE since
              /\ UNCHANGED chain
    /\ UNCHANGED <<refs, cur, stor, cvar, held, sp, queue, bind, elog, nemit>>

(* The emitter object of listener l is constructed anew / assigned while l is not suspended on it
   (signal.h:173-185): "cctor" emitter(const emitter &) :177, "mctor" emitter(emitter &&) :178,
   "cassign" the hand-written operator=(const emitter &) :179-184, "massign" operator=(emitter &&) :185.
   The source is: an emitter of signal src (an lvalue kept since the signal was created, or a fresh
   `sig.get_emitter()`; the replayer varies it), the empty emitter (NOBIND: `emitter()` :173 or get_emitter() :232
   of a signal object without state), or -- copy forms -- the emitter object of ANOTHER listener, which may be
   subscribed at that moment (only its weak reference is read).
   A Loop listener leaves its loop after the exception, so only its first binding matters. *)
Rebind(l, how, src) ==
    /\ how \in Rebinds /\ l \in Rebound /\ l \notin Hooked /\ Born
    /\ st[l] \in (IF l \in Loop THEN {"new"} ELSE {"new", "gate"})
    /\ src \in Coros => (src # l /\ how \in {"cctor", "cassign"})
    /\ bind' = [bind EXCEPT ![l] = IF src \in Coros THEN bind[src] ELSE src]
    /\ UNCHANGED <<refs, chain, cur, stor, cvar, held, sp, queue, st, received, due, since, elog, nemit>>

(* The first `co_await` on the object returned by signal::hook_up(fn), hook_up_emitter::await_suspend
   (signal.h:331-339): a new signal is created, the coroutine is SUBSCRIBED (emitter::await_suspend), and only
   then the registration function is called with the collector: fn(s.get_collector()).  What fn does:
     n values emitted synchronously through the collector before it returns ("a source that replays its current
       value to a new observer"); every call's suspend point is discarded inside fn, which runs inside the awaiting
       coroutine's await_suspend, hence with an active coroutine queue: the released listener is queued.  The first
       value finds the listener in the chain -- that is the point of hook_up -- the following ones find nobody
       (the listener has not run yet) and only overwrite the storage: excluded by the discipline (Strict);
     mode "store": fn keeps the collector (the handle of the history from now on);
     mode "drop":  fn lets it go: the local signal object of await_suspend is the last reference, ~state runs at
       the return of await_suspend and the listener is resumed with the exception.
   On a normal thread the coroutine was started through install_queue_and_resume (async::detach/start), whose
   queue is flushed as soon as the coroutine has suspended: the queued listener runs within this very action;
   inside another coroutine it stays in that coroutine's queue (Yield). *)
HookUp(l, mode, n) ==
    /\ l \in Hooked /\ st[l] = "new"
    /\ nemit + n <= MaxEmit
    /\ Strict => (n <= 1 /\ (mode = "drop" => n = 0))
    /\ LET alive == mode = "store"
           lastv == Val(nemit + n)
           rel == n > 0 \/ ~alive          \* released by the first registration emit, else by ~state
           got == IF alive THEN lastv ELSE CANCEL
       IN  /\ refs' = [refs EXCEPT ![1] = IF alive THEN 1 ELSE 0]
           /\ cur' = [cur EXCEPT ![1] = IF alive /\ n > 0 THEN "storage" ELSE "null"]
           /\ stor' = [stor EXCEPT ![1] = IF alive /\ n > 0 THEN [has |-> TRUE, v |-> lastv] ELSE NoStor]
           /\ due' = [due EXCEPT ![l] = IF n > 0 THEN <<Val(nemit + 1)>> ELSE IF alive THEN <<>> ELSE <<CANCEL>>]
           /\ IF ~rel
                THEN chain' = [chain EXCEPT ![1] = <<l>>] /\ st' = [st EXCEPT ![l] = "waiting"] /\ UNCHANGED <<received, queue>>
                ELSE IF CoroMode
                  THEN /\ queue' = queue \o <<l>> /\ st' = [st EXCEPT ![l] = "released"]
                       /\ chain' = [chain EXCEPT ![1] = <<>>] /\ UNCHANGED received
                  ELSE LET W == ResumeOne([chain |-> [chain EXCEPT ![1] = <<>>], st |-> st, received |-> received], l, got)
                       IN  chain' = W.chain /\ st' = W.st /\ received' = W.received /\ UNCHANGED queue
    /\ since' = [since EXCEPT ![l] = nemit]
    /\ elog' = elog \o [i \in 1..n |-> [s |-> 1, v |-> Val(nemit + i)]]
    /\ nemit' = nemit + n
    /\ UNCHANGED <<cvar, held, sp, bind>>

(* signal::connect on a signal object of signal s (a live state) *)
Connect(c, s) ==
    /\ c \in Cbs /\ st[c] = "new" /\ refs[s] > 0
    /\ chain' = [chain EXCEPT ![s] = <<c>> \o @]
    /\ st' = [st EXCEPT ![c] = "waiting"]
    /\ bind' = [bind EXCEPT ![c] = s]
    /\ UNCHANGED <<refs, cur, stor, cvar, held, sp, queue, received, due, since, elog, nemit>>

(* signal::connect on a signal object that carries no state (moved-from, or made from such a collector):
   `new Awt` with an empty weak reference; initial_reg (signal.h:298-305) cannot lock it and calls resume(),
   whose no-state branch (:277-279) deletes the object: the callable is never called and is destroyed now *)
ConnectDead(c) ==
    /\ Shells /\ c \in Cbs /\ st[c] = "new"
    /\ st' = [st EXCEPT ![c] = "freed"]
    /\ UNCHANGED <<refs, chain, cur, stor, cvar, held, sp, queue, bind, received, due, since, elog, nemit>>

(* v: the value the call passes: the next number; T{} = 0 for the argument-less call ("default") *)
Emit(s, form) ==
    /\ refs[s] > 0 /\ nemit < MaxEmit /\ ~held
    /\ Strict => queue = <<>>
    /\ LET v == IF form = "default" THEN 0 ELSE Val(nemit + 1)
           cur1 == IF form = "lvalue" THEN "caller" ELSE "storage"
           stor1 == IF form = "lvalue" THEN stor[s] ELSE [has |-> TRUE, v |-> v]
           cvar1 == IF form = "lvalue" THEN v ELSE cvar[s]
           got == ReadVal(TRUE, cur1, stor1, cvar1)
           W == WalkEmit([chain |-> <<>>, st |-> st, received |-> received, sp |-> <<>>], chain[s], got)
       IN  /\ cur' = [cur EXCEPT ![s] = cur1] /\ stor' = [stor EXCEPT ![s] = stor1] /\ cvar' = [cvar EXCEPT ![s] = cvar1]
           /\ chain' = [chain EXCEPT ![s] = W.chain] /\ st' = W.st /\ received' = W.received /\ sp' = W.sp
           /\ due' = [l \in Listeners |-> IF l \in Range(chain[s]) THEN Append(due[l], v) ELSE due[l]]
           /\ elog' = Append(elog, [s |-> s, v |-> v])
    /\ held' = TRUE
    /\ nemit' = nemit + 1
    /\ UNCHANGED <<refs, queue, since, bind>>

ReleaseSP(how) ==
    /\ held
    /\ how = "await" => CoroMode
    /\ LET W0 == [chain |-> chain, st |-> st, received |-> received]
       IN  IF how = "discard" /\ CoroMode
             THEN /\ queue' = queue \o sp
                  /\ UNCHANGED <<chain, st, received>>
             ELSE LET order == IF how = "discard" \/ sp = <<>> THEN sp
                               ELSE <<Last(sp)>> \o queue \o Front(sp)
                      W == RunAll(W0, order, GotNow)
                  IN  /\ chain' = W.chain /\ st' = W.st /\ received' = W.received
                      /\ queue' = IF how = "await" /\ sp # <<>> THEN <<>> ELSE queue
    /\ held' = FALSE
    /\ sp' = <<>>
    /\ UNCHANGED <<refs, cur, stor, cvar, bind, due, since, elog, nemit>>

Yield ==
    /\ CoroMode /\ queue # <<>>
    /\ LET W == RunAll([chain |-> chain, st |-> st, received |-> received], queue, GotNow)
       IN  chain' = W.chain /\ st' = W.st /\ received' = W.received
    /\ queue' = <<>>
    /\ UNCHANGED <<refs, cur, stor, cvar, held, sp, bind, due, since, elog, nemit>>

CopyHandle(s) ==
    /\ refs[s] > 0 /\ refs[s] < MaxHandles
    /\ refs' = [refs EXCEPT ![s] = @ + 1]
    /\ UNCHANGED <<chain, cur, stor, cvar, held, sp, queue, st, bind, received, due, since, elog, nemit>>

(* a signal / collector object is moved to a new object (the defaulted move operations of signal and collector:
   the shared_ptr is moved): the use count stays, the source becomes an object without state *)
MoveHandle(s) ==
    /\ Shells /\ refs[s] > 0
    /\ UNCHANGED vars

DropHandle(s) ==
    /\ refs[s] > 1
    /\ refs' = [refs EXCEPT ![s] = @ - 1]
    /\ UNCHANGED <<chain, cur, stor, cvar, held, sp, queue, st, bind, received, due, since, elog, nemit>>

(* the last signal/collector object of signal s is destroyed: ~state *)
StateDtor(s) ==
    /\ refs[s] = 1
    /\ Strict => ~Pending
    /\ refs' = [refs EXCEPT ![s] = 0]
    /\ cur' = [cur EXCEPT ![s] = "null"]
    /\ stor' = [stor EXCEPT ![s] = NoStor]
    /\ LET W == WalkDtor([st |-> st, sp |-> <<>>], chain[s])
           W0 == [chain |-> [chain EXCEPT ![s] = <<>>], st |-> W.st, received |-> received]
       IN  /\ due' = [l \in Listeners |-> IF l \in Coros /\ l \in Range(chain[s]) THEN Append(due[l], CANCEL) ELSE due[l]]
           /\ IF CoroMode
                THEN /\ queue' = queue \o W.sp
                     /\ st' = W.st /\ chain' = W0.chain /\ UNCHANGED received
                ELSE LET R == RunAll(W0, W.sp, AllCancel)
                     IN  /\ st' = R.st /\ chain' = R.chain /\ received' = R.received
                         /\ UNCHANGED queue
    /\ UNCHANGED <<cvar, held, sp, bind, since, elog, nemit>>

EndScope(s) ==
    /\ cvar[s] \notin {0, POISON}
    /\ Strict => (~Pending \/ cur[s] # "caller")
    /\ cvar' = [cvar EXCEPT ![s] = POISON]
    /\ UNCHANGED <<refs, chain, cur, stor, held, sp, queue, st, bind, received, due, since, elog, nemit>>

(* everything except the re-binding of emitter objects, which is possible for ever *)
NextCore == \/ \E l \in Coros : ListenerAwait(l)
            \/ \E l \in Hooked, m \in {"store", "drop"}, n \in 0..RegEmit : HookUp(l, m, n)
            \/ \E c \in Cbs, s \in Sigs : Connect(c, s)
            \/ \E c \in Cbs : ConnectDead(c)
            \/ \E s \in Sigs, f \in Forms : Emit(s, f)
            \/ \E h \in {"discard", "await"} : ReleaseSP(h)
            \/ Yield
            \/ \E s \in Sigs : CopyHandle(s) \/ MoveHandle(s) \/ DropHandle(s) \/ StateDtor(s) \/ EndScope(s)

Next == \/ NextCore
        \/ \E l \in Coros, h \in Rebinds, x \in Sigs \cup {NOBIND} \cup Coros : Rebind(l, h, x)

Spec == Init /\ [][Next]_vars

-----------------------------------------------------------------------------
(* Properties (C15) *)

NoDup(s) == \A i, j \in 1..Len(s) : i # j => s[i] # s[j]
Dead(l) == bind[l] = NOBIND \/ refs[bind[l]] = 0

TypeOK ==
    /\ \A s \in Sigs : refs[s] \in 0..MaxHandles /\ cur[s] \in {"null", "storage", "caller"}
    /\ \A l \in Listeners : st[l] \in {"new", "gate", "waiting", "released", "done", "freed"}
    /\ \A l \in Listeners : bind[l] \in Sigs \cup {NOBIND}
    /\ \A c \in Cbs : st[c] \in {"new", "waiting", "freed"}
    /\ nemit \in 0..MaxEmit /\ Len(elog) = nemit

(* a subscribed listener is in the chain of the signal it is bound to, exactly once, and in no other chain; a
   released one is in exactly one of the pending suspend point / the coroutine queue; nobody else is anywhere:
   no listener is lost *)
ChainWellFormed ==
    /\ \A s \in Sigs : NoDup(chain[s])
    /\ \A s, t \in Sigs : s # t => Range(chain[s]) \cap Range(chain[t]) = {}
    /\ NoDup(sp \o queue)
    /\ \A l \in Listeners : (st[l] = "waiting") <=> (bind[l] # NOBIND /\ l \in Range(chain[bind[l]]))
    /\ \A l \in Listeners, s \in Sigs : l \in Range(chain[s]) => bind[l] = s
    /\ \A l \in Listeners : (st[l] = "released") <=> (l \in Range(sp \o queue))
    /\ ~CoroMode => queue = <<>>
    /\ sp # <<>> => held

(* the state points to a value whenever somebody can be about to read it *)
CurValid == \A s \in Sigs : (refs[s] > 0 /\ \E i \in 1..Len(elog) : elog[i].s = s) =>
                               /\ cur[s] # "null"
                               /\ cur[s] = "storage" => stor[s].has

IsPrefix(a, b) == Len(a) <= Len(b) /\ SubSeq(b, 1, Len(a)) = a

(* AllWaitingGetIt + OncePerEmit: under the discipline, every listener that was subscribed when a
   value was passed to the collector receives exactly that value -- whatever the call form and whatever the
   forms of the calls before it --, exactly once, in order -- and nothing else; a released listener has
   exactly its last promised item outstanding *)
AllWaitingGetIt ==
    Strict => \A l \in Listeners :
                 IF st[l] = "released" THEN received[l] = Front(due[l]) ELSE received[l] = due[l]

(* without the discipline the count is still exact (each release resumes the listener exactly once,
   never twice, never zero times) and what is read is never an *older* value (the argument-less call passes
   T{} = 0, which is not ordered with the numbered values) *)
OncePerEmit ==
    \A l \in Listeners :
        /\ Len(received[l]) = Len(due[l]) - (IF st[l] = "released" THEN 1 ELSE 0)
        /\ \A i \in 1..Len(received[l]) :
              \/ received[l][i] = due[l][i]
              \/ received[l][i] \in {CANCEL, POISON}
              \/ (~Void /\ due[l][i] # CANCEL /\ received[l][i] > due[l][i])
              \/ ("default" \in Forms /\ due[l][i] # CANCEL /\ received[l][i] = 0)

(* no value is read through a pointer to a dead variable *)
NoDanglingRead == Strict => \A l \in Listeners : POISON \notin Range(received[l])

(* a listener that only re-awaits misses nothing of its signal from its first subscription on *)
ValuesOf(s, from) == LET x == SelectSeq(SubSeq(elog, from + 1, Len(elog)), LAMBDA e : e.s = s)
                     IN  [i \in 1..Len(x) |-> x[i].v]
ReAwaitMissesNone ==
    Strict => \A l \in Loop : st[l] # "new" =>
        due[l] = IF bind[l] = NOBIND THEN <<CANCEL>>
                 ELSE ValuesOf(bind[l], since[l]) \o (IF refs[bind[l]] = 0 THEN <<CANCEL>> ELSE <<>>)

(* after the last handle of a signal nobody stays subscribed to it; every listener subscribed at that moment has
   the cancel exception promised (delivered exactly once by AllWaitingGetIt/OncePerEmit); callbacks are released *)
DisconnectWakesAll ==
    /\ \A s \in Sigs : refs[s] = 0 => chain[s] = <<>>
    /\ \A l \in Listeners : Dead(l) => st[l] # "waiting"
    /\ \A c \in Cbs : Dead(c) => st[c] \in {"new", "freed"}
    /\ (~CoroMode /\ ~held) => \A l \in Coros : st[l] # "released"

DisconnectPromisesCancel ==
    [][\A s \in Sigs : (refs[s] = 1 /\ refs'[s] = 0) =>
         \A l \in Coros : (st[l] = "waiting" /\ bind[l] = s) => due'[l] = Append(due[l], CANCEL) /\ st'[l] # "waiting"]_vars

(* awaiting a disconnected emitter fails immediately with the same exception *)
AwaitDisconnectedFails ==
    [][\A l \in Coros : (Born /\ Dead(l) /\ st[l] \in {"new", "gate"} /\ <<st[l], received[l]>> # <<st'[l], received'[l]>>)
          => /\ received'[l] = Append(received[l], CANCEL)
             /\ st'[l] \in {"gate", "done"}]_vars

(* ... and awaiting an emitter of a live signal subscribes the listener to THAT signal, whatever the emitter
   object was bound to and has seen before *)
AwaitAliveSubscribes ==
    [][\A l \in Coros : (~Dead(l) /\ st[l] \in {"new", "gate"} /\ st'[l] # st[l] /\ ~(l \in Hooked /\ st[l] = "new"))
          => /\ st'[l] = "waiting" /\ received'[l] = received[l]
             /\ chain'[bind[l]] = <<l>> \o chain[bind[l]]]_vars

(* a re-bound emitter designates the signal of its source *)
RebindFollowsSource ==
    [][\A l \in Coros : bind'[l] # bind[l] =>
          /\ st[l] \in {"new", "gate"} /\ st'[l] = st[l] /\ received'[l] = received[l]
          /\ bind'[l] \in Sigs \cup {NOBIND}]_vars

(* connected callback objects: one allocation per connect, destroyed exactly once and never used
   afterwards; the number of live objects is the number of subscribed callbacks; a callback connected to an
   object without state is destroyed at once and never called *)
LiveCallbacks == Cardinality({c \in Cbs : st[c] = "waiting"})
CallbacksFreed ==
    /\ [][\A c \in Cbs : /\ st[c] = "freed" => (st'[c] = "freed" /\ received'[c] = received[c])
                         /\ st[c] = "waiting" => st'[c] \in {"waiting", "freed"}
                         /\ (st[c] = "new" /\ st'[c] = "freed") => received'[c] = <<>>]_vars
CallbackAnswers ==
    \A c \in Cbs : /\ c \in CbF => Len(received[c]) <= 1
                   /\ c \in CbOnce => Len(received[c]) <= 2
                   /\ (c \in CbF /\ Len(received[c]) = 1) => st[c] = "freed"
                   /\ (c \in CbOnce /\ Len(received[c]) = 2) => st[c] = "freed"
                   /\ CANCEL \notin Range(received[c])

(* the only terminal states are the fully drained ones (CHECK_DEADLOCK is off) *)
NoStuckState == (~ ENABLED NextCore) => /\ \A s \in Sigs : refs[s] = 0
                                        /\ ~Pending /\ ~held
                                        /\ \A l \in Listeners : st[l] \notin {"waiting", "released"}

=============================================================================
