------------------------------- MODULE Signal -------------------------------
(***************************************************************************)
(* cocls::signal<T> (src/cocls/signal.h) on top of the awaiter chain       *)
(* (src/cocls/awaiter.h:69-111), suspend_point (suspend_point.h:97-191)    *)
(* and the thread's coroutine queue (coro_queue.h) -- sequential histories *)
(* at the grain of the public calls.  One action per call of the client:   *)
(*                                                                         *)
(*   Emit(form)      collector::operator()          signal.h:96-139        *)
(*                   (value written, chain.exchange(nullptr), walk:        *)
(*                    coroutine handles go to the returned suspend point,  *)
(*                    connected callbacks run *inside* the walk and        *)
(*                    re-subscribe / delete themselves, signal.h:275-296)  *)
(*   ReleaseSP(how)  the returned suspend_point is destroyed ("discard":   *)
(*                   suspend_point.h:97,130 -- normal thread: listeners    *)
(*                   run inside the destructor; inside a coroutine they    *)
(*                   are pushed to the coroutine queue) or co_awaited      *)
(*                   ("await": suspend_point.h:167, last handle first by   *)
(*                   symmetric transfer, then the queue, then the caller)  *)
(*   Yield           the emitting coroutine suspends (co_await pause()):   *)
(*                   the coroutine queue is flushed in FIFO order          *)
(*   ListenerAwait   a listener coroutine executes `co_await emitter`      *)
(*                   (emitter::await_suspend, signal.h:192-201: subscribes *)
(*                   if weak_ptr::lock succeeds, else resumes at once and  *)
(*                   await_resume throws await_canceled_exception :216)    *)
(*   Connect         signal::connect(fn)  signal.h:261-312 (new Awt;       *)
(*                   initial_reg subscribes)                               *)
(*   CopyHandle / DropHandle / StateDtor   copies and destruction of       *)
(*                   signal / collector objects (strong references);       *)
(*                   StateDtor = destruction of the last one = ~state      *)
(*                   (signal.h:47-50): _cur_val = nullptr, chain released  *)
(*   EndScope        the variable passed to the lvalue-reference form of   *)
(*                   the collector goes out of scope                       *)
(*                                                                         *)
(* What a released listener does is not an action of its own in a          *)
(* sequential history (it runs nested in ReleaseSP / Yield / StateDtor):   *)
(* ResumeOne below is emitter::await_resume (signal.h:204-217) followed by *)
(* the listener's own code.  A Loop listener "does nothing between signals *)
(* except re-await the emitter"; a Gated listener returns to a gate and    *)
(* re-awaits when the history says so (arrival/departure of listeners).    *)
(* Callbacks: CbT always returns true, CbOnce returns true on its first    *)
(* call only, CbF returns false on the first call.                         *)
(*                                                                         *)
(* Values are numbered 1,2,3.. in emit order (0 for signal<void>).         *)
(* Strict = TRUE restricts the history generator to the discipline under   *)
(* which the implementation promises delivery of *every* value             *)
(* (signal.h:131-133,156-160; suspend_point.h:27-30): between two collector*)
(* calls, and before the last handle is dropped / the referenced lvalue    *)
(* dies, the suspend point of the previous call has been released and the  *)
(* released listeners have run (always the case for a discarded suspend    *)
(* point on a normal thread and for an awaited one).  Strict = FALSE       *)
(* generates all histories and models what the code does then: a released  *)
(* but not yet resumed listener reads the value that is current when it    *)
(* finally runs (a later one, a dead variable, or the cancel exception).   *)
(*                                                                         *)
(* Ways to obtain a listener/collector pair: `signal s;` first, then        *)
(* get_emitter() / get_collector() / connect() in any order (Hooked = {};   *)
(* the order of the getters has no effect on the state, the replayer varies *)
(* it), or signal::hook_up(fn) (signal.h:317-386; Hooked = {h}): the shared *)
(* state does not exist until h's first co_await, see HookUp.               *)
(*                                                                         *)
(* Listeners subscribing on another thread than the collector: see the     *)
(* companion module SignalConc.tla (atomic-operation grain on _chain).     *)
(* Configurations: Signal_seq.cfg (Strict), Signal_free.cfg (all           *)
(* histories); tools/checks/c15.py derives its runs from Signal_base.cfg.  *)
(***************************************************************************)
EXTENDS Integers, Sequences, FiniteSets, TLC

CONSTANTS Loop, Gated,          \* coroutine listeners
          CbT, CbOnce, CbF,     \* connected callbacks
          Forms,                \* subset of {"inplace","rvalue","lvalue"}, or {"void"} for signal<void>
          MaxEmit, MaxHandles,
          CoroMode,             \* TRUE: the history runs inside a coroutine (coro_queue active)
          Strict,
          Hooked,               \* {} or {h}, h \in Loop \cup Gated: h awaits a hook_up() emitter, which creates the signal
          RegEmit               \* how many values the registration function of hook_up may emit before it returns

Coros == Loop \cup Gated
Cbs == CbT \cup CbOnce \cup CbF
Listeners == Coros \cup Cbs
Void == Forms = {"void"}

CANCEL == -1      \* await_canceled_exception
POISON == -9      \* content of a variable whose life time has ended

VARIABLES
    refs,      \* number of live signal/collector objects = use_count of the shared state; 0: state destroyed
    chain,     \* state::_chain as the sequence of subscribed awaiters, top of the stack first
    cur,       \* state::_cur_val: "null" | "storage" | "caller"
    stor,      \* state::_value_storage: [has, v]
    cvar,      \* the caller's variable last passed by lvalue reference (0: none yet, POISON: dead)
    held,      \* a suspend point returned by the collector has not been released yet
    sp,        \* coroutine handles carried by that suspend point, array order
    queue,     \* coro_queue of the thread (coroutine mode): released listeners not yet resumed
    st,        \* per listener: "new" | "gate" | "waiting" | "released" | "done" | "freed"
    received,  \* per listener: values seen by `co_await emitter` / the callback, CANCEL for the exception
    due,       \* ghost: what the property promises to the listener (see Emit, StateDtor, ListenerAwait)
    since,     \* ghost: number of emits before a Loop listener first subscribed
    nemit

vars == <<refs, chain, cur, stor, cvar, held, sp, queue, st, received, due, since, nemit>>

Val(n) == IF Void THEN 0 ELSE n
NoStor == [has |-> FALSE, v |-> 0]

(* with hook_up() there is no shared state before the hooked listener's first co_await *)
Born == Hooked = {} \/ \E h \in Hooked : st[h] # "new"

Init ==
    /\ refs = IF Hooked = {} THEN 1 ELSE 0
    /\ chain = <<>>
    /\ cur = "null"
    /\ stor = NoStor
    /\ cvar = 0
    /\ held = FALSE
    /\ sp = <<>>
    /\ queue = <<>>
    /\ st = [l \in Listeners |-> "new"]
    /\ received = [l \in Listeners |-> <<>>]
    /\ due = [l \in Listeners |-> <<>>]
    /\ since = [l \in Listeners |-> 0]
    /\ nemit = 0

Count(s, x) == Cardinality({i \in 1..Len(s) : s[i] = x})
Front(s) == SubSeq(s, 1, Len(s) - 1)
Last(s) == s[Len(s)]
Pending == sp # <<>> \/ queue # <<>>       \* some listener is released but has not run yet

-----------------------------------------------------------------------------
(* emitter::await_resume, signal.h:204-217, evaluated with the state's fields c (= _cur_val),
   s (= _value_storage), cv (= caller's variable) and `alive` = weak_ptr::lock succeeded *)
ReadVal(alive, c, s, cv) ==
    IF ~alive \/ c = "null" THEN CANCEL
    ELSE IF c = "storage" THEN s.v ELSE cv

(* a released coroutine listener is resumed: await_resume, then its own code.
   W = [chain, st, received] *)
ResumeOne(W, l, got) ==
    LET W1 == [W EXCEPT !.received[l] = Append(@, got)]
    IN  IF l \in Loop
          THEN IF got = CANCEL
                 THEN [W1 EXCEPT !.st[l] = "done"]
                 (* `co_await emitter` again: await_suspend subscribes (awaiter::subscribe, push on top) *)
                 ELSE [W1 EXCEPT !.st[l] = "waiting", !.chain = <<l>> \o @]
          ELSE [W1 EXCEPT !.st[l] = "gate"]

RECURSIVE RunAll(_, _, _)
RunAll(W, ls, got) == IF ls = <<>> THEN W ELSE RunAll(ResumeOne(W, Head(ls), got), Tail(ls), got)

(* awaiter::resume_chain_lk (awaiter.h:102-111) on the detached chain `nodes` while a value is being
   emitted: coroutine -> handle appended to the suspend point; connected callback -> Awt::resume
   (signal.h:275-296) runs now: calls fn(value); true: subscribes itself again, false: delete this.
   W = [chain, st, received, sp] *)
RECURSIVE WalkEmit(_, _, _)
WalkEmit(W, nodes, got) ==
    IF nodes = <<>> THEN W
    ELSE LET n == Head(nodes)
             again == n \in CbT \/ (n \in CbOnce /\ W.received[n] = <<>>)
             W1 == IF n \in Coros
                     THEN [W EXCEPT !.sp = Append(@, n), !.st[n] = "released"]
                     ELSE LET R == [W EXCEPT !.received[n] = Append(@, got)]
                          IN  IF again THEN [R EXCEPT !.chain = <<n>> \o @]
                                       ELSE [R EXCEPT !.st[n] = "freed"]
         IN  WalkEmit(W1, Tail(nodes), got)

(* the same walk from ~state: weak_ptr::lock fails in Awt::resume -> delete this without calling fn *)
RECURSIVE WalkDtor(_, _)
WalkDtor(W, nodes) ==
    IF nodes = <<>> THEN W
    ELSE LET n == Head(nodes)
             W1 == IF n \in Coros
                     THEN [W EXCEPT !.sp = Append(@, n), !.st[n] = "released"]
                     ELSE [W EXCEPT !.st[n] = "freed"]
         IN  WalkDtor(W1, Tail(nodes))

-----------------------------------------------------------------------------
(* `co_await emitter` executed by a listener that is not suspended on the emitter *)
ListenerAwait(l) ==
    /\ l \in Coros /\ st[l] \in {"new", "gate"}
    /\ Born /\ ~(l \in Hooked /\ st[l] = "new")
    /\ IF refs > 0
         THEN /\ chain' = <<l>> \o chain
              /\ st' = [st EXCEPT ![l] = "waiting"]
              /\ since' = IF st[l] = "new" THEN [since EXCEPT ![l] = nemit] ELSE since
              /\ UNCHANGED <<received, due>>
         ELSE (* disconnected: await_suspend returns false, await_resume throws *)
              /\ Count(received[l], CANCEL) < 2
              /\ received' = [received EXCEPT ![l] = Append(@, CANCEL)]
              /\ due' = [due EXCEPT ![l] = Append(@, CANCEL)]
              /\ st' = [st EXCEPT ![l] = IF l \in Loop THEN "done" ELSE "gate"]
              /\ since' = IF st[l] = "new" THEN [since EXCEPT ![l] = nemit] ELSE since
              /\ UNCHANGED chain
    /\ UNCHANGED <<refs, cur, stor, cvar, held, sp, queue, nemit>>

(* The first `co_await` on the object returned by signal::hook_up(fn), hook_up_emitter::await_suspend
   (signal.h:331-339): a new signal is created, the coroutine is SUBSCRIBED (emitter::await_suspend), and only
   then the registration function is called with the collector: fn(s.get_collector()).  What fn does:
     n values emitted synchronously through the collector before it returns ("a source that replays its current
       value to a new observer"); every call's suspend point is discarded inside fn, which runs inside the awaiting
       coroutine's await_suspend, hence with an active coroutine queue: the released listener is queued.  The first
       value finds the listener in the chain -- that is the point of hook_up -- the following ones find nobody
       (the listener has not run yet) and only overwrite the storage: excluded by the discipline (Strict);
     mode "store": fn keeps the collector (the handle of the history from now on);
     mode "drop":  fn lets it go: the local signal object of await_suspend is the last reference, ~state runs at
       the return of await_suspend and the listener is resumed with the exception.
   On a normal thread the coroutine was started through install_queue_and_resume (async::detach/start), whose
   queue is flushed as soon as the coroutine has suspended: the queued listener runs within this very action;
   inside another coroutine it stays in that coroutine's queue (Yield). *)
HookUp(l, mode, n) ==
    /\ l \in Hooked /\ st[l] = "new"
    /\ nemit + n <= MaxEmit
    /\ Strict => (n <= 1 /\ (mode = "drop" => n = 0))
    /\ LET alive == mode = "store"
           lastv == Val(nemit + n)
           rel == n > 0 \/ ~alive          \* released by the first registration emit, else by ~state
           got == IF alive THEN lastv ELSE CANCEL
       IN  /\ refs' = IF alive THEN 1 ELSE 0
           /\ cur' = IF alive /\ n > 0 THEN "storage" ELSE "null"
           /\ stor' = IF alive /\ n > 0 THEN [has |-> TRUE, v |-> lastv] ELSE NoStor
           /\ due' = [due EXCEPT ![l] = IF n > 0 THEN <<Val(nemit + 1)>> ELSE IF alive THEN <<>> ELSE <<CANCEL>>]
           /\ IF ~rel
                THEN chain' = <<l>> /\ st' = [st EXCEPT ![l] = "waiting"] /\ UNCHANGED <<received, queue>>
                ELSE IF CoroMode
                  THEN /\ queue' = queue \o <<l>> /\ st' = [st EXCEPT ![l] = "released"]
                       /\ chain' = <<>> /\ UNCHANGED received
                  ELSE LET W == ResumeOne([chain |-> <<>>, st |-> st, received |-> received], l, got)
                       IN  chain' = W.chain /\ st' = W.st /\ received' = W.received /\ UNCHANGED queue
    /\ since' = [since EXCEPT ![l] = nemit]
    /\ nemit' = nemit + n
    /\ UNCHANGED <<cvar, held, sp>>

(* signal::connect needs a signal object, hence a live state *)
Connect(c) ==
    /\ c \in Cbs /\ st[c] = "new" /\ refs > 0
    /\ chain' = <<c>> \o chain
    /\ st' = [st EXCEPT ![c] = "waiting"]
    /\ UNCHANGED <<refs, cur, stor, cvar, held, sp, queue, received, due, since, nemit>>

Emit(form) ==
    /\ refs > 0 /\ nemit < MaxEmit /\ ~held
    /\ Strict => queue = <<>>
    /\ LET v == Val(nemit + 1)
           cur1 == IF form = "lvalue" THEN "caller" ELSE "storage"
           stor1 == IF form = "lvalue" THEN stor ELSE [has |-> TRUE, v |-> v]
           cvar1 == IF form = "lvalue" THEN v ELSE cvar
           got == ReadVal(TRUE, cur1, stor1, cvar1)
           W == WalkEmit([chain |-> <<>>, st |-> st, received |-> received, sp |-> <<>>], chain, got)
       IN  /\ cur' = cur1 /\ stor' = stor1 /\ cvar' = cvar1
           /\ chain' = W.chain /\ st' = W.st /\ received' = W.received /\ sp' = W.sp
           /\ due' = [l \in Listeners |-> IF \E i \in 1..Len(chain) : chain[i] = l THEN Append(due[l], v) ELSE due[l]]
    /\ held' = TRUE
    /\ nemit' = nemit + 1
    /\ UNCHANGED <<refs, queue, since>>

ReleaseSP(how) ==
    /\ held
    /\ how = "await" => CoroMode
    /\ LET got == ReadVal(refs > 0, cur, stor, cvar)
           W0 == [chain |-> chain, st |-> st, received |-> received]
       IN  IF how = "discard" /\ CoroMode
             THEN /\ queue' = queue \o sp
                  /\ UNCHANGED <<chain, st, received>>
             ELSE LET order == IF how = "discard" \/ sp = <<>> THEN sp
                               ELSE <<Last(sp)>> \o queue \o Front(sp)
                      W == RunAll(W0, order, got)
                  IN  /\ chain' = W.chain /\ st' = W.st /\ received' = W.received
                      /\ queue' = IF how = "await" /\ sp # <<>> THEN <<>> ELSE queue
    /\ held' = FALSE
    /\ sp' = <<>>
    /\ UNCHANGED <<refs, cur, stor, cvar, due, since, nemit>>

Yield ==
    /\ CoroMode /\ queue # <<>>
    /\ LET W == RunAll([chain |-> chain, st |-> st, received |-> received], queue, ReadVal(refs > 0, cur, stor, cvar))
       IN  chain' = W.chain /\ st' = W.st /\ received' = W.received
    /\ queue' = <<>>
    /\ UNCHANGED <<refs, cur, stor, cvar, held, sp, due, since, nemit>>

CopyHandle ==
    /\ refs > 0 /\ refs < MaxHandles
    /\ refs' = refs + 1
    /\ UNCHANGED <<chain, cur, stor, cvar, held, sp, queue, st, received, due, since, nemit>>

DropHandle ==
    /\ refs > 1
    /\ refs' = refs - 1
    /\ UNCHANGED <<chain, cur, stor, cvar, held, sp, queue, st, received, due, since, nemit>>

(* the last signal/collector object is destroyed: ~state *)
StateDtor ==
    /\ refs = 1
    /\ Strict => ~Pending
    /\ refs' = 0
    /\ cur' = "null"
    /\ stor' = NoStor
    /\ LET W == WalkDtor([st |-> st, sp |-> <<>>], chain)
           W0 == [chain |-> <<>>, st |-> W.st, received |-> received]
       IN  /\ due' = [l \in Listeners |-> IF l \in Coros /\ \E i \in 1..Len(chain) : chain[i] = l
                                            THEN Append(due[l], CANCEL) ELSE due[l]]
           /\ IF CoroMode
                THEN /\ queue' = queue \o W.sp
                     /\ st' = W.st /\ chain' = <<>> /\ UNCHANGED received
                ELSE LET R == RunAll(W0, W.sp, CANCEL)
                     IN  /\ st' = R.st /\ chain' = R.chain /\ received' = R.received
                         /\ UNCHANGED queue
    /\ UNCHANGED <<cvar, held, sp, since, nemit>>

EndScope ==
    /\ cvar \notin {0, POISON}
    /\ Strict => (~Pending \/ cur # "caller")
    /\ cvar' = POISON
    /\ UNCHANGED <<refs, chain, cur, stor, held, sp, queue, st, received, due, since, nemit>>

Next == \/ \E l \in Coros : ListenerAwait(l)
        \/ \E l \in Hooked, m \in {"store", "drop"}, n \in 0..RegEmit : HookUp(l, m, n)
        \/ \E c \in Cbs : Connect(c)
        \/ \E f \in Forms : Emit(f)
        \/ \E h \in {"discard", "await"} : ReleaseSP(h)
        \/ Yield \/ CopyHandle \/ DropHandle \/ StateDtor \/ EndScope

Spec == Init /\ [][Next]_vars

-----------------------------------------------------------------------------
(* Properties (C15) *)

Range(s) == {s[i] : i \in 1..Len(s)}
NoDup(s) == \A i, j \in 1..Len(s) : i # j => s[i] # s[j]

TypeOK ==
    /\ refs \in 0..MaxHandles
    /\ cur \in {"null", "storage", "caller"}
    /\ \A l \in Listeners : st[l] \in {"new", "gate", "waiting", "released", "done", "freed"}
    /\ \A c \in Cbs : st[c] \in {"new", "waiting", "freed"}
    /\ nemit \in 0..MaxEmit

(* a subscribed listener is in the chain exactly once; a released one is in exactly one of the
   pending suspend point / the coroutine queue; nobody else is anywhere: no listener is lost *)
ChainWellFormed ==
    /\ NoDup(chain) /\ NoDup(sp \o queue)
    /\ \A l \in Listeners : (st[l] = "waiting") <=> (l \in Range(chain))
    /\ \A l \in Listeners : (st[l] = "released") <=> (l \in Range(sp \o queue))
    /\ ~CoroMode => queue = <<>>
    /\ sp # <<>> => held

(* the state points to a value whenever somebody can be about to read it *)
CurValid == (refs > 0 /\ nemit > 0) => /\ cur # "null"
                                       /\ cur = "storage" => stor.has

IsPrefix(a, b) == Len(a) <= Len(b) /\ SubSeq(b, 1, Len(a)) = a

(* AllWaitingGetIt + OncePerEmit: under the discipline, every listener that was subscribed when a
   value was passed to the collector receives exactly that value, exactly once, in order -- and
   nothing else; a released listener has exactly its last promised item outstanding *)
AllWaitingGetIt ==
    Strict => \A l \in Listeners :
                 IF st[l] = "released" THEN received[l] = Front(due[l]) ELSE received[l] = due[l]

(* without the discipline the count is still exact (each release resumes the listener exactly once,
   never twice, never zero times) and what is read is never an *older* value *)
OncePerEmit ==
    \A l \in Listeners :
        /\ Len(received[l]) = Len(due[l]) - (IF st[l] = "released" THEN 1 ELSE 0)
        /\ \A i \in 1..Len(received[l]) :
              \/ received[l][i] = due[l][i]
              \/ received[l][i] \in {CANCEL, POISON}
              \/ (~Void /\ due[l][i] # CANCEL /\ received[l][i] > due[l][i])

(* no value is read through a pointer to a dead variable *)
NoDanglingRead == Strict => \A l \in Listeners : POISON \notin Range(received[l])

(* a listener that only re-awaits misses nothing from its first subscription on *)
Consecutive(a, b) == [i \in 1..(IF b > a THEN b - a ELSE 0) |-> Val(a + i)]
ReAwaitMissesNone ==
    Strict => \A l \in Loop : st[l] # "new" =>
        due[l] = Consecutive(since[l], nemit) \o (IF refs = 0 THEN <<CANCEL>> ELSE <<>>)

(* after the last handle nobody stays subscribed; every listener subscribed at that moment has the
   cancel exception promised (delivered exactly once by AllWaitingGetIt/OncePerEmit); callbacks are
   released *)
DisconnectWakesAll ==
    refs = 0 => /\ chain = <<>>
                /\ \A l \in Listeners : st[l] # "waiting"
                /\ \A c \in Cbs : st[c] \in {"new", "freed"}
                /\ (~CoroMode /\ ~held) => \A l \in Coros : st[l] # "released"

DisconnectPromisesCancel ==
    [][(refs = 1 /\ refs' = 0) =>
         \A l \in Coros : st[l] = "waiting" => due'[l] = Append(due[l], CANCEL) /\ st'[l] # "waiting"]_vars

(* awaiting a disconnected emitter fails immediately with the same exception *)
AwaitDisconnectedFails ==
    [][\A l \in Coros : (Born /\ refs = 0 /\ st[l] \in {"new", "gate"} /\ <<st[l], received[l]>> # <<st'[l], received'[l]>>)
          => /\ received'[l] = Append(received[l], CANCEL)
             /\ st'[l] \in {"gate", "done"}]_vars

(* connected callback objects: one allocation per connect, destroyed exactly once and never used
   afterwards; the number of live objects is the number of subscribed callbacks *)
LiveCallbacks == Cardinality({c \in Cbs : st[c] = "waiting"})
CallbacksFreed ==
    /\ [][\A c \in Cbs : /\ st[c] = "freed" => (st'[c] = "freed" /\ received'[c] = received[c])
                         /\ st[c] = "waiting" => st'[c] \in {"waiting", "freed"}]_vars
CallbackAnswers ==
    \A c \in Cbs : /\ c \in CbF => Len(received[c]) <= 1
                   /\ c \in CbOnce => Len(received[c]) <= 2
                   /\ (c \in CbF /\ Len(received[c]) = 1) => st[c] = "freed"
                   /\ (c \in CbOnce /\ Len(received[c]) = 2) => st[c] = "freed"
                   /\ CANCEL \notin Range(received[c])

(* the only terminal states are the fully drained ones (CHECK_DEADLOCK is off) *)
NoStuckState == (~ ENABLED Next) => (refs = 0 /\ ~Pending /\ ~held /\ \A l \in Listeners : st[l] \notin {"waiting", "released"})

=============================================================================
