SPECIFICATION Spec
CONSTANTS
  PreL = {p1}
  HookL = {}
  ThrL = {l2}
  PreCbT = {}
  PreCbF = {}
  ThrCbT = {t3}
  ThrCbF = {}
  NEmit = 2
  Form = "rvalue"
INVARIANTS TypeOK ChainWellFormed RefsSound RaceGuarantee NoDanglingRead DisconnectWakesAll DtorOnlyAtZero NoStuckState
PROPERTIES Termination
CHECK_DEADLOCK FALSE
