SPECIFICATION Spec
INVARIANTS TypeOK HandleSetBeforePublication ChainWellFormed RefsSound RaceGuarantee NoDanglingRead DisconnectWakesAll DtorOnlyAtZero NoStuckState
PROPERTIES Termination
CHECK_DEADLOCK FALSE
