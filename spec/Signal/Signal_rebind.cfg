SPECIFICATION Spec
CONSTANTS
  Loop = {}
  Gated = {g1, g2}
  CbT = {}
  CbOnce = {}
  CbF = {c1}
  Forms = {"rvalue", "default"}
  MaxEmit = 2
  MaxHandles = 1
  CoroMode = FALSE
  Hooked = {}
  RegEmit = 0
  Sigs = {1, 2}
  Rebinds = {"cctor", "mctor", "cassign", "massign"}
  Rebound = {g1}
  MaxCancel = 1
  Shells = TRUE
  Strict = TRUE
INVARIANTS TypeOK ChainWellFormed CurValid AllWaitingGetIt OncePerEmit NoDanglingRead ReAwaitMissesNone DisconnectWakesAll CallbackAnswers NoStuckState
PROPERTIES DisconnectPromisesCancel AwaitDisconnectedFails AwaitAliveSubscribes RebindFollowsSource CallbacksFreed
CHECK_DEADLOCK FALSE
