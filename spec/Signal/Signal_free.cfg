SPECIFICATION Spec
CONSTANTS
  Loop = {l1}
  Gated = {g1}
  CbT = {}
  CbOnce = {c1}
  CbF = {}
  Forms = {"inplace", "rvalue", "lvalue"}
  MaxEmit = 3
  MaxHandles = 2
  CoroMode = TRUE
  Hooked = {}
  RegEmit = 0
  Sigs = {1}
  Rebinds = {}
  Rebound = {}
  MaxCancel = 2
  Shells = FALSE
  Strict = FALSE
INVARIANTS TypeOK ChainWellFormed CurValid AllWaitingGetIt OncePerEmit NoDanglingRead ReAwaitMissesNone DisconnectWakesAll CallbackAnswers NoStuckState
PROPERTIES DisconnectPromisesCancel AwaitDisconnectedFails AwaitAliveSubscribes RebindFollowsSource CallbacksFreed
CHECK_DEADLOCK FALSE
