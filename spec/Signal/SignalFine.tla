----------------------------- MODULE SignalFine -----------------------------
(***************************************************************************)
(* SignalConc.tla at the FINEST grain the controlled scheduler can replay  *)
(* (vsched yield_after): every visible operation X (exchange / CAS on      *)
(* state::_chain, harness marks) is a step of its own -- pc "pre_X": the   *)
(* thread is parked before X and the step performs X -- and the            *)
(* thread-local code between two visible operations is a step of its own   *)
(* -- pc "post_X": parked right after X, the step runs the plain code up   *)
(* to the next visible operation.  All plain accesses happen in the local  *)
(* steps: the collector's value write (signal.h:97-98,115-116,137), the    *)
(* chain walk and the resumption of listeners (awaiter.h:102-111), and in  *)
(* particular the node's handle / resume function, which                   *)
(* emitter::await_suspend writes with set_handle(h) BEFORE subscribe       *)
(* (signal.h:195-196; Awt's constructor sets its resume function before    *)
(* initial_reg, signal.h:269,311).  The rest of await_suspend after the    *)
(* publishing CAS ("post_cas_ok": return, release of the temporary strong  *)
(* reference, possibly ~state) can be delayed while the collector thread   *)
(* exchanges, walks and resumes the just published node: a node published  *)
(* before its handle is written would be walked in its unset state         *)
(* (awaiter::null_fn) and silently dropped -- exposed by the replay as a   *)
(* listener that the specification resumes and the implementation does not.*)
(*                                                                         *)
(* HookL (hook_up(fn), see SignalConc.tla): pre/post_start, pre_cas,       *)
(* post_cas_ok (local: fn is called and hands the collector over),        *)
(* pre/post_handed (local: return of fn and of await_suspend, ~s).         *)
(* Same constants, listener kinds, ghosts and properties as SignalConc.tla;*)
(* used with small mixes (1 collector + 1-2 arriving threads, 1-2 calls).  *)
(***************************************************************************)
EXTENDS Integers, Sequences, FiniteSets, TLC

CONSTANTS PreL, ThrL, HookL, PreCbT, PreCbF, ThrCbT, ThrCbF, NEmit, Form

CoroL == PreL \cup ThrL \cup HookL
CbTrue == PreCbT \cup ThrCbT
CbFalse == PreCbF \cup ThrCbF
Cbs == CbTrue \cup CbFalse
ThrCb == ThrCbT \cup ThrCbF
Thr == ThrL \cup ThrCb \cup HookL
Pre == PreL \cup PreCbT \cup PreCbF
Listeners == CoroL \cup Cbs

ASSUME Cardinality(HookL) <= 1 /\ (HookL # {} => Pre = {})

CANCEL == -1
POISON == -9

VARIABLES
    slot, nxt, refs, cur, stor, cvar,     \* as in SignalConc.tla
    hset,      \* the node's handle / resume function has been written (plain store)
    lst,       \* "new" | "casing" | "waiting" | "out" | "dout" | "done" | "freed"
               \*   out / dout = detached by the exchange of a collector call / of ~state, not yet resumed
    received, sub, nx,
    cpc,       \* collector thread: pre_emit post_emit pre_xchg post_xchg pre_cas post_cas_ok post_cas_fail
               \*                   pre_drop post_drop pre_dxchg post_dxchg done
    k, walk, csp, run, casn,
    dwalk,     \* the chain detached by ~state (local variable of the one thread that runs it)
    tpc        \* listener threads: pre_start post_start pre_cas post_cas_ok post_cas_fail pre_dxchg post_dxchg done

vars == <<slot, nxt, refs, cur, stor, cvar, hset, lst, received, sub, nx, cpc, k, walk, csp, run, casn, dwalk, tpc>>

RECURSIVE ChainFrom(_, _, _)
ChainFrom(n, f, fuel) == IF n = "null" \/ fuel = 0 THEN <<>> ELSE <<n>> \o ChainFrom(f[n], f, fuel - 1)
Chain == ChainFrom(slot, nxt, Cardinality(Listeners) + 1)
Range(s) == {s[i] : i \in 1..Len(s)}
Injective(s) == \A i, j \in DOMAIN s : i # j => s[i] # s[j]

Init ==
    /\ \E order \in [1..Cardinality(Pre) -> Pre] :
          /\ Injective(order)
          /\ slot = IF Pre = {} THEN "null" ELSE order[Cardinality(Pre)]
          /\ nxt = [l \in Listeners |-> IF \E i \in 2..Cardinality(Pre) : order[i] = l
                                          THEN order[(CHOOSE i \in 2..Cardinality(Pre) : order[i] = l) - 1]
                                          ELSE "null"]
    /\ refs = IF HookL = {} THEN 1 + Cardinality(ThrCb) ELSE 0
    /\ cur = "null" /\ stor = 0 /\ cvar = 0
    /\ hset = [l \in Listeners |-> l \in Pre]
    /\ lst = [l \in Listeners |-> IF l \in Pre THEN "waiting" ELSE "new"]
    /\ received = [l \in Listeners |-> <<>>]
    /\ sub = [l \in Listeners |-> IF l \in Pre THEN 0 ELSE -1]
    /\ nx = 0
    /\ cpc = IF NEmit > 0 THEN "pre_emit" ELSE "pre_drop"
    /\ k = 0
    /\ walk = <<>> /\ csp = <<>> /\ run = <<>> /\ casn = "null" /\ dwalk = <<>>
    /\ tpc = [t \in Thr |-> "pre_start"]

Handed == \A h \in HookL : tpc[h] \in {"pre_handed", "post_handed", "pre_dxchg", "post_dxchg", "done"}

ReadVal == IF refs = 0 \/ cur = "null" THEN CANCEL ELSE IF cur = "storage" THEN stor ELSE cvar

-----------------------------------------------------------------------------
(* Plain code of the collector thread inside collector::operator() up to its next visible operation;
   see CRun in SignalConc.tla.  A node whose handle is not set is resumed through awaiter::null_fn:
   nothing happens, it is simply gone (unreachable here: HandleSetBeforePublication).
   S = [nxt, refs, hset, lst, received, walk, csp, run, casn, cpc, cvar] *)
RECURSIVE CRun(_, _)
CRun(S, got) ==
    IF S.walk # <<>> THEN
        LET n == Head(S.walk)
            S1 == [S EXCEPT !.walk = Tail(@), !.nxt[n] = "null"]
        IN  IF ~S.hset[n] THEN CRun([S1 EXCEPT !.lst[n] = "lost"], got)
            ELSE IF n \in CoroL THEN CRun([S1 EXCEPT !.csp = Append(@, n)], got)
            ELSE LET S2 == [S1 EXCEPT !.received[n] = Append(@, got)]
                 IN  IF n \in CbTrue
                       THEN [S2 EXCEPT !.casn = n, !.cpc = "pre_cas", !.lst[n] = "casing", !.refs = @ + 1]
                       ELSE CRun([S2 EXCEPT !.lst[n] = "freed"], got)
    ELSE IF S.csp # <<>> THEN CRun([S EXCEPT !.run = S.csp, !.csp = <<>>], got)
    ELSE IF S.run # <<>> THEN
        LET l == Head(S.run)
        IN  (* resumed: await_resume, loop, co_await again: lock, set_handle, then the CAS *)
            [S EXCEPT !.run = Tail(@), !.received[l] = Append(@, got), !.hset[l] = TRUE,
                      !.casn = l, !.cpc = "pre_cas", !.lst[l] = "casing", !.refs = @ + 1]
    ELSE [S EXCEPT !.cpc = IF k < NEmit THEN "pre_emit" ELSE "pre_drop",
                   !.cvar = IF Form = "lvalue" THEN POISON ELSE @]

CLocal == [nxt |-> nxt, refs |-> refs, hset |-> hset, lst |-> lst, received |-> received, walk |-> walk,
           csp |-> csp, run |-> run, casn |-> casn, cpc |-> cpc, cvar |-> cvar]

ApplyC(S) ==
    /\ nxt' = S.nxt /\ refs' = S.refs /\ hset' = S.hset /\ lst' = S.lst /\ received' = S.received
    /\ walk' = S.walk /\ csp' = S.csp /\ run' = S.run /\ casn' = S.casn /\ cpc' = S.cpc /\ cvar' = S.cvar

(* the exchange of ~state ... *)
DtorXchg ==
    /\ slot' = "null"
    /\ dwalk' = Chain
    /\ lst' = [l \in Listeners |-> IF l \in Range(Chain) THEN "dout" ELSE lst[l]]

(* ... and the plain code after it: callbacks delete themselves without being called (lock fails), coroutines
   are resumed and await_resume throws; nobody re-awaits, so the thread runs to its end *)
DtorLocal ==
    /\ nxt' = [l \in Listeners |-> IF l \in Range(dwalk) THEN "null" ELSE nxt[l]]
    /\ lst' = [l \in Listeners |-> IF l \in Range(dwalk) THEN (IF l \in CoroL THEN "done" ELSE "freed") ELSE lst[l]]
    /\ received' = [l \in Listeners |-> IF l \in Range(dwalk) /\ l \in CoroL THEN Append(received[l], CANCEL) ELSE received[l]]
    /\ dwalk' = <<>>

-----------------------------------------------------------------------------
(* collector thread *)

CMark ==
    /\ cpc \in {"pre_emit", "pre_drop"} /\ Handed
    /\ cpc' = IF cpc = "pre_emit" THEN "post_emit" ELSE "post_drop"
    /\ UNCHANGED <<slot, nxt, refs, cur, stor, cvar, hset, lst, received, sub, nx, k, walk, csp, run, casn, dwalk, tpc>>

(* plain stores of the value, up to the exchange *)
CLocEmit ==
    /\ cpc = "post_emit"
    /\ k' = k + 1
    /\ IF Form = "lvalue"
         THEN cvar' = k + 1 /\ cur' = "caller" /\ UNCHANGED stor
         ELSE stor' = k + 1 /\ cur' = "storage" /\ UNCHANGED cvar
    /\ cpc' = "pre_xchg"
    /\ UNCHANGED <<slot, nxt, refs, hset, lst, received, sub, nx, walk, csp, run, casn, dwalk, tpc>>

CXchg ==
    /\ cpc = "pre_xchg"
    /\ slot' = "null"
    /\ nx' = nx + 1
    /\ walk' = Chain
    /\ lst' = [l \in Listeners |-> IF l \in Range(Chain) THEN "out" ELSE lst[l]]
    /\ cpc' = "post_xchg"
    /\ UNCHANGED <<nxt, refs, cur, stor, cvar, hset, received, sub, k, csp, run, casn, dwalk, tpc>>

(* the walk / the flush of the discarded suspend point, from the exchange or from a successful CAS (whose
   temporary strong reference is released first: never the last one, C owns a collector) *)
CLocRun ==
    /\ cpc \in {"post_xchg", "post_cas_ok"}
    /\ IF cpc = "post_xchg"
         THEN ApplyC(CRun(CLocal, ReadVal))
         ELSE ApplyC(CRun([CLocal EXCEPT !.refs = @ - 1, !.casn = "null"], ReadVal))
    /\ UNCHANGED <<slot, cur, stor, sub, nx, k, dwalk, tpc>>

CCas ==
    /\ cpc = "pre_cas"
    /\ IF slot = nxt[casn]
         THEN /\ slot' = casn
              /\ lst' = [lst EXCEPT ![casn] = "waiting"]
              /\ cpc' = "post_cas_ok"
              /\ UNCHANGED nxt
         ELSE /\ nxt' = [nxt EXCEPT ![casn] = slot]
              /\ cpc' = "post_cas_fail"
              /\ UNCHANGED <<slot, lst>>
    /\ UNCHANGED <<refs, cur, stor, cvar, hset, received, sub, nx, k, walk, csp, run, casn, dwalk, tpc>>

CLocRetry ==
    /\ cpc = "post_cas_fail"
    /\ cpc' = "pre_cas"
    /\ UNCHANGED <<slot, nxt, refs, cur, stor, cvar, hset, lst, received, sub, nx, k, walk, csp, run, casn, dwalk, tpc>>

CLocDrop ==
    /\ cpc = "post_drop"
    /\ refs' = refs - 1
    /\ IF refs = 1
         THEN cur' = "null" /\ stor' = 0 /\ cpc' = "pre_dxchg"
         ELSE UNCHANGED <<cur, stor>> /\ cpc' = "done"
    /\ UNCHANGED <<slot, nxt, cvar, hset, lst, received, sub, nx, k, walk, csp, run, casn, dwalk, tpc>>

CDxchg ==
    /\ cpc = "pre_dxchg"
    /\ DtorXchg
    /\ cpc' = "post_dxchg"
    /\ UNCHANGED <<nxt, refs, cur, stor, cvar, hset, received, sub, nx, k, walk, csp, run, casn, tpc>>

CLocDtor ==
    /\ cpc = "post_dxchg"
    /\ DtorLocal
    /\ cpc' = "done"
    /\ UNCHANGED <<slot, refs, cur, stor, cvar, hset, sub, nx, k, walk, csp, run, casn, tpc>>

-----------------------------------------------------------------------------
(* listener threads *)

TMark(t) ==
    /\ tpc[t] \in {"pre_start", "pre_handed"}
    /\ (tpc[t] = "pre_start" /\ t \notin HookL) => Handed
    /\ tpc' = [tpc EXCEPT ![t] = IF tpc[t] = "pre_start" THEN "post_start" ELSE "post_handed"]
    /\ UNCHANGED <<slot, nxt, refs, cur, stor, cvar, hset, lst, received, sub, nx, cpc, k, walk, csp, run, casn, dwalk>>

(* the coroutine runs up to await_suspend's CAS: lock, set_handle(h) -- or is resumed at once with the exception;
   connect(): new Awt (its constructor sets the resume function), initial_reg locks and reaches the CAS *)
TLocStart(t) ==
    /\ tpc[t] = "post_start"
    /\ IF t \in ThrL /\ refs = 0
         THEN /\ received' = [received EXCEPT ![t] = Append(@, CANCEL)]
              /\ lst' = [lst EXCEPT ![t] = "done"]
              /\ tpc' = [tpc EXCEPT ![t] = "done"]
              /\ UNCHANGED <<refs, hset>>
         ELSE /\ refs' = IF t \in HookL THEN 2 ELSE refs + 1      \* hook_up: `signal s;` + the lock
              /\ hset' = [hset EXCEPT ![t] = TRUE]
              /\ lst' = [lst EXCEPT ![t] = "casing"]
              /\ tpc' = [tpc EXCEPT ![t] = "pre_cas"]
              /\ UNCHANGED received
    /\ UNCHANGED <<slot, nxt, cur, stor, cvar, sub, nx, cpc, k, walk, csp, run, casn, dwalk>>

TCas(t) ==
    /\ tpc[t] = "pre_cas"
    /\ IF slot = nxt[t]
         THEN /\ slot' = t
              /\ lst' = [lst EXCEPT ![t] = "waiting"]
              /\ sub' = [sub EXCEPT ![t] = nx]
              /\ tpc' = [tpc EXCEPT ![t] = "post_cas_ok"]
              /\ UNCHANGED nxt
         ELSE /\ nxt' = [nxt EXCEPT ![t] = slot]
              /\ tpc' = [tpc EXCEPT ![t] = "post_cas_fail"]
              /\ UNCHANGED <<slot, lst, sub>>
    /\ UNCHANGED <<refs, cur, stor, cvar, hset, received, nx, cpc, k, walk, csp, run, casn, dwalk>>

TLocRetry(t) ==
    /\ tpc[t] = "post_cas_fail"
    /\ tpc' = [tpc EXCEPT ![t] = "pre_cas"]
    /\ UNCHANGED <<slot, nxt, refs, cur, stor, cvar, hset, lst, received, sub, nx, cpc, k, walk, csp, run, casn, dwalk>>

(* the rest of await_suspend / initial_reg + connect(): nothing but the release of the temporary strong reference
   (and of the thread's own signal object); the node must not be touched any more -- it may already have been
   detached, resumed and re-subscribed by the collector thread *)
TLocDone(t) ==
    /\ tpc[t] = "post_cas_ok"
    /\ LET r == IF t \in HookL THEN refs + Cardinality(ThrCb)       \* fn: collector handed over, signal objects made
                ELSE refs - (IF t \in ThrCb THEN 2 ELSE 1)
       IN  /\ refs' = r
           /\ IF t \in HookL THEN UNCHANGED <<cur, stor>> /\ tpc' = [tpc EXCEPT ![t] = "pre_handed"]
              ELSE IF r = 0 THEN cur' = "null" /\ stor' = 0 /\ tpc' = [tpc EXCEPT ![t] = "pre_dxchg"]
                       ELSE UNCHANGED <<cur, stor>> /\ tpc' = [tpc EXCEPT ![t] = "done"]
    /\ UNCHANGED <<slot, nxt, cvar, hset, lst, received, sub, nx, cpc, k, walk, csp, run, casn, dwalk>>

(* fn returns, await_suspend returns true, its local signal object is destroyed *)
TLocHanded(t) ==
    /\ tpc[t] = "post_handed"
    /\ refs' = refs - 1
    /\ IF refs = 1 THEN cur' = "null" /\ stor' = 0 /\ tpc' = [tpc EXCEPT ![t] = "pre_dxchg"]
                   ELSE UNCHANGED <<cur, stor>> /\ tpc' = [tpc EXCEPT ![t] = "done"]
    /\ UNCHANGED <<slot, nxt, cvar, hset, lst, received, sub, nx, cpc, k, walk, csp, run, casn, dwalk>>

TDxchg(t) ==
    /\ tpc[t] = "pre_dxchg"
    /\ DtorXchg
    /\ tpc' = [tpc EXCEPT ![t] = "post_dxchg"]
    /\ UNCHANGED <<nxt, refs, cur, stor, cvar, hset, received, sub, nx, cpc, k, walk, csp, run, casn>>

TLocDtor(t) ==
    /\ tpc[t] = "post_dxchg"
    /\ DtorLocal
    /\ tpc' = [tpc EXCEPT ![t] = "done"]
    /\ UNCHANGED <<slot, refs, cur, stor, cvar, hset, sub, nx, cpc, k, walk, csp, run, casn>>

CNext == CMark \/ CLocEmit \/ CXchg \/ CLocRun \/ CCas \/ CLocRetry \/ CLocDrop \/ CDxchg \/ CLocDtor
TNext(t) == TMark(t) \/ TLocStart(t) \/ TCas(t) \/ TLocRetry(t) \/ TLocDone(t) \/ TLocHanded(t) \/ TDxchg(t) \/ TLocDtor(t)

Next == CNext \/ \E t \in Thr : TNext(t)

Spec == Init /\ [][Next]_vars /\ WF_vars(CNext) /\ \A t \in Thr : WF_vars(TNext(t))

-----------------------------------------------------------------------------
(* Properties *)

Vals(a, b) == [i \in 1..(IF b > a THEN b - a ELSE 0) |-> a + i]
CasPcs == {"pre_cas", "post_cas_fail"}

TypeOK ==
    /\ slot \in {"null"} \cup Listeners
    /\ \A l \in Listeners : nxt[l] \in {"null"} \cup Listeners
    /\ \A l \in Listeners : lst[l] \in {"new", "casing", "waiting", "out", "dout", "done", "freed"}
    /\ refs >= 0

(* the publishing CAS comes after the plain store of the handle: whatever the collector thread (or ~state)
   finds in a detached chain can be resumed; nobody is ever dropped as "lost" *)
HandleSetBeforePublication ==
    \A l \in Listeners : lst[l] \in {"waiting", "out", "dout"} => hset[l]

ChainWellFormed ==
    /\ Len(Chain) <= Cardinality(Listeners)
    /\ \A i, j \in 1..Len(Chain) : i # j => Chain[i] # Chain[j]
    /\ \A l \in Listeners : (lst[l] = "waiting") <=> (l \in Range(Chain))
    /\ \A l \in Listeners : (lst[l] = "out") <=> (l \in Range(walk \o csp \o run))
    /\ \A l \in Listeners : (lst[l] = "dout") <=> (l \in Range(dwalk))
    /\ \A l \in Listeners : (lst[l] = "casing") <=> ((cpc \in CasPcs /\ casn = l) \/ (l \in Thr /\ tpc[l] \in CasPcs))
    /\ cpc \notin (CasPcs \cup {"post_cas_ok"}) => casn = "null"

RefsSound ==
    /\ (Handed /\ cpc \notin {"pre_dxchg", "post_dxchg", "done"}) => refs > 0
    /\ \A t \in Thr : tpc[t] \in (CasPcs \cup {"post_cas_ok", "pre_handed", "post_handed"}) => refs > 0
    /\ refs = 0 => cur = "null"

RaceGuarantee ==
    \A l \in Listeners :
        LET got == received[l] IN
        IF sub[l] < 0
          THEN got = IF lst[l] = "done" THEN <<CANCEL>> ELSE <<>>
          ELSE IF l \in CoroL
            THEN CASE lst[l] \in {"waiting", "casing", "dout"} -> got = Vals(sub[l], nx)
                   [] lst[l] = "out" -> got = Vals(sub[l], nx - 1)
                   [] lst[l] = "done" -> got = Vals(sub[l], nx) \o <<CANCEL>>
                   [] OTHER -> FALSE
          ELSE IF l \in CbTrue
            THEN CASE lst[l] \in {"waiting", "casing", "dout", "freed"} -> got = Vals(sub[l], nx)
                   [] lst[l] = "out" -> got = Vals(sub[l], nx - 1)
                   [] OTHER -> FALSE
          ELSE CASE lst[l] \in {"waiting", "dout"} -> got = <<>> /\ nx = sub[l]
                 [] lst[l] = "out" -> got = <<>> /\ nx = sub[l] + 1
                 [] lst[l] = "freed" -> got = IF nx > sub[l] THEN <<sub[l] + 1>> ELSE <<>>
                 [] OTHER -> FALSE

NoDanglingRead == \A l \in Listeners : POISON \notin Range(received[l])

AllDone == cpc = "done" /\ \A t \in Thr : tpc[t] = "done"

DisconnectWakesAll ==
    AllDone => /\ refs = 0 /\ slot = "null"
               /\ \A l \in CoroL : lst[l] = "done" /\ Len(SelectSeq(received[l], LAMBDA x : x = CANCEL)) = 1
               /\ \A c \in Cbs : lst[c] = "freed" /\ CANCEL \notin Range(received[c])

DtorOnlyAtZero ==
    (cpc \in {"pre_dxchg", "post_dxchg"} \/ \E t \in Thr : tpc[t] \in {"pre_dxchg", "post_dxchg"}) => refs = 0

NoStuckState == (~ ENABLED Next) => AllDone
Termination == <>[]AllDone

=============================================================================
