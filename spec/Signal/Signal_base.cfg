SPECIFICATION Spec
INVARIANTS TypeOK ChainWellFormed CurValid AllWaitingGetIt OncePerEmit NoDanglingRead ReAwaitMissesNone DisconnectWakesAll CallbackAnswers NoStuckState
PROPERTIES DisconnectPromisesCancel AwaitDisconnectedFails AwaitAliveSubscribes RebindFollowsSource CallbacksFreed
CHECK_DEADLOCK FALSE
