SPECIFICATION Spec
INVARIANTS TypeOK ChainWellFormed CurValid AllWaitingGetIt OncePerEmit NoDanglingRead ReAwaitMissesNone DisconnectWakesAll CallbackAnswers NoStuckState
PROPERTIES DisconnectPromisesCancel AwaitDisconnectedFails CallbacksFreed
CHECK_DEADLOCK FALSE
