SPECIFICATION Spec
INVARIANTS TypeOK MutualExclusion GrantOnce FIFO NoOrphanLock DoormanNeverQueued
PROPERTIES Independence TryLockSound
CHECK_DEADLOCK FALSE
