-------------------------- MODULE MutexRoundsTrace --------------------------
(***************************************************************************)
(* Trace validation (code -> spec) for the coroutine mutex: executions of  *)
(* the real cocls::mutex recorded by harness/mutex_replay.cpp in           *)
(* exploration mode (random schedules of real threads under the controlled *)
(* scheduler at the finest grain, one ndjson line per step: the thread     *)
(* that was stepped and the projection of the real objects after the step) *)
(* are checked to be behaviours of MutexRounds.tla.  A thread has at most  *)
(* one enabled action (its pc decides), so a line {t, p} is explained by   *)
(* ThreadStep(t), and the projection of the specification's next state     *)
(* must equal the logged one.  All invariants of MutexRounds are evaluated *)
(* in every state on the way; party mixes beyond what can be dumped as a   *)
(* state graph (5-6 parties, 4 parties x 2 rounds) are reached this way.   *)
(* Runs are concatenated, separated by Reset lines.                        *)
(***************************************************************************)
EXTENDS MutexRounds, Json, IOUtils

VARIABLE l

TraceLog == ndJsonDeserialize(IOEnv.TRACE)
Line == TraceLog[l]
tvars == <<vars, l>>

(* pc -> the pending-operation class the replayer reports *)
PendOf(p) ==
    CASE p = "done" -> "done"
      [] p = "pre_try" -> "pre:try"
      [] p \in {"post_try_ok", "post_try_fail"} -> "post:try"
      [] p = "pre_sub" -> "pre:sub"
      [] p \in {"post_sub_ok", "post_sub_fail"} -> "post:sub"
      [] p \in {"pre_bq", "pre_bq_self"} -> "pre:bq"
      [] p \in {"post_bq", "post_bq_self"} -> "post:bq"
      [] p = "pre_ucas" -> "pre:ucas"
      [] p \in {"post_ucas_ok", "post_ucas_fail"} -> "post:ucas"
      [] p = "pre_cs" -> "pre:cs"
      [] p = "post_cs" -> "post:cs"
      [] p = "pre_fstore" -> "pre:fstore"
      [] p = "post_fstore" -> "post:fstore"
      [] p = "pre_notify" -> "pre:notify"
      [] p = "post_notify" -> "post:notify"
      [] p = "pre_wait" -> "pre:wait"
      [] p = "post_wait" -> "post:wait"
      [] p = "pre_hrel" -> "pre:hrel"
      [] p = "post_hrel" -> "post:hrel"
      [] OTHER -> "?"

RECURSIVE Walk(_, _, _, _)
(* the list n, nx[n], ... up to null; the request chain stops after the doorman *)
Walk(n, nx, stopAtDoor, fuel) ==
    IF n = "null" \/ fuel = 0 THEN <<>>
    ELSE IF n = "door" THEN (IF stopAtDoor THEN <<"door">> ELSE <<"door">>)
    ELSE <<n>> \o Walk(nx[n], nx, stopAtDoor, fuel - 1)

(* p: logged projection (unprimed context); the specification side is the NEXT state.  A replayer built without the probes
   of private members (a representation change of the mutex) does not log req / chain / queue: what is logged must match *)
ObsMatchesNext(p) ==
    /\ "req" \in DOMAIN p => p.req = req'
    /\ "chain" \in DOMAIN p => p.chain = Walk(req', nxt', TRUE, 12)
    /\ "queue" \in DOMAIN p => p.queue = Walk(queue', nxt', FALSE, 12)
    /\ \A q \in Parties : p.acts[q] = acts'[q] /\ p.done[q] = done'[q] /\ p.tryres[q] = tryres'[q]
    /\ \A t \in Threads : p.pend[t] = PendOf(pc'[t])
    /\ \A q \in PFor : p.slot[q] = slot'[q]
    /\ {p.incs[i] : i \in 1..Len(p.incs)} = incs'
    /\ p.allocs = 0
    /\ p.frames = Cardinality(PCo)

TInit == Init /\ l = 1

TStep ==
    /\ l <= Len(TraceLog)
    /\ Line.a = "Step"
    /\ ThreadStep(Line.t)
    /\ l' = l + 1
    /\ LET p == TraceLog[l].p IN ObsMatchesNext(p)

(* a run ended with every thread finished: the specification must be in a terminal state as well *)
TReset ==
    /\ l <= Len(TraceLog)
    /\ Line.a = "Reset"
    /\ ~ ENABLED Next
    /\ l' = l + 1
    /\ req' = "null" /\ queue' = "null"
    /\ nxt' = [n \in Nodes |-> "null"]
    /\ prev' = [t \in Threads |-> "null"]
    /\ reql' = [t \in Threads |-> "null"]
    /\ pc' = [t \in Threads |-> IF t \in Helpers THEN "pre_hrel" ELSE "pre_try"]
    /\ cur' = [t \in Threads |-> t]
    /\ cq' = [t \in Threads |-> <<>>]
    /\ base' = [t \in Threads |-> "none"]
    /\ round' = [q \in Parties |-> 1]
    /\ hround' = [h \in Helpers |-> 0]
    /\ slot' = [q \in PFor |-> "empty"]
    /\ flag' = [q \in Parties |-> FALSE]
    /\ holds' = {} /\ incs' = {} /\ parked' = {}
    /\ grants' = [q \in Parties |-> 0] /\ acts' = [q \in Parties |-> 0] /\ done' = [q \in Parties |-> 0]
    /\ fin' = [q \in Parties |-> FALSE]
    /\ arrival' = <<>> /\ served' = <<>>
    /\ tryres' = [q \in Parties |-> "none"]

TNext == TStep \/ TReset
TSpec == TInit /\ [][TNext]_tvars

TraceAccepted == TLCGet("stats").diameter - 1 = Len(TraceLog)
=============================================================================
