-------------------------------- MODULE Mutex --------------------------------
(***************************************************************************)
(* cocls::mutex (src/cocls/mutex.h) at the finest grain the controlled     *)
(* scheduler can replay: every instrumented atomic operation is a step of  *)
(* its own ("pre_X" = parked before operation X, the step performs X) and  *)
(* the thread-local code between two atomic operations is a step of its    *)
(* own ("post_X" = parked right after X, the step runs the local code up   *)
(* to the next atomic operation).  Plain accesses to shared memory (the    *)
(* awaiter nodes' _next, the owner-private _queue) happen in local steps,  *)
(* so a plain access that races with another thread is explored in every   *)
(* position between the two surrounding atomic operations.                 *)
(*                                                                         *)
(*  sites:  try    mutex::ready()        CAS null -> doorman     mutex.h:183*)
(*          sub    mutex::subscribe()    CAS prev -> node (one iteration)  *)
(*          bq     mutex::build_queue()  exchange(doorman)       mutex.h:213*)
(*          ucas   mutex::unlock()       CAS doorman -> null     mutex.h:156*)
(*          fstore/notify/wait  sync_awaiter (blocking lock().wait())      *)
(*          cs     a marker inside the critical section (harness)          *)
(*                                                                         *)
(* Every party performs one round: acquire (flavour co = co_await lock(),  *)
(* bl = lock().wait(), try = try_lock()), critical section, release.  A    *)
(* coroutine party that had to park is resumed by the releasing thread, so *)
(* its critical section and release run on that thread: run[t] is the      *)
(* party whose code thread t currently executes.                           *)
(*                                                                         *)
(* InspectNext = TRUE models the code as originally written: after the     *)
(* publishing CAS subscribe() re-reads the published node's _next to learn *)
(* whether the mutex had been free.  FALSE models the repaired code: the   *)
(* decision is taken from the value observed by the CAS (a local).         *)
(***************************************************************************)
EXTENDS Naturals, Sequences, FiniteSets, TLC

CONSTANTS PCo, PBl, PTry,     \* parties by flavour (party = its initial thread)
          InspectNext

Parties == PCo \cup PBl \cup PTry
Threads == Parties

VARIABLES
    req,       \* _requests: "null" | "door" | party
    nxt,       \* awaiter::_next per party node (and of the static doorman node, key "door")
    queue,     \* _queue head: "null" | "door" | party
    prev,      \* per party: local `prev` / CAS expected value
    reql,      \* per thread: local `req` of build_queue
    pc,        \* per thread
    run,       \* per thread: party whose code it executes ("none" when finished)
    flag,      \* sync_awaiter::flag per blocking party
    holds,     \* ghost: parties that own the mutex (acquired, release not yet begun)
    grants,    \* ghost: per party number of grants
    acts,      \* ghost: per party number of activations of its post-lock body
    parked,    \* ghost: coroutine parties suspended in the request stack / queue
    arrival,   \* ghost: order in which parked requests were published
    served,    \* ghost: order in which parked requests were handed the mutex
    tryres,    \* per try party: "none" | "true" | "false"
    done       \* per party: finished its round

vars == <<req, nxt, queue, prev, reql, pc, run, flag, holds, grants, acts, parked, arrival, served, tryres, done>>

Nodes == Parties \cup {"door"}

Init ==
    /\ req = "null"
    /\ nxt = [n \in Nodes |-> "null"]
    /\ queue = "null"
    /\ prev = [p \in Parties |-> "null"]
    /\ reql = [t \in Threads |-> "null"]
    /\ pc = [t \in Threads |-> "pre_try"]
    /\ run = [t \in Threads |-> t]
    /\ flag = [p \in Parties |-> FALSE]
    /\ holds = {}
    /\ grants = [p \in Parties |-> 0]
    /\ acts = [p \in Parties |-> 0]
    /\ parked = {}
    /\ arrival = <<>>
    /\ served = <<>>
    /\ tryres = [p \in Parties |-> "none"]
    /\ done = [p \in Parties |-> FALSE]

Me(t) == run[t]

-----------------------------------------------------------------------------
(* helpers for local steps *)

(* party p now owns the mutex and its post-lock body starts on thread t: runs up to the cs marker *)
Acquire(t, p) ==
    /\ holds' = holds \cup {p}
    /\ grants' = [grants EXCEPT ![p] = grants[p] + 1]
    /\ acts' = [acts EXCEPT ![p] = acts[p] + 1]
    /\ run' = [run EXCEPT ![t] = p]
    /\ pc' = [pc EXCEPT ![t] = "pre_cs"]

(* the while loop of build_queue: move requests from the detached stack r to the front of _queue
   until null or `stop`; returns [nxt, queue] *)
RECURSIVE BuildWalk(_, _, _, _, _)
BuildWalk(r, stop, nx, q, fuel) ==
    IF r = "null" \/ r = stop \/ fuel = 0
      THEN [nxt |-> nx, queue |-> q]
      ELSE BuildWalk(nx[r], stop, [nx EXCEPT ![r] = q], r, fuel - 1)

Fuel == Cardinality(Nodes) + 2

(* unlock(): pick first from _queue, unlink, hand over.  st = [nxt, queue]; hs = owners without the releaser *)
HandoverFrom(t, st, hs) ==
    LET first == st.queue
        nx1 == [st.nxt EXCEPT ![first] = "null"]
    IN  /\ queue' = st.nxt[first]
        /\ nxt' = nx1
        /\ IF first \in PBl
             THEN (* sync_awaiter::wakeup: next operation is flag.store(true) *)
                  /\ reql' = [reql EXCEPT ![t] = first]
                  /\ pc' = [pc EXCEPT ![t] = "pre_fstore"]
                  /\ served' = Append(served, first)
                  /\ holds' = hs
                  /\ UNCHANGED <<grants, acts, run, parked>>
             ELSE IF first \in PCo
             THEN (* coroutine resumed on this thread: its body runs up to the cs marker *)
                  /\ holds' = hs \cup {first}
                  /\ grants' = [grants EXCEPT ![first] = grants[first] + 1]
                  /\ acts' = [acts EXCEPT ![first] = acts[first] + 1]
                  /\ run' = [run EXCEPT ![t] = first]
                  /\ pc' = [pc EXCEPT ![t] = "pre_cs"]
                  /\ parked' = parked \ {first}
                  /\ served' = Append(served, first)
                  /\ UNCHANGED reql
             ELSE (* the static doorman (or a try party) ended up in the queue: resume() of the doorman
                     node is the empty null_fn: nobody is woken, the mutex stays locked by nobody *)
                  /\ pc' = [pc EXCEPT ![t] = "done"]
                  /\ run' = [run EXCEPT ![t] = "none"]
                  /\ holds' = hs
                  /\ UNCHANGED <<grants, acts, reql, parked, served>>

Finish(t) ==
    /\ pc' = [pc EXCEPT ![t] = "done"]
    /\ run' = [run EXCEPT ![t] = "none"]

-----------------------------------------------------------------------------
(* atomic-operation steps *)

TryCAS(t) ==
    /\ pc[t] = "pre_try"
    /\ IF req = "null"
         THEN req' = "door" /\ pc' = [pc EXCEPT ![t] = "post_try_ok"]
         ELSE UNCHANGED req /\ pc' = [pc EXCEPT ![t] = "post_try_fail"]
    /\ UNCHANGED <<nxt, queue, prev, reql, run, flag, holds, grants, acts, parked, arrival, served, tryres, done>>

SubCAS(t) ==
    /\ pc[t] = "pre_sub"
    /\ LET p == Me(t) IN
       IF req = prev[p]
         THEN /\ req' = p
              /\ pc' = [pc EXCEPT ![t] = "post_sub_ok"]
              /\ arrival' = IF prev[p] = "null" THEN arrival ELSE Append(arrival, p)
              /\ UNCHANGED prev
         ELSE /\ prev' = [prev EXCEPT ![p] = req]
              /\ pc' = [pc EXCEPT ![t] = "post_sub_fail"]
              /\ UNCHANGED <<req, arrival>>
    /\ UNCHANGED <<nxt, queue, reql, run, flag, holds, grants, acts, parked, served, tryres, done>>

BuildXchg(t) ==
    /\ pc[t] \in {"pre_bq", "pre_bq_self"}
    /\ reql' = [reql EXCEPT ![t] = req]
    /\ req' = "door"
    /\ pc' = [pc EXCEPT ![t] = IF pc[t] = "pre_bq" THEN "post_bq" ELSE "post_bq_self"]
    /\ UNCHANGED <<nxt, queue, prev, run, flag, holds, grants, acts, parked, arrival, served, tryres, done>>

UnlockCAS(t) ==
    /\ pc[t] = "pre_ucas"
    /\ IF req = "door"
         THEN req' = "null" /\ pc' = [pc EXCEPT ![t] = "post_ucas_ok"]
         ELSE UNCHANGED req /\ pc' = [pc EXCEPT ![t] = "post_ucas_fail"]
    /\ UNCHANGED <<nxt, queue, prev, reql, run, flag, holds, grants, acts, parked, arrival, served, tryres, done>>

CsMark(t) ==
    /\ pc[t] = "pre_cs"
    /\ pc' = [pc EXCEPT ![t] = "post_cs"]
    /\ UNCHANGED <<req, nxt, queue, prev, reql, run, flag, holds, grants, acts, parked, arrival, served, tryres, done>>

FlagStore(t) ==
    /\ pc[t] = "pre_fstore"
    /\ flag' = [flag EXCEPT ![reql[t]] = TRUE]
    /\ pc' = [pc EXCEPT ![t] = "post_fstore"]
    /\ UNCHANGED <<req, nxt, queue, prev, reql, run, holds, grants, acts, parked, arrival, served, tryres, done>>

Notify(t) ==
    /\ pc[t] = "pre_notify"
    /\ pc' = [pc EXCEPT ![t] = "post_notify"]
    /\ UNCHANGED <<req, nxt, queue, prev, reql, run, flag, holds, grants, acts, parked, arrival, served, tryres, done>>

FlagWait(t) ==
    /\ pc[t] = "pre_wait"
    /\ flag[Me(t)]
    /\ pc' = [pc EXCEPT ![t] = "post_wait"]
    /\ UNCHANGED <<req, nxt, queue, prev, reql, run, flag, holds, grants, acts, parked, arrival, served, tryres, done>>

-----------------------------------------------------------------------------
(* local steps *)

LTryOk(t) ==
    /\ pc[t] = "post_try_ok"
    /\ Acquire(t, Me(t))
    /\ tryres' = [tryres EXCEPT ![Me(t)] = IF Me(t) \in PTry THEN "true" ELSE tryres[Me(t)]]
    /\ UNCHANGED <<req, nxt, queue, prev, reql, flag, parked, arrival, served, done>>

LTryFail(t) ==
    /\ pc[t] = "post_try_fail"
    /\ IF Me(t) \in PTry
         THEN /\ tryres' = [tryres EXCEPT ![Me(t)] = "false"]
              /\ done' = [done EXCEPT ![Me(t)] = TRUE]
              /\ Finish(t)
         ELSE /\ pc' = [pc EXCEPT ![t] = "pre_sub"]      \* prev = aw->_next (= null)
              /\ UNCHANGED <<tryres, done, run>>
    /\ UNCHANGED <<req, nxt, queue, prev, reql, flag, holds, grants, acts, parked, arrival, served>>

(* CAS failed: aw->_next = prev; retry *)
LSubFail(t) ==
    /\ pc[t] = "post_sub_fail"
    /\ nxt' = [nxt EXCEPT ![Me(t)] = prev[Me(t)]]
    /\ pc' = [pc EXCEPT ![t] = "pre_sub"]
    /\ UNCHANGED <<req, queue, prev, reql, run, flag, holds, grants, acts, parked, arrival, served, tryres, done>>

(* published: did I find the mutex free?  mutex.h:194 *)
LSubOk(t) ==
    /\ pc[t] = "post_sub_ok"
    /\ LET p == Me(t)
           d == IF InspectNext THEN nxt[p] ELSE prev[p]
       IN IF d = "null"
            THEN /\ pc' = [pc EXCEPT ![t] = "pre_bq_self"]
                 /\ UNCHANGED <<run, parked>>
            ELSE IF p \in PBl
            THEN /\ pc' = [pc EXCEPT ![t] = "pre_wait"]
                 /\ UNCHANGED <<run, parked>>
            ELSE (* coroutine stays suspended; the thread that ran it returns *)
                 /\ parked' = IF acts[p] = 0 THEN parked \cup {p} ELSE parked
                 /\ Finish(t)
    /\ UNCHANGED <<req, nxt, queue, prev, reql, flag, holds, grants, acts, arrival, served, tryres, done>>

(* build_queue(aw) by the party that found the mutex free, then it owns the mutex *)
LBuildSelf(t) ==
    /\ pc[t] = "post_bq_self"
    /\ LET st == BuildWalk(reql[t], Me(t), nxt, queue, Fuel) IN
         /\ nxt' = st.nxt
         /\ queue' = st.queue
    /\ Acquire(t, Me(t))
    /\ UNCHANGED <<req, prev, reql, flag, parked, arrival, served, tryres, done>>

LWait(t) ==
    /\ pc[t] = "post_wait"
    /\ Acquire(t, Me(t))
    /\ UNCHANGED <<req, nxt, queue, prev, reql, flag, parked, arrival, served, tryres, done>>

(* leave the critical section and call unlock(): `if (!_queue)` *)
LCsEnd(t) ==
    /\ pc[t] = "post_cs"
    /\ done' = [done EXCEPT ![Me(t)] = TRUE]
    /\ IF queue = "null"
         THEN /\ pc' = [pc EXCEPT ![t] = "pre_ucas"]
              /\ holds' = holds \ {Me(t)}
              /\ UNCHANGED <<nxt, queue, reql, run, grants, acts, parked, served>>
         ELSE HandoverFrom(t, [nxt |-> nxt, queue |-> queue], holds \ {Me(t)})
    /\ UNCHANGED <<req, prev, flag, arrival, tryres>>

LUnlockOk(t) ==
    /\ pc[t] = "post_ucas_ok"
    /\ Finish(t)
    /\ UNCHANGED <<req, nxt, queue, prev, reql, flag, holds, grants, acts, parked, arrival, served, tryres, done>>

LUnlockFail(t) ==
    /\ pc[t] = "post_ucas_fail"
    /\ pc' = [pc EXCEPT ![t] = "pre_bq"]
    /\ UNCHANGED <<req, nxt, queue, prev, reql, run, flag, holds, grants, acts, parked, arrival, served, tryres, done>>

(* build_queue(doorman) by the releasing owner, then hand over to the head of the queue *)
LBuild(t) ==
    /\ pc[t] = "post_bq"
    /\ LET st == BuildWalk(reql[t], "door", nxt, queue, Fuel) IN
         IF st.queue = "null"
           THEN (* cannot happen in the repaired code: the CAS failed, so somebody is queued *)
                /\ nxt' = st.nxt /\ queue' = st.queue
                /\ Finish(t)
                /\ UNCHANGED <<holds, grants, acts, reql, parked, served>>
           ELSE HandoverFrom(t, st, holds)
    /\ UNCHANGED <<req, prev, flag, arrival, tryres, done>>

LFlagStored(t) ==
    /\ pc[t] = "post_fstore"
    /\ pc' = [pc EXCEPT ![t] = "pre_notify"]
    /\ UNCHANGED <<req, nxt, queue, prev, reql, run, flag, holds, grants, acts, parked, arrival, served, tryres, done>>

LNotified(t) ==
    /\ pc[t] = "post_notify"
    /\ Finish(t)
    /\ UNCHANGED <<req, nxt, queue, prev, reql, flag, holds, grants, acts, parked, arrival, served, tryres, done>>

Next == \E t \in Threads :
          \/ TryCAS(t) \/ SubCAS(t) \/ BuildXchg(t) \/ UnlockCAS(t) \/ CsMark(t) \/ FlagStore(t) \/ Notify(t) \/ FlagWait(t)
          \/ LTryOk(t) \/ LTryFail(t) \/ LSubFail(t) \/ LSubOk(t) \/ LBuildSelf(t) \/ LWait(t) \/ LCsEnd(t)
          \/ LUnlockOk(t) \/ LUnlockFail(t) \/ LBuild(t) \/ LFlagStored(t) \/ LNotified(t)

ThreadStep(t) ==
          \/ TryCAS(t) \/ SubCAS(t) \/ BuildXchg(t) \/ UnlockCAS(t) \/ CsMark(t) \/ FlagStore(t) \/ Notify(t) \/ FlagWait(t)
          \/ LTryOk(t) \/ LTryFail(t) \/ LSubFail(t) \/ LSubOk(t) \/ LBuildSelf(t) \/ LWait(t) \/ LCsEnd(t)
          \/ LUnlockOk(t) \/ LUnlockFail(t) \/ LBuild(t) \/ LFlagStored(t) \/ LNotified(t)

Spec == Init /\ [][Next]_vars /\ \A t \in Threads : WF_vars(ThreadStep(t))

-----------------------------------------------------------------------------
(* Properties *)

(* C07 *)
MutualExclusion == Cardinality(holds) <= 1
GrantOnce == \A p \in Parties : grants[p] <= 1
NoDoubleActivation == \A p \in Parties : acts[p] <= 1
(* the static doorman node is never linked into the owner-private queue nor woken *)
DoormanNeverQueued == queue # "door" /\ \A n \in Nodes : (nxt[n] = "door" => n \in Parties)
WokenOnlyWhenGranted == \A p \in PBl : flag[p] => \E i \in 1..Len(served) : served[i] = p

(* C08 *)
IsPrefix(s, u) == Len(s) <= Len(u) /\ \A i \in 1..Len(s) : s[i] = u[i]
FIFO == IsPrefix(served, arrival)
AllDone == \A t \in Threads : pc[t] = "done"
(* quiescence: everybody served exactly once, mutex unlocked, nothing queued *)
NoLostRequest ==
    AllDone => /\ req = "null" /\ queue = "null"
               /\ \A p \in PCo \cup PBl : grants[p] = 1 /\ acts[p] = 1 /\ done[p]
               /\ \A p \in PTry : (tryres[p] = "true" => grants[p] = 1 /\ done[p]) /\ tryres[p] # "none"
               /\ holds = {} /\ parked = {}
(* try_lock succeeds only on a free mutex and never parks *)
TryLockSound == \A p \in PTry : p \notin parked /\ \A i \in 1..Len(arrival) : arrival[i] # p
(* no stuck state other than completion (replaces TLC's deadlock check) *)
NoStuckState == (~ ENABLED Next) => AllDone
Termination == <>[]AllDone

=============================================================================
