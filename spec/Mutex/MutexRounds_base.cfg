SPECIFICATION Spec
INVARIANTS MutualExclusion GrantOnce DoormanNeverQueued WokenOnlyWhenGranted OnePlace FIFO NoLostRequest TryLockSound NoStuckState
PROPERTY Termination
CHECK_DEADLOCK FALSE
