----------------------------- MODULE MutexRounds -----------------------------
(***************************************************************************)
(* cocls::mutex (src/cocls/mutex.h) used REPEATEDLY, with the hand-over    *)
(* semantics of the coroutine run queue (src/cocls/coro_queue.h,           *)
(* suspend_point.h) and with ownership released on ANOTHER thread.         *)
(*                                                                         *)
(* Mutex.tla covers one lock/critical-section/release round per party at   *)
(* the finest grain.  This module keeps that grain (pre_X = parked before  *)
(* atomic operation X, post_X = parked right after it; the plain code up   *)
(* to the next atomic operation is a step of its own) and adds what only   *)
(* shows with more than one round:                                         *)
(*                                                                         *)
(*  - Rounds[p] rounds per party, each with a fresh awaiter;               *)
(*  - WHERE a coroutine that is handed the mutex continues:                *)
(*      * the releaser is a coroutine and discards the suspend point (or   *)
(*        the ownership object is destroyed): the new owner is appended to *)
(*        the thread's run queue and starts only when the releaser next    *)
(*        suspends or finishes - the releaser's following lock() request   *)
(*        therefore runs BEFORE the new owner's critical section;          *)
(*      * the releaser co_awaits release(): the new owner runs at once,    *)
(*        the releaser is appended to the run queue;                       *)
(*      * the releaser is ordinary code (blocking lock, try_lock, a helper *)
(*        thread): a run queue is installed, the new owner runs nested and *)
(*        the queue is flushed before release() returns;                   *)
(*  - parties in PFor hand their ownership object to a helper thread,      *)
(*    which releases it (mutex.h: "You can release ownership in different  *)
(*    thread, which causes that coroutine will continue in that thread");  *)
(*    the party itself goes on to its next round meanwhile.                *)
(*                                                                         *)
(* cur[t] is the party whose code thread t executes, cq[t] the thread's    *)
(* run queue (entries: party + where it resumes), base[t] the ordinary     *)
(* code suspended inside release() while coroutines run nested.            *)
(***************************************************************************)
EXTENDS Naturals, Sequences, FiniteSets, TLC

CONSTANTS PCo, PBl, PTry,   \* parties by flavour (strings)
          PFor,             \* parties (co or bl) whose ownership is released by a helper thread
          PAwait,           \* coroutine parties that co_await release()
          Rounds            \* party -> number of rounds

Parties == PCo \cup PBl \cup PTry
HelperOf(p) == "h" \o p
Helpers == {HelperOf(p) : p \in PFor}
PartyOf(h) == CHOOSE p \in PFor : HelperOf(p) = h
Threads == Parties \cup Helpers
Nodes == Parties \cup {"door"}

ASSUME PFor \subseteq PCo \cup PBl /\ PAwait \subseteq PCo /\ PAwait \cap PFor = {}

VARIABLES
    req, nxt, queue,   \* _requests, awaiter::_next per node, _queue (as in Mutex.tla)
    prev,              \* per thread: local `prev` of subscribe() (the coroutine may already run elsewhere when it is read)
    reql,              \* per thread: local `req` of build_queue / the blocking awaiter being woken
    pc, cur,           \* per thread: program counter, party whose code runs ("none")
    cq,                \* per thread: run queue, sequence of [p, at] with at \in {"lock","rel"}
    base,              \* per thread: ordinary code suspended in release() ("none")
    round,             \* per party: current round 1..Rounds[p]
    hround,            \* per helper: releases performed
    slot,              \* per party in PFor: "empty" | "full" (ownership object waiting for the helper)
    flag,              \* sync_awaiter::flag per blocking party (of its current round)
    holds,             \* ghost: owners (from grant until the release begins)
    incs,              \* ghost: parties inside their critical section body
    grants, acts, done,\* ghost counters per party: grants, body activations, bodies finished
    fin,               \* per party: all rounds finished
    parked,            \* ghost: suspended coroutine parties waiting for the mutex
    arrival, served,   \* ghost: order of published parked requests / of hand-overs
    tryres             \* per try party: result of its last try_lock

vars == <<req, nxt, queue, prev, reql, pc, cur, cq, base, round, hround, slot, flag, holds, incs, grants, acts, done, fin, parked, arrival, served, tryres>>

(* the whole state as a record: local steps are written as functions on it *)
S == [req |-> req, nxt |-> nxt, queue |-> queue, prev |-> prev, reql |-> reql, pc |-> pc, cur |-> cur, cq |-> cq, base |-> base,
      round |-> round, hround |-> hround, slot |-> slot, flag |-> flag, holds |-> holds, incs |-> incs, grants |-> grants,
      acts |-> acts, done |-> done, fin |-> fin, parked |-> parked, arrival |-> arrival, served |-> served, tryres |-> tryres]

Set(r) ==
    /\ req' = r.req /\ nxt' = r.nxt /\ queue' = r.queue /\ prev' = r.prev /\ reql' = r.reql /\ pc' = r.pc /\ cur' = r.cur
    /\ cq' = r.cq /\ base' = r.base /\ round' = r.round /\ hround' = r.hround /\ slot' = r.slot /\ flag' = r.flag
    /\ holds' = r.holds /\ incs' = r.incs /\ grants' = r.grants /\ acts' = r.acts /\ done' = r.done /\ fin' = r.fin
    /\ parked' = r.parked /\ arrival' = r.arrival /\ served' = r.served /\ tryres' = r.tryres

Init ==
    /\ req = "null" /\ queue = "null"
    /\ nxt = [n \in Nodes |-> "null"]
    /\ prev = [t \in Threads |-> "null"]
    /\ reql = [t \in Threads |-> "null"]
    /\ pc = [t \in Threads |-> IF t \in Helpers THEN "pre_hrel" ELSE "pre_try"]
    /\ cur = [t \in Threads |-> t]
    /\ cq = [t \in Threads |-> <<>>]
    /\ base = [t \in Threads |-> "none"]
    /\ round = [p \in Parties |-> 1]
    /\ hround = [h \in Helpers |-> 0]
    /\ slot = [p \in PFor |-> "empty"]
    /\ flag = [p \in Parties |-> FALSE]
    /\ holds = {} /\ incs = {} /\ parked = {}
    /\ grants = [p \in Parties |-> 0] /\ acts = [p \in Parties |-> 0] /\ done = [p \in Parties |-> 0]
    /\ fin = [p \in Parties |-> FALSE]
    /\ arrival = <<>> /\ served = <<>>
    /\ tryres = [p \in Parties |-> "none"]

-----------------------------------------------------------------------------
(* control flow between two atomic operations *)

(* the body of the current party starts: runs up to the marker inside the critical section *)
StartBody(s, t) ==
    LET p == s.cur[t] IN
    [s EXCEPT !.acts[p] = @ + 1, !.incs = @ \cup {p}, !.pc[t] = "pre_cs"]

RECURSIVE PickNext(_, _), AfterRound(_, _)

(* the current coroutine of thread t suspended or finished: next entry of the run queue; when the queue is empty
   the queue context ends - the thread returns into the ordinary code suspended in release(), or is finished *)
PickNext(s, t) ==
    IF s.cq[t] # <<>>
      THEN LET e == Head(s.cq[t])
               s1 == [s EXCEPT !.cq[t] = Tail(@), !.cur[t] = e.p]
           IN IF e.at = "lock" THEN StartBody(s1, t) ELSE AfterRound(s1, t)
      ELSE IF s.base[t] # "none"
             THEN AfterRound([s EXCEPT !.cur[t] = s.base[t], !.base[t] = "none"], t)
             ELSE [s EXCEPT !.cur[t] = "none", !.pc[t] = "done"]

(* the current party's round is over (release() returned, or try_lock failed): next round or the end of its code *)
AfterRound(s, t) ==
    LET m == s.cur[t] IN
    IF m \in Helpers
      THEN IF s.hround[m] < Rounds[PartyOf(m)]
             THEN [s EXCEPT !.pc[t] = "pre_hrel"]
             ELSE [s EXCEPT !.cur[t] = "none", !.pc[t] = "done"]
    ELSE IF s.round[m] < Rounds[m]
      THEN [s EXCEPT !.round[m] = @ + 1, !.pc[t] = "pre_try"]
    ELSE LET s1 == [s EXCEPT !.fin[m] = TRUE] IN
         IF m \in PCo THEN PickNext(s1, t)
                      ELSE [s1 EXCEPT !.cur[t] = "none", !.pc[t] = "done"]

(* party o (the current party of t, or the party a helper acts for) becomes owner *)
Grant(s, o) == [s EXCEPT !.holds = @ \cup {o}, !.grants[o] = @ + 1]

(* unlock(): pick the first of _queue, unlink it, hand the mutex over *)
Handover(s, t) ==
    LET m == s.cur[t]
        first == s.queue
        s1 == [s EXCEPT !.queue = s.nxt[first], !.nxt[first] = "null"]
    IN  IF first \in PBl
          THEN (* sync_awaiter::wakeup runs inside resume(): next operation is flag.store(true) *)
               [Grant(s1, first) EXCEPT !.reql[t] = first, !.pc[t] = "pre_fstore", !.served = Append(@, first)]
        ELSE IF first \in PCo
          THEN LET s2 == [Grant(s1, first) EXCEPT !.parked = @ \ {first}, !.served = Append(@, first)] IN
               IF m \in PCo
                 THEN IF m \in PAwait
                        THEN (* co_await release(): symmetric transfer to the new owner, the releaser goes to the queue *)
                             StartBody([s2 EXCEPT !.cq[t] = Append(@, [p |-> m, at |-> "rel"]), !.cur[t] = first], t)
                        ELSE (* suspend point discarded inside a coroutine: the new owner is only queued *)
                             AfterRound([s2 EXCEPT !.cq[t] = Append(@, [p |-> first, at |-> "lock"])], t)
                 ELSE (* ordinary code: a run queue is installed and the new owner runs nested *)
                      StartBody([s2 EXCEPT !.base[t] = m, !.cur[t] = first], t)
          ELSE (* the static doorman (or a try party) in the queue: resume() is the empty function, nobody owns the mutex *)
               AfterRound(s1, t)

(* the owner o releases on thread t: `if (!_queue)` *)
Release(s, t, o) ==
    LET s1 == [s EXCEPT !.holds = @ \ {o}] IN
    IF s1.queue = "null" THEN [s1 EXCEPT !.pc[t] = "pre_ucas"] ELSE Handover(s1, t)

RECURSIVE BuildWalk(_, _, _, _, _)
BuildWalk(r, stop, nx, q, fuel) ==
    IF r = "null" \/ r = stop \/ fuel = 0
      THEN [nxt |-> nx, queue |-> q]
      ELSE BuildWalk(nx[r], stop, [nx EXCEPT ![r] = q], r, fuel - 1)
Fuel == Cardinality(Nodes) + 2

-----------------------------------------------------------------------------
(* atomic-operation steps *)

TryCAS(t) ==
    /\ pc[t] = "pre_try"
    /\ IF req = "null"
         THEN req' = "door" /\ pc' = [pc EXCEPT ![t] = "post_try_ok"]
         ELSE UNCHANGED req /\ pc' = [pc EXCEPT ![t] = "post_try_fail"]
    /\ UNCHANGED <<nxt, queue, prev, reql, cur, cq, base, round, hround, slot, flag, holds, incs, grants, acts, done, fin, parked, arrival, served, tryres>>

SubCAS(t) ==
    /\ pc[t] = "pre_sub"
    /\ LET p == cur[t] IN
       IF req = prev[t]
         THEN /\ req' = p
              /\ pc' = [pc EXCEPT ![t] = "post_sub_ok"]
              /\ arrival' = IF prev[t] = "null" THEN arrival ELSE Append(arrival, p)
              (* from its publication the coroutine counts as parked: it can be resumed elsewhere at once *)
              /\ parked' = IF prev[t] # "null" /\ p \in PCo THEN parked \cup {p} ELSE parked
              /\ UNCHANGED prev
         ELSE /\ prev' = [prev EXCEPT ![t] = req]
              /\ pc' = [pc EXCEPT ![t] = "post_sub_fail"]
              /\ UNCHANGED <<req, arrival, parked>>
    /\ UNCHANGED <<nxt, queue, reql, cur, cq, base, round, hround, slot, flag, holds, incs, grants, acts, done, fin, served, tryres>>

BuildXchg(t) ==
    /\ pc[t] \in {"pre_bq", "pre_bq_self"}
    /\ reql' = [reql EXCEPT ![t] = req]
    /\ req' = "door"
    /\ pc' = [pc EXCEPT ![t] = IF pc[t] = "pre_bq" THEN "post_bq" ELSE "post_bq_self"]
    /\ UNCHANGED <<nxt, queue, prev, cur, cq, base, round, hround, slot, flag, holds, incs, grants, acts, done, fin, parked, arrival, served, tryres>>

UnlockCAS(t) ==
    /\ pc[t] = "pre_ucas"
    /\ IF req = "door"
         THEN req' = "null" /\ pc' = [pc EXCEPT ![t] = "post_ucas_ok"]
         ELSE UNCHANGED req /\ pc' = [pc EXCEPT ![t] = "post_ucas_fail"]
    /\ UNCHANGED <<nxt, queue, prev, reql, cur, cq, base, round, hround, slot, flag, holds, incs, grants, acts, done, fin, parked, arrival, served, tryres>>

CsMark(t) ==
    /\ pc[t] = "pre_cs"
    /\ pc' = [pc EXCEPT ![t] = "post_cs"]
    /\ UNCHANGED <<req, nxt, queue, prev, reql, cur, cq, base, round, hround, slot, flag, holds, incs, grants, acts, done, fin, parked, arrival, served, tryres>>

Notify(t) ==
    /\ pc[t] = "pre_notify"
    /\ pc' = [pc EXCEPT ![t] = "post_notify"]
    /\ UNCHANGED <<req, nxt, queue, prev, reql, cur, cq, base, round, hround, slot, flag, holds, incs, grants, acts, done, fin, parked, arrival, served, tryres>>

LFlagStored(t) ==
    /\ pc[t] = "post_fstore"
    /\ pc' = [pc EXCEPT ![t] = "pre_notify"]
    /\ UNCHANGED <<req, nxt, queue, prev, reql, cur, cq, base, round, hround, slot, flag, holds, incs, grants, acts, done, fin, parked, arrival, served, tryres>>

LUnlockFail(t) ==
    /\ pc[t] = "post_ucas_fail"
    /\ pc' = [pc EXCEPT ![t] = "pre_bq"]
    /\ UNCHANGED <<req, nxt, queue, prev, reql, cur, cq, base, round, hround, slot, flag, holds, incs, grants, acts, done, fin, parked, arrival, served, tryres>>

FlagStore(t) ==
    /\ pc[t] = "pre_fstore"
    /\ flag' = [flag EXCEPT ![reql[t]] = TRUE]
    /\ pc' = [pc EXCEPT ![t] = "post_fstore"]
    /\ UNCHANGED <<req, nxt, queue, prev, reql, cur, cq, base, round, hround, slot, holds, incs, grants, acts, done, fin, parked, arrival, served, tryres>>

FlagWait(t) ==
    /\ pc[t] = "pre_wait"
    /\ flag[cur[t]]
    /\ pc' = [pc EXCEPT ![t] = "post_wait"]
    /\ UNCHANGED <<req, nxt, queue, prev, reql, cur, cq, base, round, hround, slot, flag, holds, incs, grants, acts, done, fin, parked, arrival, served, tryres>>

(* the helper's marker before it releases the ownership object it was handed *)
HRelMark(t) ==
    /\ t \in Helpers
    /\ pc[t] = "pre_hrel"
    /\ slot[PartyOf(t)] = "full"
    /\ pc' = [pc EXCEPT ![t] = "post_hrel"]
    /\ UNCHANGED <<req, nxt, queue, prev, reql, cur, cq, base, round, hround, slot, flag, holds, incs, grants, acts, done, fin, parked, arrival, served, tryres>>

-----------------------------------------------------------------------------
(* local steps *)

LTryOk(t) ==
    /\ pc[t] = "post_try_ok"
    /\ LET m == cur[t]
           s1 == Grant(S, m)
           s2 == IF m \in PTry THEN [s1 EXCEPT !.tryres[m] = "true"] ELSE s1
       IN Set(StartBody(s2, t))

LTryFail(t) ==
    /\ pc[t] = "post_try_fail"
    /\ LET m == cur[t] IN
       IF m \in PTry
         THEN Set(AfterRound([S EXCEPT !.tryres[m] = "false"], t))
         ELSE (* a fresh awaiter: prev = aw->_next = nullptr; a blocking party's fresh sync_awaiter has flag = false *)
              Set([S EXCEPT !.pc[t] = "pre_sub", !.prev[t] = "null", !.nxt[m] = "null", !.flag[m] = FALSE])

LSubFail(t) ==
    /\ pc[t] = "post_sub_fail"
    /\ Set([S EXCEPT !.nxt[cur[t]] = prev[t], !.pc[t] = "pre_sub"])

LSubOk(t) ==
    /\ pc[t] = "post_sub_ok"
    /\ LET m == cur[t] IN
       IF prev[t] = "null" THEN Set([S EXCEPT !.pc[t] = "pre_bq_self"])
       ELSE IF m \in PBl THEN Set([S EXCEPT !.pc[t] = "pre_wait"])
       ELSE (* await_suspend returns true: the thread goes on with its run queue.  The coroutine itself may already
               have been resumed by another thread (and may even have finished): nothing of it is touched here *)
            Set(PickNext(S, t))

LBuildSelf(t) ==
    /\ pc[t] = "post_bq_self"
    /\ LET m == cur[t]
           st == BuildWalk(reql[t], m, nxt, queue, Fuel)
       IN Set(StartBody(Grant([S EXCEPT !.nxt = st.nxt, !.queue = st.queue], m), t))

LWait(t) ==
    /\ pc[t] = "post_wait"
    (* wait() returns and its sync_awaiter is destroyed *)
    /\ Set(StartBody([S EXCEPT !.flag[cur[t]] = FALSE], t))

LCsEnd(t) ==
    /\ pc[t] = "post_cs"
    /\ LET m == cur[t]
           s1 == [S EXCEPT !.done[m] = @ + 1, !.incs = @ \ {m}]
       IN IF m \in PFor
            THEN Set(AfterRound([s1 EXCEPT !.slot[m] = "full"], t))
            ELSE Set(Release(s1, t, m))

LHRel(t) ==
    /\ pc[t] = "post_hrel"
    /\ LET o == PartyOf(t) IN
       Set(Release([S EXCEPT !.slot[o] = "empty", !.hround[t] = @ + 1], t, o))

LUnlockOk(t) ==
    /\ pc[t] = "post_ucas_ok"
    /\ Set(AfterRound(S, t))

LBuild(t) ==
    /\ pc[t] = "post_bq"
    /\ LET st == BuildWalk(reql[t], "door", nxt, queue, Fuel)
           s1 == [S EXCEPT !.nxt = st.nxt, !.queue = st.queue]
       IN IF st.queue = "null" THEN Set(AfterRound(s1, t)) ELSE Set(Handover(s1, t))

LNotified(t) ==
    /\ pc[t] = "post_notify"
    /\ Set(AfterRound(S, t))

ThreadStep(t) ==
    \/ TryCAS(t) \/ SubCAS(t) \/ BuildXchg(t) \/ UnlockCAS(t) \/ CsMark(t) \/ FlagStore(t) \/ Notify(t) \/ FlagWait(t) \/ HRelMark(t)
    \/ LTryOk(t) \/ LTryFail(t) \/ LSubFail(t) \/ LSubOk(t) \/ LBuildSelf(t) \/ LWait(t) \/ LCsEnd(t) \/ LHRel(t)
    \/ LUnlockOk(t) \/ LUnlockFail(t) \/ LBuild(t) \/ LFlagStored(t) \/ LNotified(t)

Next == \E t \in Threads : ThreadStep(t)

Spec == Init /\ [][Next]_vars /\ \A t \in Threads : WF_vars(ThreadStep(t))

-----------------------------------------------------------------------------
(* Properties *)

(* C07 *)
MutualExclusion == Cardinality(holds) <= 1 /\ incs \subseteq holds
(* never more grants than lock requests made, never more activations than grants *)
GrantOnce == \A p \in Parties : grants[p] <= round[p] /\ acts[p] <= grants[p] /\ done[p] <= acts[p] /\ acts[p] <= done[p] + 1
DoormanNeverQueued == queue # "door" /\ \A n \in Nodes : (nxt[n] = "door" => n \in Parties)
WokenOnlyWhenGranted == \A p \in PBl : flag[p] => grants[p] >= round[p]
(* a coroutine sits in at most one place: parked on the mutex, or in exactly one run queue, or running *)
InRunQueues(p) == Cardinality({<<t, i>> \in Threads \X (1..Cardinality(Parties) + 1) : i <= Len(cq[t]) /\ cq[t][i].p = p})
OnePlace == \A p \in PCo : (IF p \in parked THEN 1 ELSE 0) + InRunQueues(p)
                               + Cardinality({t \in Threads : cur[t] = p /\ ~(pc[t] = "post_sub_ok" /\ prev[t] # "null")}) <= 1

(* C08 *)
IsPrefix(s, u) == Len(s) <= Len(u) /\ \A i \in 1..Len(s) : s[i] = u[i]
FIFO == IsPrefix(served, arrival)
AllDone == \A t \in Threads : pc[t] = "done"
NoLostRequest ==
    AllDone => /\ req = "null" /\ queue = "null"
               /\ \A p \in PCo \cup PBl : grants[p] = Rounds[p] /\ acts[p] = Rounds[p] /\ done[p] = Rounds[p] /\ fin[p]
               /\ \A p \in PTry : fin[p] /\ tryres[p] # "none" /\ grants[p] = done[p]
               /\ holds = {} /\ parked = {} /\ incs = {}
               /\ \A t \in Threads : cq[t] = <<>> /\ base[t] = "none"
               /\ \A p \in PFor : slot[p] = "empty"
TryLockSound == \A p \in PTry : p \notin parked /\ \A i \in 1..Len(arrival) : arrival[i] # p
NoStuckState == (~ ENABLED Next) => AllDone
Termination == <>[]AllDone

=============================================================================
