SPECIFICATION Spec
INVARIANTS MutualExclusion GrantOnce NoDoubleActivation DoormanNeverQueued WokenOnlyWhenGranted FIFO NoLostRequest TryLockSound NoStuckState
PROPERTY Termination
CHECK_DEADLOCK FALSE
