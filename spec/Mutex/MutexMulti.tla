----------------------------- MODULE MutexMulti -----------------------------
(***************************************************************************)
(* SEVERAL cocls::mutex objects (src/cocls/mutex.h) used by the same       *)
(* parties at the same time, the ownership objects kept in HOLDER SLOTS    *)
(* that are re-assigned, and lock requests of the callback kind whose      *)
(* owner runs INSIDE the hand-off.                                         *)
(*                                                                         *)
(* Mutex.tla / MutexRounds.tla cover ONE mutex under every interleaving of *)
(* its atomic operations.  This module is sequential (one thread, the      *)
(* grain is one public call) and adds what only shows with more than one   *)
(* object and with re-entrancy on the releasing thread:                    *)
(*                                                                         *)
(*  - Mutexes is a set; every piece of the representation (request stack,  *)
(*    awaiter links, owner-private FIFO) exists once PER MUTEX and every   *)
(*    action is indexed by the mutex it is called on.  A party may hold    *)
(*    m1 and request m2, wait behind several mutexes at once (callback     *)
(*    requests), and release in any order;                                 *)
(*  - request forms: try_lock(); lock() awaited by a coroutine; lock()     *)
(*    through the awaiter protocol with a callback                         *)
(*    (await_ready / await_suspend(resume_fn, ctx) / await_resume, or      *)
(*    subscribe(custom awaiter)): the callback runs nested in the          *)
(*    releaser's unlock(); blocking lock().wait() on a free mutex;         *)
(*  - every granted party stores its ownership into the slot SlotOf[p][m]: *)
(*    a private object, ONE slot per party for all mutexes (storing m2     *)
(*    over m1 releases m1 - unique_ptr assigns first and deletes the old   *)
(*    pointer afterwards), or ONE holder slot per mutex shared by all      *)
(*    parties (`struct Resource { mutex mx; ownership holder; }`): the     *)
(*    next owner's callback assigns the slot the releaser is still inside  *)
(*    of.  ownership::release() therefore is two ordered steps - detach    *)
(*    the pointer (mutex.h:78), then unlock (mutex.h:80) - and the         *)
(*    re-entrant assignment sees the detached slot;                        *)
(*  - parties in PThrough release from inside their grant (nested chain).  *)
(*                                                                         *)
(* A step is one call made by the driver thread; everything the call       *)
(* triggers (callbacks, coroutines resumed through the suspend point or    *)
(* the run queue) has run when it returns, so the state after the step is  *)
(* determined.  Operators below are functions on the whole state record;   *)
(* `bad` collects violated expectations met INSIDE a step.                 *)
(***************************************************************************)
EXTENDS Naturals, Sequences, FiniteSets, TLC

CONSTANTS Mutexes,      \* mutex objects (strings)
          PPlain,       \* parties that are ordinary code (callback requests, try_lock, blocking lock on a free mutex)
          PCo,          \* parties that are coroutines (co_await lock(), try_lock, co_await release())
          PThrough,     \* parties that release as soon as they are granted (inside the grant)
          SlotOf,       \* party -> mutex -> slot object the ownership is stored into
          Kinds,        \* party -> subset of {"try", "lock", "ask", "block"}
          Uses,         \* party -> mutexes it works with
          Probes,       \* mutexes probed by `{ auto o = m.try_lock(); }`
          DetachFirst,  \* TRUE: ownership::release() as the code has it - detach the pointer, then unlock.  FALSE (NOT the
                        \* code, self-test of the invariants): unlock through the still armed object, disarm afterwards
          MaxOps        \* length of the history

Parties == PPlain \cup PCo
Slots == {SlotOf[p][m] : p \in Parties, m \in Mutexes}
Fuel == Cardinality(Parties) + 2

ASSUME PThrough \subseteq Parties /\ PPlain \cap PCo = {} /\ Probes \subseteq Mutexes

VARIABLES
    req,        \* per mutex: _requests - "null" | "door" | party whose awaiter is on top       (mutex.h:134)
    nxt,        \* per mutex, per party: awaiter::_next of the party's request on that mutex     (awaiter.h:142)
    queue,      \* per mutex: _queue, head of the owner-private FIFO                             (mutex.h:140)
    slot,       \* per slot object: mutex its ownership refers to | "none"
    st,         \* per party, per mutex: "idle" | "asked" (await_ready() failed, not registered yet) | "wait" | "hold"
    waiting,    \* ghost, per mutex: parties waiting, in arrival order
    owner,      \* ghost, per mutex: party that was granted it and has not released | "none"
    got,        \* this step: grants <<party, mutex>> in the order they happened
    res,        \* this step: result of try_lock "true" | "false" | "none"
    touched,    \* this step: mutexes whose lock / unlock code ran
    bad,        \* ghost: expectations violated inside a step
    n           \* calls made so far

vars == <<req, nxt, queue, slot, st, waiting, owner, got, res, touched, bad, n>>

S == [req |-> req, nxt |-> nxt, queue |-> queue, slot |-> slot, st |-> st, waiting |-> waiting, owner |-> owner,
      got |-> got, res |-> res, touched |-> touched, bad |-> bad, n |-> n]

Set(r) ==
    /\ req' = r.req /\ nxt' = r.nxt /\ queue' = r.queue /\ slot' = r.slot /\ st' = r.st /\ waiting' = r.waiting
    /\ owner' = r.owner /\ got' = r.got /\ res' = r.res /\ touched' = r.touched /\ bad' = r.bad /\ n' = r.n

Init ==
    /\ req = [m \in Mutexes |-> "null"]
    /\ nxt = [m \in Mutexes |-> [p \in Parties |-> "null"]]
    /\ queue = [m \in Mutexes |-> "null"]
    /\ slot = [s \in Slots |-> "none"]
    /\ st = [p \in Parties |-> [m \in Mutexes |-> "idle"]]
    /\ waiting = [m \in Mutexes |-> <<>>]
    /\ owner = [m \in Mutexes |-> "none"]
    /\ got = <<>> /\ res = "none" /\ touched = {} /\ bad = {} /\ n = 0

-----------------------------------------------------------------------------
Flag(s, c, what) == IF c THEN s ELSE [s EXCEPT !.bad = @ \cup {what}]

(* build_queue(doorman()): reverse the request stack above the doorman into the FIFO   (mutex.h:212-227) *)
RECURSIVE BuildWalk(_, _, _, _)
BuildWalk(r, nx, q, fuel) ==
    IF r = "null" \/ r = "door" \/ fuel = 0
      THEN [nxt |-> nx, queue |-> q]
      ELSE BuildWalk(nx[r], [nx EXCEPT ![r] = q], r, fuel - 1)

RECURSIVE Unlock(_, _), HandOver(_, _), Granted(_, _, _), Store(_, _, _)

(* mutex::unlock() of mutex m (mutex.h:149-177); its ownership has been detached from the slot already *)
Unlock(s, m) ==
    LET s0 == Flag([s EXCEPT !.owner[m] = "none", !.touched = @ \cup {m}], s.req[m] # "null", "unlock of a free mutex")
    IN  IF s0.queue[m] # "null" THEN HandOver(s0, m)
        ELSE IF s0.req[m] \in {"door", "null"} THEN [s0 EXCEPT !.req[m] = "null"]        \* CAS doorman -> null
        ELSE LET w == BuildWalk(s0.req[m], s0.nxt[m], "null", Fuel)
             IN  HandOver([s0 EXCEPT !.req[m] = "door", !.nxt[m] = w.nxt, !.queue[m] = w.queue], m)

(* first = _queue; _queue = first->_next; first->_next = nullptr; fn(first)             (mutex.h:169-176) *)
HandOver(s, m) ==
    LET first == s.queue[m]
        s1 == Flag(Flag(s, s.waiting[m] # <<>> /\ first = Head(s.waiting[m]), "not the longest waiting request"),
                   s.st[first][m] = "wait", "grant of a request that is not pending")
        s2 == [s1 EXCEPT !.queue[m] = s.nxt[m][first], !.nxt[m][first] = "null",
                         !.waiting[m] = IF @ = <<>> THEN @ ELSE Tail(@)]
    IN  Granted(s2, first, m)

(* party p learns that it owns m: the callback runs / the coroutine goes on behind co_await / try_lock returned an engaged
   ownership.  It stores the ownership into its slot; a through party releases at once. *)
Granted(s, p, m) ==
    LET s1 == Flag(s, s.owner[m] = "none", "granted while owned")
        s2 == [s1 EXCEPT !.owner[m] = p, !.st[p][m] = "hold", !.got = Append(@, <<p, m>>)]
        sl == SlotOf[p][m]
        s3 == Store(s2, sl, m)
    IN  IF p \in PThrough /\ s3.slot[sl] = m /\ s3.owner[m] = p
          THEN Unlock([s3 EXCEPT !.slot[sl] = "none", !.st[p][m] = "idle"], m)
          ELSE s3

(* slot = std::move(fresh ownership of m): unique_ptr::reset stores the new pointer first and then runs the deleter on the
   old one, i.e. unlocks the mutex the slot referred to before                           (mutex.h:38-43) *)
Store(s, sl, m) ==
    LET old == s.slot[sl]
        s1 == [s EXCEPT !.slot[sl] = m]
    IN  IF old = "none" THEN s1
        ELSE LET q == s1.owner[old]
                 s2 == IF q \in Parties /\ old # m THEN [s1 EXCEPT !.st[q][old] = "idle"] ELSE s1
             IN  Unlock(Flag(s2, old # m, "slot still armed when the next owner stores into it"), old)

Begin(ms) == [S EXCEPT !.got = <<>>, !.res = "none", !.touched = ms, !.n = @ + 1]

CanAct(p) == p \in PCo => \A m \in Mutexes : st[p][m] # "wait"      \* a suspended coroutine does nothing

-----------------------------------------------------------------------------
(* `auto o = m.try_lock(); if (o) slot = std::move(o);`                                 (mutex.h:119-121, 180-186) *)
Try(p, m) ==
    /\ n < MaxOps /\ "try" \in Kinds[p] /\ m \in Uses[p] /\ CanAct(p) /\ st[p][m] = "idle"
    /\ IF req[m] = "null"
         THEN Set(Granted([Begin({m}) EXCEPT !.req[m] = "door", !.res = "true"], p, m))
         ELSE Set([Begin({m}) EXCEPT !.res = "false"])

(* lock(): coroutine `slot = co_await m.lock()`; ordinary code `awt = m.lock(); if (awt.await_ready() ||
   !awt.await_suspend(on_grant, ctx)) on_grant()` resp. awt.subscribe(&custom).  await_ready() is the try-lock
   (mutex.h:180-186); on a locked mutex subscribe() pushes the awaiter                   (mutex.h:189-207) *)
Lock(p, m) ==
    /\ n < MaxOps /\ "lock" \in Kinds[p] /\ m \in Uses[p] /\ CanAct(p) /\ st[p][m] = "idle"
    /\ IF req[m] = "null"
         THEN Set(Granted([Begin({m}) EXCEPT !.req[m] = "door"], p, m))
         ELSE Set([Begin({m}) EXCEPT !.nxt[m][p] = req[m], !.req[m] = p, !.st[p][m] = "wait", !.waiting[m] = Append(@, p)])

(* the callback request as the TWO calls it is made of, with other calls of the same thread in between: await_ready() fails
   on the held mutex (mutex.h:180-186) ... *)
Ask(p, m) ==
    /\ n < MaxOps /\ "ask" \in Kinds[p] /\ p \in PPlain /\ m \in Uses[p] /\ st[p][m] = "idle"
    /\ req[m] # "null"
    /\ Set([Begin({m}) EXCEPT !.st[p][m] = "asked"])

(* ... and await_suspend(on_grant, ctx) / subscribe(&custom) registers.  When the owner has released in between, subscribe()
   finds the stack empty: its CAS null -> awaiter succeeds with prev = nullptr, build_queue(aw) swaps the doorman in and it
   returns false (mutex.h:196-206): the CALLER owns the mutex now and the callback is NOT called (awaiter.h:198-201) - the
   request is granted exactly once, by the return value or by the callback, never by both *)
Suspend(p, m) ==
    /\ n < MaxOps /\ st[p][m] = "asked"
    /\ IF req[m] = "null"
         THEN Set(Granted([Begin({m}) EXCEPT !.req[m] = "door"], p, m))
         ELSE Set([Begin({m}) EXCEPT !.nxt[m][p] = req[m], !.req[m] = p, !.st[p][m] = "wait", !.waiting[m] = Append(@, p)])

(* blocking `ownership own(m.lock())` / `m.lock().wait()`: a single-threaded program may only block on a free mutex
   (awaiter.h:289-292, 304-311) *)
Block(p, m) ==
    /\ n < MaxOps /\ "block" \in Kinds[p] /\ p \in PPlain /\ m \in Uses[p] /\ st[p][m] = "idle"
    /\ req[m] = "null"
    /\ Set(Granted([Begin({m}) EXCEPT !.req[m] = "door"], p, m))

(* release of the ownership p keeps in its slot: slot.release() (discarded or co_awaited), slot = ownership(),
   destruction of the object moved out of the slot.  Step one detaches the pointer, step two unlocks
   (mutex.h:76-85, 38-43) *)
Release(p, m) ==
    /\ n < MaxOps /\ CanAct(p) /\ st[p][m] = "hold"
    /\ LET sl == SlotOf[p][m]
           b == Flag(Begin({}), slot[sl] = m /\ owner[m] = p, "holder without its ownership")
       IN  IF DetachFirst
             THEN Set(Unlock([b EXCEPT !.slot[sl] = "none", !.st[p][m] = "idle"], m))
             ELSE Set([Unlock([b EXCEPT !.st[p][m] = "idle"], m) EXCEPT !.slot[sl] = "none"])

(* `{ auto o = m.try_lock(); result = bool(o); }` by a bystander *)
Probe(m) ==
    /\ n < MaxOps /\ m \in Probes
    /\ Set([Begin({m}) EXCEPT !.res = IF req[m] = "null" THEN "true" ELSE "false"])

Next == \/ \E p \in Parties, m \in Mutexes : Try(p, m) \/ Lock(p, m) \/ Ask(p, m) \/ Suspend(p, m) \/ Block(p, m) \/ Release(p, m)
        \/ \E m \in Mutexes : Probe(m)

Spec == Init /\ [][Next]_vars

-----------------------------------------------------------------------------
RECURSIVE Walk(_, _, _)
Walk(x, nx, fuel) == IF x \in {"null", "door"} \/ fuel = 0 THEN <<>> ELSE <<x>> \o Walk(nx[x], nx, fuel - 1)
Reverse(q) == [i \in 1..Len(q) |-> q[Len(q) + 1 - i]]
StackOf(m) == Walk(req[m], nxt[m], Fuel)
QueueOf(m) == Walk(queue[m], nxt[m], Fuel)
Range(f) == {f[i] : i \in DOMAIN f}

TypeOK ==
    /\ \A m \in Mutexes : req[m] \in Parties \cup {"null", "door"} /\ queue[m] \in Parties \cup {"null"}
    /\ \A s \in Slots : slot[s] \in Mutexes \cup {"none"}
    /\ res \in {"none", "true", "false"} /\ n \in 0..MaxOps

(* C07, per mutex: at most one owner, known through exactly one engaged ownership object *)
MutualExclusion ==
    \A m \in Mutexes :
        /\ Cardinality({s \in Slots : slot[s] = m}) <= 1
        /\ (owner[m] # "none") <=> (\E s \in Slots : slot[s] = m)
        /\ owner[m] # "none" => st[owner[m]][m] = "hold" /\ slot[SlotOf[owner[m]][m]] = m
        /\ \A p \in Parties : st[p][m] = "hold" => owner[m] = p
(* every request granted at most once, only while it is pending, never to two parties at once *)
GrantOnce ==
    /\ bad = {}
    /\ \A i, j \in 1..Len(got) : i # j => got[i] # got[j]
    /\ \A i \in 1..Len(got) : st[got[i][1]][got[i][2]] # "wait"
(* C08, per mutex: the owner-private FIFO followed by the reversed request stack is the arrival order, and the waiting
   parties are exactly those with a pending request *)
FIFO ==
    \A m \in Mutexes :
        /\ QueueOf(m) \o Reverse(StackOf(m)) = waiting[m]
        /\ Range(waiting[m]) = {p \in Parties : st[p][m] = "wait"}
        /\ Len(waiting[m]) = Cardinality(Range(waiting[m]))
(* locked exactly while owned; nothing queued on a free mutex (a waiter always has an owner whose release serves it) *)
NoOrphanLock ==
    \A m \in Mutexes :
        /\ (req[m] = "null") <=> (owner[m] = "none")
        /\ owner[m] = "none" => queue[m] = "null" /\ waiting[m] = <<>>
DoormanNeverQueued == \A m \in Mutexes : queue[m] # "door" /\ \A p \in Parties : nxt[m][p] = "door" => p \in Range(waiting[m])
(* try_lock succeeds only on a free mutex and fails only on an owned one *)
TryLockSound == [][/\ res' = "true" => \E x \in touched' : req[x] = "null"
                   /\ res' = "false" => \E x \in touched' : owner[x] # "none"]_vars
(* an operation never changes the state of a mutex whose code it did not enter *)
MState(m) == <<req[m], nxt[m], queue[m], waiting[m], owner[m]>>
Independence == [][\A x \in Mutexes : x \notin touched' => MState(x)' = MState(x)]_vars

=============================================================================
