SPECIFICATION TSpec
INVARIANTS MutualExclusion GrantOnce DoormanNeverQueued WokenOnlyWhenGranted OnePlace FIFO NoLostRequest TryLockSound
POSTCONDITION TraceAccepted
CHECK_DEADLOCK FALSE
