SPECIFICATION TSpec
INVARIANTS TypeOK OneWinner PayloadIsWinners ArgConsumedOnlyByWinner PayloadBuiltOnce DropMeansNoValue NoEarlyWake AtMostOnce SeesCompleteResult WokenOnlyWhenFlagged ChainWellFormed AllReleasedAtEnd
POSTCONDITION TraceAccepted
CHECK_DEADLOCK FALSE
