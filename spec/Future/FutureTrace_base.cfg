SPECIFICATION TSpec
INVARIANTS TypeOK OneWinner PayloadIsWinners NoEarlyWake AtMostOnce SeesCompleteResult WokenOnlyWhenFlagged ChainWellFormed AllReleasedAtEnd
POSTCONDITION TraceAccepted
CHECK_DEADLOCK FALSE
