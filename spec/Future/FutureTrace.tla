----------------------------- MODULE FutureTrace -----------------------------
(***************************************************************************)
(* Trace validation (code -> spec): executions of the real future/promise  *)
(* code recorded by harness/future_replay.cpp in exploration mode (random  *)
(* schedules under the controlled scheduler, one ndjson line per step:     *)
(* action, thread, projection of the real objects after the step) are      *)
(* checked to be behaviours of Future.tla: each line must be explained by  *)
(* the named action of the named thread AND the projection of the          *)
(* specification's next state must equal the logged projection.  All of    *)
(* Future's invariants are evaluated in every state on the way.  Several   *)
(* executions are concatenated, separated by Reset lines.                  *)
(***************************************************************************)
EXTENDS Future, Json, IOUtils

VARIABLE l

TraceLog == ndJsonDeserialize(IOEnv.TRACE)
Line == TraceLog[l]

tvars == <<vars, l>>

RPend(r) == CASE rpc[r] \in {"dload_own", "dload_null", "dload_p_own", "dload_p_null", "dload_q"} -> "dload"
              [] rpc[r] \in {"massign_own", "massign_null"} -> "massign"
              [] OTHER -> rpc[r]

(* the same projection the replayer computes from the real objects *)
ObsOwner == IF \E r \in RDtor : rpc[r] = "done" THEN "null" ELSE owner
ObsChain == IF slot = "ready" THEN <<>> ELSE Chain
(* p is the logged projection (unprimed context!); the specification side is the NEXT state *)
ObsMatchesNext(p) ==
    /\ p.owner = ObsOwner'
    /\ p.tag = tag'
    /\ p.payload = payload'
    /\ IF slot' = "ready" THEN p.chain = "ready" ELSE p.chain = Chain'
    (* a thread logged as parked at a pure load where the specification has it elsewhere is tolerated: the load is
       then consumed by TSilentLoad *)
    /\ \A r \in Resolvers : (p.pend[r] = RPend(r)' \/ p.pend[r] = "dload") /\ p.res[r] = rres'[r]
    /\ \A w \in Waiters : /\ (p.pend[w] = wpc'[w] \/ p.pend[w] = "check")
                          /\ p.resumes[w] = resumes'[w]
                          /\ p.seen[w].tag = seen'[w].tag /\ p.seen[w].payload = seen'[w].payload
    /\ \A w \in WCb : p.cbnext[w] = nxt'[w]
    /\ p.allocs = 0

TInit == Init /\ l = 1

TStep ==
    /\ l <= Len(TraceLog)
    /\ Line.a \notin {"Reset", "Deadlock"}
    /\ LET t == Line.t IN
         CASE Line.a = "Claim" -> Claim(t)
           [] Line.a = "MClaimOwn" -> MClaimOwn(t)
           [] Line.a = "MAssign" -> MAssign(t)
           [] Line.a = "DtorStart" -> DtorStart(t)
           [] Line.a = "OvwStart" -> t \in ROvw /\ OvwStart(t)
           [] Line.a = "OClaim" -> t \in ROvw /\ OClaim(t)
           [] Line.a = "OStore" -> t \in ROvw /\ OStore(t)
           [] Line.a = "QClaim" -> t \in ROvw /\ QClaim(t)
           [] Line.a = "DLoad" -> DLoad(t)
           [] Line.a = "SwapReady" -> SwapReady(t)
           [] Line.a = "FlagStore" -> FlagStore(t)
           [] Line.a = "Notify" -> Notify(t)
           [] Line.a = "CheckReady" -> CheckReady(t)
           [] Line.a = "SubCAS" -> SubCAS(t)
           [] Line.a = "Fence" -> Fence(t)
           [] Line.a = "FlagWait" -> FlagWait(t)
           [] OTHER -> FALSE
    /\ l' = l + 1
    /\ LET p == TraceLog[l].p IN ObsMatchesNext(p)

(* A logged pure load that the specification does not perform at this point (the thread's pc is elsewhere): a load
   cannot change the protocol state, so it is accepted as a stuttering step provided the observation still matches. *)
TSilentLoad ==
    /\ l <= Len(TraceLog)
    /\ Line.a \in {"CheckReady", "DLoad"}
    /\ LET t == Line.t IN
         \/ (t \in Waiters /\ wpc[t] # "check")
         \/ (t \in Resolvers /\ rpc[t] \notin {"dload_own", "dload_null", "dload_p_own", "dload_p_null", "dload_q"})
    /\ UNCHANGED vars
    /\ l' = l + 1
    /\ LET p == TraceLog[l].p IN ObsMatchesNext(p)

(* a run ended: the specification must be in a terminal state as well (no lost wake-up) *)
TReset ==
    /\ l <= Len(TraceLog)
    /\ Line.a = "Reset"
    /\ ~ ENABLED Next
    /\ l' = l + 1
    /\ owner' = IF RFinal # {} \/ PreResolved # "none" THEN "null" ELSE "fut"
    /\ slot' = IF PreResolved # "none" THEN "ready" ELSE IF WMp # {} THEN CHOOSE w \in WMp : TRUE ELSE "null"
    /\ nxt' = [w \in Waiters |-> "null"]
    /\ tag' = IF RFinal # {} THEN "val" ELSE IF PreResolved \in {"val", "exc"} THEN PreResolved ELSE "none"
    /\ payload' = IF RFinal # {} THEN CHOOSE r \in RFinal : TRUE ELSE IF PreResolved \in {"val", "exc"} THEN "pre" ELSE "none"
    /\ writes' = IF RFinal # {} \/ PreResolved \in {"val", "exc"} THEN 1 ELSE 0
    /\ rpc' = [r \in Resolvers |-> InitRpc(r)]
    /\ rres' = [r \in Resolvers |-> "none"]
    /\ cur' = [r \in Resolvers |-> "null"]
    /\ rest' = [r \in Resolvers |-> "null"]
    /\ sp' = [r \in Resolvers |-> <<>>]
    /\ swapped' = {}
    /\ flag' = [w \in Waiters |-> FALSE]
    /\ wpc' = [w \in Waiters |-> InitWpc(w)]
    /\ seen' = [w \in Waiters |-> NoRes]
    /\ resumes' = [w \in Waiters |-> 0]
    /\ arg' = [r \in Resolvers |-> "intact"]
    /\ built' = IF RFinal # {} THEN 1 ELSE 0

TNext == TStep \/ TSilentLoad \/ TReset
TSpec == TInit /\ [][TNext]_tvars

(* accepted iff the whole log was consumed (checked as a post-condition, deadlock checking off) *)
TraceAccepted == TLCGet("stats").diameter - 1 = Len(TraceLog)
(* for the error report: how far the log could be explained *)
Progress == l
=============================================================================
