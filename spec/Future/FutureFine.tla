----------------------------- MODULE FutureFine -----------------------------
(***************************************************************************)
(* The future/promise/awaiter protocol of Future.tla at the FINEST grain   *)
(* the controlled scheduler can replay (vsched yield_after): every atomic  *)
(* operation is a step of its own ("pre_X": parked before operation X, the *)
(* step performs X) and the thread-local code between two atomic           *)
(* operations is a step of its own ("post_X": parked right after X, the    *)
(* step runs the plain code up to the next atomic operation).  All plain   *)
(* accesses to shared memory -- future::set (value + state tag), the       *)
(* awaiter nodes' handle/_next, value()/await_resume() reads -- happen in  *)
(* the local steps, so a plain access that is on the wrong side of an      *)
(* atomic operation is exposed to every other thread in between.           *)
(* Same constants, kinds and properties as Future.tla; used with small     *)
(* mixes (<= 3 threads), Future.tla with the larger ones.                  *)
(***************************************************************************)
EXTENDS Naturals, Sequences, FiniteSets, TLC

CONSTANTS RVal, RExc, RDrop, RMdes, RMasg, RDtor, RFinal, WCo, WHv, WBl, WCb

Resolvers == RVal \cup RExc \cup RDrop \cup RMdes \cup RMasg \cup RDtor \cup RFinal
Waiters == WCo \cup WHv \cup WBl \cup WCb
Coro == WCo \cup WHv

VARIABLES owner, slot, nxt, tag, payload, writes, rpc, rres, won, chainl, cur, rest, sp, swapped, flag,
          wpc, sawready, seen, resumes

vars == <<owner, slot, nxt, tag, payload, writes, rpc, rres, won, chainl, cur, rest, sp, swapped, flag,
          wpc, sawready, seen, resumes>>

NoRes == [tag |-> "unread", payload |-> "unread"]
Result == [tag |-> tag, payload |-> payload]

Init ==
    /\ owner = IF RFinal # {} THEN "null" ELSE "fut"
    /\ slot = "null"
    /\ nxt = [w \in Waiters |-> "null"]
    /\ tag = IF RFinal # {} THEN "val" ELSE "none"
    /\ payload = IF RFinal # {} THEN CHOOSE r \in RFinal : TRUE ELSE "none"
    /\ writes = IF RFinal # {} THEN 1 ELSE 0
    /\ rpc = [r \in Resolvers |-> IF r \in RFinal THEN "pre_swap" ELSE IF r \in RDtor THEN "pre_dtor"
                                 ELSE IF r \in RMasg THEN "pre_mclaim" ELSE "pre_claim"]
    /\ rres = [r \in Resolvers |-> "none"]
    /\ won = [r \in Resolvers |-> FALSE]
    /\ chainl = [r \in Resolvers |-> "null"]
    /\ cur = [r \in Resolvers |-> "null"]
    /\ rest = [r \in Resolvers |-> "null"]
    /\ sp = [r \in Resolvers |-> <<>>]
    /\ swapped = {}
    /\ flag = [w \in Waiters |-> FALSE]
    /\ wpc = [w \in Waiters |-> IF w \in WCb THEN "pre_cas" ELSE "pre_check"]
    /\ sawready = [w \in Waiters |-> FALSE]
    /\ seen = [w \in Waiters |-> NoRes]
    /\ resumes = [w \in Waiters |-> 0]

-----------------------------------------------------------------------------
(* the chain walk (plain code): see Future.tla *)
Release(st, w, res) ==
    (* wpc is the pc of the waiter's OWN THREAD: a coroutine/callback waiter is released on the resolver's thread while
       its own thread may still be between its successful CAS and the return of await_suspend *)
    [st EXCEPT !.seen[w] = res, !.resumes[w] = st.resumes[w] + 1]

RECURSIVE ReleaseAll(_, _, _)
ReleaseAll(st, s, res) ==
    IF s = <<>> THEN st ELSE ReleaseAll(Release(st, Head(s), res), Tail(s), res)

RECURSIVE Walk(_, _, _)
Walk(n, st, res) ==
    IF n = "null"
      THEN [ReleaseAll(st, st.sp, res) EXCEPT !.sp = <<>>, !.pc = "done"]
      ELSE LET nx == st.nxt[n]
               st1 == [st EXCEPT !.nxt[n] = "null"]
           IN  IF n \in Coro THEN Walk(nx, [st1 EXCEPT !.sp = Append(st1.sp, n)], res)
               ELSE IF n \in WCb THEN Walk(nx, Release(st1, n, res), res)
               ELSE [st1 EXCEPT !.cur = n, !.rest = nx, !.pc = "pre_fstore"]

WalkFrom(r, n, res) ==
    LET st0 == [nxt |-> nxt, wpc |-> wpc, seen |-> seen, resumes |-> resumes,
                sp |-> sp[r], cur |-> "null", rest |-> "null", pc |-> "walk"]
        st == Walk(n, st0, res)
    IN  /\ nxt' = st.nxt
        /\ wpc' = st.wpc
        /\ seen' = st.seen
        /\ resumes' = st.resumes
        /\ sp' = [sp EXCEPT ![r] = st.sp]
        /\ cur' = [cur EXCEPT ![r] = st.cur]
        /\ rest' = [rest EXCEPT ![r] = st.rest]
        /\ rpc' = [rpc EXCEPT ![r] = st.pc]
        /\ rres' = [rres EXCEPT ![r] = IF st.pc = "done" /\ r \in (RVal \cup RExc \cup RDrop) THEN "true" ELSE rres[r]]

RU == <<owner, slot, nxt, tag, payload, writes, rres, won, chainl, cur, rest, sp, swapped, flag, wpc, sawready, seen, resumes>>
RPc(r, p) == rpc' = [rpc EXCEPT ![r] = p]
WPc(w, p) == wpc' = [wpc EXCEPT ![w] = p]

-----------------------------------------------------------------------------
(* resolvers: atomic operations *)

MClaimOwn(r) ==      \* masg: set_value(drop) on the assigned-to promise: exchange on its own (empty) owner
    /\ rpc[r] = "pre_mclaim" /\ RPc(r, "post_mclaim") /\ UNCHANGED RU

Claim(r) ==          \* promise::claim: exchange(nullptr)
    /\ rpc[r] = "pre_claim"
    /\ owner' = "null"
    /\ won' = [won EXCEPT ![r] = (owner = "fut")]
    /\ RPc(r, "post_claim")
    /\ UNCHANGED <<slot, nxt, tag, payload, writes, rres, chainl, cur, rest, sp, swapped, flag, wpc, sawready, seen, resumes>>

MAssign(r) ==        \* masg: store into the assigned-to promise's owner
    /\ rpc[r] = "pre_massign" /\ RPc(r, "post_massign") /\ UNCHANGED RU

DtorStart(r) ==      \* the final destructor of the promise object: only when nobody uses the object any more
    /\ rpc[r] = "pre_dtor"
    /\ \A o \in Resolvers \ RDtor : rpc[o] = "done"
    /\ won' = [won EXCEPT ![r] = (owner = "fut")]
    /\ RPc(r, "post_dtor")
    /\ UNCHANGED <<owner, slot, nxt, tag, payload, writes, rres, chainl, cur, rest, sp, swapped, flag, wpc, sawready, seen, resumes>>

DLoad(r) ==          \* promise::~promise: load of the owner pointer
    /\ rpc[r] = "pre_dload" /\ RPc(r, "post_dload") /\ UNCHANGED RU

SwapReady(r) ==      \* resume_chain_set_ready: exchange(&disabled)
    /\ rpc[r] = "pre_swap"
    /\ chainl' = [chainl EXCEPT ![r] = slot]
    /\ slot' = "ready"
    /\ swapped' = swapped \cup {r}
    /\ RPc(r, "post_swap")
    /\ UNCHANGED <<owner, nxt, tag, payload, writes, rres, won, cur, rest, sp, flag, wpc, sawready, seen, resumes>>

FlagStore(r) ==
    /\ rpc[r] = "pre_fstore"
    /\ flag' = [flag EXCEPT ![cur[r]] = TRUE]
    /\ RPc(r, "post_fstore")
    /\ UNCHANGED <<owner, slot, nxt, tag, payload, writes, rres, won, chainl, cur, rest, sp, swapped, wpc, sawready, seen, resumes>>

Notify(r) ==
    /\ rpc[r] = "pre_notify" /\ RPc(r, "post_notify") /\ UNCHANGED RU

(* resolvers: local code *)

LMClaim(r) == /\ rpc[r] = "post_mclaim" /\ RPc(r, "pre_claim") /\ UNCHANGED RU

(* after the claim: the winner stores the result (future::set) -- plain stores *)
LClaim(r) ==
    /\ rpc[r] = "post_claim"
    /\ IF won[r]
         THEN /\ IF r \in RVal \cup RExc
                   THEN /\ tag' = IF r \in RVal THEN "val" ELSE "exc"
                        /\ payload' = r
                        /\ writes' = writes + 1
                   ELSE UNCHANGED <<tag, payload, writes>>
              /\ RPc(r, IF r \in RMdes THEN "pre_dload" ELSE IF r \in RMasg THEN "pre_massign" ELSE "pre_swap")
              /\ UNCHANGED rres
         ELSE /\ RPc(r, IF r \in RMdes THEN "pre_dload" ELSE IF r \in RMasg THEN "pre_massign" ELSE "done")
              /\ rres' = [rres EXCEPT ![r] = IF r \in RMdes \cup RMasg THEN "none" ELSE "false"]
              /\ UNCHANGED <<tag, payload, writes>>
    /\ UNCHANGED <<owner, slot, nxt, won, chainl, cur, rest, sp, swapped, flag, wpc, sawready, seen, resumes>>

LMAssign(r) == /\ rpc[r] = "post_massign" /\ RPc(r, "pre_dload") /\ UNCHANGED RU
LDtor(r) == /\ rpc[r] = "post_dtor" /\ RPc(r, "pre_dload") /\ UNCHANGED RU
LDLoad(r) == /\ rpc[r] = "post_dload" /\ RPc(r, IF won[r] THEN "pre_swap" ELSE "done") /\ UNCHANGED RU

(* after the resolving exchange: walk the detached chain *)
LSwap(r) ==
    /\ rpc[r] = "post_swap"
    /\ WalkFrom(r, chainl[r], Result)
    /\ UNCHANGED <<owner, slot, tag, payload, writes, won, chainl, swapped, flag, sawready>>

LFlagStored(r) == /\ rpc[r] = "post_fstore" /\ RPc(r, "pre_notify") /\ UNCHANGED RU

LNotified(r) ==
    /\ rpc[r] = "post_notify"
    /\ WalkFrom(r, rest[r], Result)
    /\ UNCHANGED <<owner, slot, tag, payload, writes, won, chainl, swapped, flag, sawready>>

-----------------------------------------------------------------------------
(* waiters *)

WU == <<owner, slot, nxt, tag, payload, writes, rpc, rres, won, chainl, cur, rest, sp, swapped, flag, sawready, seen, resumes>>

ReadNow(w) ==
    /\ seen' = [seen EXCEPT ![w] = Result]
    /\ resumes' = [resumes EXCEPT ![w] = resumes[w] + 1]

CheckReady(w) ==     \* await_ready(): load(acquire)
    /\ wpc[w] = "pre_check"
    /\ sawready' = [sawready EXCEPT ![w] = (slot = "ready")]
    /\ WPc(w, "post_check")
    /\ UNCHANGED <<owner, slot, nxt, tag, payload, writes, rpc, rres, won, chainl, cur, rest, sp, swapped, flag, seen, resumes>>

LCheck(w) ==         \* ready: await_resume reads the result; else set_handle / sync_awaiter, then subscribe
    /\ wpc[w] = "post_check"
    /\ IF sawready[w]
         THEN ReadNow(w) /\ WPc(w, "tdone")
         ELSE WPc(w, "pre_cas") /\ UNCHANGED <<seen, resumes>>
    /\ UNCHANGED <<owner, slot, nxt, tag, payload, writes, rpc, rres, won, chainl, cur, rest, sp, swapped, flag, sawready>>

SubCAS(w) ==         \* one compare_exchange(_next, this): on failure the node's _next receives the observed value
    /\ wpc[w] = "pre_cas"
    /\ IF slot = nxt[w]
         THEN slot' = w /\ WPc(w, "post_cas_ok") /\ UNCHANGED nxt
         ELSE nxt' = [nxt EXCEPT ![w] = slot] /\ WPc(w, "post_cas_fail") /\ UNCHANGED slot
    /\ UNCHANGED <<owner, tag, payload, writes, rpc, rres, won, chainl, cur, rest, sp, swapped, flag, sawready, seen, resumes>>

LCasOk(w) ==         \* subscribed: a coroutine / callback waiter's thread is finished, a blocking waiter goes to wait
    /\ wpc[w] = "post_cas_ok"
    /\ WPc(w, IF w \in WBl THEN "pre_wait" ELSE "tdone")
    /\ UNCHANGED WU

LCasFail(w) ==
    /\ wpc[w] = "post_cas_fail"
    /\ IF nxt[w] = "ready"
         THEN nxt' = [nxt EXCEPT ![w] = "null"] /\ WPc(w, "pre_fence")
         ELSE UNCHANGED nxt /\ WPc(w, "pre_cas")
    /\ UNCHANGED <<owner, slot, tag, payload, writes, rpc, rres, won, chainl, cur, rest, sp, swapped, flag, sawready, seen, resumes>>

Fence(w) == /\ wpc[w] = "pre_fence" /\ WPc(w, "post_fence") /\ UNCHANGED WU

LFence(w) ==         \* refused subscription: the waiter reads the result itself (callback: fires on its own thread)
    /\ wpc[w] = "post_fence"
    /\ ReadNow(w) /\ WPc(w, "tdone")
    /\ UNCHANGED <<owner, slot, nxt, tag, payload, writes, rpc, rres, won, chainl, cur, rest, sp, swapped, flag, sawready>>

FlagWait(w) == /\ wpc[w] = "pre_wait" /\ flag[w] /\ WPc(w, "post_wait") /\ UNCHANGED WU

LWait(w) ==
    /\ wpc[w] = "post_wait"
    /\ ReadNow(w) /\ WPc(w, "tdone")
    /\ UNCHANGED <<owner, slot, nxt, tag, payload, writes, rpc, rres, won, chainl, cur, rest, sp, swapped, flag, sawready>>

-----------------------------------------------------------------------------
RStep(r) == \/ MClaimOwn(r) \/ Claim(r) \/ MAssign(r) \/ DtorStart(r) \/ DLoad(r) \/ SwapReady(r) \/ FlagStore(r) \/ Notify(r)
            \/ LMClaim(r) \/ LClaim(r) \/ LMAssign(r) \/ LDtor(r) \/ LDLoad(r) \/ LSwap(r) \/ LFlagStored(r) \/ LNotified(r)
WStep(w) == \/ CheckReady(w) \/ LCheck(w) \/ SubCAS(w) \/ LCasOk(w) \/ LCasFail(w) \/ Fence(w) \/ LFence(w) \/ FlagWait(w) \/ LWait(w)

Next == (\E r \in Resolvers : RStep(r)) \/ (\E w \in Waiters : WStep(w))
Spec == Init /\ [][Next]_vars /\ (\A r \in Resolvers : WF_vars(RStep(r))) /\ (\A w \in Waiters : WF_vars(WStep(w)))

-----------------------------------------------------------------------------
(* Properties: as in Future.tla *)
ResolversDone == \A r \in Resolvers : rpc[r] = "done"
OneWinner ==
    /\ Cardinality(swapped) <= 1
    /\ writes <= 1
    /\ Cardinality({r \in Resolvers : rres[r] = "true"}) <= 1
    /\ \A r \in Resolvers : rres[r] = "true" => r \in swapped
    /\ (ResolversDone /\ Resolvers # {}) => Cardinality(swapped) = 1
PayloadIsWinners ==
    \A r \in swapped :
        /\ r \in RVal => tag = "val" /\ payload = r
        /\ r \in RExc => tag = "exc" /\ payload = r
        /\ r \in RFinal => tag = "val" /\ payload = r
        /\ r \in RDrop \cup RMdes \cup RMasg \cup RDtor => tag = "none" /\ payload = "none"
ResultStable == [][slot = "ready" => UNCHANGED <<tag, payload, slot>>]_vars
NoEarlyWake == \A w \in Waiters : resumes[w] > 0 => slot = "ready"
AtMostOnce == \A w \in Waiters : resumes[w] <= 1
SeesCompleteResult == \A w \in Waiters : resumes[w] > 0 => seen[w] = Result
AllReleasedAtEnd ==
    (ResolversDone /\ Resolvers # {}) =>
        \A w \in Waiters : /\ (wpc[w] = "pre_wait" => flag[w])
                           /\ (wpc[w] = "tdone" => resumes[w] = 1 /\ seen[w] = Result)
NoStuckState == (~ ENABLED Next) => (ResolversDone /\ (Resolvers # {} => \A w \in Waiters : wpc[w] = "tdone" /\ resumes[w] = 1))
NoHang == <>[](\A w \in Waiters : resumes[w] = 1)
=============================================================================
