SPECIFICATION Spec
INVARIANTS TypeOK OneWinner PayloadIsWinners ArgConsumedOnlyByWinner PayloadBuiltOnce DropMeansNoValue NoEarlyWake AtMostOnce SeesCompleteResult WokenOnlyWhenFlagged ChainWellFormed AllReleasedAtEnd NoStuckState
PROPERTIES LosersLeaveNoTrace ResultStable NoHang
CHECK_DEADLOCK FALSE
