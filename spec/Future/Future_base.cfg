SPECIFICATION Spec
INVARIANTS TypeOK OneWinner PayloadIsWinners NoEarlyWake AtMostOnce SeesCompleteResult WokenOnlyWhenFlagged ChainWellFormed AllReleasedAtEnd NoStuckState
PROPERTIES LosersLeaveNoTrace ResultStable NoHang
CHECK_DEADLOCK FALSE
