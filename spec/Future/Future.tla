------------------------------- MODULE Future -------------------------------
(***************************************************************************)
(* cocls future<T>/promise<T>/awaiter chain at the grain of the atomic     *)
(* operations of the implementation (src/cocls/future.h, awaiter.h).       *)
(*                                                                         *)
(* A step of a thread is "perform the pending atomic operation, then run   *)
(* thread-local code up to the next atomic operation"; this is exactly the *)
(* step the controlled scheduler (rt/include/cocls_verif/vsched.h) replays *)
(* on real threads, so every action below is named after the atomic        *)
(* operation it starts with:                                               *)
(*                                                                         *)
(*   Claim      promise::claim      _owner.exchange(nullptr)  future.h:696 *)
(*   DLoad      promise::~promise   _owner.load()             future.h:600 *)
(*   SwapReady  resume_chain_set_ready  chain.exchange(&disabled)  aw:96   *)
(*   FlagStore  sync_awaiter::wakeup  flag.store(true)         aw:270      *)
(*   Notify     sync_awaiter::wakeup  flag.notify_all()        aw:271      *)
(*   CheckReady future_common::ready  _awaiter.load(acquire)   future.h:159*)
(*   SubCAS     subscribe_check_ready one compare_exchange iteration aw:119*)
(*   Fence      subscribe_check_ready atomic_thread_fence      aw:124      *)
(*   FlagWait   sync(): awt.flag.wait(false)                   aw:319      *)
(*                                                                         *)
(* Resolver kinds (all act on ONE promise object):                         *)
(*   RVal/RExc/RDrop  p(v) / p(exception_ptr) / p(drop)                    *)
(*   RMdes   { promise q(std::move(p)); }  move-construct then destroy     *)
(*   RMasg   { promise q; q = std::move(p); }  move-ASSIGN then destroy:     *)
(*           drop of q's own (empty) target, claim of p, store into q       *)
(*   RDtor   the final destruction of p itself, after every other resolver *)
(*           returned (an object cannot be destroyed while in use)         *)
(*   RFinal  completion of an async coroutine bound to the future          *)
(*           (async_promise::final_awaiter, async.h:217): no claim step    *)
(*   ROvw    p = promise()  another (empty) promise move-ASSIGNED OVER p   *)
(*           (promise::operator=, future.h:606): set_value(drop) on p, i.e.*)
(*           claim of p + resolution to no-value, then claim of the other  *)
(*           promise and the store into p's owner pointer; like the final  *)
(*           destructor it needs the object for itself.  The assigned-from *)
(*           promise is a NAMED object that lives on: it is then called    *)
(*           with a value (must be refused: it is empty) and destroyed     *)
(* Waiter kinds:                                                           *)
(*   WCo  coroutine co_await f          WHv  coroutine co_await f.has_value()*)
(*   WBl  thread f.wait()/sync()        WCb  callback awaiter subscribed   *)
(*                                           through co_awaiter::subscribe *)
(*   WMp  the callback of a callback-promise make_promise<T>(fn)           *)
(*        (future_with_cb, future.h:878-892): the future lives on the heap, *)
(*        is born with its own awaiter node installed in the slot and      *)
(*        deletes itself after the callback ran; the callback is the ONLY  *)
(*        observer of the result (no other waiter can reach the future)    *)
(*                                                                         *)
(* Payload accounting (observable with an instance-counted, move-only      *)
(* value type): `arg[r]` is the state of the rvalue argument object of a   *)
(* value resolver (p(std::move(x)), set_value(std::move(x)), the tuple     *)
(* element of bind(x)(), the operand of co_return in async::start(p)):     *)
(* only the winning call may consume it; `built` counts the payload        *)
(* instances the library constructed (future::set, future.h:555).          *)
(***************************************************************************)
EXTENDS Naturals, Sequences, FiniteSets, TLC

CONSTANTS RVal, RExc, RDrop, RMdes, RMasg, RDtor, RFinal, ROvw, WCo, WHv, WBl, WCb, WMp,
          PreResolved   \* "none", or how the future was already resolved when the threads start ("val" | "exc" | "drop"):
                        \* a future built by result_of / operator<< from a function that returned a ready future or threw

Resolvers == RVal \cup RExc \cup RDrop \cup RMdes \cup RMasg \cup RDtor \cup RFinal \cup ROvw
Waiters == WCo \cup WHv \cup WBl \cup WCb \cup WMp
Inline == WCb \cup WMp      \* nodes whose resume function runs inside the chain walk

(* nobody but the callback can reach the future of a callback-promise, and it is born pending *)
ASSUME WMp # {} => (Waiters = WMp /\ Cardinality(WMp) = 1 /\ PreResolved = "none" /\ RFinal = {})
Coro == WCo \cup WHv

VARIABLES
    owner,     \* promise::_owner : "fut" | "null"
    slot,      \* future::_awaiter: "null" | "ready" | w (top of the waiter stack)
    nxt,       \* awaiter::_next of w's node (doubles as the CAS's expected value)
    tag,       \* future::_state  : "none" | "val" | "exc"
    payload,   \* who wrote the stored value/exception ("none" if nothing)
    writes,    \* number of executions of future::set
    rpc,       \* resolver pc
    rres,      \* resolver's boolean result: "none" | "true" | "false"
    cur,       \* resolver: blocking waiter whose flag is being set
    rest,      \* resolver: rest of the chain still to walk (local variable `chain`)
    sp,        \* resolver: coroutines collected in the suspend point under construction
    swapped,   \* ghost: resolvers that executed the resolving exchange
    flag,      \* sync_awaiter::flag per blocking waiter
    wpc,       \* waiter pc
    seen,      \* what the waiter read when released: [tag, payload] or "none"
    resumes,   \* how many times the waiter was released
    arg,       \* value resolver's argument object: "intact" | "moved" (consumed by a move construction)
    built      \* number of payload instances constructed by the library since the threads started

vars == <<owner, slot, nxt, tag, payload, writes, rpc, rres, cur, rest, sp, swapped, flag, wpc, seen, resumes, arg, built>>

NoRes == [tag |-> "unread", payload |-> "unread"]
Result == [tag |-> tag, payload |-> payload]

InitRpc(r) == IF r \in RFinal THEN "swap" ELSE IF r \in RDtor THEN "dtor" ELSE IF r \in ROvw THEN "ovw"
              ELSE IF r \in RMasg THEN "mclaim_own" ELSE "claim"
InitWpc(w) == IF w \in WCb THEN "cas" ELSE IF w \in WMp THEN "parked" ELSE "check"

Init ==
    /\ owner = IF RFinal # {} \/ PreResolved # "none" THEN "null" ELSE "fut"
    (* future_with_cb's constructor: this->_awaiter = this (future.h:883) *)
    /\ slot = IF PreResolved # "none" THEN "ready" ELSE IF WMp # {} THEN CHOOSE w \in WMp : TRUE ELSE "null"
    /\ nxt = [w \in Waiters |-> "null"]
    (* a finishing coroutine has stored its result before its first atomic operation *)
    /\ tag = IF RFinal # {} THEN "val" ELSE IF PreResolved \in {"val", "exc"} THEN PreResolved ELSE "none"
    /\ payload = IF RFinal # {} THEN CHOOSE r \in RFinal : TRUE ELSE IF PreResolved \in {"val", "exc"} THEN "pre" ELSE "none"
    /\ writes = IF RFinal # {} \/ PreResolved \in {"val", "exc"} THEN 1 ELSE 0
    /\ rpc = [r \in Resolvers |-> InitRpc(r)]
    /\ rres = [r \in Resolvers |-> "none"]
    /\ cur = [r \in Resolvers |-> "null"]
    /\ rest = [r \in Resolvers |-> "null"]
    /\ sp = [r \in Resolvers |-> <<>>]
    /\ swapped = {}
    /\ flag = [w \in Waiters |-> FALSE]
    /\ wpc = [w \in Waiters |-> InitWpc(w)]
    /\ seen = [w \in Waiters |-> NoRes]
    /\ resumes = [w \in Waiters |-> 0]
    /\ arg = [r \in Resolvers |-> "intact"]
    (* the finishing coroutine's co_return constructed the stored value *)
    /\ built = IF RFinal # {} THEN 1 ELSE 0

-----------------------------------------------------------------------------
(* resume_chain_lk (awaiter.h:98-107): walk the detached chain from node n.  Coroutine nodes go
   into the suspend point, callback nodes run inline, a blocking node stops the walk at its
   flag.store (next atomic operation).  At the end of the chain the suspend point is released by
   its destructor / final_awaiter: every collected coroutine runs await_resume and reads the result. *)
Release(st, w, res) ==
    [st EXCEPT !.seen[w] = res, !.resumes[w] = st.resumes[w] + 1, !.wpc[w] = "done"]

RECURSIVE ReleaseAll(_, _, _)
ReleaseAll(st, s, res) ==
    IF s = <<>> THEN st ELSE ReleaseAll(Release(st, Head(s), res), Tail(s), res)

RECURSIVE Walk(_, _, _)
Walk(n, st, res) ==
    IF n = "null"
      THEN [ReleaseAll(st, st.sp, res) EXCEPT !.sp = <<>>, !.pc = "done"]
      ELSE LET nx == st.nxt[n]
               st1 == [st EXCEPT !.nxt[n] = "null"]
           IN  IF n \in Coro THEN Walk(nx, [st1 EXCEPT !.sp = Append(st1.sp, n)], res)
               ELSE IF n \in Inline THEN Walk(nx, Release(st1, n, res), res)
               ELSE [st1 EXCEPT !.cur = n, !.rest = nx, !.pc = "flagstore"]

WalkFrom(r, n, res) ==
    LET st0 == [nxt |-> nxt, wpc |-> wpc, seen |-> seen, resumes |-> resumes,
                sp |-> sp[r], cur |-> "null", rest |-> "null", pc |-> "walk"]
        st == Walk(n, st0, res)
    IN  /\ nxt' = st.nxt
        /\ wpc' = st.wpc
        /\ seen' = st.seen
        /\ resumes' = st.resumes
        /\ sp' = [sp EXCEPT ![r] = st.sp]
        /\ cur' = [cur EXCEPT ![r] = st.cur]
        /\ rest' = [rest EXCEPT ![r] = st.rest]
        (* an assignment over p goes on after its set_value(drop) returned *)
        /\ rpc' = [rpc EXCEPT ![r] = IF st.pc = "done" /\ r \in ROvw THEN "oclaim" ELSE st.pc]
        /\ rres' = [rres EXCEPT ![r] = IF st.pc = "done" /\ r \in (RVal \cup RExc \cup RDrop) THEN "true" ELSE rres[r]]

-----------------------------------------------------------------------------
(* resolvers *)

(* promise::claim: exchange(nullptr).  The winner's future::set (plain stores) follows in the same step. *)
Claim(r) ==
    /\ rpc[r] = "claim"
    /\ owner' = "null"
    /\ IF owner = "fut"
         THEN /\ IF r \in RVal \cup RExc
                   THEN /\ tag' = IF r \in RVal THEN "val" ELSE "exc"
                        /\ payload' = r
                        /\ writes' = writes + 1
                        (* future::set constructs the value in place FROM the argument (future.h:555): the one
                           and only consumption of an argument, by the one and only winner *)
                        /\ arg' = IF r \in RVal THEN [arg EXCEPT ![r] = "moved"] ELSE arg
                        /\ built' = IF r \in RVal THEN built + 1 ELSE built
                   ELSE UNCHANGED <<tag, payload, writes, arg, built>>
              /\ rpc' = [rpc EXCEPT ![r] = IF r \in RMdes THEN "dload_own" ELSE IF r \in RMasg THEN "massign_own" ELSE "swap"]
              /\ UNCHANGED rres
         ELSE /\ rpc' = [rpc EXCEPT ![r] = IF r \in RMdes THEN "dload_null" ELSE IF r \in RMasg THEN "massign_null"
                                              ELSE IF r \in ROvw THEN "oclaim" ELSE "done"]
              /\ rres' = [rres EXCEPT ![r] = IF r \in RMdes \cup RMasg \cup ROvw THEN "none" ELSE "false"]
              (* a refused call: nothing is constructed, the argument stays with the caller *)
              /\ UNCHANGED <<tag, payload, writes, arg, built>>
    /\ UNCHANGED <<slot, nxt, cur, rest, sp, swapped, flag, wpc, seen, resumes>>

(* promise::operator=(promise&&): first `set_value(drop)` on the assigned-to promise q (claim exchange on q's own,
   empty, owner pointer: nothing to drop), then the claim of p (Claim above), then the store into q's owner *)
MClaimOwn(r) ==
    /\ rpc[r] = "mclaim_own"
    /\ rpc' = [rpc EXCEPT ![r] = "claim"]
    /\ UNCHANGED <<owner, slot, nxt, tag, payload, writes, rres, cur, rest, sp, swapped, flag, wpc, seen, resumes, arg, built>>

MAssign(r) ==
    /\ rpc[r] \in {"massign_own", "massign_null"}
    /\ rpc' = [rpc EXCEPT ![r] = IF rpc[r] = "massign_own" THEN "dload_own" ELSE "dload_null"]
    /\ UNCHANGED <<owner, slot, nxt, tag, payload, writes, rres, cur, rest, sp, swapped, flag, wpc, seen, resumes, arg, built>>

(* the final destructor of the promise object may only run when nobody uses the object any more *)
DtorStart(r) ==
    /\ rpc[r] = "dtor"
    /\ \A o \in Resolvers \ RDtor : rpc[o] = "done"
    /\ rpc' = [rpc EXCEPT ![r] = IF owner = "fut" THEN "dload_p_own" ELSE "dload_p_null"]
    /\ UNCHANGED <<owner, slot, nxt, tag, payload, writes, rres, cur, rest, sp, swapped, flag, wpc, seen, resumes, arg, built>>

(* promise::operator=(promise&&) applied TO p (future.h:606-612): like the destructor, an assignment over the object may
   only run when no other call is using it; first `set_value(drop)` on p itself = Claim(r) [+ SwapReady(r) and the walk] *)
OvwStart(r) ==
    /\ rpc[r] = "ovw"
    /\ \A o \in Resolvers \ (RDtor \cup ROvw) : rpc[o] = "done"
    /\ \A o \in ROvw \ {r} : rpc[o] \in {"ovw", "done"}
    /\ rpc' = [rpc EXCEPT ![r] = "claim"]
    /\ UNCHANGED <<owner, slot, nxt, tag, payload, writes, rres, cur, rest, sp, swapped, flag, wpc, seen, resumes, arg, built>>

(* ... then `other.claim()`: exchange on the (empty) assigned-from promise's owner pointer (future.h:609,696) *)
OClaim(r) ==
    /\ rpc[r] = "oclaim"
    /\ rpc' = [rpc EXCEPT ![r] = "ostore"]
    /\ UNCHANGED <<owner, slot, nxt, tag, payload, writes, rres, cur, rest, sp, swapped, flag, wpc, seen, resumes, arg, built>>

(* ... and the store of what was claimed (nothing) into p's owner pointer (future.h:609) *)
OStore(r) ==
    /\ rpc[r] = "ostore"
    /\ owner' = "null"
    /\ rpc' = [rpc EXCEPT ![r] = "qclaim"]
    /\ UNCHANGED <<slot, nxt, tag, payload, writes, rres, cur, rest, sp, swapped, flag, wpc, seen, resumes, arg, built>>

(* the moved-from source q lives on and is now called with a value: q(v) -> claim on q's (null) owner pointer (future.h:696)
   -> refused; nothing changes, the argument stays with the caller.  Then q dies: ~promise loads null (DLoad) *)
QClaim(r) ==
    /\ rpc[r] = "qclaim"
    /\ rres' = [rres EXCEPT ![r] = "false"]
    /\ rpc' = [rpc EXCEPT ![r] = "dload_q"]
    /\ UNCHANGED <<owner, slot, nxt, tag, payload, writes, cur, rest, sp, swapped, flag, wpc, seen, resumes, arg, built>>

(* promise::~promise: load(relaxed) of the (own) owner pointer; resolve if non-null *)
DLoad(r) ==
    /\ rpc[r] \in {"dload_own", "dload_null", "dload_p_own", "dload_p_null", "dload_q"}
    /\ rpc' = [rpc EXCEPT ![r] = IF rpc[r] \in {"dload_own", "dload_p_own"} THEN "swap" ELSE "done"]
    /\ UNCHANGED <<owner, slot, nxt, tag, payload, writes, rres, cur, rest, sp, swapped, flag, wpc, seen, resumes, arg, built>>

(* future::resolve -> awaiter::resume_chain_set_ready: exchange(&disabled), then walk *)
SwapReady(r) ==
    /\ rpc[r] = "swap"
    /\ slot' = "ready"
    /\ swapped' = swapped \cup {r}
    /\ WalkFrom(r, slot, Result)
    /\ UNCHANGED <<owner, tag, payload, writes, flag, arg, built>>

FlagStore(r) ==
    /\ rpc[r] = "flagstore"
    /\ flag' = [flag EXCEPT ![cur[r]] = TRUE]
    /\ rpc' = [rpc EXCEPT ![r] = "notify"]
    /\ UNCHANGED <<owner, slot, nxt, tag, payload, writes, rres, cur, rest, sp, swapped, wpc, seen, resumes, arg, built>>

(* flag.notify_all() touches the node by address only; then the walk continues *)
Notify(r) ==
    /\ rpc[r] = "notify"
    /\ WalkFrom(r, rest[r], Result)
    /\ UNCHANGED <<owner, slot, tag, payload, writes, swapped, flag, arg, built>>

-----------------------------------------------------------------------------
(* waiters *)

ReadNow(w) ==
    /\ seen' = [seen EXCEPT ![w] = Result]
    /\ resumes' = [resumes EXCEPT ![w] = resumes[w] + 1]

(* await_ready(): load(acquire) == &disabled *)
CheckReady(w) ==
    /\ wpc[w] = "check"
    /\ IF slot = "ready"
         THEN /\ ReadNow(w)
              /\ wpc' = [wpc EXCEPT ![w] = "done"]
         ELSE /\ wpc' = [wpc EXCEPT ![w] = "cas"]
              /\ UNCHANGED <<seen, resumes>>
    /\ UNCHANGED <<owner, slot, nxt, tag, payload, writes, rpc, rres, cur, rest, sp, swapped, flag, arg, built>>

(* one iteration of compare_exchange(_next, this): expected value is the node's own _next *)
SubCAS(w) ==
    /\ wpc[w] = "cas"
    /\ IF slot = nxt[w]
         THEN /\ slot' = w
              /\ wpc' = [wpc EXCEPT ![w] = IF w \in WBl THEN "wait" ELSE "parked"]
              /\ UNCHANGED nxt
         ELSE /\ IF slot = "ready"
                   THEN /\ nxt' = [nxt EXCEPT ![w] = "null"]
                        /\ wpc' = [wpc EXCEPT ![w] = "fence"]
                   ELSE /\ nxt' = [nxt EXCEPT ![w] = slot]
                        /\ UNCHANGED wpc
              /\ UNCHANGED slot
    /\ UNCHANGED <<owner, tag, payload, writes, rpc, rres, cur, rest, sp, swapped, flag, seen, resumes, arg, built>>

(* subscription refused: acquire fence, then the waiter proceeds to read the result itself *)
Fence(w) ==
    /\ wpc[w] = "fence"
    /\ ReadNow(w)
    /\ wpc' = [wpc EXCEPT ![w] = "done"]
    /\ UNCHANGED <<owner, slot, nxt, tag, payload, writes, rpc, rres, cur, rest, sp, swapped, flag, arg, built>>

(* flag.wait(false) returns once the flag is set; the sync_awaiter on the waiter's stack dies *)
FlagWait(w) ==
    /\ wpc[w] = "wait"
    /\ flag[w]
    /\ ReadNow(w)
    /\ wpc' = [wpc EXCEPT ![w] = "done"]
    /\ UNCHANGED <<owner, slot, nxt, tag, payload, writes, rpc, rres, cur, rest, sp, swapped, flag, arg, built>>

-----------------------------------------------------------------------------
Next == \/ \E r \in Resolvers : Claim(r) \/ MClaimOwn(r) \/ MAssign(r) \/ DtorStart(r) \/ DLoad(r) \/ SwapReady(r) \/ FlagStore(r) \/ Notify(r)
        \/ \E r \in ROvw : OvwStart(r) \/ OClaim(r) \/ OStore(r) \/ QClaim(r)
        \/ \E w \in Waiters : CheckReady(w) \/ SubCAS(w) \/ Fence(w) \/ FlagWait(w)

Fair == /\ \A r \in Resolvers : WF_vars(Claim(r) \/ MClaimOwn(r) \/ MAssign(r) \/ DtorStart(r) \/ DLoad(r) \/ SwapReady(r) \/ FlagStore(r) \/ Notify(r))
        /\ \A r \in ROvw : WF_vars(OvwStart(r) \/ OClaim(r) \/ OStore(r) \/ QClaim(r))
        /\ \A w \in Waiters : WF_vars(CheckReady(w) \/ SubCAS(w) \/ Fence(w) \/ FlagWait(w))

Spec == Init /\ [][Next]_vars /\ Fair

-----------------------------------------------------------------------------
(* Properties *)

WStates == {"check", "cas", "fence", "parked", "wait", "done"}
TypeOK ==
    /\ owner \in {"fut", "null"}
    /\ slot \in {"null", "ready"} \cup Waiters
    /\ \A w \in Waiters : wpc[w] \in WStates /\ nxt[w] \in {"null"} \cup Waiters
    /\ tag \in {"none", "val", "exc"}

ResolversDone == \A r \in Resolvers : rpc[r] = "done"
Quiescent == ResolversDone /\ \A w \in Waiters : wpc[w] \in {"done", "parked", "wait"}

(* C01: exactly one resolution takes effect *)
OneWinner ==
    /\ Cardinality(swapped) <= 1
    /\ writes <= 1
    /\ Cardinality({r \in Resolvers : rres[r] = "true"}) <= 1
    /\ \A r \in Resolvers : rres[r] = "true" => r \in swapped
    /\ (ResolversDone /\ Resolvers # {}) => Cardinality(swapped) = 1

(* the stored result is the winner's payload; drop / destruction leave no value *)
PayloadIsWinners ==
    \A r \in swapped :
        /\ r \in RVal => tag = "val" /\ payload = r
        /\ r \in RExc => tag = "exc" /\ payload = r
        /\ r \in RFinal => tag = "val" /\ payload = r
        /\ r \in RDrop \cup RMdes \cup RMasg \cup RDtor \cup ROvw => tag = "none" /\ payload = "none"

(* losers report failure and leave no trace (action property) *)
LosersLeaveNoTrace ==
    [][\A r \in Resolvers :
         (rres'[r] = "false" /\ rres[r] # "false") => UNCHANGED <<slot, nxt, tag, payload, writes, flag, seen, resumes, arg, built>>]_vars

(* ... which includes the ARGUMENTS of a refused call: only the winner's argument is consumed, and the library
   constructs exactly one payload instance (the stored value) when a value wins, none otherwise *)
ArgConsumedOnlyByWinner ==
    \A r \in Resolvers : arg[r] = "moved" <=> (r \in RVal /\ tag = "val" /\ payload = r)
PayloadBuiltOnce == built = IF tag = "val" /\ payload # "pre" THEN 1 ELSE 0

(* a promise that is dropped / destroyed / overwritten without a value resolves to no-value, and whoever waits - the
   callback of a callback-promise included - is told so (rather than never being called) *)
NoValueKinds == RDrop \cup RMdes \cup RMasg \cup RDtor \cup ROvw
DropMeansNoValue ==
    \A r \in swapped \cap NoValueKinds :
        /\ \A w \in Waiters : resumes[w] > 0 => seen[w] = [tag |-> "none", payload |-> "none"]
        /\ \A w \in WMp : rpc[r] \in {"done", "oclaim", "ostore", "qclaim", "dload_q"} => resumes[w] = 1

(* once ready the result never changes *)
ResultStable == [][slot = "ready" => UNCHANGED <<tag, payload, slot>>]_vars

(* C02: never released before the result is set; released at most once; sees the complete result *)
NoEarlyWake == \A w \in Waiters : resumes[w] > 0 => slot = "ready"
AtMostOnce == \A w \in Waiters : resumes[w] <= 1
SeesCompleteResult == \A w \in Waiters : resumes[w] > 0 => seen[w] = Result
WokenOnlyWhenFlagged == \A w \in WBl : flag[w] => slot = "ready"

(* the chain hanging off the slot is acyclic, contains only parked waiters, each once *)
RECURSIVE ChainFrom(_, _)
ChainFrom(n, fuel) == IF n \in {"null", "ready"} \/ fuel = 0 THEN <<>> ELSE <<n>> \o ChainFrom(nxt[n], fuel - 1)
Chain == ChainFrom(slot, Cardinality(Waiters) + 1)
ChainWellFormed ==
    /\ Len(Chain) <= Cardinality(Waiters)
    /\ \A i, j \in 1..Len(Chain) : i # j => Chain[i] # Chain[j]
    /\ \A i \in 1..Len(Chain) : wpc[Chain[i]] \in {"parked", "wait"}
    /\ \A w \in Waiters : (wpc[w] \in {"parked", "wait"} /\ slot # "ready") => \E i \in 1..Len(Chain) : Chain[i] = w

(* after resolution nobody stays suspended: every waiter released exactly once with the result *)
AllReleasedAtEnd ==
    (ResolversDone /\ (Resolvers # {} \/ PreResolved # "none")) =>
        \A w \in Waiters : /\ wpc[w] # "parked"
                           /\ (wpc[w] = "wait" => flag[w])
                           /\ (wpc[w] = "done" => resumes[w] = 1 /\ seen[w] = Result)

NoHang == <>[](\A w \in Waiters : wpc[w] = "done")

(* the only terminal states are the completed ones (TLC deadlock check is disabled; this replaces it) *)
NoStuckState == (~ ENABLED Next) => (ResolversDone /\ ((Resolvers # {} \/ PreResolved # "none") => \A w \in Waiters : wpc[w] = "done"))

=============================================================================
