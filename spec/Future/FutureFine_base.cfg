SPECIFICATION Spec
INVARIANTS OneWinner PayloadIsWinners NoEarlyWake AtMostOnce SeesCompleteResult AllReleasedAtEnd NoStuckState
PROPERTIES ResultStable NoHang
CHECK_DEADLOCK FALSE
