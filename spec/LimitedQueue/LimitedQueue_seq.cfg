SPECIFICATION Spec
CONSTANTS
  Producers = {t1}
  Consumers = {t1}
  Limits = {1,2,3,4}
  ExtraPush = 3
  ExtraPop = 2
  MaxUnblockPush = 2
  MaxUnblockPop = 1
  AllowDestroy = TRUE
  Fixed = TRUE
  MaxThrow = 1
  FixedThrow = TRUE
  FormShift = 0
INVARIANTS TypeOK Bound BlockedOnlyWhenFull NeverBothNonEmpty PendingHoldsItem NoPhantomBackPressure NoLossNoDup NoDupEver DeliveredInOrder QueueOrder BlockedFIFO AdmittedLePops WithdrawnIsGone WaitersFIFO NoLostWaiter PopExcOnlyByUnblock DestroyCancels CancelOnlyByDestroy
PROPERTIES PushReadyIffRoom ThrowLeavesNoTrace OnePerPop UnblockPushWithdraws AllResolved
CHECK_DEADLOCK FALSE
