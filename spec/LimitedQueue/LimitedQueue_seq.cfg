SPECIFICATION Spec
CONSTANTS
  Producers = {t1}
  Consumers = {t1}
  Limits = {1,2,3,4}
  ExtraPush = 3
  ExtraPop = 2
  MaxUnblockPush = 2
  MaxUnblockPop = 2
  AllowDestroy = TRUE
  Fixed = TRUE
INVARIANTS TypeOK Bound BlockedOnlyWhenFull NeverBothNonEmpty PendingHoldsItem NoLossNoDup NoDupEver DeliveredInOrder QueueOrder BlockedFIFO AdmittedLePops WithdrawnIsGone WaitersFIFO NoLostWaiter PopExcOnlyByUnblock DestroyCancels CancelOnlyByDestroy
PROPERTIES PushReadyIffRoom OnePerPop UnblockPushWithdraws AllResolved
CHECK_DEADLOCK FALSE
