SPECIFICATION Spec
CONSTANTS
  Producers = {p1,p2}
  Consumers = {c1,c2}
  Limits = {1,2}
  ExtraPush = 2
  ExtraPop = 1
  MaxUnblockPush = 1
  MaxUnblockPop = 1
  AllowDestroy = TRUE
  Fixed = TRUE
  MaxThrow = 0
  FixedThrow = TRUE
  FormShift = 0
INVARIANTS TypeOK Bound BlockedOnlyWhenFull NeverBothNonEmpty PendingHoldsItem NoPhantomBackPressure NoLossNoDup NoDupEver DeliveredInOrder QueueOrder BlockedFIFO AdmittedLePops WithdrawnIsGone WaitersFIFO NoLostWaiter PopExcOnlyByUnblock DestroyCancels CancelOnlyByDestroy
PROPERTIES PushReadyIffRoom ThrowLeavesNoTrace OnePerPop UnblockPushWithdraws AllResolved
CHECK_DEADLOCK FALSE
