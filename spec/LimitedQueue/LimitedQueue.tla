---------------------------- MODULE LimitedQueue ----------------------------
(***************************************************************************)
(* cocls::limited_queue<T> (src/cocls/queue.h:264-369) at critical-section *)
(* grain.                                                                  *)
(*                                                                         *)
(* One action per critical section of the implementation (the region       *)
(* between taking and dropping `_mx`), plus one action for every promise   *)
(* resolution that is performed *after* the lock was dropped:              *)
(*   push          : hand-over `p(std::move(item))`   (queue.h:293-294)    *)
(*   pop           : completion `p()` of the blocked push it admitted      *)
(*                                                    (queue.h:335-336)    *)
(*   unblock_push  : `front.second.set_exception(e)`  (queue.h:362-363)    *)
(*   unblock_pop   : `p.set_exception(e)`             (queue.h:238-239)    *)
(* pop() resolves its own future inside the lock (queue.h:325).            *)
(*                                                                         *)
(* Pushes are numbered 1,2,3,... in the order in which their critical      *)
(* sections took effect and the n-th push carries the value n; pops are    *)
(* numbered likewise.  pfut[n] / fut[i] are the futures returned by the    *)
(* n-th push / i-th pop.  That makes every ordering property a comparison. *)
(*                                                                         *)
(* Item identity.  push(args...) is emplace-style: the item is T(args...).  *)
(* The n-th push is made through the API form FormOf(n) (one argument,      *)
(* several arguments, a ready-made item by copy, by move; rotation fixed by *)
(* the limit and the constant FormShift), so the item it contributes is     *)
(* Item(n) =                                                                *)
(* (arguments derived from n, constructor form).  The sequences below hold  *)
(* n as shorthand for Item(n); the replay projection expands it, and what   *)
(* sits in the queue / the blocked queue / a pop future must be exactly     *)
(* what a direct T(args...) gives, whichever branch the push took.          *)
(*                                                                         *)
(* Throwing construction.  PushThrowCS is a push whose item constructor     *)
(* throws.  The code constructs the item inside the critical section       *)
(* before it touches anything: in the room branch (_queue.emplace, strong   *)
(* guarantee, queue.h:308), in the blocked branch (T(args...) before        *)
(* _blocked.push, queue.h:305) and -- since commit 3c3638a -- in the        *)
(* hand-over branch (`T item(args...)` before the waiter is taken,          *)
(* queue.h:290).  The exception leaves push(), no future is returned,       *)
(* nothing but the caller's result changes.  FixedThrow = FALSE models the  *)
(* code before 3c3638a: the hand-over branch took the waiting pop's         *)
(* promise out first and constructed the item inside the promise call,      *)
(* which claims the future before it constructs the value -- the waiting    *)
(* pop was left pending for ever, parked nowhere (NoLostWaiter rejects it). *)
(*                                                                         *)
(* Fixed = TRUE models the current code; Fixed = FALSE models the code     *)
(* before commit fca2138 (push emplaced the item and, when the size then   *)
(* reached the limit, additionally parked a copy of it in _blocked) -- it  *)
(* is kept to demonstrate that the properties below reject that behaviour. *)
(***************************************************************************)
EXTENDS Naturals, Sequences, FiniteSets, TLC

CONSTANTS Producers,       \* threads calling push()
          Consumers,       \* threads calling pop()   (every thread may call unblock_*)
          Limits,          \* set of limits; one is picked by the constructor (Init)
          ExtraPush,       \* at most limit + ExtraPush calls of push()
          ExtraPop,        \* at most limit + ExtraPop calls of pop()
          MaxUnblockPush,  \* bound on the number of unblock_push() calls
          MaxUnblockPop,   \* bound on the number of unblock_pop() calls
          AllowDestroy,    \* TRUE: the queue may be destroyed with parked pops / blocked pushes
          Fixed,           \* TRUE: current code, FALSE: code before fca2138
          MaxThrow,        \* bound on the number of push() calls whose item constructor throws
          FixedThrow,      \* TRUE: current code, FALSE: code before 3c3638a (throwing push orphans a waiting pop)
          FormShift        \* rotation of the API forms over the pushes (0..3); the limit rotates them further

ASSUME FormShift \in 0..3 /\ MaxThrow \in Nat /\ FixedThrow \in BOOLEAN

VARIABLES limit,     \* _limit (queue.h:368)
          items,     \* _queue: sequence of values
          waiters,   \* _awaiters: sequence of pop ids whose promise<T> is parked
          blocked,   \* _blocked (queue.h:367): sequence of [v |-> item, push |-> id of the push whose promise<void> is parked]
          fut,       \* fut[i]: state of the future<T> returned by the i-th pop()
          pfut,      \* pfut[n]: state of the future<void> returned by the n-th push():
                     \*   "ready" (returned resolved) | "pending" | "done" (was pending, completed by a pop)
                     \*   | "exc" (failed by unblock_push) | "canceled" (queue destroyed)
          pc,        \* per thread: "idle" | "push_resolve" | "pop_complete" | "unblock_push_resolve" | "unblock_pop_resolve"
          hold,      \* per thread: what it took out of the queue inside the lock and resolves outside
          ret,       \* per thread: result of its last call if that was unblock_push()/unblock_pop() ("true"/"false")
                     \*   or a push() that threw ("threw"), else "none"
          withdrawn, \* ghost: items removed by unblock_push
          npush, npop, nunbpush, nunbpop, nthrow, destroyed

vars == <<limit, items, waiters, blocked, fut, pfut, pc, hold, ret, withdrawn, npush, npop, nunbpush, nunbpop, nthrow, destroyed>>

(* the public forms of push(); "copy"/"move" pass a ready-made item built from two / one argument(s) *)
Forms == <<"one", "two", "copy", "move">>
FormOf(n) == Forms[((n + limit + FormShift) % 4) + 1]
Item(n) == [a |-> n, form |-> FormOf(n)]

Threads == Producers \cup Consumers

NoHold == [pop |-> 0, v |-> 0, push |-> 0]
F(s, v) == [st |-> s, v |-> v]
B(v, p) == [v |-> v, push |-> p]

Init == /\ limit \in Limits
        /\ items = <<>> /\ waiters = <<>> /\ blocked = <<>>
        /\ fut = <<>> /\ pfut = <<>>
        /\ pc = [t \in Threads |-> "idle"]
        /\ hold = [t \in Threads |-> NoHold]
        /\ ret = [t \in Threads |-> "none"]
        /\ withdrawn = {}
        /\ npush = 0 /\ npop = 0 /\ nunbpush = 0 /\ nunbpop = 0 /\ nthrow = 0
        /\ destroyed = FALSE

(* limited_queue::push, queue.h:284-312.
   a) a consumer is parked: take its promise out, leave the critical section, resolve it outside
      and return a resolved future (the future object materialises at the return; it is recorded
      here because nobody can observe it earlier);
   b) no room (size >= limit): park (item, promise<void>) in _blocked, the returned future is pending;
   c) room: enqueue, return a resolved future. *)
PushCS(t) ==
    /\ t \in Producers /\ ~destroyed /\ pc[t] = "idle" /\ npush < limit + ExtraPush
    /\ LET n == npush + 1 IN
       /\ npush' = n
       /\ ret' = [ret EXCEPT ![t] = "none"]
       /\ IF waiters # <<>>
            THEN /\ hold' = [hold EXCEPT ![t] = [pop |-> Head(waiters), v |-> n, push |-> n]]
                 /\ waiters' = Tail(waiters)
                 /\ pc' = [pc EXCEPT ![t] = "push_resolve"]
                 /\ pfut' = Append(pfut, "ready")
                 /\ UNCHANGED <<items, blocked>>
            ELSE /\ IF Fixed
                      THEN IF Len(items) >= limit
                             THEN /\ blocked' = Append(blocked, B(n, n))
                                  /\ pfut' = Append(pfut, "pending")
                                  /\ UNCHANGED items
                             ELSE /\ items' = Append(items, n)
                                  /\ pfut' = Append(pfut, "ready")
                                  /\ UNCHANGED blocked
                      ELSE \* before fca2138: emplace first, then test the size
                           /\ items' = Append(items, n)
                           /\ IF Len(items) + 1 >= limit
                                THEN /\ blocked' = Append(blocked, B(n, n))
                                     /\ pfut' = Append(pfut, "pending")
                                ELSE /\ pfut' = Append(pfut, "ready")
                                     /\ UNCHANGED blocked
                 /\ UNCHANGED <<waiters, hold, pc>>
    /\ UNCHANGED <<limit, fut, withdrawn, npop, nunbpush, nunbpop, nthrow, destroyed>>

(* push() whose item constructor throws.  Room branch: _queue.emplace (queue.h:308) has the strong
   guarantee; blocked branch: T(args...) is evaluated before _blocked.push and the promise handed to the
   initialiser dies with the future under construction (queue.h:304-306); hand-over branch: the item is
   built before the waiter is taken (queue.h:290).  The queue is untouched, the lock is released by the
   unwinding and the exception reaches the caller; the call consumes no push number.
   Before 3c3638a (FixedThrow = FALSE) the hand-over branch had already popped the waiter. *)
PushThrowCS(t) ==
    /\ t \in Producers /\ ~destroyed /\ pc[t] = "idle" /\ nthrow < MaxThrow
    /\ nthrow' = nthrow + 1
    /\ ret' = [ret EXCEPT ![t] = "threw"]
    /\ IF FixedThrow \/ waiters = <<>> THEN UNCHANGED waiters ELSE waiters' = Tail(waiters)
    /\ UNCHANGED <<limit, items, blocked, fut, pfut, pc, hold, withdrawn, npush, npop, nunbpush, nunbpop, destroyed>>

(* the promise call `p(std::move(item))` after lk.unlock(), queue.h:293-294 *)
PushResolve(t) ==
    /\ pc[t] = "push_resolve"
    /\ fut' = [fut EXCEPT ![hold[t].pop] = F("val", hold[t].v)]
    /\ pc' = [pc EXCEPT ![t] = "idle"]
    /\ hold' = [hold EXCEPT ![t] = NoHold]
    /\ UNCHANGED <<limit, items, waiters, blocked, pfut, ret, withdrawn, npush, npop, nunbpush, nunbpop, nthrow, destroyed>>

(* limited_queue::pop, queue.h:318-342: promise parked, or resolved (inside the lock) with the
   oldest item; in the latter case the oldest blocked push -- if any -- is admitted: its item moves
   into the queue, its promise is taken out and completed after the lock was dropped *)
PopCS(t) ==
    /\ t \in Consumers /\ ~destroyed /\ pc[t] = "idle" /\ npop < limit + ExtraPop
    /\ npop' = npop + 1
    /\ ret' = [ret EXCEPT ![t] = "none"]
    /\ IF items = <<>>
         THEN /\ waiters' = Append(waiters, npop + 1)
              /\ fut' = Append(fut, F("pending", 0))
              /\ UNCHANGED <<items, blocked, pc, hold>>
         ELSE /\ fut' = Append(fut, F("val", Head(items)))
              /\ IF blocked # <<>>
                   THEN /\ items' = Append(Tail(items), Head(blocked).v)
                        /\ blocked' = Tail(blocked)
                        /\ hold' = [hold EXCEPT ![t] = [pop |-> 0, v |-> 0, push |-> Head(blocked).push]]
                        /\ pc' = [pc EXCEPT ![t] = "pop_complete"]
                   ELSE /\ items' = Tail(items)
                        /\ UNCHANGED <<blocked, pc, hold>>
              /\ UNCHANGED waiters
    /\ UNCHANGED <<limit, pfut, withdrawn, npush, nunbpush, nunbpop, nthrow, destroyed>>

(* `p()` after lk.unlock(), queue.h:335-336 *)
PopCompletePush(t) ==
    /\ pc[t] = "pop_complete"
    /\ pfut' = [pfut EXCEPT ![hold[t].push] = "done"]
    /\ pc' = [pc EXCEPT ![t] = "idle"]
    /\ hold' = [hold EXCEPT ![t] = NoHold]
    /\ UNCHANGED <<limit, items, waiters, blocked, fut, ret, withdrawn, npush, npop, nunbpush, nunbpop, nthrow, destroyed>>

(* limited_queue::unblock_push, queue.h:357-364: the oldest (item, promise) pair leaves _blocked;
   the item dies with the local `front`, the promise is failed outside the lock *)
UnblockPushCS(t) ==
    /\ ~destroyed /\ pc[t] = "idle" /\ nunbpush < MaxUnblockPush
    /\ nunbpush' = nunbpush + 1
    /\ IF blocked = <<>>
         THEN /\ ret' = [ret EXCEPT ![t] = "false"]
              /\ UNCHANGED <<blocked, hold, pc, withdrawn>>
         ELSE /\ hold' = [hold EXCEPT ![t] = [pop |-> 0, v |-> Head(blocked).v, push |-> Head(blocked).push]]
              /\ blocked' = Tail(blocked)
              /\ withdrawn' = withdrawn \cup {Head(blocked).v}
              /\ pc' = [pc EXCEPT ![t] = "unblock_push_resolve"]
              /\ ret' = [ret EXCEPT ![t] = "none"]
    /\ UNCHANGED <<limit, items, waiters, fut, pfut, npush, npop, nunbpop, nthrow, destroyed>>

UnblockPushResolve(t) ==
    /\ pc[t] = "unblock_push_resolve"
    /\ pfut' = [pfut EXCEPT ![hold[t].push] = "exc"]
    /\ ret' = [ret EXCEPT ![t] = "true"]
    /\ pc' = [pc EXCEPT ![t] = "idle"]
    /\ hold' = [hold EXCEPT ![t] = NoHold]
    /\ UNCHANGED <<limit, items, waiters, blocked, fut, withdrawn, npush, npop, nunbpush, nunbpop, nthrow, destroyed>>

(* queue::unblock_pop, queue.h:233-240 (protected base of limited_queue) *)
UnblockPopCS(t) ==
    /\ ~destroyed /\ pc[t] = "idle" /\ nunbpop < MaxUnblockPop
    /\ nunbpop' = nunbpop + 1
    /\ IF waiters = <<>>
         THEN /\ ret' = [ret EXCEPT ![t] = "false"]
              /\ UNCHANGED <<waiters, hold, pc>>
         ELSE /\ hold' = [hold EXCEPT ![t] = [pop |-> Head(waiters), v |-> 0, push |-> 0]]
              /\ waiters' = Tail(waiters)
              /\ pc' = [pc EXCEPT ![t] = "unblock_pop_resolve"]
              /\ ret' = [ret EXCEPT ![t] = "none"]
    /\ UNCHANGED <<limit, items, blocked, fut, pfut, withdrawn, npush, npop, nunbpush, nthrow, destroyed>>

UnblockPopResolve(t) ==
    /\ pc[t] = "unblock_pop_resolve"
    /\ fut' = [fut EXCEPT ![hold[t].pop] = F("exc", 0)]
    /\ ret' = [ret EXCEPT ![t] = "true"]
    /\ pc' = [pc EXCEPT ![t] = "idle"]
    /\ hold' = [hold EXCEPT ![t] = NoHold]
    /\ UNCHANGED <<limit, items, waiters, blocked, pfut, withdrawn, npush, npop, nunbpush, nunbpop, nthrow, destroyed>>

(* ~limited_queue: _blocked dies first (parked promise<void> dropped => push future resolves to
   no-value), then ~queue drops the parked promise<T> of waiting pops *)
Destroy ==
    /\ AllowDestroy /\ ~destroyed
    /\ \A t \in Threads : pc[t] = "idle"
    /\ destroyed' = TRUE
    /\ pfut' = [n \in 1..Len(pfut) |-> IF \E k \in 1..Len(blocked) : blocked[k].push = n THEN "canceled" ELSE pfut[n]]
    /\ fut' = [i \in 1..Len(fut) |-> IF \E k \in 1..Len(waiters) : waiters[k] = i THEN F("canceled", 0) ELSE fut[i]]
    /\ waiters' = <<>> /\ items' = <<>> /\ blocked' = <<>>
    /\ ret' = [t \in Threads |-> "none"]
    /\ UNCHANGED <<limit, pc, hold, withdrawn, npush, npop, nunbpush, nunbpop, nthrow>>

Resolve(t) == PushResolve(t) \/ PopCompletePush(t) \/ UnblockPushResolve(t) \/ UnblockPopResolve(t)

Next == \/ \E t \in Threads : \/ PushCS(t) \/ PushResolve(t) \/ PushThrowCS(t)
                              \/ PopCS(t) \/ PopCompletePush(t)
                              \/ UnblockPushCS(t) \/ UnblockPushResolve(t)
                              \/ UnblockPopCS(t) \/ UnblockPopResolve(t)
        \/ Destroy

Spec == Init /\ [][Next]_vars /\ WF_vars(\E t \in Threads : Resolve(t))

-----------------------------------------------------------------------------
(* Properties (C10) *)

InHand(t, kinds) == pc[t] \in kinds
PushInHand(n) == \E t \in Threads : InHand(t, {"pop_complete", "unblock_push_resolve"}) /\ hold[t].push = n
PopInHand(i) == \E t \in Threads : InHand(t, {"push_resolve", "unblock_pop_resolve"}) /\ hold[t].pop = i
HasVal(i) == fut[i].st = "val"
ValOf(i) == fut[i].v
BlockedVals == [k \in 1..Len(blocked) |-> blocked[k].v]
InFlight == {hold[t].v : t \in {u \in Threads : pc[u] = "push_resolve"}}
Delivered == {ValOf(i) : i \in {j \in 1..Len(fut) : HasVal(j)}}

TypeOK == /\ limit \in Limits
          /\ Len(pfut) = npush /\ Len(fut) = npop
          /\ \A k \in 1..Len(waiters) : waiters[k] \in 1..npop
          /\ \A k \in 1..Len(blocked) : blocked[k].push \in 1..npush /\ blocked[k].v \in 1..npush
          /\ \A k \in 1..Len(items) : items[k] \in 1..npush
          /\ \A n \in 1..npush : pfut[n] \in {"ready", "pending", "done", "exc", "canceled"}

(* ---- the bound ---- *)
Bound == Len(items) <= limit

(* producers are blocked only while the queue is full, hence never while consumers wait *)
BlockedOnlyWhenFull == blocked # <<>> => (Len(items) = limit /\ waiters = <<>>)

NeverBothNonEmpty == items # <<>> => waiters = <<>>

(* ---- a push completes immediately iff fewer than `limit` items were waiting, otherwise it is
        pending and holds its item ---- *)
PushReadyIffRoom ==
    [][npush' = npush + 1 =>
          LET n == npush' IN
          IF Len(items) < limit
            THEN /\ pfut'[n] = "ready"
                 /\ blocked' = blocked
                 /\ IF waiters = <<>> THEN items' = Append(items, n)
                                      ELSE items' = items /\ waiters' = Tail(waiters)
            ELSE /\ pfut'[n] = "pending"
                 /\ blocked' = Append(blocked, B(n, n))
                 /\ items' = items /\ waiters' = waiters
      ]_vars

(* a push that fails because its item cannot be constructed leaves no trace: nothing but the caller's
   result changes, so room, bound and the whereabouts of every item are what they were *)
ThrowLeavesNoTrace ==
    [][nthrow' = nthrow + 1 =>
          /\ UNCHANGED <<limit, items, waiters, blocked, fut, pfut, pc, hold, withdrawn, npush, npop, nunbpush, nunbpop, destroyed>>
          /\ \E t \in Threads : ret'[t] = "threw"
      ]_vars

(* room is a function of the queue alone: no history of failed pushes, unblocks or pops can leave a push
   blocked while fewer than `limit` items wait (all parties quiet) *)
NoPhantomBackPressure ==
    (~destroyed /\ \A t \in Threads : pc[t] = "idle") =>
        (Cardinality({n \in 1..npush : pfut[n] = "pending"}) > 0 => Len(items) = limit)

(* a pending push is parked together with its own item, exactly once, or it has just been taken out
   by a pop / unblock_push that is about to resolve it; a parked push is pending *)
PendingHoldsItem ==
    ~destroyed =>
      /\ \A n \in 1..npush : pfut[n] = "pending" =>
            Cardinality({k \in 1..Len(blocked) : blocked[k].push = n}) + Cardinality({t \in Threads : InHand(t, {"pop_complete", "unblock_push_resolve"}) /\ hold[t].push = n}) = 1
      /\ \A k \in 1..Len(blocked) : pfut[blocked[k].push] = "pending" /\ blocked[k].v = blocked[k].push
      /\ \A n \in 1..npush : PushInHand(n) => pfut[n] = "pending"

(* ---- nothing lost, nothing duplicated: every pushed value is in exactly one place ---- *)
Occ(v) == Cardinality({k \in 1..Len(items) : items[k] = v})
          + Cardinality({k \in 1..Len(blocked) : blocked[k].v = v})
          + Cardinality({t \in Threads : pc[t] = "push_resolve" /\ hold[t].v = v})
          + Cardinality({i \in 1..Len(fut) : HasVal(i) /\ ValOf(i) = v})
          + (IF v \in withdrawn THEN 1 ELSE 0)

NoLossNoDup == ~destroyed => \A v \in 1..npush : Occ(v) = 1

(* also after destruction nothing was delivered twice and nothing withdrawn was delivered *)
NoDupEver == /\ \A i, j \in 1..Len(fut) : (i # j /\ HasVal(i) /\ HasVal(j)) => ValOf(i) # ValOf(j)
             /\ \A i \in 1..Len(fut) : HasVal(i) => ValOf(i) \notin withdrawn

(* ---- FIFO across blocked pushes ---- *)
(* pops receive values in push order (single consumer: delivered sequence is ordered like pushes) *)
DeliveredInOrder ==
    \A i, j \in 1..Len(fut) : (i < j /\ HasVal(i) /\ HasVal(j)) => ValOf(i) < ValOf(j)

(* what still waits -- queue followed by the blocked items -- is in push order and younger than
   everything that left; together with NoLossNoDup: the delivered values are exactly the oldest
   pushed values that were not withdrawn, no gaps *)
QueueOrder ==
    LET q == items \o BlockedVals IN
    /\ \A k, l \in 1..Len(q) : k < l => q[k] < q[l]
    /\ \A v \in Delivered \cup InFlight : \A k \in 1..Len(q) : v < q[k]

(* ---- blocked pushes leave in arrival order ---- *)
BlockedFIFO ==
    /\ \A k, l \in 1..Len(blocked) : k < l => blocked[k].push < blocked[l].push
    /\ \A n \in 1..npush : PushInHand(n) => \A k \in 1..Len(blocked) : n < blocked[k].push
    \* a push that was blocked and completed is older than every push still blocked
    /\ \A n \in 1..npush : pfut[n] \in {"done", "exc"} => \A k \in 1..Len(blocked) : n < blocked[k].push

(* ---- one per pop: _blocked shrinks only at its head, by one, and only because a pop delivered the
        oldest item (whose place the blocked item takes) or because of unblock_push; every pop that
        makes room admits a blocked push; a completion changes exactly one push future ---- *)
OnePerPop ==
    [][/\ (Len(blocked') < Len(blocked) /\ ~destroyed') =>
            /\ blocked' = Tail(blocked)
            /\ \/ /\ npop' = npop + 1 /\ nunbpush' = nunbpush
                  /\ fut'[npop'] = F("val", Head(items))
                  /\ items' = Append(Tail(items), Head(blocked).v)
                  /\ \E t \in Threads : pc'[t] = "pop_complete" /\ hold'[t].push = Head(blocked).push
               \/ /\ nunbpush' = nunbpush + 1 /\ npop' = npop /\ items' = items
       /\ (npop' = npop + 1 /\ items # <<>> /\ blocked # <<>>) => blocked' = Tail(blocked)
       /\ \A n \in 1..Len(pfut) : (pfut[n] # "done" /\ pfut'[n] = "done") =>
            /\ pfut[n] = "pending"
            /\ \A m \in 1..Len(pfut) : m # n => pfut'[m] = pfut[m]
            /\ UNCHANGED <<items, blocked, waiters, fut, withdrawn>>
      ]_vars

(* not more pushes admitted than pops delivered *)
AdmittedLePops ==
    Cardinality({n \in 1..npush : pfut[n] = "done"}) + Cardinality({t \in Threads : pc[t] = "pop_complete"})
        <= Cardinality({i \in 1..Len(fut) : HasVal(i)})

(* ---- unblock_push fails exactly the oldest blocked push and withdraws its item; nothing else is
        affected ---- *)
UnblockPushWithdraws ==
    [][/\ nunbpush' = nunbpush + 1 =>
            /\ UNCHANGED <<items, waiters, fut, pfut, npush, npop>>
            /\ IF blocked = <<>>
                 THEN /\ UNCHANGED <<blocked, withdrawn, pc>>
                      /\ \E t \in Threads : ret'[t] = "false"
                 ELSE /\ blocked' = Tail(blocked)
                      /\ withdrawn' = withdrawn \cup {Head(blocked).v}
                      /\ \E t \in Threads : pc'[t] = "unblock_push_resolve" /\ hold'[t].push = Head(blocked).push
       /\ \A n \in 1..Len(pfut) : (pfut[n] # "exc" /\ pfut'[n] = "exc") =>
            /\ pfut[n] = "pending" /\ n \in withdrawn
            /\ \A m \in 1..Len(pfut) : m # n => pfut'[m] = pfut[m]
            /\ \E t \in Threads : ret'[t] = "true" /\ pc[t] = "unblock_push_resolve"
            /\ UNCHANGED <<items, blocked, waiters, fut, withdrawn>>
       /\ (withdrawn' # withdrawn) => nunbpush' = nunbpush + 1
      ]_vars

(* a withdrawn item is nowhere any more; only withdrawn pushes fail *)
WithdrawnIsGone ==
    /\ \A v \in withdrawn : /\ \A k \in 1..Len(items) : items[k] # v
                            /\ \A k \in 1..Len(blocked) : blocked[k].v # v
                            /\ v \notin Delivered
                            /\ pfut[v] = "exc" \/ PushInHand(v)
    /\ \A n \in 1..npush : pfut[n] = "exc" => n \in withdrawn
    /\ Cardinality(withdrawn) <= nunbpush

(* ---- pop side, as for queue<T> (C09) ---- *)
WaitersFIFO ==
    /\ \A k \in 1..Len(waiters) : fut[waiters[k]].st = "pending"
    /\ \A k, l \in 1..Len(waiters) : k < l => waiters[k] < waiters[l]
    /\ \A i \in 1..npop : PopInHand(i) => \A k \in 1..Len(waiters) : i < waiters[k]

NoLostWaiter ==
    ~destroyed => \A i \in 1..Len(fut) : fut[i].st = "pending" =>
        Cardinality({k \in 1..Len(waiters) : waiters[k] = i})
          + Cardinality({t \in Threads : InHand(t, {"push_resolve", "unblock_pop_resolve"}) /\ hold[t].pop = i}) = 1

(* a pop fails only because of unblock_pop *)
PopExcOnlyByUnblock == Cardinality({i \in 1..Len(fut) : fut[i].st = "exc"}) <= nunbpop

(* destruction resolves everything that was parked *)
DestroyCancels ==
    destroyed => /\ \A i \in 1..Len(fut) : fut[i].st # "pending"
                 /\ \A n \in 1..Len(pfut) : pfut[n] # "pending"

(* nothing is cancelled while the queue lives *)
CancelOnlyByDestroy ==
    ~destroyed => /\ \A i \in 1..Len(fut) : fut[i].st # "canceled"
                  /\ \A n \in 1..Len(pfut) : pfut[n] # "canceled"

(* every resolution in flight completes *)
AllResolved == <>[](\A t \in Threads : pc[t] = "idle")

=============================================================================
