\* suspend_point<int> and suspend_point<void> mixed in three slots, all operations, both modes;
\* histories of at most MaxSteps operations; reads of the attached value (conversion, const conversion,
\* co_await) in every order; replayed with payload int and with a move-tracking payload
SPECIFICATION Spec
CONSTANTS
  MaxObj = 3
  MaxH = 6
  MaxSteps = 4
  Modes = {"normal", "coro"}
  Typed = TRUE
  Ops = {"ConstructEmpty", "ConstructH", "MoveConstruct", "AddHandle", "AddFill", "MergeShl", "MoveAssign", "Pop", "Clear", "Destroy", "CoAwait", "Pause", "Read", "ParResume", "CreateSP"}
  Fixed = TRUE
  Ctxs = {"flow"}
  Targets = {}
INVARIANTS TypeOK RepOK NoDoubleResume Conservation NoLeak
PROPERTIES InlineNoAlloc MovedFromIsEmpty EmptyResumesNothing ValuePreserved ReadsAgree ResumeOrder QueueFIFO
CHECK_DEADLOCK FALSE
