\* suspend_point<int> and suspend_point<void> mixed in three slots, all operations, both modes;
\* histories of at most MaxSteps operations (+ destructions)
SPECIFICATION Spec
CONSTANTS
  MaxObj = 3
  MaxH = 6
  MaxSteps = 4
  Modes = {"normal", "coro"}
  Typed = TRUE
  Ops = {"ConstructEmpty", "ConstructH", "MoveConstruct", "AddHandle", "AddFill", "MergeShl", "MoveAssign", "Pop", "Clear", "Destroy", "CoAwait", "Pause"}
  Targets = {}
INVARIANTS TypeOK RepOK Conservation NoDoubleResume NoLeak
PROPERTIES InlineNoAlloc MovedFromIsEmpty EmptyResumesNothing ValuePreserved ResumeOrder QueueFIFO
CHECK_DEADLOCK FALSE
