\* every history of any length (MaxSteps = 0) over MaxH handles and MaxObj untyped objects, all
\* operations, started in normal and in coroutine mode
SPECIFICATION Spec
CONSTANTS
  MaxObj = 2
  MaxH = 5
  MaxSteps = 0
  Modes = {"normal", "coro"}
  Typed = FALSE
  Ops = {"ConstructEmpty", "ConstructH", "MoveConstruct", "AddHandle", "AddFill", "MergeShl", "MoveAssign", "Pop", "Clear", "Destroy", "CoAwait", "Pause"}
  Fixed = TRUE
  Ctxs = {"flow"}
  Targets = {}
INVARIANTS TypeOK RepOK NoDoubleResume Conservation NoLeak
PROPERTIES InlineNoAlloc MovedFromIsEmpty EmptyResumesNothing ValuePreserved ReadsAgree ResumeOrder QueueFIFO
CHECK_DEADLOCK FALSE
