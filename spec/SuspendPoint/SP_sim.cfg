\* random behaviours (tlc -simulate) of up to 60 operations over 3 objects (typed and untyped) and
\* 40 handles, every operation, both modes; AddTo targets sit on and next to the capacity boundaries
SPECIFICATION Spec
CONSTANTS
  MaxObj = 3
  MaxH = 40
  MaxSteps = 60
  Modes = {"normal", "coro"}
  Typed = TRUE
  Ops = {"ConstructEmpty", "ConstructH", "MoveConstruct", "AddHandle", "AddFill", "AddTo", "MergeShl", "MoveAssign", "Pop", "Clear", "Destroy", "CoAwait", "Pause", "Read", "ConstructSelf", "AddSelf", "Yield", "ParResume", "CreateSP"}
  Fixed = TRUE
  Ctxs = {"flow", "unwind", "dtor", "catch"}
  Targets = {3, 4, 6, 7, 12, 13, 24, 25}
INVARIANTS TypeOK RepOK NoDoubleResume Conservation NoLeak
PROPERTIES InlineNoAlloc MovedFromIsEmpty EmptyResumesNothing ValuePreserved ReadsAgree ResumeOrder QueueFIFO
CHECK_DEADLOCK FALSE
