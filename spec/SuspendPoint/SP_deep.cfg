\* up to 52 handles: the 24 -> 48 and 48 -> 96 doublings, merges of two large heap-backed objects
SPECIFICATION Spec
CONSTANTS
  MaxObj = 2
  MaxH = 52
  MaxSteps = 6
  Modes = {"normal", "coro"}
  Typed = FALSE
  Ops = {"ConstructEmpty", "AddSelf", "MoveConstruct", "AddHandle", "AddTo", "MergeShl", "Pop", "Clear", "Destroy", "CoAwait"}
  Fixed = TRUE
  Ctxs = {"flow"}
  Targets = {12, 24, 25, 40, 48}
INVARIANTS TypeOK RepOK NoDoubleResume Conservation NoLeak
PROPERTIES InlineNoAlloc MovedFromIsEmpty EmptyResumesNothing ValuePreserved ReadsAgree ResumeOrder QueueFIFO
CHECK_DEADLOCK FALSE
