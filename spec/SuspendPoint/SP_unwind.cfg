\* the resuming operations in every control-flow context (Ctxs): clear() / destruction / the scope exit
\* at the end of the history / the function of create_suspend_point executed in ordinary flow, by the
\* stack unwinding (automatic object of a scope left by an exception), by another object's destructor
\* during unwinding, inside a handler - in normal and in coroutine mode, typed and untyped objects of
\* 0..MaxH handles (inline, full inline, first heap block) with and without the own handle;
\* histories of at most MaxSteps operations (AddTo reaches 3 and 4 handles in one step)
SPECIFICATION Spec
CONSTANTS
  MaxObj = 2
  MaxH = 4
  MaxSteps = 4
  Modes = {"normal", "coro"}
  Typed = TRUE
  Ops = {"ConstructEmpty", "ConstructH", "AddHandle", "AddTo", "AddSelf", "MergeShl", "Pop", "Clear", "Destroy", "CoAwait", "Yield", "CreateSP"}
  Fixed = TRUE
  Ctxs = {"flow", "unwind", "dtor", "catch"}
  Targets = {3, 4}
INVARIANTS TypeOK RepOK NoDoubleResume Conservation NoLeak
PROPERTIES InlineNoAlloc MovedFromIsEmpty EmptyResumesNothing ValuePreserved ReadsAgree ResumeOrder QueueFIFO
CHECK_DEADLOCK FALSE
