\* two objects, many handles: AddTo fills an object up to a capacity boundary (3, 6, 12, 24) in one
\* macro step, AddHandle adds the one that makes add() allocate (4 -> block of 6, 7 -> 12, 13 -> 24,
\* 25 -> 48); merges cross several doublings at once
SPECIFICATION Spec
CONSTANTS
  MaxObj = 2
  MaxH = 28
  MaxSteps = 6
  Modes = {"normal", "coro"}
  Typed = FALSE
  Ops = {"ConstructEmpty", "MoveConstruct", "AddHandle", "AddTo", "MergeShl", "MoveAssign", "Pop", "Clear", "Destroy", "CoAwait"}
  Fixed = TRUE
  Ctxs = {"flow"}
  Targets = {3, 6, 12, 24}
INVARIANTS TypeOK RepOK NoDoubleResume Conservation NoLeak
PROPERTIES InlineNoAlloc MovedFromIsEmpty EmptyResumesNothing ValuePreserved ReadsAgree ResumeOrder QueueFIFO
CHECK_DEADLOCK FALSE
