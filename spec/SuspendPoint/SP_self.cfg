\* the driver's own handle (co_await self()) in suspend points: every history of any length over
\* MaxH foreign handles + the own handle and two untyped objects, every operation, both modes
SPECIFICATION Spec
CONSTANTS
  MaxObj = 2
  MaxH = 3
  MaxSteps = 0
  Modes = {"normal", "coro"}
  Typed = FALSE
  Ops = {"ConstructEmpty", "ConstructH", "ConstructSelf", "MoveConstruct", "AddHandle", "AddSelf", "AddFill", "MergeShl", "MoveAssign", "Pop", "Clear", "Destroy", "CoAwait", "Pause", "Yield", "ParResume", "CreateSP"}
  Fixed = TRUE
  Ctxs = {"flow"}
  Targets = {}
INVARIANTS TypeOK RepOK NoDoubleResume Conservation NoLeak
PROPERTIES InlineNoAlloc MovedFromIsEmpty EmptyResumesNothing ValuePreserved ReadsAgree ResumeOrder QueueFIFO
CHECK_DEADLOCK FALSE
