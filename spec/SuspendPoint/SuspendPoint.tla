---------------------------- MODULE SuspendPoint ----------------------------
(***************************************************************************)
(* cocls::suspend_point<void> / suspend_point<X>  (src/cocls/suspend_point.h)*)
(* together with the thread-local ready queue (src/cocls/coro_queue.h), at  *)
(* the grain of one public operation per action.                            *)
(*                                                                          *)
(* The state mirrors the representation the code keeps:                     *)
(*   _count_flag (suspend_point.h:215)  = 2*Len(h) + (IF heap THEN 1 ELSE 0)*)
(*   _local._handles[0..2] / _ext._handles[0..cap-1] (:198-212) = h         *)
(*   _ext._capacity = cap (meaningful only while heap = TRUE, else 0)       *)
(*   suspend_point<X>::value (:308) = val (ty = TRUE)                       *)
(* Notable facts of the code that the model keeps:                          *)
(*   - pop() (:118-127) keeps the heap flag, so _count_flag = 1 (no handle, *)
(*     heap block owned) is a reachable representation;                     *)
(*   - the move constructor (:55-62) transfers the block, operator<< (:65)  *)
(*     re-adds handle by handle and frees the source block;                 *)
(*   - the first heap block has capacity 2*inline_count = 6, then 12,24,48; *)
(*   - co_await (:167-191) pops the LAST handle for symmetric transfer,     *)
(*     queues the rest in array order, then the awaiting coroutine;         *)
(*   - outside coroutine mode co_await installs the queue and the awaiting  *)
(*     coroutine continues *inside* flush_queue, i.e. in coroutine mode.    *)
(*                                                                          *)
(* The scenario is run by one driver coroutine.  mode = "coro" means that   *)
(* coro_queue::instance is installed (is_active()) while the driver runs:   *)
(* resumptions caused by suspend_now() go to the ready queue and are        *)
(* resumed when the driver suspends (CoAwait, Pause) or finishes (Finish).  *)
(* Handles are tiny counting coroutines which never touch the queue.        *)
(*                                                                          *)
(* Handles are numbered in the order in which they are handed in            *)
(* (1,2,3,...); a typed object created in slot k by a producer carries the  *)
(* value k, so values of distinct producers differ.                         *)
(*                                                                          *)
(* The driver's OWN handle (Self) can be in a suspend point as well: it is  *)
(* what `co_await cocls::self()` (self.h) yields.  It is a readiness token  *)
(* of the driver (selfReady): awaiting a suspend point that contains it     *)
(* must resume the driver exactly once (:170-181, the me_included check,    *)
(* also when pop() picks the own handle for the symmetric transfer - fixed  *)
(* in /repo 283e427, Fixed = FALSE is the behaviour before).  Histories in  *)
(* which the *running* driver would be resumed (undefined behaviour of the  *)
(* caller, not of the library) are not generated: clear()/destruction of an *)
(* object holding Self outside coroutine mode; queuing the driver a second  *)
(* time (co_await of a non-empty object, pause(), self()) while Self waits  *)
(* in the ready queue.                                                      *)
(*                                                                          *)
(* The attached value of a typed object is (val, mv): val = identity given  *)
(* by the producer, mv = the member is in moved-from state.  Only the C++   *)
(* move operations of the whole object leave their source moved-from; no    *)
(* read (operator X(), operator const X() const, await_resume) changes it.  *)
(*                                                                          *)
(* The operations that make coroutines ready by giving the object up        *)
(* (clear(), destruction, the scope exit at the end of a history, the       *)
(* function run by create_suspend_point) carry the CONTEXT of control flow  *)
(* they are executed in (Ctxs):                                             *)
(*   "flow"   ordinary control flow;                                        *)
(*   "unwind" the object is an automatic object of a scope which is left by *)
(*            an exception (thrown after the object was filled, caught      *)
(*            outside): its destructor is run by the stack unwinding;       *)
(*   "dtor"   the operation is executed by the destructor of ANOTHER object *)
(*            (a scope guard, an owner) which is run by the stack unwinding;*)
(*   "catch"  the operation is executed inside a handler, while the caught  *)
(*            exception is being handled.                                   *)
(* The context is a parameter only: "plain destruction" resumes (queues in  *)
(* coroutine mode) every coroutine the object holds, whatever made control  *)
(* leave the scope, so every context has the same successor state and       *)
(* Conservation / NoDoubleResume are demanded of all of them.  In coroutine *)
(* mode what was queued is resumed when the frame that installed the queue  *)
(* is left - normally or by the exception (trailer, coro_queue.h:105-108).  *)
(***************************************************************************)
EXTENDS Naturals, Sequences, FiniteSets, TLC

CONSTANTS MaxObj,    \* object slots
          MaxH,      \* number of coroutine handles available
          MaxSteps,  \* bound on operations other than Finish (0 = unbounded)
          Modes,     \* initial modes, subset of {"normal","coro"}
          Typed,     \* TRUE: suspend_point<int> objects take part
          Ops,       \* names of the operations that take part (bias of a configuration)
          Fixed,     \* TRUE: /repo 283e427 (own handle picked by pop() is not queued again)
          Targets,   \* handle counts AddTo may fill an object up to (bias to the capacity boundaries)
          Ctxs       \* control-flow contexts in which clear() / destruction / scope exit take part

InlineCap == 3       \* suspend_point<void>::inline_count, suspend_point.h:42

AllCtxs == {"flow", "unwind", "dtor", "catch"}
ASSUME Ctxs \subseteq AllCtxs /\ "flow" \in Ctxs
CallCtxs == Ctxs \ {"unwind"}      \* a member function call is not something the unwinding executes by itself

Slots == 1..MaxObj
Handles == 1..MaxH
Self == MaxH + 1     \* the driver coroutine's own handle

VARIABLES sp,        \* sp[k]: the object in slot k (record, see Dead/Fresh)
          nextH,     \* handles 1..nextH have been handed to some suspend point
          resumed,   \* resumed[x]: how many times coroutine x has been resumed
          burst,     \* coroutines resumed during the last operation, in order
          queue,     \* coro_queue::instance->_queue
          mode,      \* "normal" | "coro"
          blocks,    \* live new[] blocks
          dalloc,    \* number of new[] executed by the last operation
          ret,       \* value returned by the last operation (pop: handle, read/co_await: value; else 0)
          rmf,       \* the object returned by the last read / co_await was in moved-from state
          dres,      \* how many times the driver itself was resumed during the last operation
          selfReady, \* outstanding readiness tokens of the driver (own handle handed to a suspend point)
          steps, done

vars == <<sp, nextH, resumed, burst, queue, mode, blocks, dalloc, ret, rmf, dres, selfReady, steps, done>>

Dead == [live |-> FALSE, ty |-> FALSE, val |-> 0, mv |-> FALSE, h |-> <<>>, heap |-> FALSE, cap |-> 0]
Fresh(t, v, hs) == [live |-> TRUE, ty |-> t, val |-> v, mv |-> FALSE, h |-> hs, heap |-> FALSE, cap |-> 0]

Types == IF Typed THEN {FALSE, TRUE} ELSE {FALSE}
Last(s) == s[Len(s)]
Front(s) == SubSeq(s, 1, Len(s) - 1)
Range(s) == {s[k] : k \in 1..Len(s)}
Occ(s, x) == Cardinality({k \in 1..Len(s) : s[k] = x})
B2N(b) == IF b THEN 1 ELSE 0

(* suspend_point::add, suspend_point.h:226-270 *)
Full(o) == Len(o.h) = (IF o.heap THEN o.cap ELSE InlineCap)     \* the next add() executes new[]
AddOne(o, x) ==
    LET n == Len(o.h) IN
    IF o.heap
      THEN IF n = o.cap
             THEN \* :234-243 new Ptr[count*2]; copy count handles; delete[] old
                  [o EXCEPT !.h = Append(@, x), !.cap = 2 * n]
             ELSE [o EXCEPT !.h = Append(@, x)]                       \* :245-247
      ELSE IF n < InlineCap
             THEN [o EXCEPT !.h = Append(@, x)]                       \* :250-254
             ELSE \* :255-268 first heap block, capacity count*2, copy 3 handles, flag set
                  [o EXCEPT !.h = Append(@, x), !.heap = TRUE, !.cap = 2 * n]

(* add() of every element of s in order, literally: resulting object .o, number .a of new[] executed *)
AddIter(o, s) ==
    LET F[k \in 0..Len(s)] == IF k = 0 THEN [o |-> o, a |-> 0]
                                       ELSE LET p == F[k - 1]
                                            IN [o |-> AddOne(p.o, s[k]), a |-> p.a + B2N(Full(p.o))]
    IN F[Len(s)]

(* The same in closed form (TLC evaluates the recursion above on a stack that is too small for runs
   of 25 and more handles): add() doubles the capacity - 3 inline slots, then the block - whenever
   count = capacity, so the run executes as many new[] as doublings are needed to hold everything.
   The ASSUME below makes TLC check the equivalence for every start (inline / heap block of 6, 12, 24
   holding 0..13 handles, also after pops) and every run length 0..26 before each model-checking run. *)
RECURSIVE Doublings(_, _)
Doublings(c, n) == IF n <= c THEN 0 ELSE 1 + Doublings(2 * c, n)
AddRun(o, s) ==
    LET c0 == IF o.heap THEN o.cap ELSE InlineCap
        j == Doublings(c0, Len(o.h) + Len(s))
    IN [o |-> [o EXCEPT !.h = @ \o s, !.heap = @ \/ j > 0, !.cap = IF o.heap \/ j > 0 THEN c0 * 2^j ELSE 0],
        a |-> j]

ASSUME \A n0 \in 0..13, m \in 0..13, k \in 0..26 :
          m <= n0 =>
             LET full == AddIter(Fresh(FALSE, 0, <<>>), [i \in 1..n0 |-> i]).o
                 o == [full EXCEPT !.h = SubSeq(@, 1, m)]            \* after n0 - m pops
                 s == [i \in 1..k |-> 100 + i]
             IN AddRun(o, s) = AddIter(o, s)

(* _count_flag = 0 without touching the block: clear_internal after its delete[] (:218-223), the
   source of operator<< (:77) and of the move constructor (:61) *)
Cleared(o) == [o EXCEPT !.h = <<>>, !.heap = FALSE, !.cap = 0]

Bump(r, s) == [x \in Handles |-> r[x] + Occ(s, x)]

IsFree(k) == ~sp[k].live /\ \A j \in Slots : j < k => sp[j].live

Init == /\ sp = [k \in Slots |-> Dead]
        /\ nextH = 0
        /\ resumed = [x \in Handles |-> 0]
        /\ burst = <<>>
        /\ queue = <<>>
        /\ mode \in Modes
        /\ blocks = 0 /\ dalloc = 0 /\ ret = 0 /\ steps = 0 /\ done = FALSE
        /\ rmf = FALSE /\ dres = 0 /\ selfReady = 0

Tick(op) == /\ ~done /\ op \in Ops
            /\ IF MaxSteps = 0
                 THEN steps' = steps     \* MaxSteps = 0: unbounded, every history over MaxH handles
                 ELSE steps < MaxSteps /\ steps' = steps + 1
            /\ done' = done

(* bookkeeping of the add()s r = AddRun(o, ..): a growth from a heap block frees the old block *)
Grown(o, r) == /\ dalloc' = r.a
               /\ blocks' = blocks + B2N(r.o.heap /\ ~o.heap)
NoAlloc == dalloc' = 0
(* the operation returns nothing / the driver is not suspended and its token is not touched *)
NoRet == ret' = 0 /\ rmf' = FALSE
Quiet == dres' = 0 /\ UNCHANGED selfReady
SelfIn(s) == \E k \in 1..Len(s) : s[k] = Self
NoSelf(s) == SelectSeq(s, LAMBDA x : x # Self)
PosSelf(s) == CHOOSE k \in 1..Len(s) : s[k] = Self

(* suspend_point() :45, suspend_point<X>(X) :288 *)
ConstructEmpty(k, t) ==
    /\ Tick("ConstructEmpty") /\ IsFree(k)
    /\ sp' = [sp EXCEPT ![k] = Fresh(t, IF t THEN k ELSE 0, <<>>)]
    /\ burst' = <<>> /\ NoRet /\ NoAlloc /\ Quiet
    /\ UNCHANGED <<nextH, resumed, queue, mode, blocks>>

(* suspend_point(coroutine_handle<>) :50, suspend_point<X>(coroutine_handle<>, X) :290 *)
ConstructH(k, t) ==
    /\ Tick("ConstructH") /\ IsFree(k) /\ nextH < MaxH
    /\ sp' = [sp EXCEPT ![k] = Fresh(t, IF t THEN k ELSE 0, <<nextH + 1>>)]
    /\ nextH' = nextH + 1
    /\ burst' = <<>> /\ NoRet /\ NoAlloc /\ Quiet
    /\ UNCHANGED <<resumed, queue, mode, blocks>>

(* `co_await cocls::self()` (self.h:16-30: suspend_point<void> holding the caller's own handle; the
   caller is not really suspended) move-constructed into slot k; typed: through
   suspend_point<X>(suspend_point<void>&&, X) :293.  One token at a time. *)
ConstructSelf(k, t) ==
    /\ Tick("ConstructSelf") /\ IsFree(k) /\ selfReady = 0
    /\ sp' = [sp EXCEPT ![k] = Fresh(t, IF t THEN k ELSE 0, <<Self>>)]
    /\ selfReady' = 1 /\ dres' = 0
    /\ burst' = <<>> /\ NoRet /\ NoAlloc
    /\ UNCHANGED <<nextH, resumed, queue, mode, blocks>>

(* move construction into the free slot k from object i.
   kind "same": suspend_point(suspend_point&&) :55 resp. the implicit move constructor of
                suspend_point<X> (value moved: the source's value is left moved-from);
   kind "void": suspend_point<void>(std::move(typed object)) -- the base is moved out of a typed one;
   kind "int" : suspend_point<X>(suspend_point<void>&&, X) :293 with the fresh value k.
   The block (if any) changes its owner; the source keeps neither handles nor the flag. *)
MoveConstruct(k, i, kind) ==
    /\ Tick("MoveConstruct") /\ IsFree(k) /\ sp[i].live
    /\ \/ kind = "same"
       \/ kind = "void" /\ sp[i].ty
       \/ kind = "int" /\ Typed
    /\ LET t == IF kind = "same" THEN sp[i].ty ELSE kind = "int"
           v == IF kind = "same" THEN sp[i].val ELSE IF kind = "int" THEN k ELSE 0
           m == kind = "same" /\ sp[i].mv
       IN sp' = [sp EXCEPT ![k] = [live |-> TRUE, ty |-> t, val |-> v, mv |-> m, h |-> sp[i].h,
                                   heap |-> sp[i].heap, cap |-> sp[i].cap],
                           ![i] = [Cleared(sp[i]) EXCEPT !.mv = @ \/ (kind = "same" /\ sp[i].ty)]]
    /\ burst' = <<>> /\ NoRet /\ NoAlloc /\ Quiet
    /\ UNCHANGED <<nextH, resumed, queue, mode, blocks>>

NewHandles(n) == [k \in 1..n |-> nextH + k]

(* operator<<(coroutine_handle<>&&) :82 *)
AddHandle(i) ==
    /\ Tick("AddHandle") /\ sp[i].live /\ nextH < MaxH
    /\ LET r == AddIter(sp[i], <<nextH + 1>>)
       IN sp' = [sp EXCEPT ![i] = r.o] /\ Grown(sp[i], r)
    /\ nextH' = nextH + 1
    /\ burst' = <<>> /\ NoRet /\ Quiet
    /\ UNCHANGED <<resumed, queue, mode>>

(* sp[i] << co_await cocls::self(): operator<<(suspend_point&&) :65 with a one-handle source *)
AddSelf(i) ==
    /\ Tick("AddSelf") /\ sp[i].live /\ selfReady = 0
    /\ LET r == AddIter(sp[i], <<Self>>)
       IN sp' = [sp EXCEPT ![i] = r.o] /\ Grown(sp[i], r)
    /\ selfReady' = 1 /\ dres' = 0
    /\ burst' = <<>> /\ NoRet
    /\ UNCHANGED <<nextH, resumed, queue, mode>>

(* n consecutive operator<<(coroutine_handle<>&&) filling the object exactly up to its current
   capacity (inline: 3, heap: _ext._capacity): a macro step which lets short histories reach the
   capacity boundaries (n = 1 is AddHandle's business when that takes part) *)
Room(o) == (IF o.heap THEN o.cap ELSE InlineCap) - Len(o.h)
AddFill(i, n) ==
    /\ Tick("AddFill") /\ sp[i].live /\ n = Room(sp[i]) /\ nextH + n <= MaxH
    /\ n >= 2 \/ (n = 1 /\ "AddHandle" \notin Ops)
    /\ LET r == AddRun(sp[i], NewHandles(n))
       IN sp' = [sp EXCEPT ![i] = r.o] /\ Grown(sp[i], r)
    /\ nextH' = nextH + n
    /\ burst' = <<>> /\ NoRet /\ Quiet
    /\ UNCHANGED <<resumed, queue, mode>>

(* consecutive operator<<(coroutine_handle<>&&) until the object holds n handles: a macro step over
   every boundary on the way (the replayer executes the single calls, the state is compared at the end) *)
AddTo(i, n) ==
    /\ Tick("AddTo") /\ sp[i].live /\ n >= Len(sp[i].h) + 2 /\ nextH + (n - Len(sp[i].h)) <= MaxH
    /\ LET d == n - Len(sp[i].h)
           r == AddRun(sp[i], NewHandles(d))
       IN /\ sp' = [sp EXCEPT ![i] = r.o] /\ Grown(sp[i], r)
          /\ nextH' = nextH + d
    /\ burst' = <<>> /\ NoRet /\ Quiet
    /\ UNCHANGED <<resumed, queue, mode>>

(* the common part of operator<<(suspend_point&&) :65-79: every handle of j is add()ed to i in array
   order, j's block is deleted, j's flag word zeroed; v, m: value of i afterwards, jm: mv of j *)
MergeInto(i, j, v, m, jm) ==
    /\ i # j /\ sp[i].live /\ sp[j].live
    /\ LET r == AddRun(sp[i], sp[j].h)
       IN /\ sp' = [sp EXCEPT ![i] = [r.o EXCEPT !.val = v, !.mv = m], ![j] = [Cleared(sp[j]) EXCEPT !.mv = jm]]
          /\ dalloc' = r.a
          /\ blocks' = blocks + B2N(r.o.heap /\ ~sp[i].heap) - B2N(sp[j].heap)
    /\ burst' = <<>> /\ NoRet /\ Quiet
    /\ UNCHANGED <<nextH, resumed, queue, mode>>

MergeShl(i, j) == Tick("MergeShl") /\ MergeInto(i, j, sp[i].val, sp[i].mv, sp[j].mv)

(* operator=(suspend_point&&) :93 merges; between two typed objects the implicit move assignment of
   suspend_point<X> also move-assigns the value (the source's value is left moved-from).
   typed = std::move(untyped) does not compile. *)
MoveAssign(i, j) ==
    /\ Tick("MoveAssign") /\ ~(sp[i].ty /\ ~sp[j].ty)
    /\ IF sp[i].ty /\ sp[j].ty THEN MergeInto(i, j, sp[j].val, sp[j].mv, TRUE)
                               ELSE MergeInto(i, j, sp[i].val, sp[i].mv, sp[j].mv)

(* reading the attached value: kind "conv" = operator X() :297, "cconv" = operator const X() const
   :301.  Accessors: the attached value stays what it is. *)
ReadKinds == {"conv", "cconv"}
Read(i, kind) ==
    /\ Tick("Read") /\ sp[i].live /\ sp[i].ty
    /\ ret' = sp[i].val /\ rmf' = sp[i].mv
    /\ burst' = <<>> /\ NoAlloc /\ Quiet
    /\ UNCHANGED <<sp, nextH, resumed, queue, mode, blocks>>

(* pop() :118-127; the caller (the replayer) resumes the returned handle at once - unless it is its
   own handle: the running driver just drops its readiness token *)
Pop(i) ==
    /\ Tick("Pop") /\ sp[i].live
    /\ rmf' = FALSE /\ dres' = 0
    /\ IF sp[i].h = <<>>
         THEN /\ ret' = 0 /\ burst' = <<>>
              /\ UNCHANGED <<sp, resumed, selfReady>>
         ELSE /\ ret' = Last(sp[i].h)
              /\ IF Last(sp[i].h) = Self
                   THEN burst' = <<>> /\ selfReady' = 0 /\ UNCHANGED resumed
                   ELSE /\ burst' = <<Last(sp[i].h)>>
                        /\ resumed' = Bump(resumed, burst')
                        /\ UNCHANGED selfReady
              /\ sp' = [sp EXCEPT ![i].h = Front(@)]     \* heap flag and capacity stay
    /\ NoAlloc
    /\ UNCHANGED <<nextH, queue, mode, blocks>>

(* suspend_now() :130-145: coroutine mode -> queued in array order (the own handle too: the driver
   is resumed through it at its next plain suspension, Yield / Finish); otherwise resumed at once in
   array order under a temporarily installed queue - not generated with the own handle inside, that
   would resume the running driver; then clear_internal() *)
MayEmit(hs) == SelfIn(hs) => mode = "coro"
Emit(hs) ==
    IF mode = "coro"
      THEN /\ queue' = queue \o hs /\ burst' = <<>> /\ UNCHANGED resumed
      ELSE /\ burst' = hs /\ resumed' = Bump(resumed, hs) /\ UNCHANGED queue

(* clear() :108 / suspend_now() :130, called in context c: "dtor" = by a scope guard's destructor while
   an exception unwinds the scope, "catch" = inside a handler *)
Clear(i, c) ==
    /\ Tick("Clear") /\ sp[i].live /\ MayEmit(sp[i].h) /\ c \in CallCtxs
    /\ Emit(sp[i].h)
    /\ sp' = [sp EXCEPT ![i] = Cleared(sp[i])]
    /\ blocks' = blocks - B2N(sp[i].heap)
    /\ NoRet /\ NoAlloc /\ Quiet
    /\ UNCHANGED <<nextH, mode>>

(* ~suspend_point() :97-99 (also with _count_flag = 1) in context c: explicitly / as the temporary of a
   discarded return value ("flow", and the same from a guard's destructor during unwinding "dtor" or
   inside a handler "catch"), or as an automatic object of a scope left by an exception ("unwind").
   "Destructor always resumes all remaining coroutines" (:96) *)
Destroy(i, c) ==
    /\ Tick("Destroy") /\ sp[i].live /\ MayEmit(sp[i].h) /\ c \in Ctxs
    /\ Emit(sp[i].h)
    /\ sp' = [sp EXCEPT ![i] = Dead]
    /\ blocks' = blocks - B2N(sp[i].heap)
    /\ NoRet /\ NoAlloc /\ Quiet
    /\ UNCHANGED <<nextH, mode>>

(* flush_queue (coro_queue.h:63-70) running while the driver is suspended and queued at most once in
   q: everything in front of the driver is resumed, the driver continues, the rest stays queued *)
FlushTo(pre, q) ==
    IF SelfIn(q)
      THEN /\ burst' = pre \o SubSeq(q, 1, PosSelf(q) - 1)
           /\ queue' = SubSeq(q, PosSelf(q) + 1, Len(q))
      ELSE /\ burst' = pre \o q
           /\ queue' = <<>>

(* co_await sp[i] from the driver coroutine: await_ready :148; await_suspend :167-191: out = pop(),
   the rest is queued in array order, then the driver itself unless its own handle is among the
   rest or is `out`; `out` is resumed by symmetric transfer, control returns to flush_queue which
   resumes what is queued up to the driver.  If `out` is the driver's own handle the symmetric
   transfer continues the driver at once and everything else stays queued (Fixed = FALSE: and the
   driver is queued once more).  In normal mode the same happens under install_queue_and_call (:186)
   and the driver continues inside that flush_queue: from now on it runs in coroutine mode.
   await_resume of a typed suspend point returns (a reference to) the value.
   Not generated: a non-empty object while the own handle already waits in the queue. *)
CoAwait(i) ==
    /\ Tick("CoAwait") /\ sp[i].live
    /\ ret' = sp[i].val /\ rmf' = sp[i].mv
    /\ IF sp[i].h = <<>>
         THEN /\ burst' = <<>> /\ Quiet
              /\ UNCHANGED <<sp, resumed, queue, mode, blocks>>
         ELSE /\ ~SelfIn(queue)
              /\ LET out == Last(sp[i].h)
                     rest == Front(sp[i].h)
                 IN IF out = Self
                      THEN /\ burst' = <<>>
                           /\ queue' = queue \o rest \o (IF Fixed THEN <<>> ELSE <<Self>>)
                           /\ UNCHANGED resumed
                      ELSE /\ FlushTo(<<out>>, queue \o rest \o (IF SelfIn(rest) THEN <<>> ELSE <<Self>>))
                           /\ resumed' = Bump(resumed, burst')
              /\ dres' = 1
              /\ selfReady' = IF SelfIn(sp[i].h) THEN 0 ELSE selfReady
              /\ mode' = "coro"
              /\ sp' = [sp EXCEPT ![i] = Cleared(sp[i])]
              /\ blocks' = blocks - B2N(sp[i].heap)
    /\ NoAlloc
    /\ UNCHANGED nextH

(* cocls::parallel_resume(std::move(sp[i])) resume.h:96-106: a non-empty object's BASE (the handles, the
   block) is moved into a new detached thread which clear()s it there (no queue installed in that
   thread: resumed in array order); the value stays attached and a copy of it is returned
   (await_resume).  The replayer waits for the end of that thread.  Not generated with the own handle
   inside (the running driver would be resumed by the other thread). *)
ParResume(i) ==
    /\ Tick("ParResume") /\ sp[i].live /\ ~SelfIn(sp[i].h)
    /\ ret' = sp[i].val /\ rmf' = sp[i].mv
    /\ burst' = sp[i].h
    /\ resumed' = Bump(resumed, sp[i].h)
    /\ IF sp[i].h = <<>>
         THEN UNCHANGED <<sp, blocks>>       \* await_ready: no thread, nothing moved (a retained block stays)
         ELSE /\ sp' = [sp EXCEPT ![i] = Cleared(sp[i])]
              /\ blocks' = blocks - B2N(sp[i].heap)
    /\ NoAlloc /\ Quiet
    /\ UNCHANGED <<nextH, queue, mode>>

(* slot k := coro_queue::create_suspend_point(fn) suspend_point.h:318-345, where fn makes the handles
   of object j ready by clear()ing / discarding it (j = 0: fn readies nothing) and then returns (the
   value k if t) or throws.  With a queue installed while fn runs, what fn queues lands behind what
   was queued before; on return it is taken from the BACK of the queue, one by one, into the new
   suspend point (so in reverse order), the older entries are not touched.  If fn throws nothing is
   collected: in coroutine mode what fn queued stays queued behind the older entries; outside
   coroutine mode the queue was installed just for the call and is flushed while the exception
   unwinds.  The exception reaches the caller (ret = Thrown).  Not generated: a throwing fn that
   readies the own handle outside coroutine mode (the running driver would be resumed).
   c = the context in which fn gives object j up (a queue is installed by then in both modes, :325/:341):
   "flow" before it returns / throws; "unwind" fn holds the handles in an automatic object when it throws;
   "dtor" a scope guard of fn clear()s the object when fn throws; "catch" fn handles an exception of its
   own, gives the object up inside the handler and then returns or throws out of the handler. *)
Thrown == MaxH + 2
Reverse(s) == [n \in 1..Len(s) |-> s[Len(s) + 1 - n]]
CreateSP(k, j, thr, t, c) ==
    /\ Tick("CreateSP") /\ IsFree(k) /\ (j # 0 => sp[j].live)
    /\ c \in Ctxs /\ (c # "flow" => j # 0) /\ (c \in {"unwind", "dtor"} => thr)
    /\ LET A == IF j = 0 THEN <<>> ELSE sp[j].h
           src == IF j = 0 THEN sp ELSE [sp EXCEPT ![j] = Cleared(sp[j])]
           freed == IF j = 0 THEN 0 ELSE B2N(sp[j].heap)
       IN IF thr
            THEN /\ (SelfIn(A) => mode = "coro")
                 /\ sp' = src
                 /\ Emit(A)
                 /\ blocks' = blocks - freed
                 /\ ret' = Thrown /\ NoAlloc
            ELSE /\ LET r == AddRun(Fresh(t, IF t THEN k ELSE 0, <<>>), Reverse(A))
                    IN /\ sp' = [src EXCEPT ![k] = r.o]
                       /\ dalloc' = r.a
                       /\ blocks' = blocks - freed + B2N(r.o.heap)
                 /\ burst' = <<>> /\ ret' = 0
                 /\ UNCHANGED <<resumed, queue>>
    /\ rmf' = FALSE /\ Quiet
    /\ UNCHANGED <<nextH, mode>>

(* co_await cocls::pause() coro_queue.h:211-219: everything queued runs before the driver.
   Not generated while the own handle waits in the queue (the driver would be queued twice). *)
Pause ==
    /\ Tick("Pause") /\ mode = "coro" /\ ~SelfIn(queue)
    /\ burst' = queue
    /\ resumed' = Bump(resumed, queue)
    /\ queue' = <<>>
    /\ dres' = 1 /\ UNCHANGED selfReady
    /\ NoRet /\ NoAlloc
    /\ UNCHANGED <<sp, nextH, mode, blocks>>

(* a plain suspension (co_await std::suspend_always) while the own handle waits in the ready queue
   (it got there by clear()/destruction in coroutine mode): the driver is resumed through it *)
Yield ==
    /\ Tick("Yield") /\ mode = "coro" /\ SelfIn(queue)
    /\ FlushTo(<<>>, queue)
    /\ resumed' = Bump(resumed, burst')
    /\ dres' = 1 /\ selfReady' = 0
    /\ NoRet /\ NoAlloc
    /\ UNCHANGED <<sp, nextH, mode, blocks>>

(* the end of every history: the driver suspends for good (flush_queue drains the ready queue), then
   the objects still alive are destroyed from outside in slot order (each like Destroy) and
   whatever that queued is flushed; the queue is uninstalled (:105-108).  If the own handle is still
   around (in the queue or in an object) the suspended driver is resumed through it - once.
   c = what ends the scope that owns the objects and the queue: "flow" control reaches its end; "unwind"
   an exception thrown in it and caught outside (the objects are automatic objects of the scope, the
   exception also leaves the frame that installed the queue: the trailer :105-108 drains it on that
   path too); "dtor" the same exception, the objects are destroyed by their owner's destructor; "catch"
   they are destroyed inside a handler.
   Always enabled: every history can be closed. *)
Leftover == LET S[k \in 0..MaxObj] == IF k = 0 THEN <<>> ELSE S[k - 1] \o sp[k].h IN S[MaxObj]
Finish(c) ==
    /\ ~done /\ c \in Ctxs
    /\ burst' = NoSelf(queue \o Leftover)     \* normal mode: queue = <<>>, resumed by the destructors
    /\ resumed' = Bump(resumed, burst')
    /\ dres' = selfReady /\ selfReady' = 0
    /\ queue' = <<>>
    /\ sp' = [k \in Slots |-> Dead]
    /\ blocks' = blocks - Cardinality({k \in Slots : sp[k].live /\ sp[k].heap})
    /\ mode' = "normal"
    /\ done' = TRUE
    /\ NoRet /\ NoAlloc
    /\ UNCHANGED <<nextH, steps>>

Kinds == {"same", "void", "int"}

Next == \/ \E k \in Slots, t \in Types : ConstructEmpty(k, t) \/ ConstructH(k, t) \/ ConstructSelf(k, t)
        \/ \E k \in Slots, i \in Slots, kind \in Kinds : MoveConstruct(k, i, kind)
        \/ \E i \in Slots : AddHandle(i) \/ AddSelf(i) \/ Pop(i) \/ CoAwait(i)
        \/ \E i \in Slots, c \in AllCtxs : Clear(i, c) \/ Destroy(i, c)
        \/ \E i \in Slots, kind \in ReadKinds : Read(i, kind)
        \/ \E i \in Slots : ParResume(i)
        \/ \E k \in Slots, j \in 0..MaxObj, thr \in BOOLEAN, t \in Types, c \in AllCtxs : CreateSP(k, j, thr, t, c)
        \/ \E i \in Slots, n \in 1..MaxH : AddFill(i, n)
        \/ \E i \in Slots, n \in Targets : AddTo(i, n)
        \/ \E i \in Slots, j \in Slots : MergeShl(i, j) \/ MoveAssign(i, j)
        \/ Pause
        \/ Yield
        \/ \E c \in AllCtxs : Finish(c)

Spec == Init /\ [][Next]_vars

-----------------------------------------------------------------------------
(* Properties (C06) *)

Live == {k \in Slots : sp[k].live}

TypeOK ==
    /\ nextH \in 0..MaxH /\ steps \in 0..MaxSteps /\ mode \in {"normal", "coro"}
    /\ selfReady \in {0, 1} /\ dres \in 0..2
    /\ \A k \in Slots : /\ Range(sp[k].h) \subseteq (1..nextH) \cup {Self}
                        /\ ~sp[k].live => sp[k] = Dead
                        /\ ~sp[k].ty => sp[k].val = 0 /\ ~sp[k].mv
    /\ Range(queue) \subseteq (1..nextH) \cup {Self}
    /\ mode = "normal" => queue = <<>>

(* representation: inline holds at most 3; a heap block has capacity 6,12,24,...; the flag word may
   be 1 (no handle, block owned) *)
RepOK ==
    \A k \in Live : IF sp[k].heap THEN /\ sp[k].cap >= 2 * InlineCap
                                       /\ Len(sp[k].h) <= sp[k].cap
                                  ELSE sp[k].cap = 0 /\ Len(sp[k].h) <= InlineCap

(* every handle ever handed in - the driver's own included - is in exactly one place: a live object,
   the ready queue, or resumed once.  Everywhere == all handle arrays and the queue laid end to end *)
Everywhere == LET S[k \in 0..MaxObj] == IF k = 0 THEN queue ELSE S[k - 1] \o sp[k].h IN S[MaxObj]
Conservation ==
    LET e == Everywhere
        held == Range(e)
    IN /\ Cardinality(held) = Len(e)                                   \* nowhere twice
       /\ \A x \in Handles : (IF x \in held THEN 1 ELSE 0) + resumed[x] = (IF x <= nextH THEN 1 ELSE 0)
       /\ (IF Self \in held THEN 1 ELSE 0) = selfReady     \* the driver is queued / held iff it is owed a resumption

(* nobody - the driver included - is resumed more than once per readiness, and nobody is forgotten *)
NoDoubleResume ==
    /\ \A x \in Handles : resumed[x] <= 1
    /\ dres <= 1
    /\ Occ(Everywhere, Self) <= selfReady
    /\ done => (selfReady = 0 /\ \A x \in 1..nextH : resumed[x] = 1)

NoLeak ==
    /\ blocks = Cardinality({k \in Live : sp[k].heap})
    /\ done => blocks = 0

(* new[] is executed only by an operation that makes an object hold more than 3 handles (and more
   than it held before): an object that never holds more than 3 handles never allocates *)
InlineNoAlloc ==
    [][dalloc' > 0 => \E i \in Slots : /\ sp'[i].live /\ Len(sp'[i].h) > InlineCap
                                       /\ Len(sp'[i].h) > Len(sp[i].h)
                                       /\ dalloc' <= Len(sp'[i].h) - Len(sp[i].h)]_vars

(* the handles of a moved-from / merged-from object are gone from it, and so is its flag word *)
HandleSet(o) == Range(o.h)
MovedFromIsEmpty ==
    [][\A i \in Slots, j \in Slots :
          (i # j /\ sp[i].live /\ sp[i].h # <<>> /\ sp'[j].live /\ HandleSet(sp[i]) \subseteq HandleSet(sp'[j]))
             => /\ sp'[i].live /\ sp'[i].h = <<>> /\ ~sp'[i].heap
                /\ burst' = <<>> /\ queue' = queue /\ dres' = 0]_vars

(* an empty object (also one with a retained heap block) resumes and queues nothing *)
EmptyResumesNothing ==
    [][(\A k \in Slots : sp[k].h = <<>>) => (Range(burst') \subseteq Range(queue) /\ Range(queue') \subseteq Range(queue))]_vars

(* the attached value (identity and moved-from state) of a typed object changes only by the C++ move
   operations of the whole object: as the target of a move assignment from a typed object (takes
   both), or as the source of a move construction / move assignment to a typed object (left
   moved-from, which the target is not unless the source already was).  Being merged, popped,
   cleared, awaited or READ never changes it, and a read returns exactly what is attached. *)
ValuePreserved ==
    [][\A i \in Slots : (sp[i].live /\ sp'[i].live /\ <<sp'[i].val, sp'[i].mv>> # <<sp[i].val, sp[i].mv>>) =>
             \/ \E j \in Slots : /\ j # i /\ sp[j].live /\ sp[j].ty /\ sp[i].ty
                                 /\ sp'[i].val = sp[j].val /\ sp'[i].mv = sp[j].mv
                                 /\ sp'[i].h = sp[i].h \o sp[j].h /\ sp'[j].h = <<>> /\ sp'[j].mv
             \/ \E j \in Slots : /\ j # i /\ sp'[j].live /\ sp'[j].ty /\ sp[i].ty
                                 /\ sp'[i].val = sp[i].val /\ sp'[i].mv /\ sp'[i].h = <<>>
                                 /\ sp'[j].val = sp[i].val /\ sp'[j].mv = sp[i].mv]_vars

(* all reads of one object agree: whatever a read / co_await returns is the attached value, which
   the read leaves alone *)
ReadsAgree ==
    [][(ret' # 0 /\ ret' # Thrown /\ burst' = <<>> /\ dres' = 0 /\ sp' = sp /\ selfReady' = selfReady) =>
          \E i \in Slots : sp[i].live /\ sp[i].ty /\ ret' = sp[i].val /\ rmf' = sp[i].mv]_vars

(* handles leave an object in array order (to the queue, or resumed), except that co_await resumes
   the last one first; the driver's own handle is not a coroutine to resume here, it only decides
   how far the flush goes *)
Kept == UNION {Range(sp'[k].h) : k \in Slots}
ResumeOrder ==
    [][\A i \in Slots :
         LET old == NoSelf(sp[i].h)
             kept == Kept
             goneSeq == SelectSeq(old, LAMBDA x : x \notin kept)      \* left every object, in array order
             goneSet == Range(goneSeq)
             outSel == SelectSeq(burst' \o queue', LAMBDA x : x \in goneSet)
         IN goneSeq # <<>> =>
               \/ outSel = goneSeq
               \/ /\ mode' = "coro" /\ goneSeq = old /\ burst' # <<>> /\ burst'[1] = Last(old)
                  /\ outSel = <<Last(old)>> \o Front(old)]_vars

(* the ready queue is first-in first-out: it is only appended to; a flush takes from its front, in
   order, and what it does not reach keeps its place *)
IsPrefix(a, b) == Len(a) <= Len(b) /\ SubSeq(b, 1, Len(a)) = a
IsInfix(a, b) == \E k \in 0..Len(b) : k + Len(a) <= Len(b) /\ SubSeq(b, k + 1, k + Len(a)) = a
QueueFIFO ==
    [][\E k \in 0..Len(queue) : /\ IsInfix(NoSelf(SubSeq(queue, 1, k)), burst')
                                /\ IsPrefix(SubSeq(queue, k + 1, Len(queue)), queue')]_vars

=============================================================================
