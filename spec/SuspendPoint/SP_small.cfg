SPECIFICATION Spec
CONSTANTS
  MaxObj = 3
  MaxH = 8
  MaxSteps = 5
  Modes = {"normal", "coro"}
  Typed = TRUE
  Ops = {"ConstructEmpty", "ConstructH", "MoveConstruct", "AddHandle", "AddFill", "MergeShl", "MoveAssign", "Pop", "Clear", "Destroy", "CoAwait", "Pause"}
INVARIANTS TypeOK RepOK Conservation NoDoubleResume NoLeak InlineNoAlloc
PROPERTIES MovedFromIsEmpty EmptyResumesNothing ValuePreserved ResumeOrder QueueFIFO
CHECK_DEADLOCK FALSE
