SPECIFICATION Spec
CONSTANTS
  Forms = {"join", "wait", "fjoin", "sync"}
  Types = {"int", "trk", "void"}
  CheckedSubscribe = TRUE
INVARIANTS NeverBlockedUnsubscribed JoinGetsResult FreedOnce
