SPECIFICATION Spec
CONSTANTS
  Forms = {"join"}
  Types = {"int"}
  CheckedSubscribe = FALSE
INVARIANTS JoinGetsResult FreedOnce
