SPECIFICATION Spec
CONSTANTS
  Programs <- SmallPrograms
  JoinRef = "moves"
INVARIANTS TypeOK Quiescent BodyOnce UnstartedNeverRuns ArgsFreedOnce FrameFreedOnce BalanceZeroAtEnd
  ResolveBeforeDestroy DeliveredToBoundOnly ObserveReady ClaimedPromiseLeavesUnstarted JoinReturns CleanEnd CallbackOnce PayloadIntact ReferentIntact
