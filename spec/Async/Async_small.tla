---------------------------- MODULE Async_small ----------------------------
(* A hand-runnable instance of Async.tla (the check itself generates the program families, see
   tools/checks/c04.py):   cd spec/Async && tlc -config Async_small.cfg Async_small
   One program per start mode of native code, a co_await chain of depth 3 whose innermost coroutine
   suspends, and one program per way a running coroutine can start a child. *)
EXTENDS Async

S(k, a) == [k |-> k, a |-> a]
Pg(T, root, K, body) == [T |-> T, root |-> root, K |-> K, body |-> body]
Leaf == <<S("aw", 1), S("ret", 0)>>

SmallPrograms ==
    [i \in 1..8 |-> Pg("int", <<"detach", "start", "startp", "claimed", "join", "fctor", "retfut", "poolrun">>[i], 1, <<Leaf>>)]
    \o << Pg("int", "start", 1, << <<S("co", 2), S("ret", 0)>>, <<S("co", 3), S("ret", 0)>>, <<S("co", 4), S("thr", 0)>>, Leaf >>),
          Pg("void", "join", 1, << <<S("co", 2), S("ret", 0)>>, <<S("aw", 1), S("thr", 0)>> >>) >>
    \o [i \in 1..8 |-> Pg("int", "detach", 1,
                          << <<S(<<"co", "da", "dd", "st", "fc", "rf", "pa", "pd">>[i], 2), S("ret", 0)>>, Leaf >>)]
    \* tracked result type: every co_return form under join / start / co_await / detach
    \o [i \in 1..3 |-> Pg("trk", "join", 1, << <<S("aw", 1), S("ret", i - 1)>> >>)]
    \o [i \in 1..3 |-> Pg("trk", "start", 0, << <<S("co", 2), S("ret", i - 1)>>, <<S("ret", i - 1)>> >>)]
    \o [i \in 1..3 |-> Pg("trk", "detach", 0, << <<S("ret", i - 1)>> >>)]
    \* reference results, also collected through value futures
    \o [i \in 1..6 |-> Pg("ref", <<"join", "start", "vfctor", "vshift", "vretfn", "claimed">>[i], 1, <<Leaf>>)]
    \o << Pg("ref", "start", 0, << <<S("vf", 2), S("ret", 0)>>, <<S("co", 3), S("ret", 0)>>, <<S("ret", 0)>> >>) >>
=============================================================================
