SPECIFICATION Spec
INVARIANTS TypeOK Quiescent BodyOnce UnstartedNeverRuns ArgsFreedOnce FrameFreedOnce BalanceZeroAtEnd
  ResolveBeforeDestroy DeliveredToBoundOnly ObserveReady ClaimedPromiseLeavesUnstarted JoinReturns CleanEnd CallbackOnce PayloadIntact ReferentIntact
