----------------------------- MODULE AsyncJoin -----------------------------
(***************************************************************************)
(* A blocking delivery of an async<T> result racing with the completion of *)
(* the coroutine on ANOTHER thread, at the grain of the atomic operations  *)
(* on the bound future's awaiter slot (property C04, "completion after     *)
(* suspension on another thread"; the protocol is the one of Future.tla).  *)
(*                                                                         *)
(* Joiner (the party): async::join() = future<T>( *this ).wait(), or       *)
(* start() followed by future::wait() / join() / sync()+value() -- all end *)
(* in co_awaiter::sync (awaiter.h:319-326):                                *)
(*   check  await_ready: load of the slot (future_common::ready)           *)
(*   cas    subscribe(&sync_awaiter): CAS of the slot; REFUSED when the    *)
(*          slot is already "ready" -- then the caller must NOT block      *)
(*   wait   flag.wait(false) until the finisher has stored the flag        *)
(* Finisher (thread resuming the suspended coroutine): the body ends, the  *)
(* value is stored, then final_awaiter (async.h:217-230):                  *)
(*   xchg   resolve(): exchange of the slot with "ready"; a sync_awaiter   *)
(*          found there is woken: store the flag, notify                   *)
(*   then the frame is destroyed.                                          *)
(* The initial state is: the joiner has started the coroutine (its body is *)
(* suspended on a future the finisher will resolve) and is about to check; *)
(* the finisher has run the body to its end and is about to exchange.      *)
(***************************************************************************)
EXTENDS Naturals, TLC

CONSTANTS Forms,             \* which blocking call the joiner makes: "join" | "wait" | "fjoin" | "sync"
          Types,             \* result types "int" | "trk" | "void"
          CheckedSubscribe   \* TRUE: a refused subscription means "do not block" (the code); FALSE: the result
                             \* of subscribe() is ignored (kept to show what the model is able to tell apart)

VARIABLES form, ty, slot, jpc, fpc, flag, got, freed
vars == <<form, ty, slot, jpc, fpc, flag, got, freed>>

Init == /\ form \in Forms /\ ty \in Types
        /\ slot = "none"            \* "none" pending, nobody subscribed | "sync" the joiner's sync_awaiter | "ready"
        /\ jpc = "check" /\ fpc = "xchg"
        /\ flag = FALSE /\ got = "none" /\ freed = 0

JCheck == /\ jpc = "check"
          /\ IF slot = "ready" THEN jpc' = "done" /\ got' = "val" ELSE jpc' = "cas" /\ got' = got
          /\ UNCHANGED <<form, ty, slot, fpc, flag, freed>>

JCas == /\ jpc = "cas"
        /\ IF slot = "ready"
             THEN /\ slot' = slot     \* refused
                  /\ IF CheckedSubscribe THEN jpc' = "done" /\ got' = "val" ELSE jpc' = "wait" /\ got' = got
             ELSE /\ slot' = "sync" /\ jpc' = "wait" /\ got' = got
        /\ UNCHANGED <<form, ty, fpc, flag, freed>>

JWait == /\ jpc = "wait" /\ flag
         /\ jpc' = "done" /\ got' = "val"
         /\ UNCHANGED <<form, ty, slot, fpc, flag, freed>>

FXchg == /\ fpc = "xchg"
         /\ slot' = "ready"
         /\ IF slot = "sync" THEN fpc' = "store" /\ freed' = freed
                             ELSE fpc' = "done" /\ freed' = freed + 1      \* nobody to wake: destroy, leave
         /\ UNCHANGED <<form, ty, jpc, flag, got>>

FStore == /\ fpc = "store"
          /\ flag' = TRUE /\ fpc' = "notify"
          /\ UNCHANGED <<form, ty, slot, jpc, got, freed>>

FNotify == /\ fpc = "notify"
           /\ fpc' = "done" /\ freed' = freed + 1
           /\ UNCHANGED <<form, ty, slot, jpc, flag, got>>

Terminated == jpc = "done" /\ fpc = "done" /\ UNCHANGED vars

Next == JCheck \/ JCas \/ JWait \/ FXchg \/ FStore \/ FNotify \/ Terminated
Spec == Init /\ [][Next]_vars

(* the party never blocks without somebody who is going to wake it (with deadlock checking on, a blocked
   party with a finished finisher is also reported as a deadlock) *)
NeverBlockedUnsubscribed ==
    (jpc = "wait" /\ ~flag) => (slot = "sync" \/ fpc = "store")
(* the result reaches the party: it returns only with the value, only after the future became ready *)
JoinGetsResult == (jpc = "done") => (got = "val" /\ slot = "ready")
FreedOnce == freed <= 1 /\ (fpc = "done" => freed = 1)
=============================================================================
