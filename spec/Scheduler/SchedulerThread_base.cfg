SPECIFICATION Spec
INVARIANTS TypeOK HeapWellFormed NeverEarly PromptWhenIdle StopNotMissed NoHang DestroyCancelsPending LiveMatchesPending
PROPERTY Termination
CHECK_DEADLOCK FALSE
