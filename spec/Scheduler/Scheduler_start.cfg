\* start(awaitable) in one thread under virtual time: NC coroutines (1 = the awaited one) run lazily chosen
\* programs of <= MaxOps commands (sleep_until / cancel / finish); the awaited one ends with no value / a value /
\* an exception / a dropped promise, told to start() directly or through the coro_queue; start() is called MaxRuns times
\* on the same object
SPECIFICATION Spec
CONSTANTS
  Mode = "start"
  TPs = {2, 4, 6}
  Nows = {}
  Ids = {0, 1}
  CancelIds = {1}
  MaxSleeps = 2
  MaxHeap = 4
  MaxOps = 4
  AllowRemove = FALSE
  Interval = 0
  Interval2 = 0
  NC = 2
  MainRes = {"void", "val", "exc", "drop"}
  MainVia = {"direct", "queued"}
  MaxRuns = 2
INVARIANTS TypeOK HeapWellFormed LiveMatchesPending NeverEarly DeadlineOrder PromptManual CancelHitsOne NotifyWhenEarliest NothingAfterDestroy PromptWhenIdle NoOversleep CoroConsistent ReturnsWhenFinished NoHang MainOutcome
PROPERTIES ExactlyOncePerSleep LiveFrame CancelFalseNoEffect DestroyCancelsPending ClockStandsWhileReady ResultStable StartTerminates
CHECK_DEADLOCK FALSE
