\* start(awaitable) in one thread under virtual time: NC coroutines (1 = the awaited one) run lazily chosen
\* programs of <= MaxOps commands (sleep_until / cancel / finish)
SPECIFICATION Spec
CONSTANTS
  Mode = "start"
  TPs = {2, 4, 6}
  Nows = {}
  Ids = {0, 1}
  CancelIds = {1}
  MaxSleeps = 2
  MaxHeap = 4
  MaxOps = 4
  AllowRemove = FALSE
  Interval = 0
  NC = 2
INVARIANTS TypeOK HeapWellFormed LiveMatchesPending NeverEarly DeadlineOrder PromptManual CancelHitsOne NotifyWhenEarliest NothingAfterDestroy PromptWhenIdle NoOversleep CoroConsistent ReturnsWhenFinished NoHang
PROPERTIES ExactlyOncePerSleep LiveFrame CancelFalseNoEffect DestroyCancelsPending ClockStandsWhileReady StartTerminates
CHECK_DEADLOCK FALSE
