SPECIFICATION Spec
INVARIANTS TypeOK OneWorker LockDiscipline HeapWellFormed NeverEarly PromptWhenIdle NoMissedWakeup StopNotMissed LiveMatchesPending DestroyCancelsPending SleeperThread NoCrash NoHang JobsOnce QueuedJobHasNoIdleThread
PROPERTIES DeadlineOrder CompletesOnce CancelExact Termination
CHECK_DEADLOCK FALSE
