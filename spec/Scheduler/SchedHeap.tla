------------------------------ MODULE SchedHeap ------------------------------
(***************************************************************************)
(* The scheduler's heap `_scheduled` as the array the code keeps, the      *)
(* libstdc++ heap algorithms move by move, and the two regions the code    *)
(* runs under `_mx` (get_expired_lk, remove) as pure operators over        *)
(* explicit arguments.  Shared by Scheduler.tla (manual mode, single-      *)
(* thread start mode) and SchedulerThread.tla (worker thread mode).        *)
(* Extracted unchanged from Scheduler.tla (Parts 1-2).                     *)
(***************************************************************************)
EXTENDS Integers, Sequences, FiniteSets, TLC

Inf == 1000            \* std::chrono::system_clock::time_point::max()

(* Part 1: the array and the libstdc++ heap algorithms.  Indices are the   *)
(* code's 0-based ones; every access is bound-checked (NoCrash).           *)

At(h, i) == IF i >= 0 /\ i < Len(h) THEN h[i + 1]
            ELSE Assert(FALSE, <<"NoCrash: vector index out of bounds", i, "size", Len(h)>>)
Put(h, i, e) == IF i >= 0 /\ i < Len(h) THEN [h EXCEPT ![i + 1] = e]
                ELSE Assert(FALSE, <<"NoCrash: vector store out of bounds", i, "size", Len(h)>>)

(* C++ integer division truncates toward zero *)
CDiv(a, b) == IF a >= 0 THEN a \div b ELSE -((-a) \div b)

(* scheduler::compare_item, scheduler.h:361-363 *)
Comp(a, b) == a.tp > b.tp

(* std::__push_heap(first, holeIndex, topIndex, value, comp), stl_heap.h:135-147 *)
RECURSIVE SiftUp(_, _, _, _)
SiftUp(h, hole, top, v) ==
    IF hole > top /\ Comp(At(h, CDiv(hole - 1, 2)), v)
      THEN SiftUp(Put(h, hole, At(h, CDiv(hole - 1, 2))), CDiv(hole - 1, 2), top, v)
      ELSE Put(h, hole, v)

(* std::push_heap(begin, end, comp): the new element is the last one, stl_heap.h:198-215 *)
PushHeap(h) == SiftUp(h, Len(h) - 1, 0, At(h, Len(h) - 1))

(* first loop of std::__adjust_heap, stl_heap.h:224-232: the hole walks down to a leaf, always taking
   the right child unless comp(right, left), i.e. unless right.tp > left.tp *)
RECURSIVE HoleDown(_, _, _)
HoleDown(h, hole, len) ==
    IF hole < CDiv(len - 1, 2)
      THEN LET r == 2 * (hole + 1)
               c == IF Comp(At(h, r), At(h, r - 1)) THEN r - 1 ELSE r
           IN HoleDown(Put(h, hole, At(h, c)), c, len)
      ELSE [h |-> h, hole |-> hole]

(* std::__adjust_heap(first, holeIndex, len, value, comp), stl_heap.h:217-246 *)
AdjustHeap(h, hole0, len, v) ==
    LET d == HoleDown(h, hole0, len)
        e == IF len % 2 = 0 /\ d.hole = CDiv(len - 2, 2)
               THEN [h |-> Put(d.h, d.hole, At(d.h, 2 * (d.hole + 1) - 1)), hole |-> 2 * (d.hole + 1) - 1]
               ELSE d
    IN SiftUp(e.h, e.hole, hole0, v)

(* std::pop_heap(begin, end, comp), stl_heap.h:318-336 + __pop_heap :248-267 *)
PopHeap(h) ==
    LET n == Len(h) IN
    IF n > 1 THEN AdjustHeap(Put(h, n - 1, At(h, 0)), 0, n - 1, At(h, n - 1)) ELSE h

(* scheduler::pop_item, scheduler.h:365-368: pop_heap + pop_back *)
PopItem(h) ==
    IF Len(h) = 0 THEN Assert(FALSE, "NoCrash: pop_back on an empty vector")
    ELSE SubSeq(PopHeap(h), 1, Len(h) - 1)

(* schedule(): push_back + push_heap, scheduler.h:92-93 *)
HeapInsert(h, e) == PushHeap(Append(h, e))

(* schedule(): `ntf`, scheduler.h:91 -- the condition variable is notified iff the new entry
   becomes the earliest deadline (strictly) or the heap was empty *)
NotifyNeeded(h, tp) == Len(h) = 0 \/ At(h, 0).tp > tp

IsHeap(h) == \A i \in 1..(Len(h) - 1) : ~Comp(h[CDiv(i - 1, 2) + 1], h[i + 1])

-----------------------------------------------------------------------------
(* Part 2: the regions under _mx *)

(* get_expired_lk(now), scheduler.h:415-425.  Result: the array afterwards, k = the promise returned
   (0: none), next = the time point returned when no promise is. *)
RECURSIVE GetExpiredLk(_, _)
GetExpiredLk(h, t) ==
    IF Len(h) > 0 /\ (At(h, 0).tp <= t \/ At(h, 0).k = 0)
      THEN LET top == At(h, 0)
               h2 == PopItem(h)
           IN IF top.k # 0 THEN [heap |-> h2, k |-> top.k, next |-> 0]
              ELSE GetExpiredLk(h2, t)
      ELSE [heap |-> h, k |-> 0, next |-> IF Len(h) = 0 THEN Inf ELSE At(h, 0).tp]

(* remove(id), scheduler.h:127-139: matching entries on top are popped (an emptied one is skipped,
   :129-133); otherwise find_if returns the FIRST entry IN ARRAY ORDER with that identifier whose
   promise is still set (:134-136); its promise is moved out and the entry stays (:138). *)
RECURSIVE RemoveLk(_, _)
RemoveLk(h, id) ==
    IF Len(h) > 0 /\ At(h, 0).id = id
      THEN LET top == At(h, 0)
               h2 == PopItem(h)
           IN IF top.k # 0 THEN [heap |-> h2, k |-> top.k] ELSE RemoveLk(h2, id)
      ELSE LET hits == {i \in 0..(Len(h) - 1) : At(h, i).id = id /\ At(h, i).k # 0} IN
           IF hits = {} THEN [heap |-> h, k |-> 0]
           ELSE LET i == CHOOSE j \in hits : \A l \in hits : j <= l
                IN [heap |-> Put(h, i, [At(h, i) EXCEPT !.k = 0]), k |-> At(h, i).k]

=============================================================================
