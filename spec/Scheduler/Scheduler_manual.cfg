SPECIFICATION Spec
CONSTANTS
  Mode = "manual"
  TPs = {1, 2, 3}
  Nows = {0, 1, 2, 3}
  Ids = {0, 1, 2}
  CancelIds = {0, 1, 2}
  MaxSleeps = 3
  MaxHeap = 3
  MaxOps = 0
  AllowRemove = TRUE
  Interval = 0
  NC = 1
INVARIANTS TypeOK HeapWellFormed LiveMatchesPending NothingAfterDestroy IntervalConsistent
PROPERTIES ExactlyOncePerSleep OnePerCall NeverEarly DeadlineOrder PromptManual CancelHitsOne CancelFalseNoEffect RemoveHitsOne NotifyWhenEarliest DestroyCancelsPending
CHECK_DEADLOCK FALSE
