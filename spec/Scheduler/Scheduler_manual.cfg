\* manual mode, "wide": all identifiers incl. nullptr, remove(), ties and past time points; <= 3 sleeps pending
\* (time in half ticks: even = a tick, odd = 1 ns before the next tick -- get_expired probes)
SPECIFICATION Spec
CONSTANTS
  Mode = "manual"
  TPs = {2, 4}
  Nows = {1, 2, 3, 4}
  Ids = {0, 1, 2}
  CancelIds = {0, 1, 2}
  MaxSleeps = 3
  MaxHeap = 3
  MaxOps = 0
  AllowRemove = TRUE
  Interval = 0
  Interval2 = 0
  NC = 1
  MainRes = {"void"}
  MainVia = {"direct"}
  MaxRuns = 1
INVARIANTS TypeOK HeapWellFormed LiveMatchesPending NeverEarly DeadlineOrder PromptManual CancelHitsOne NotifyWhenEarliest NothingAfterDestroy IntervalConsistent
PROPERTIES ExactlyOncePerSleep LiveFrame CancelFalseNoEffect DestroyCancelsPending
CHECK_DEADLOCK FALSE
