SPECIFICATION Spec
CONSTANTS
  Mode = "manual"
  TPs = {1, 2, 3}
  Nows = {0, 1, 2, 3}
  Ids = {0, 1, 2}
  CancelIds = {0, 1, 2}
  MaxSleeps = 3
  MaxOps = 0
  MaxCancels = 0
  TrackAt = FALSE
  AllowRemove = TRUE
  Interval = 0
  NC = 1
INVARIANTS TypeOK HeapWellFormed LiveMatchesPending NeverEarly DestroyCancelsPending IntervalStopEnds
PROPERTIES ExactlyOncePerSleep OnePerCall DeadlineOrder NeverEarlyStep PromptManual CancelHitsOne CancelFalseNoEffect RemoveHitsOne NotifyWhenEarliest
CHECK_DEADLOCK FALSE
