\* manual mode, "deep": one identifier (every sleep is a duplicate), up to 5 pending sleeps in an array of 6:
\* exercises the sift-down paths of pop_heap and find_if over several emptied entries
SPECIFICATION Spec
CONSTANTS
  Mode = "manual"
  TPs = {2, 4}
  Nows = {2, 3, 4}
  Ids = {1}
  CancelIds = {1}
  MaxSleeps = 5
  MaxHeap = 6
  MaxOps = 0
  AllowRemove = FALSE
  Interval = 0
  Interval2 = 0
  NC = 1
  MainRes = {"void"}
  MainVia = {"direct"}
  MaxRuns = 1
INVARIANTS TypeOK HeapWellFormed LiveMatchesPending NeverEarly DeadlineOrder PromptManual CancelHitsOne NotifyWhenEarliest NothingAfterDestroy IntervalConsistent
PROPERTIES ExactlyOncePerSleep LiveFrame CancelFalseNoEffect DestroyCancelsPending
CHECK_DEADLOCK FALSE
