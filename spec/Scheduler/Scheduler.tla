----------------------------- MODULE Scheduler -----------------------------
(***************************************************************************)
(* cocls::scheduler (src/cocls/scheduler.h) -- the timer scheduler.        *)
(*                                                                         *)
(* Part 1  the heap `_scheduled` AS THE ARRAY THE CODE KEEPS               *)
(*         (std::vector<SchItem>, scheduler.h:339-354) with                *)
(*         std::push_heap / std::pop_heap of libstdc++ (bits/stl_heap.h)   *)
(*         modelled move by move, because remove()'s find_if and the       *)
(*         "top of the heap" loops depend on the array order.  These are   *)
(*         pure operators over explicit arguments (no state variables) so  *)
(*         that other modes (worker thread, thread pool) can reuse them.   *)
(* Part 2  the two regions the code runs under `_mx`: get_expired_lk       *)
(*         (:415-425) and remove (:127-139), again as pure operators.      *)
(* Part 3  Mode = "manual": one action per public call of a single client: *)
(*         schedule/sleep_until, get_expired, remove, cancel, ~scheduler,  *)
(*         and interval() driven through a stop token.                     *)
(* Part 4  Mode = "start": start(awaitable) in one thread (:228-282):      *)
(*         worker_coro<false> (:370-413) + coro_queue (FIFO of ready       *)
(*         coroutines) + _cond.wait_until under a VIRTUAL clock.  One      *)
(*         thread, cooperative: the only nondeterminism is the program the *)
(*         coroutines execute, which is chosen lazily (next command picked *)
(*         in the action).  The awaited operation ends with no value / a   *)
(*         value / an exception / a dropped promise, and start() has to    *)
(*         return / return that value / rethrow / throw                    *)
(*         await_canceled_exception (CoFinish, StartReturn: MainOutcome);  *)
(*         start() may be called again on the same object (StartAgain).    *)
(* Part 5  properties (C12).                                               *)
(*                                                                         *)
(* A heap entry is [tp, id, k]: time point, identifier (0 = nullptr) and   *)
(* the slot of the sleep future its promise points to; k = 0 means the     *)
(* promise was moved out (cancel/remove through find_if): an "empty        *)
(* promise" entry that stays in the array until it surfaces.               *)
(*                                                                         *)
(* The state is history free: a sleep occupies a slot 1..MaxSleeps while   *)
(* it is pending; the step that completes it frees the slot (the next      *)
(* sleep reuses the smallest free slot).  So MaxSleeps bounds the sleeps   *)
(* pending AT THE SAME TIME, MaxHeap the array length; histories are       *)
(* unbounded (the state graph is finite and cyclic) unless MaxOps bounds   *)
(* them.  What a call RETURNS / which sleep a step completes is not kept   *)
(* in the state either: it is an extra parameter of the action (bound by   *)
(* \E in Next and fixed by a guard), so it shows in the action label of    *)
(* the dumped graph -- `Cancel(1,"exc",2)`: cancel(id 1) returned true and *)
(* completed the sleep in slot 2 with await_canceled_exception;            *)
(* `Cancel(1,"exc",0)`: it returned false -- and the replayer compares it  *)
(* with what the real call returned / did.  Consequences: a call without   *)
(* effect is a SELF LOOP of the state graph (the path cover of the check,  *)
(* tools/fastcover.py, walks self loops), and after ~scheduler a new one   *)
(* is constructed (Construct / Restart), so a replayed scenario spans      *)
(* several lifetimes and the graph has no dead end.                        *)
(*                                                                         *)
(* TIME is in HALF TICKS: the time points of sleeps are even numbers (2n =  *)
(* tick n); an odd number 2n-1 stands for "1 ns before tick n" and is only *)
(* used as the `now` of a get_expired probe, so that a sleep handed out     *)
(* even one clock unit early is observed.  The replayer embeds model time  *)
(* into the clock's nanosecond resolution, order preserving and with       *)
(* sub-millisecond offsets, and maps real time points back exactly.        *)
(* API FORMS: Schedule / CoSleep(tp, ..) stand for EVERY way the header    *)
(* lets a client request a sleep: sleep_until(tp), schedule(id,promise,tp),*)
(* sleep_for(d) for every duration type with tp = (now at the call) + d    *)
(* exactly (:170-173; the conversion must not lose a nanosecond), and      *)
(* interval(d) (:306-327).  The replayer rotates the forms per call.       *)
(*                                                                         *)
(* Not modelled here (separate model on top of Parts 1-2): worker thread / *)
(* thread pool, i.e. `_mx` as a lock with a holder, `_cond` with waiters,  *)
(* the stop callback's notify.  In the modes below exactly one thread      *)
(* exists, every call runs to completion, so a region under `_mx` is one   *)
(* atomic step; that the thread never blocks on `_mx` or `_cond` (no self  *)
(* dead-lock, no wait without deadline) is checked on the real code by the *)
(* replayer's interposed pthread functions.                                *)
(***************************************************************************)
EXTENDS SchedHeap

CONSTANTS Mode,        \* "manual" | "start"
          TPs,         \* time points of sleeps (even: half ticks), whatever API form requests them
          Nows,        \* manual: values of `now` passed to get_expired() (odd: 1 ns before the next tick)
          Ids,         \* identifiers passed to schedule(); 0 is nullptr
          CancelIds,   \* identifiers passed to cancel()/remove()
          MaxSleeps,   \* bound: sleeps pending at the same time (slots)
          MaxHeap,     \* bound: length of the array (emptied entries included)
          MaxOps,      \* bound on the number of calls (manual) / commands (start); 0 = unbounded (manual only)
          AllowRemove, \* manual: remove() calls are generated
          Interval,    \* manual: 0 = no interval generator, else the period of generator 1 (identifier IntervalId(1))
          Interval2,   \* manual: 0 = no second interval generator of the same scheduler, else its period (same
                       \*   duration type as the first; own stop token; own identifier IntervalId(2))
          NC,          \* start: number of coroutines (1 = the awaited one)
          MainRes,     \* start: how the awaited operation may end: subset of {"void", "val", "exc", "drop"}
          MainVia,     \* start: how its end reaches start()'s callback: subset of {"direct", "queued"}
          MaxRuns      \* start: start() calls on one scheduler object (2: the object is used again after start() returned)

\* &tag inside the frame of an interval() coroutine (:308): distinct from every client identifier AND unique per
\* generator -- every generator cancels (stop token) only its own sleeps
IntervalId(g) == 10 - g
Gens == {1, 2}
Period(g) == IF g = 1 THEN Interval ELSE Interval2
CB == -2               \* start: the callback_await coroutine of start() (:255/:273) as an entity of the coro_queue

VARIABLES
    heap,      \* _scheduled, the array
    fut,       \* per slot k: [st, tp, sa, co]  st: "free" | "pending"; tp: requested time point;
               \*   sa: clock when scheduled; co: awaiting coroutine (start mode), 0 manual client, -1 interval generator
    nops,      \* number of calls so far
    destroyed, \* ~scheduler ran
    now,       \* the (virtual) clock; constant 0 in manual mode
    gen,       \* manual, interval(): per generator g \in Gens [st, stp]  st: "none" | "sleep" | "yield" | "done";
               \*   stp: stop requested on its token.  The sleep of generator g has fut[k].co = -g
    \* start mode
    rq,        \* coro_queue: FIFO of ready entities (0 = worker coroutine, c >= 1 = client coroutines)
    run,       \* entity that executes now, -1 nobody
    cst,       \* per client coroutine [st: "ready" | "sleep" | "done", wst, wat]: how and when (virtual time)
               \*   its last sleep ended, kept until it suspends again.  wst: "none" | "done" (normal) |
               \*   "canceled" (promise dropped: no value) | "exc" (await_canceled_exception) | "custom" (the
               \*   exception handed to cancel(id,e))
    stop,      \* stps.request_stop() happened (the awaited coroutine finished)
    wpc,       \* worker: "poll" | "wait" | "exit"
    wdl,       \* deadline the worker is about to wait_until
    phase,     \* "manual" | "pre" (awaitable started, worker not yet) | "run" | "returned" | "destroyed" | "hung"
    mres,      \* how the awaited operation ended: "none" (not yet) | "void" (no value: co_await yields void) |
               \*   "val" (a value) | "exc" (an exception) | "drop" (its promise was dropped: await_canceled_exception);
               \*   this is what start() must hand to its caller: return / return the value / rethrow (:260,:278-279)
    runs       \* start() calls on this scheduler object so far

vars == <<heap, fut, nops, destroyed, now, gen, rq, run, cst, stop, wpc, wdl, phase, mres, runs>>

-----------------------------------------------------------------------------
(* Parts 1-2 (the array, the libstdc++ heap algorithms, get_expired_lk, remove) live in SchedHeap.tla *)

-----------------------------------------------------------------------------
(* sleep futures *)

Slots == 1..MaxSleeps
Slots0 == 0..MaxSleeps
Excs == {"exc", "custom"}      \* cancel(id): await_canceled_exception / cancel(id,e): the caller's exception
FreeRec == [st |-> "free", tp |-> 0, sa |-> 0, co |-> 0]
Pending(k) == fut[k].st = "pending"
HasFree == \E k \in Slots : ~Pending(k)
FreeSlot == CHOOSE k \in Slots : ~Pending(k) /\ \A j \in Slots : j < k => Pending(j)
NewFut(f, k, tp, co) == [f EXCEPT ![k] = [st |-> "pending", tp |-> tp, sa |-> now, co |-> co]]
Free(f, k) == IF k = 0 THEN f ELSE [f EXCEPT ![k] = FreeRec]
B(b) == IF b THEN 1 ELSE 0
NoGen == [g \in Gens |-> [st |-> "none", stp |-> FALSE]]
NoWake == [st |-> "ready", wst |-> "none", wat |-> 0]

Live(h) == {i \in 1..Len(h) : h[i].k # 0}
LiveWithId(h, id) == {i \in Live(h) : h[i].id = id}
CanSchedule == HasFree /\ Len(heap) < MaxHeap
AllTps == TPs \cup {Period(g) : g \in {h \in Gens : Period(h) # 0}} \cup {Inf}

Init ==
    /\ heap = <<>> /\ fut = [k \in Slots |-> FreeRec]
    /\ nops = 0 /\ destroyed = FALSE /\ now = 0 /\ gen = NoGen
    /\ stop = FALSE /\ wpc = "poll" /\ wdl = 0 /\ mres = "none" /\ runs = (IF Mode = "manual" THEN 0 ELSE 1)
    /\ IF Mode = "manual"
         THEN /\ rq = <<>> /\ run = -1 /\ cst = <<>> /\ phase = "manual"
         ELSE \* start(awt): the awaited coroutine 1 is started first (callback_await_alloc, :255/:273); it
              \* spawns the others (detach() => appended to the coro_queue) and runs until it suspends.
              /\ rq = [i \in 1..(NC - 1) |-> i + 1] /\ run = 1 /\ cst = [c \in 1..NC |-> NoWake] /\ phase = "pre"

-----------------------------------------------------------------------------
(* Part 3: manual mode -- one client, one action per public call.  The last parameter(s) of every
   action are its OUTPUT (see the head comment). *)

StartUnch == UNCHANGED <<now, rq, run, cst, stop, wpc, wdl, phase, mres, runs>>
CanCall == Mode = "manual" /\ ~destroyed /\ (MaxOps = 0 \/ nops < MaxOps)
(* counts the call.  NOTE: with MaxOps = 0 a call without effect (cancel() -> false, get_expired() ->
   time point) is a SELF LOOP of the state graph; the path cover used by the check (tools/fastcover.py)
   walks self loops, vlib.cover_paths does not. *)
Tick == nops' = (IF MaxOps = 0 THEN nops ELSE nops + 1)

(* the interval generator resumed because its sleep ended: normally -> next = now()+dur; co_yield
   (scheduler.h:319-320) => "yield"; with an exception -> it leaves the loop (:324) => "done" *)
GenAfter(gn, k, st) ==
    IF k # 0 /\ fut[k].co < 0
      THEN [gn EXCEPT ![-fut[k].co].st = IF st = "done" THEN "yield" ELSE "done"]
      ELSE gn

(* a sleep until tp is requested, in any API form: sleep_until(tp,id) :152-156, sleep_for(d,id) with
   now()+d = tp :170-173, schedule(id,promise,tp) :89-97 -- all end in schedule().
   ntf: _cond.notify_all() was called *)
Schedule(tp, id, ntf) ==
    /\ CanCall /\ CanSchedule
    /\ ntf = B(NotifyNeeded(heap, tp))
    /\ heap' = HeapInsert(heap, [tp |-> tp, id |-> id, k |-> FreeSlot])
    /\ fut' = NewFut(fut, FreeSlot, tp, 0)
    /\ UNCHANGED <<destroyed, gen>> /\ StartUnch
    /\ Tick

(* get_expired(now), scheduler.h:107-110.  Output: ("promise", k) -- the client resolves the promise
   it got, the sleep in slot k completes normally -- or ("time", time point) *)
GetExpired(t, kind, v) ==
    /\ CanCall
    /\ LET r == GetExpiredLk(heap, t) IN
        /\ kind = (IF r.k # 0 THEN "promise" ELSE "time")
        /\ v = (IF r.k # 0 THEN r.k ELSE r.next)
        /\ heap' = r.heap
        /\ fut' = Free(fut, r.k)
        /\ gen' = GenAfter(gen, r.k, "done")
    /\ UNCHANGED destroyed /\ StartUnch
    /\ Tick

(* remove(id), scheduler.h:127-139.  Output k: the promise of the sleep in slot k (the client drops it
   => that sleep ends with no value, "canceled"), 0: an empty promise *)
Remove(id, k) ==
    /\ CanCall /\ AllowRemove
    /\ LET r == RemoveLk(heap, id) IN
        /\ k = r.k
        /\ heap' = r.heap
        /\ fut' = Free(fut, r.k)
        /\ gen' = GenAfter(gen, r.k, "canceled")
    /\ UNCHANGED destroyed /\ StartUnch
    /\ Tick

(* cancel(id) :185-187 (x = "exc") / cancel(id,e) :198-205 (x = "custom").  Output k: true, the sleep
   in slot k completed with that exception; 0: false *)
Cancel(id, x, k) ==
    /\ CanCall
    /\ LET r == RemoveLk(heap, id) IN
        /\ k = r.k
        /\ heap' = r.heap
        /\ fut' = Free(fut, r.k)
        /\ gen' = GenAfter(gen, r.k, x)
    /\ UNCHANGED destroyed /\ StartUnch
    /\ Tick

(* interval(dur, token), scheduler.h:306-327, in manual mode; the clock reads 0.  Up to two generators of
   the same scheduler, each made with its own stop token.
   IntervalCall: the client calls generator g (`gen()`): it runs to sleep_until(next, &tag) (:317-318),
   or, when the token is already stopped, leaves the loop and finishes (:316).  Output: notified *)
IntervalCall(g, ntf) ==
    /\ CanCall /\ Period(g) # 0 /\ gen[g].st \in {"none", "yield"}
    /\ IF gen[g].stp
         THEN /\ ntf = 0
              /\ gen' = [gen EXCEPT ![g].st = "done"]
              /\ UNCHANGED <<heap, fut>>
         ELSE /\ CanSchedule
              /\ ntf = B(NotifyNeeded(heap, now + Period(g)))
              /\ heap' = HeapInsert(heap, [tp |-> now + Period(g), id |-> IntervalId(g), k |-> FreeSlot])
              /\ fut' = NewFut(fut, FreeSlot, now + Period(g), -g)
              /\ gen' = [gen EXCEPT ![g].st = "sleep"]
    /\ UNCHANGED destroyed /\ StartUnch
    /\ Tick

(* request_stop() on the token of generator g: the stop callback (:309-311), if the generator has started (the
   callback object lives in its frame), calls cancel(&tag) with ITS tag.  Output k: the slot cancelled or 0 *)
IntervalStop(g, k) ==
    /\ CanCall /\ Period(g) # 0 /\ ~gen[g].stp
    /\ LET r == IF gen[g].st = "none" THEN [heap |-> heap, k |-> 0] ELSE RemoveLk(heap, IntervalId(g)) IN
        /\ k = r.k
        /\ heap' = r.heap
        /\ fut' = Free(fut, r.k)
        /\ gen' = [GenAfter(gen, r.k, "exc") EXCEPT ![g].stp = TRUE]
    /\ UNCHANGED destroyed /\ StartUnch
    /\ Tick

(* ~scheduler with no worker (:330-335): the vector is destroyed, every promise still set is
   dropped => its future becomes ready without a value (a generator sleeping in interval() ends) *)
Destroy ==
    /\ Mode = "manual" /\ ~destroyed
    /\ destroyed' = TRUE
    /\ fut' = [k \in Slots |-> FreeRec]
    /\ heap' = <<>>
    /\ gen' = [g \in Gens |-> IF gen[g].st = "sleep" THEN [gen[g] EXCEPT !.st = "done"] ELSE gen[g]]
    /\ UNCHANGED nops /\ StartUnch

(* a new scheduler (and interval generator, stop source) is constructed: histories continue over
   several lifetimes, and the state graph has no dead end *)
Construct ==
    /\ Mode = "manual" /\ destroyed
    /\ destroyed' = FALSE /\ gen' = NoGen /\ nops' = 0
    /\ UNCHANGED <<heap, fut>> /\ StartUnch

ManualNext ==
    \/ \E tp \in TPs, id \in Ids, ntf \in {0, 1} : Schedule(tp, id, ntf)
    \/ \E t \in Nows : \/ \E k \in Slots : GetExpired(t, "promise", k)
                        \/ \E v \in AllTps : GetExpired(t, "time", v)
    \/ \E id \in CancelIds, k \in Slots0 : Remove(id, k)
    \/ \E id \in CancelIds, x \in Excs, k \in Slots0 : Cancel(id, x, k)
    \/ \E g \in Gens, ntf \in {0, 1} : IntervalCall(g, ntf)
    \/ \E g \in Gens, k \in Slots0 : IntervalStop(g, k)
    \/ Destroy
    \/ Construct

-----------------------------------------------------------------------------
(* Part 4: start(awaitable) in a single thread, virtual time.

   coro_queue is a FIFO (coro_queue.h:57-77); a coroutine that suspends or finishes gives control to
   the head of the queue (flush_queue / pause::await_suspend :233-241); a coroutine made ready by a
   resolved promise is appended (suspend_point::suspend_now, suspend_point.h:129-135).

   NextRun(q, st, ph): who runs after the current entity gave up control, q = queue, st = stop flag.
     - the worker coroutine resumed from `co_await pause()` with the stop flag set leaves its loop
       (:381,:389) and ends: it is skipped here (nothing observable happens);
     - the callback_await coroutine of start() (CB, queued by an awaited future that was resolved by hand,
       see CoFinish) gets its turn: fn keeps the result / std::current_exception() and calls
       stps.request_stop() (:246-253 / :264-271; the worker's stop callback notifies under the lock,
       :375-380), the coroutine ends: folded in here as well -- the stop flag is set from then on;
     - in phase "pre" an empty queue ends the temporary queue of callback_await_alloc; start()
       goes on to install_queue_and_call(worker.detach()) (:257-259): the worker runs. *)
RECURSIVE NextRun(_, _, _)
NextRun(q, st, ph) ==
    IF q = <<>>
      THEN IF ph = "pre" THEN (IF st THEN [run |-> -1, rq |-> <<>>, phase |-> "run", wpc |-> "exit", stop |-> st]
                                     ELSE [run |-> 0, rq |-> <<>>, phase |-> "run", wpc |-> "poll", stop |-> st])
           ELSE [run |-> -1, rq |-> <<>>, phase |-> ph, wpc |-> wpc, stop |-> st]
      ELSE IF Head(q) = CB THEN NextRun(Tail(q), TRUE, ph)
           ELSE IF Head(q) = 0 /\ st THEN [NextRun(Tail(q), st, ph) EXCEPT !.wpc = "exit"]
           ELSE [run |-> Head(q), rq |-> Tail(q), phase |-> ph, wpc |-> wpc, stop |-> st]

Yield(q, st) ==
    LET n == NextRun(q, st, phase) IN
    /\ run' = n.run /\ rq' = n.rq /\ phase' = n.phase /\ wpc' = n.wpc /\ stop' = n.stop

Running(c) == Mode = "start" /\ phase \in {"pre", "run"} /\ run = c
CanCmd == nops < MaxOps
Woken(cs, c, st, at) == [cs EXCEPT ![c] = [st |-> "ready", wst |-> st, wat |-> at]]

(* co_await sched.sleep_until(tp,id): schedule() and suspend *)
CoSleep(c, tp, id, ntf) ==
    /\ Running(c) /\ c >= 1 /\ CanCmd /\ CanSchedule
    /\ ntf = B(NotifyNeeded(heap, tp))
    /\ heap' = HeapInsert(heap, [tp |-> tp, id |-> id, k |-> FreeSlot])
    /\ fut' = NewFut(fut, FreeSlot, tp, c)
    /\ cst' = [cst EXCEPT ![c] = [st |-> "sleep", wst |-> "none", wat |-> 0]]
    /\ Yield(rq, stop)
    /\ nops' = nops + 1
    /\ UNCHANGED <<destroyed, now, gen, wdl, mres, runs>>

(* bool r = sched.cancel(id[,e]): the sleeper is appended to the queue, the caller goes on *)
CoCancel(c, id, x, k) ==
    /\ Running(c) /\ c >= 1 /\ CanCmd
    /\ LET r == RemoveLk(heap, id) IN
        /\ k = r.k
        /\ heap' = r.heap
        /\ fut' = Free(fut, r.k)
        /\ IF r.k # 0
             THEN /\ rq' = Append(rq, fut[r.k].co)
                  /\ cst' = Woken(cst, fut[r.k].co, x, now)
             ELSE UNCHANGED <<rq, cst>>
    /\ nops' = nops + 1
    /\ UNCHANGED <<destroyed, now, gen, run, stop, wpc, wdl, phase, mres, runs>>

(* The coroutine ends.  c >= 2: co_return.  c = 1 is the AWAITED OPERATION of start(awt): it ends in one of
   the ways MainRes allows -- r = "void": co_await awt yields void; "val": it yields a value (start<non-void>,
   :262-279); "exc": it throws (the coroutine ends with an exception / the promise is resolved with one);
   "drop": the promise of the awaited future is dropped (await_canceled_exception) -- and the callback of
   start() (fn, :246-253 / :264-271: keeps the value or std::current_exception(), then stps.request_stop())
   learns it
     via = "direct": at once, by symmetric transfer to the awaiting callback_await coroutine (awt is the
            async<T> coroutine itself or a future<T> fed by it: async.h:221-234);
     via = "queued": the coroutine holds the promise<T> of the awaited future<T> and resolves / drops it by
            hand, discarding the suspend_point: the callback_await coroutine (CB) is appended to the
            coro_queue (suspend_point.h:130-135) and stop is requested only when CB gets its turn (NextRun);
            the worker may poll and other coroutines may run in between.  Before the worker started
            (phase "pre") nothing awaits the future yet: start() finds it ready, the same as "direct". *)
MainEnd(r, via) == r \in MainRes /\ via \in MainVia /\ (r = "drop" => via = "queued")
CoFinish(c, r, via) ==
    /\ Running(c) /\ c >= 1
    /\ IF c = 1 THEN MainEnd(r, via) ELSE (r = "void" /\ via = "direct")
    /\ cst' = [cst EXCEPT ![c] = [st |-> "done", wst |-> "none", wat |-> 0]]
    /\ mres' = (IF c = 1 THEN r ELSE mres)
    /\ LET deferred == c = 1 /\ via = "queued" /\ phase = "run"
           st == stop \/ (c = 1 /\ ~deferred) IN
        Yield(IF deferred THEN Append(rq, CB) ELSE rq, st)
    /\ UNCHANGED <<heap, fut, nops, destroyed, now, gen, wdl, runs>>

(* one turn of worker_coro<false> after `co_await pause()` returned, scheduler.h:388-411:
   lock; now = system_clock::now(); get_expired_lk(now);
   promise -> x() resolves it under the lock: the sleeper is appended to the queue; loop: unlock; pause
   time point -> if coro_queue::can_block() (queue empty) wait_until(x), else loop: unlock; pause.
   Output k: the slot whose sleep completed normally, or 0 *)
WorkerPoll(k) ==
    /\ Running(0) /\ wpc = "poll"
    /\ LET r == GetExpiredLk(heap, now) IN
        /\ k = r.k
        /\ heap' = r.heap
        /\ fut' = Free(fut, r.k)
        /\ IF r.k # 0
             THEN /\ cst' = Woken(cst, fut[r.k].co, "done", now)
                  /\ Yield(rq \o <<fut[r.k].co, 0>>, stop)
                  /\ UNCHANGED wdl
             ELSE /\ UNCHANGED cst
                  /\ IF rq = <<>>
                       THEN /\ wpc' = "wait" /\ wdl' = r.next /\ UNCHANGED <<run, rq, phase, stop>>
                       ELSE /\ Yield(Append(rq, 0), stop) /\ UNCHANGED wdl
    /\ UNCHANGED <<nops, destroyed, now, gen, mres, runs>>

(* _cond.wait_until(lk, x), :407, under virtual time: nobody can notify (single thread), the wait
   ends at its deadline.  wait_until(time_point::max()) never ends: the thread hangs. *)
WorkerWait ==
    /\ Running(0) /\ wpc = "wait"
    /\ IF wdl = Inf
         THEN /\ phase' = "hung" /\ UNCHANGED <<now, wpc>>
         ELSE /\ now' = (IF wdl > now THEN wdl ELSE now) /\ wpc' = "poll" /\ UNCHANGED phase
    /\ UNCHANGED <<heap, fut, nops, destroyed, gen, rq, run, cst, stop, wdl, mres, runs>>

(* the worker ended and the queue drained: install_queue_and_call returns, start() ends (:260 / :278-279).
   Output r: what start() does -- "void": returns; "val": returns the value the awaited operation yielded;
   "exc": rethrows its exception; "drop": throws await_canceled_exception -- exactly how the operation ended *)
StartReturn(r) ==
    /\ Mode = "start" /\ phase = "run" /\ run = -1
    /\ r = mres
    /\ phase' = "returned"
    /\ UNCHANGED <<heap, fut, nops, destroyed, now, gen, rq, run, cst, stop, wpc, wdl, mres, runs>>

(* start(awt2) once more on the same object (":218 it is possible to start scheduler ..."; every start() has
   its own stop source and worker coroutine, the array is shared): sleeps left pending by the previous run
   stay scheduled -- their coroutines are still suspended -- and the new worker serves them together with
   the new ones; the clock goes on; commands are counted on (MaxOps bounds both runs together) *)
StartAgain ==
    /\ Mode = "start" /\ phase = "returned" /\ runs < MaxRuns
    /\ runs' = runs + 1 /\ mres' = "none" /\ stop' = FALSE /\ wpc' = "poll" /\ wdl' = 0
    /\ rq' = <<>> /\ run' = 1 /\ cst' = [cst EXCEPT ![1] = NoWake] /\ phase' = "pre"
    /\ UNCHANGED <<heap, fut, nops, destroyed, now, gen>>

(* ~scheduler after start() returned: sleepers still pending are resumed (inline) with no-value *)
DestroyAfterStart ==
    /\ Mode = "start" /\ phase = "returned"
    /\ phase' = "destroyed" /\ destroyed' = TRUE
    /\ fut' = [k \in Slots |-> FreeRec]
    /\ heap' = <<>>
    /\ cst' = [c \in 1..NC |-> IF cst[c].st = "sleep" THEN [st |-> "done", wst |-> "canceled", wat |-> now]
                                                        ELSE cst[c]]
    /\ UNCHANGED <<nops, now, gen, rq, run, stop, wpc, wdl, mres, runs>>

(* start() is used again with a new scheduler: the state graph has no dead end *)
Restart ==
    /\ Mode = "start" /\ phase = "destroyed"
    /\ nops' = 0 /\ destroyed' = FALSE /\ now' = 0 /\ stop' = FALSE /\ wpc' = "poll" /\ wdl' = 0
    /\ rq' = [i \in 1..(NC - 1) |-> i + 1] /\ run' = 1 /\ cst' = [c \in 1..NC |-> NoWake] /\ phase' = "pre"
    /\ mres' = "none" /\ runs' = 1
    /\ UNCHANGED <<heap, fut, gen>>

StartNext ==
    \/ \E c \in 1..NC, tp \in TPs, id \in Ids, ntf \in {0, 1} : CoSleep(c, tp, id, ntf)
    \/ \E c \in 1..NC, id \in CancelIds, x \in Excs, k \in Slots0 : CoCancel(c, id, x, k)
    \/ \E c \in 1..NC, r \in {"void", "val", "exc", "drop"}, via \in {"direct", "queued"} : CoFinish(c, r, via)
    \/ \E k \in Slots0 : WorkerPoll(k)
    \/ WorkerWait
    \/ \E r \in MainRes : StartReturn(r)
    \/ StartAgain
    \/ DestroyAfterStart
    \/ Restart

Next == ManualNext \/ StartNext

Spec == Init /\ [][Next]_vars /\ WF_vars(Next)

-----------------------------------------------------------------------------
(* Part 5: properties (C12).

   Every call is a deterministic function of the state and its arguments, computed by the operators
   of Part 2 (the action's output parameters are fixed by a guard to what the operator yields).  The
   contract of a call is therefore stated as an invariant "in every reachable state, for every
   argument the call may be given, the result satisfies ..." -- TLC evaluates it once per state
   instead of once per transition -- and what a STEP may change is stated as action properties that
   do not need to know which call the step was. *)

TypeOK ==
    /\ \A i \in 1..Len(heap) : heap[i].k \in Slots0
    /\ \A k \in Slots : fut[k].st \in {"free", "pending"}
    /\ Len(heap) <= MaxHeap

(* the array is a min-heap on the time point at every call boundary *)
HeapWellFormed == IsHeap(heap)

(* a pending sleep owns exactly one entry with a set promise, carrying its time point; a free slot owns
   none: there is never a second promise for a sleep, and no pending sleep is forgotten by the heap *)
LiveMatchesPending ==
    \A k \in Slots :
        LET own == {i \in 1..Len(heap) : heap[i].k = k} IN
        IF Pending(k) THEN Cardinality(own) = 1 /\ \A i \in own : heap[i].tp = fut[k].tp
        ELSE own = {}

(* the slots whose sleep a step completes / creates *)
Completed == {k \in Slots : Pending(k) /\ fut'[k].st = "free"}
Created == {k \in Slots : ~Pending(k) /\ fut'[k].st = "pending"}
LiveEntries(h) == {h[i] : i \in Live(h)}

(* each sleep completes exactly once: a pending sleep changes only by being completed (retired); the
   completing call reports it as its output (by construction of the actions); with LiveMatchesPending
   nothing is left that could complete it a second time.  Only a destructor completes more than one
   sleep in one call; no call both completes and creates. *)
ExactlyOncePerSleep ==
    [][/\ \A k \in Slots : (Pending(k) /\ fut'[k] # fut[k]) => k \in Completed
       /\ destroyed' = destroyed => Cardinality(Completed) <= 1
       /\ Cardinality(Created) <= 1 /\ (Created # {} => Completed = {})]_vars

(* a step touches the set promises of exactly the sleeps it completes or creates: every other pending
   entry stays (same time point, same identifier) -- LiveFrame; and a cancel()/remove() that returns
   false / an empty promise has NO effect beyond shedding emptied entries from the top of the heap *)
LiveFrame ==
    [][/\ \A e \in LiveEntries(heap) : e.k \notin Completed => e \in LiveEntries(heap')
       /\ \A e \in LiveEntries(heap') : e \in LiveEntries(heap) \/ e.k \in Created]_vars
NoEffect == fut' = fut /\ LiveEntries(heap') = LiveEntries(heap) /\ gen' = gen /\ cst' = cst /\ rq' = rq /\ now' = now
CancelFalseNoEffect ==
    [][\A id \in CancelIds :
          (\/ Remove(id, 0)
           \/ \E x \in Excs : Cancel(id, x, 0)
           \/ \E x \in Excs, c \in 1..NC : CoCancel(c, id, x, 0)) => NoEffect]_vars

(* the `now` values get_expired_lk can be called with in this state *)
CallNows == IF Mode = "manual" THEN Nows ELSE {now}

(* a sleep never completes normally before its time point (only get_expired_lk completes normally) *)
NeverEarly ==
    \A t \in CallNows : LET r == GetExpiredLk(heap, t) IN r.k # 0 => (Pending(r.k) /\ fut[r.k].tp <= t)

(* a normal completion takes a sleep with the minimal time point among all sleeps pending at that
   moment (with equal time points: whichever the heap surfaces -- the array order decides) *)
Earliest(k) == \A j \in Slots : Pending(j) => fut[k].tp <= fut[j].tp
DeadlineOrder ==
    \A t \in CallNows : LET r == GetExpiredLk(heap, t) IN r.k # 0 => Earliest(r.k)

(* get_expired(now) hands out a promise whenever a pending sleep is due (tp <= now), otherwise the
   earliest pending time point (max() when nothing is pending) *)
PendingTps == {fut[k].tp : k \in {j \in Slots : Pending(j)}}
MinOf(S) == IF S = {} THEN Inf ELSE CHOOSE m \in S : \A n \in S : m <= n
PromptManual ==
    \A t \in CallNows : LET r == GetExpiredLk(heap, t) IN
        /\ (r.k # 0) <=> (\E p \in PendingTps : p <= t)
        /\ r.k = 0 => r.next = MinOf(PendingTps)

(* cancel(id[,e]) / remove(id) report true / a promise iff an entry with a set promise carries id, and
   then hit exactly one such sleep (the actions complete exactly the slot the operator returns, with
   exactly the requested exception) *)
CancelHitsOne ==
    \A id \in CancelIds \cup {IntervalId(g) : g \in Gens} :
        LET r == RemoveLk(heap, id)
            cand == {heap[i].k : i \in LiveWithId(heap, id)}
        IN /\ (r.k # 0) <=> (cand # {})
           /\ r.k # 0 => r.k \in cand

(* schedule() notifies the condition variable iff the new entry is the new earliest deadline *)
NotifyWhenEarliest ==
    \A tp \in AllTps : NotifyNeeded(heap, tp) <=> (\A i \in 1..Len(heap) : tp < heap[i].tp)

(* sleeps pending at destruction are cancelled rather than left hanging *)
DestroyCancelsPending ==
    [][(destroyed' /\ ~destroyed) => Completed = {k \in Slots : Pending(k)}]_vars
NothingAfterDestroy == destroyed => heap = <<>> /\ \A k \in Slots : ~Pending(k)

(* interval(): the generator sleeps iff its sleep is pending; a stop request never leaves it parked
   in a sleep (that would hang whoever awaits it) *)
IntervalConsistent ==
    \A g \in Gens :
      /\ (gen[g].st = "sleep") <=> (\E k \in Slots : Pending(k) /\ fut[k].co = -g)
      /\ Cardinality({k \in Slots : Pending(k) /\ fut[k].co = -g}) <= 1
      /\ gen[g].stp => gen[g].st # "sleep"
      \* the identifier of a generator's sleeps is its own: nobody else's entry carries it
      /\ \A i \in Live(heap) : (heap[i].id = IntervalId(g)) <=> (fut[heap[i].k].co = -g)
(* cancellation through a stop token hits exactly its target: the stopped generator's pending sleep (if it
   sleeps) is completed and that generator ends; the other generator is not touched -- it keeps sleeping until
   its own deadline / yields / is stopped through its own token *)
StopHitsOwn ==
    [][\A g \in Gens : (gen'[g].stp /\ ~gen[g].stp) =>
          /\ \A h \in Gens \ {g} : gen'[h] = gen[h]
          /\ Completed = {k \in Slots : Pending(k) /\ fut[k].co = -g}]_vars

(* start mode ------------------------------------------------------------ *)

(* under virtual time a sleeper is woken exactly at its time point (at once if it was already past) *)
PromptWhenIdle ==
    (Running(0) /\ wpc = "poll") =>
        LET r == GetExpiredLk(heap, now) IN
        r.k # 0 => now = (IF fut[r.k].tp > fut[r.k].sa THEN fut[r.k].tp ELSE fut[r.k].sa)

(* ... and the sleeper sees that time when it runs: the clock does not move while somebody is ready *)
ClockStandsWhileReady ==
    [][(now' # now /\ phase # "destroyed") => (rq = <<>> /\ run = 0 /\ \A c \in 1..NC : cst[c].st # "ready")]_vars

(* the clock never runs past a pending deadline *)
NoOversleep ==
    (Mode = "start" /\ phase \in {"pre", "run"}) =>
      \A k \in Slots : Pending(k) => (now <= fut[k].tp \/ now = fut[k].sa)

(* a sleeping coroutine sleeps on exactly one pending future; a ready one is queued or runs *)
CoroConsistent ==
    (Mode = "start" /\ phase \in {"pre", "run"}) =>
      /\ \A c \in 1..NC :
          /\ Cardinality({k \in Slots : Pending(k) /\ fut[k].co = c}) = (IF cst[c].st = "sleep" THEN 1 ELSE 0)
          /\ Cardinality({i \in 1..Len(rq) : rq[i] = c}) + (IF run = c THEN 1 ELSE 0)
                = (IF cst[c].st = "ready" THEN 1 ELSE 0)
      /\ (phase = "run" /\ wpc # "exit") => Cardinality({i \in 1..Len(rq) : rq[i] = 0}) + (IF run = 0 THEN 1 ELSE 0) = 1

(* start() returns only after the awaited coroutine finished; the worker leaves only when stopped *)
ReturnsWhenFinished ==
    /\ phase \in {"returned", "destroyed"} => (cst[1].st = "done" /\ stop /\ wpc = "exit")
    /\ (Mode = "start" /\ wpc = "exit") => stop
    /\ (phase = "run" /\ run = -1) => wpc = "exit"
NoHang == phase # "hung"

(* ... and it does return (and the scheduler can be destroyed) *)
StartTerminates == Mode = "start" => []<>(phase = "destroyed")

(* start() tells its caller exactly how the awaited operation ended: the operation has ended iff its result is
   recorded; stop is requested only because it ended; a recorded result changes only when start() is called
   again; while start() runs the result is never lost -- either stop was requested (fn has it) or the
   callback_await coroutine is queued exactly once and will deliver it (StartReturn(r) has r = mres as its
   output, the replay compares it with what the real start() returned / threw) *)
CbCount == Cardinality({i \in 1..Len(rq) : rq[i] = CB})
MainOutcome ==
    Mode = "start" =>
      /\ (mres # "none") <=> (cst[1].st = "done")
      /\ stop => mres # "none"
      /\ phase \in {"returned", "destroyed"} => mres \in MainRes
      /\ CbCount <= 1 /\ run # CB
      /\ CbCount = 1 => (mres # "none" /\ ~stop /\ phase = "run")
      /\ (mres # "none" /\ phase \in {"pre", "run"}) => (stop \/ CbCount = 1)
      /\ runs \in 1..MaxRuns
ResultStable == [][(mres # "none" /\ mres' # mres) => (mres' = "none" /\ phase' = "pre")]_vars

=============================================================================
