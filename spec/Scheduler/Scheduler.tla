----------------------------- MODULE Scheduler -----------------------------
(***************************************************************************)
(* cocls::scheduler (src/cocls/scheduler.h) -- the timer scheduler.        *)
(*                                                                         *)
(* Part 1  the heap `_scheduled` AS THE ARRAY THE CODE KEEPS               *)
(*         (std::vector<SchItem>, scheduler.h:339-354) with                *)
(*         std::push_heap / std::pop_heap of libstdc++ (bits/stl_heap.h)   *)
(*         modelled move by move, because remove()'s find_if and the       *)
(*         "top of the heap" loops depend on the array order.  These are   *)
(*         pure operators over explicit arguments (no state variables) so  *)
(*         that other modes (worker thread, thread pool) can reuse them.   *)
(* Part 2  the two regions the code runs under `_mx`: get_expired_lk       *)
(*         (:415-425) and remove (:127-139), again as pure operators.      *)
(* Part 3  Mode = "manual": one action per public call of a single client  *)
(*         schedule/sleep_until, get_expired, remove, cancel, ~scheduler,  *)
(*         and interval() driven through a stop token.                     *)
(* Part 4  Mode = "start": start(awaitable) in one thread (:228-282):      *)
(*         worker_coro<false> (:370-413) + coro_queue (FIFO of ready       *)
(*         coroutines) + _cond.wait_until under a VIRTUAL clock.  One      *)
(*         thread, cooperative: the only nondeterminism is the program the *)
(*         coroutines execute, which is chosen lazily (next command picked *)
(*         in the action).                                                 *)
(* Part 5  properties (C12).                                               *)
(*                                                                         *)
(* A heap entry is [tp, id, k]: time point, identifier (0 = nullptr) and   *)
(* the number of the sleep future its promise points to; k = 0 means the   *)
(* promise was moved out (cancel/remove through find_if): an "empty        *)
(* promise" entry that stays in the array until it surfaces.               *)
(***************************************************************************)
EXTENDS Integers, Sequences, FiniteSets, TLC

CONSTANTS Mode,        \* "manual" | "start"
          TPs,         \* time points passed to schedule()/sleep_until()
          Nows,        \* manual: values of `now` passed to get_expired()
          Ids,         \* identifiers passed to schedule(); 0 is nullptr
          CancelIds,   \* identifiers passed to cancel()/remove()
          MaxSleeps,   \* bound: number of sleep futures created
          MaxOps,      \* manual: bound on the number of calls (0: unbounded, the graph is finite anyway)
          MaxCancels,  \* start: bound on the number of cancel() calls
          TrackAt,     \* manual: record in the future the `now` at which it completed (ghost)
          AllowRemove, \* manual: remove() calls are generated
          Interval,    \* manual: 0 = no interval generator, else its period (uses identifier IntervalId)
          NC           \* start: number of coroutines (1 = the awaited one)

Inf == 1000            \* std::chrono::system_clock::time_point::max()
IntervalId == 9        \* &tag inside the interval() coroutine frame: distinct from every client identifier

VARIABLES
    heap,      \* _scheduled, the array
    fut,       \* per sleep future k: [st, tp, at, sa, co]
               \*   st: "pending" | "done" | "canceled" (promise dropped: no value) | "exc" (await_canceled_exception)
               \*       | "custom" (the exception handed to cancel(id,e))
               \*   tp: requested time point; at: `now` at which it completed normally; sa: clock when scheduled
               \*   co: coroutine that awaits it (start mode), 0 in manual mode, -1 the interval generator
    ret,       \* result of the last call: [kind, v]
    nops,      \* number of calls so far (manual) / cancel calls (start)
    destroyed, \* ~scheduler ran
    now,       \* the (virtual) clock; constant 0 in manual mode
    gen,       \* manual, interval(): [st, stop, n]  st: "none" | "fresh" | "sleep" | "yield" | "done"
    \* start mode
    rq,        \* coro_queue: FIFO of ready entities (0 = worker coroutine, c >= 1 = client coroutines)
    run,       \* entity that executes now, -1 nobody
    cst,       \* per client coroutine "ready" | "sleep" | "done"
    stop,      \* stps.request_stop() happened (the awaited coroutine finished)
    wpc,       \* worker: "poll" | "wait" | "exit"
    wdl,       \* deadline the worker is about to wait_until
    phase      \* "manual" | "pre" (awaitable started, worker not yet) | "run" | "returned" | "destroyed" | "hung"

vars == <<heap, fut, ret, nops, destroyed, now, gen, rq, run, cst, stop, wpc, wdl, phase>>

-----------------------------------------------------------------------------
(* Part 1: the array and the libstdc++ heap algorithms.  Indices are the   *)
(* code's 0-based ones; every access is bound-checked (NoCrash).           *)

At(h, i) == IF i >= 0 /\ i < Len(h) THEN h[i + 1]
            ELSE Assert(FALSE, <<"NoCrash: vector index out of bounds", i, "size", Len(h)>>)
Put(h, i, e) == IF i >= 0 /\ i < Len(h) THEN [h EXCEPT ![i + 1] = e]
                ELSE Assert(FALSE, <<"NoCrash: vector store out of bounds", i, "size", Len(h)>>)

(* C++ integer division truncates toward zero *)
CDiv(a, b) == IF a >= 0 THEN a \div b ELSE -((-a) \div b)

(* scheduler::compare_item, scheduler.h:361-363 *)
Comp(a, b) == a.tp > b.tp

(* std::__push_heap(first, holeIndex, topIndex, value, comp), stl_heap.h:135-147 *)
RECURSIVE SiftUp(_, _, _, _)
SiftUp(h, hole, top, v) ==
    IF hole > top /\ Comp(At(h, CDiv(hole - 1, 2)), v)
      THEN SiftUp(Put(h, hole, At(h, CDiv(hole - 1, 2))), CDiv(hole - 1, 2), top, v)
      ELSE Put(h, hole, v)

(* std::push_heap(begin, end, comp): the new element is the last one, stl_heap.h:198-215 *)
PushHeap(h) == SiftUp(h, Len(h) - 1, 0, At(h, Len(h) - 1))

(* first loop of std::__adjust_heap, stl_heap.h:224-232: the hole walks down to a leaf, always taking
   the right child unless comp(right, left), i.e. unless right.tp > left.tp *)
RECURSIVE HoleDown(_, _, _)
HoleDown(h, hole, len) ==
    IF hole < CDiv(len - 1, 2)
      THEN LET r == 2 * (hole + 1)
               c == IF Comp(At(h, r), At(h, r - 1)) THEN r - 1 ELSE r
           IN HoleDown(Put(h, hole, At(h, c)), c, len)
      ELSE [h |-> h, hole |-> hole]

(* std::__adjust_heap(first, holeIndex, len, value, comp), stl_heap.h:217-246 *)
AdjustHeap(h, hole0, len, v) ==
    LET d == HoleDown(h, hole0, len)
        e == IF len % 2 = 0 /\ d.hole = CDiv(len - 2, 2)
               THEN [h |-> Put(d.h, d.hole, At(d.h, 2 * (d.hole + 1) - 1)), hole |-> 2 * (d.hole + 1) - 1]
               ELSE d
    IN SiftUp(e.h, e.hole, hole0, v)

(* std::pop_heap(begin, end, comp), stl_heap.h:318-336 + __pop_heap :248-267 *)
PopHeap(h) ==
    LET n == Len(h) IN
    IF n > 1 THEN AdjustHeap(Put(h, n - 1, At(h, 0)), 0, n - 1, At(h, n - 1)) ELSE h

(* scheduler::pop_item, scheduler.h:365-368: pop_heap + pop_back *)
PopItem(h) ==
    IF Len(h) = 0 THEN Assert(FALSE, "NoCrash: pop_back on an empty vector")
    ELSE SubSeq(PopHeap(h), 1, Len(h) - 1)

(* schedule(): push_back + push_heap, scheduler.h:92-93 *)
HeapInsert(h, e) == PushHeap(Append(h, e))

(* schedule(): `ntf`, scheduler.h:91 -- the condition variable is notified iff the new entry
   becomes the earliest deadline (strictly) or the heap was empty *)
NotifyNeeded(h, tp) == Len(h) = 0 \/ At(h, 0).tp > tp

IsHeap(h) == \A i \in 1..(Len(h) - 1) : ~Comp(h[CDiv(i - 1, 2) + 1], h[i + 1])

-----------------------------------------------------------------------------
(* Part 2: the regions under _mx *)

(* get_expired_lk(now), scheduler.h:415-425.  Result: the array afterwards, k = the promise returned
   (0: none), tp = its time point, next = the time point returned when no promise is. *)
RECURSIVE GetExpiredLk(_, _)
GetExpiredLk(h, t) ==
    IF Len(h) > 0 /\ (At(h, 0).tp <= t \/ At(h, 0).k = 0)
      THEN LET top == At(h, 0)
               h2 == PopItem(h)
           IN IF top.k # 0 THEN [heap |-> h2, k |-> top.k, tp |-> top.tp, next |-> 0]
              ELSE GetExpiredLk(h2, t)
      ELSE [heap |-> h, k |-> 0, tp |-> 0, next |-> IF Len(h) = 0 THEN Inf ELSE At(h, 0).tp]

(* remove(id), scheduler.h:127-139: matching entries on top are popped (an emptied one is skipped,
   :129-133); otherwise find_if returns the FIRST entry IN ARRAY ORDER with that identifier whose
   promise is still set (:134-136); its promise is moved out and the entry stays (:138). *)
RECURSIVE RemoveLk(_, _)
RemoveLk(h, id) ==
    IF Len(h) > 0 /\ At(h, 0).id = id
      THEN LET top == At(h, 0)
               h2 == PopItem(h)
           IN IF top.k # 0 THEN [heap |-> h2, k |-> top.k] ELSE RemoveLk(h2, id)
      ELSE LET hits == {i \in 0..(Len(h) - 1) : At(h, i).id = id /\ At(h, i).k # 0} IN
           IF hits = {} THEN [heap |-> h, k |-> 0]
           ELSE LET i == CHOOSE j \in hits : \A l \in hits : j <= l
                IN [heap |-> Put(h, i, [At(h, i) EXCEPT !.k = 0]), k |-> At(h, i).k]

-----------------------------------------------------------------------------
(* futures *)

NewFut(tp, co) == [st |-> "pending", tp |-> tp, at |-> 0, sa |-> now, co |-> co]
Resolve(f, k, st, t) == [f EXCEPT ![k] = [@ EXCEPT !.st = st, !.at = t]]
R(kind, v) == [kind |-> kind, v |-> v]
NoGen == [st |-> "none", stp |-> FALSE]

Live(h) == {i \in 1..Len(h) : h[i].k # 0}
LiveWithId(h, id) == {i \in Live(h) : h[i].id = id}

Init ==
    /\ heap = <<>> /\ fut = <<>> /\ ret = R("none", 0) /\ nops = 0 /\ destroyed = FALSE /\ now = 0
    /\ gen = NoGen
    /\ stop = FALSE /\ wpc = "poll" /\ wdl = 0
    /\ IF Mode = "manual"
         THEN /\ rq = <<>> /\ run = -1 /\ cst = <<>> /\ phase = "manual"
         ELSE \* start(awt): the awaited coroutine 1 is started first (callback_await_alloc, :255/:273); it
              \* spawns the others (detach() => appended to the coro_queue) and runs until it suspends.
              /\ rq = [i \in 1..(NC - 1) |-> i + 1] /\ run = 1 /\ cst = [c \in 1..NC |-> "ready"] /\ phase = "pre"

-----------------------------------------------------------------------------
(* Part 3: manual mode -- one client, one action per public call *)

StartUnch == UNCHANGED <<now, rq, run, cst, stop, wpc, wdl, phase>>
CanCall == Mode = "manual" /\ ~destroyed /\ (MaxOps = 0 \/ nops < MaxOps)
Tick == nops' = IF MaxOps = 0 THEN nops ELSE nops + 1

(* sleep_until(tp,id) -> schedule(), scheduler.h:89-97,152-156 *)
Schedule(tp, id) ==
    /\ CanCall /\ Len(fut) < MaxSleeps
    /\ heap' = HeapInsert(heap, [tp |-> tp, id |-> id, k |-> Len(fut) + 1])
    /\ fut' = Append(fut, NewFut(tp, 0))
    /\ ret' = R("sched", IF NotifyNeeded(heap, tp) THEN 1 ELSE 0)
    /\ Tick
    /\ UNCHANGED <<destroyed, gen>> /\ StartUnch

(* the interval generator resumed because its sleep completed normally, scheduler.h:319-320:
   next = now()+dur; co_yield => its caller's future gets a value *)
GenAfter(g, k, st) ==
    IF k # 0 /\ fut[k].co = -1
      THEN IF st = "done" THEN [g EXCEPT !.st = "yield"]      \* co_yield counter
           ELSE [g EXCEPT !.st = "done"]                       \* exception leaves the loop (:324) or is propagated
      ELSE g

(* get_expired(now), scheduler.h:107-110; the client resolves the promise it got *)
GetExpired(t) ==
    /\ CanCall
    /\ LET r == GetExpiredLk(heap, t) IN
        /\ heap' = r.heap
        /\ IF r.k # 0
             THEN /\ fut' = Resolve(fut, r.k, "done", IF TrackAt THEN t ELSE 0)
                  /\ ret' = R("promise", r.k)
                  /\ gen' = GenAfter(gen, r.k, "done")
             ELSE /\ ret' = R("time", r.next)
                  /\ UNCHANGED <<fut, gen>>
    /\ Tick
    /\ UNCHANGED destroyed /\ StartUnch

(* remove(id), scheduler.h:127-139; the client drops the promise it got => no-value *)
Remove(id) ==
    /\ CanCall /\ AllowRemove
    /\ LET r == RemoveLk(heap, id) IN
        /\ heap' = r.heap
        /\ IF r.k # 0
             THEN /\ fut' = Resolve(fut, r.k, "canceled", 0)
                  /\ ret' = R("removed", r.k)
                  /\ gen' = GenAfter(gen, r.k, "canceled")
             ELSE /\ ret' = R("empty", 0)
                  /\ UNCHANGED <<fut, gen>>
    /\ Tick
    /\ UNCHANGED destroyed /\ StartUnch

(* cancel(id) :185-187 (x = "exc": await_canceled_exception) / cancel(id,e) :198-205 (x = "custom") *)
Cancel(id, x) ==
    /\ CanCall
    /\ LET r == RemoveLk(heap, id) IN
        /\ heap' = r.heap
        /\ IF r.k # 0
             THEN /\ fut' = Resolve(fut, r.k, x, 0)
                  /\ ret' = R("true", 0)
                  /\ gen' = GenAfter(gen, r.k, x)
             ELSE /\ ret' = R("false", 0)
                  /\ UNCHANGED <<fut, gen>>
    /\ Tick
    /\ UNCHANGED destroyed /\ StartUnch

(* interval(dur, token), scheduler.h:306-327, in manual mode; the clock reads 0.
   IntervalCall: the client calls the generator (`gen()`): it runs to sleep_until(next, &tag) (:317-318),
   or, when the token is already stopped, leaves the loop and finishes (:316). *)
IntervalCall ==
    /\ CanCall /\ Interval # 0 /\ gen.st \in {"none", "yield"}
    /\ IF gen.stp
         THEN /\ gen' = [gen EXCEPT !.st = "done"]
              /\ ret' = R("gen", 0)
              /\ UNCHANGED <<heap, fut>>
         ELSE /\ Len(fut) < MaxSleeps
              /\ heap' = HeapInsert(heap, [tp |-> now + Interval, id |-> IntervalId, k |-> Len(fut) + 1])
              /\ fut' = Append(fut, NewFut(now + Interval, -1))
              /\ gen' = [gen EXCEPT !.st = "sleep"]
              /\ ret' = R("gen", IF NotifyNeeded(heap, now + Interval) THEN 1 ELSE 0)
    /\ Tick
    /\ UNCHANGED destroyed /\ StartUnch

(* request_stop() on the token: the stop callback (:309-311) calls cancel(&tag) *)
IntervalStop ==
    /\ CanCall /\ Interval # 0 /\ ~gen.stp /\ gen.st # "none"
    /\ LET r == RemoveLk(heap, IntervalId) IN
        /\ heap' = r.heap
        /\ IF r.k # 0
             THEN /\ fut' = Resolve(fut, r.k, "exc", 0)
                  /\ gen' = [GenAfter(gen, r.k, "exc") EXCEPT !.stp = TRUE]
                  /\ ret' = R("stop", 1)
             ELSE /\ gen' = [gen EXCEPT !.stp = TRUE]
                  /\ ret' = R("stop", 0)
                  /\ UNCHANGED fut
    /\ Tick
    /\ UNCHANGED destroyed /\ StartUnch

(* ~scheduler with no worker (:330-335): the vector is destroyed, every promise still set is
   dropped => its future becomes ready without a value *)
DropAll(f) == [k \in 1..Len(f) |-> IF f[k].st = "pending" THEN [f[k] EXCEPT !.st = "canceled"] ELSE f[k]]

Destroy ==
    /\ Mode = "manual" /\ ~destroyed
    /\ gen.st # "sleep"       \* the generator must be destroyed parked on co_yield (documented, :301)
    /\ destroyed' = TRUE
    /\ fut' = DropAll(fut)
    /\ heap' = <<>>
    /\ ret' = R("none", 0)
    /\ UNCHANGED <<nops, gen>> /\ StartUnch

ManualNext ==
    \/ \E tp \in TPs, id \in Ids : Schedule(tp, id)
    \/ \E t \in Nows : GetExpired(t)
    \/ \E id \in CancelIds : Remove(id)
    \/ \E id \in CancelIds, x \in {"exc", "custom"} : Cancel(id, x)
    \/ IntervalCall
    \/ IntervalStop
    \/ Destroy

-----------------------------------------------------------------------------
(* Part 4: start(awaitable) in a single thread, virtual time.

   coro_queue is a FIFO (coro_queue.h:57-77); a coroutine that suspends or finishes gives control to
   the head of the queue (flush_queue / pause::await_suspend :233-241); a coroutine made ready by a
   resolved promise is appended (suspend_point::suspend_now, suspend_point.h:129-135).

   Next(q, st, ph): who runs after the current entity gave up control, q = queue, st = stop flag.
     - the worker coroutine resumed from `co_await pause()` with the stop flag set leaves its loop
       (:381,:389) and ends: it is skipped here (nothing observable happens);
     - in phase "pre" an empty queue ends the temporary queue of callback_await_alloc; start()
       goes on to install_queue_and_call(worker.detach()) (:257-259): the worker runs. *)
RECURSIVE NextRun(_, _, _)
NextRun(q, st, ph) ==
    IF q = <<>>
      THEN IF ph = "pre" THEN (IF st THEN [run |-> -1, rq |-> <<>>, phase |-> "run", wpc |-> "exit"]
                                     ELSE [run |-> 0, rq |-> <<>>, phase |-> "run", wpc |-> "poll"])
           ELSE [run |-> -1, rq |-> <<>>, phase |-> ph, wpc |-> IF ph = "run" THEN "exit" ELSE wpc]
      ELSE IF Head(q) = 0 /\ st THEN LET n == NextRun(Tail(q), st, ph) IN [n EXCEPT !.wpc = "exit"]
           ELSE [run |-> Head(q), rq |-> Tail(q), phase |-> ph, wpc |-> wpc]

Yield(q, st) ==
    LET n == NextRun(q, st, phase) IN
    /\ run' = n.run /\ rq' = n.rq /\ phase' = n.phase /\ wpc' = n.wpc

Running(c) == Mode = "start" /\ phase \in {"pre", "run"} /\ run = c

(* co_await sched.sleep_until(tp,id): schedule() and suspend *)
CoSleep(c, tp, id) ==
    /\ Running(c) /\ c >= 1 /\ Len(fut) < MaxSleeps
    /\ heap' = HeapInsert(heap, [tp |-> tp, id |-> id, k |-> Len(fut) + 1])
    /\ fut' = Append(fut, NewFut(tp, c))
    /\ ret' = R("sched", IF NotifyNeeded(heap, tp) THEN 1 ELSE 0)
    /\ cst' = [cst EXCEPT ![c] = "sleep"]
    /\ Yield(rq, stop)
    /\ UNCHANGED <<nops, destroyed, now, gen, stop, wdl>>

(* bool r = sched.cancel(id[,e]): the sleeper is appended to the queue, the caller goes on *)
CoCancel(c, id, x) ==
    /\ Running(c) /\ c >= 1 /\ nops < MaxCancels
    /\ LET r == RemoveLk(heap, id) IN
        /\ heap' = r.heap
        /\ IF r.k # 0
             THEN /\ fut' = Resolve(fut, r.k, x, 0)
                  /\ ret' = R("true", 0)
                  /\ rq' = Append(rq, fut[r.k].co)
                  /\ cst' = [cst EXCEPT ![fut[r.k].co] = "ready"]
             ELSE /\ ret' = R("false", 0)
                  /\ UNCHANGED <<fut, rq, cst>>
    /\ nops' = nops + 1
    /\ UNCHANGED <<destroyed, now, gen, run, stop, wpc, wdl, phase>>

(* co_return; for the awaited coroutine (1) the callback of start() runs at once (symmetric transfer
   to the awaiting callback_await coroutine, async.h:229-241) and calls stps.request_stop() (:252,:270) *)
CoFinish(c) ==
    /\ Running(c) /\ c >= 1
    /\ cst' = [cst EXCEPT ![c] = "done"]
    /\ stop' = (stop \/ c = 1)
    /\ Yield(rq, stop \/ c = 1)
    /\ ret' = R("none", 0)
    /\ UNCHANGED <<heap, fut, nops, destroyed, now, gen, wdl>>

(* one turn of worker_coro<false> after `co_await pause()` returned, scheduler.h:388-411:
   lock; now = system_clock::now(); get_expired_lk(now);
   promise -> x() resolves it under the lock: the sleeper is appended to the queue; loop: unlock; pause
   time point -> if coro_queue::can_block() (queue empty) wait_until(x), else loop: unlock; pause *)
WorkerPoll ==
    /\ Running(0) /\ wpc = "poll"
    /\ LET r == GetExpiredLk(heap, now) IN
        /\ heap' = r.heap
        /\ IF r.k # 0
             THEN /\ fut' = Resolve(fut, r.k, "done", now)
                  /\ cst' = [cst EXCEPT ![fut[r.k].co] = "ready"]
                  /\ Yield(rq \o <<fut[r.k].co, 0>>, stop)
                  /\ UNCHANGED wdl
             ELSE /\ UNCHANGED <<fut, cst>>
                  /\ IF rq = <<>>
                       THEN /\ wpc' = "wait" /\ wdl' = r.next /\ UNCHANGED <<run, rq, phase>>
                       ELSE /\ Yield(Append(rq, 0), stop) /\ UNCHANGED wdl
    /\ UNCHANGED <<ret, nops, destroyed, now, gen, stop>>

(* _cond.wait_until(lk, x), :407, under virtual time: nobody can notify (single thread), the wait
   ends at its deadline.  wait_until(time_point::max()) never ends: the thread hangs. *)
WorkerWait ==
    /\ Running(0) /\ wpc = "wait"
    /\ IF wdl = Inf
         THEN /\ phase' = "hung" /\ UNCHANGED <<now, wpc>>
         ELSE /\ now' = (IF wdl > now THEN wdl ELSE now) /\ wpc' = "poll" /\ UNCHANGED phase
    /\ UNCHANGED <<heap, fut, ret, nops, destroyed, gen, rq, run, cst, stop, wdl>>

(* the worker ended and the queue drained: install_queue_and_call returns, start() returns (:260,:279) *)
StartReturn ==
    /\ Mode = "start" /\ phase = "run" /\ run = -1
    /\ phase' = "returned"
    /\ UNCHANGED <<heap, fut, ret, nops, destroyed, now, gen, rq, run, cst, stop, wpc, wdl>>

(* ~scheduler after start() returned: sleepers still pending are resumed (inline) with no-value *)
DestroyAfterStart ==
    /\ Mode = "start" /\ phase = "returned"
    /\ phase' = "destroyed" /\ destroyed' = TRUE
    /\ fut' = DropAll(fut)
    /\ heap' = <<>>
    /\ cst' = [c \in 1..NC |-> "done"]
    /\ ret' = R("none", 0)
    /\ UNCHANGED <<nops, now, gen, rq, run, stop, wpc, wdl>>

StartNext ==
    \/ \E c \in 1..NC, tp \in TPs, id \in Ids : CoSleep(c, tp, id)
    \/ \E c \in 1..NC, id \in CancelIds, x \in {"exc", "custom"} : CoCancel(c, id, x)
    \/ \E c \in 1..NC : CoFinish(c)
    \/ WorkerPoll
    \/ WorkerWait
    \/ StartReturn
    \/ DestroyAfterStart

Next == ManualNext \/ StartNext

Spec == Init /\ [][Next]_vars /\ WF_vars(Next)

-----------------------------------------------------------------------------
(* Part 5: properties (C12) *)

FutStates == {"pending", "done", "canceled", "exc", "custom"}

TypeOK ==
    /\ \A i \in 1..Len(heap) : heap[i].k \in 0..Len(fut)
    /\ \A k \in 1..Len(fut) : fut[k].st \in FutStates
    /\ Len(fut) <= MaxSleeps

(* the array is a min-heap on the time point at every call boundary *)
HeapWellFormed == IsHeap(heap)

(* a pending sleep owns exactly one entry with a set promise, with its time point; a completed one owns none *)
LiveMatchesPending ==
    \A k \in 1..Len(fut) :
        LET own == {i \in 1..Len(heap) : heap[i].k = k} IN
        IF fut[k].st = "pending" /\ ~destroyed
          THEN Cardinality(own) = 1 /\ \A i \in own : heap[i].tp = fut[k].tp
          ELSE own = {}

(* a sleep never completes (normally) before its time point *)
NeverEarly == (Mode = "start" \/ TrackAt) => \A k \in 1..Len(fut) : fut[k].st = "done" => fut[k].at >= fut[k].tp
(* the same on the step that completes it (needs no ghost): only get_expired(now) / the worker's poll
   complete a sleep normally, and only with tp <= now *)
NeverEarlyStep ==
    [][\A k \in 1..Len(fut) : (fut[k].st = "pending" /\ fut'[k].st = "done") =>
          \/ \E t \in Nows : GetExpired(t) /\ fut[k].tp <= t
          \/ WorkerPoll /\ fut[k].tp <= now]_vars

(* each sleep future changes state at most once, and futures are never forgotten *)
ExactlyOncePerSleep ==
    [][/\ Len(fut') >= Len(fut)
       /\ \A k \in 1..Len(fut) : fut[k].st # "pending" => fut'[k] = fut[k]
       /\ \A k \in 1..Len(fut) : fut'[k].tp = fut[k].tp /\ fut'[k].co = fut[k].co]_vars

(* only a destructor completes more than one sleep in one call *)
OnePerCall ==
    [][destroyed' = destroyed => Cardinality({k \in 1..Len(fut) : fut'[k] # fut[k]}) <= 1]_vars

(* a normal completion takes a sleep with the minimal time point among all sleeps pending at that
   moment (with equal time points: whichever the heap surfaces -- the array order decides) *)
DeadlineOrder ==
    [][\A k \in 1..Len(fut) : (fut[k].st = "pending" /\ fut'[k].st = "done") =>
          \A j \in 1..Len(fut) : fut[j].st = "pending" => fut[k].tp <= fut[j].tp]_vars

(* manual mode: get_expired(now) hands out a promise whenever a pending sleep is due (tp <= now),
   otherwise the earliest pending time point (max() when nothing is pending) *)
PendingTps == {fut[k].tp : k \in {j \in 1..Len(fut) : fut[j].st = "pending"}}
MinOf(S) == IF S = {} THEN Inf ELSE CHOOSE m \in S : \A n \in S : m <= n
PromptManual ==
    [][\A t \in Nows : GetExpired(t) =>
          /\ (ret'.kind = "promise") <=> (\E p \in PendingTps : p <= t)
          /\ ret'.kind = "promise" => fut[ret'.v].st = "pending" /\ fut'[ret'.v].st = "done" /\ (TrackAt => fut'[ret'.v].at = t)
          /\ ret'.kind = "time" => ret'.v = MinOf(PendingTps) /\ fut' = fut]_vars

(* cancel(id[,e]) reports true iff an entry with a set promise carries id; then exactly one such sleep
   gets exactly the requested exception and nothing else changes *)
CancelProp(id, x) ==
    LET cand == {heap[i].k : i \in LiveWithId(heap, id)} IN
    /\ (ret'.kind = "true") <=> (cand # {})
    /\ cand # {} => \E k \in cand : /\ fut'[k].st = x
                                    /\ \A j \in 1..Len(fut) : j # k => fut'[j] = fut[j]
    /\ Len(fut') = Len(fut)
CancelHitsOne ==
    [][\A id \in CancelIds, x \in {"exc", "custom"} :
          /\ Cancel(id, x) => CancelProp(id, x)
          /\ \A c \in 1..NC : CoCancel(c, id, x) => CancelProp(id, x)]_vars

(* ... and false without any other effect: no future changes, the set of pending entries is the same
   (emptied entries on top of the heap may be shed) *)
LiveEntries(h) == {h[i] : i \in Live(h)}
CancelFalseNoEffect ==
    [][ret'.kind \in {"false", "empty"} => fut' = fut /\ LiveEntries(heap') = LiveEntries(heap) /\ gen' = gen]_vars

(* remove(id) hands out the promise of exactly one pending sleep with that id, or an empty promise *)
RemoveHitsOne ==
    [][\A id \in CancelIds : Remove(id) =>
          LET cand == {heap[i].k : i \in LiveWithId(heap, id)} IN
          /\ (ret'.kind = "removed") <=> (cand # {})
          /\ ret'.kind = "removed" => ret'.v \in cand /\ fut'[ret'.v].st = "canceled"]_vars

(* schedule() notifies the condition variable iff the new entry is the new earliest deadline *)
NotifyWhenEarliest ==
    [][(ret'.kind = "sched" /\ Len(fut') = Len(fut) + 1) =>
          LET tp == fut'[Len(fut')].tp IN
          (ret'.v = 1) <=> (\A i \in 1..Len(heap) : tp < heap[i].tp)]_vars

(* sleeps pending at destruction are cancelled rather than left hanging *)
DestroyCancelsPending == destroyed => \A k \in 1..Len(fut) : fut[k].st # "pending"

(* interval(): a stop request never leaves the generator parked in a sleep (it would hang its caller) *)
IntervalStopEnds == gen.stp => gen.st # "sleep"

(* start mode ------------------------------------------------------------ *)

(* under virtual time a sleeper is woken exactly at its time point (at once if it was already past) *)
PromptWhenIdle ==
    Mode = "start" =>
      \A k \in 1..Len(fut) : fut[k].st = "done" =>
          fut[k].at = (IF fut[k].tp > fut[k].sa THEN fut[k].tp ELSE fut[k].sa)

(* the clock never runs past a pending deadline while the scheduler runs *)
NoOversleep ==
    (Mode = "start" /\ phase \in {"pre", "run"} /\ wpc # "exit") =>
      \A k \in 1..Len(fut) : fut[k].st = "pending" => (now <= fut[k].tp \/ now = fut[k].sa)

(* a sleeping coroutine sleeps on exactly one pending future; a ready one is queued or runs *)
CoroConsistent ==
    Mode = "start" /\ phase \in {"pre", "run"} =>
      \A c \in 1..NC :
        /\ (cst[c] = "sleep") <=> (\E k \in 1..Len(fut) : fut[k].co = c /\ fut[k].st = "pending")
        /\ Cardinality({k \in 1..Len(fut) : fut[k].co = c /\ fut[k].st = "pending"}) <= 1
        /\ (cst[c] = "ready") <=> (run = c \/ \E i \in 1..Len(rq) : rq[i] = c)
        /\ Cardinality({i \in 1..Len(rq) : rq[i] = c}) <= 1

(* start() returns only after the awaited coroutine finished; the worker leaves only when stopped *)
ReturnsWhenFinished ==
    /\ phase \in {"returned", "destroyed"} => (cst[1] = "done" /\ stop)
    /\ (Mode = "start" /\ wpc = "exit") => stop
NoHang == phase # "hung"
(* ... and it does return (and the scheduler can be destroyed): every terminal state is "destroyed" *)
StartTerminates == Mode = "start" => <>(phase = "destroyed")

=============================================================================
