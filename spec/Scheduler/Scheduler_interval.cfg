\* manual mode with an interval() generator (period 2) driven through a stop token, next to ordinary sleeps
SPECIFICATION Spec
CONSTANTS
  Mode = "manual"
  TPs = {1, 3}
  Nows = {1, 2, 3}
  Ids = {0, 1}
  CancelIds = {1}
  MaxSleeps = 2
  MaxHeap = 3
  MaxOps = 0
  AllowRemove = FALSE
  Interval = 2
  NC = 1
INVARIANTS TypeOK HeapWellFormed LiveMatchesPending NeverEarly DeadlineOrder PromptManual CancelHitsOne NotifyWhenEarliest NothingAfterDestroy IntervalConsistent
PROPERTIES ExactlyOncePerSleep LiveFrame CancelFalseNoEffect DestroyCancelsPending
CHECK_DEADLOCK FALSE
