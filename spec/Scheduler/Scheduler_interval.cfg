\* manual mode with two interval() generators of one scheduler (periods 4 and 2 half ticks, same duration type), each
\* driven through its own stop token, next to ordinary sleeps
SPECIFICATION Spec
CONSTANTS
  Mode = "manual"
  TPs = {2, 6}
  Nows = {2, 3, 4, 6}
  Ids = {0, 1}
  CancelIds = {1}
  MaxSleeps = 2
  MaxHeap = 3
  MaxOps = 0
  AllowRemove = FALSE
  Interval = 4
  Interval2 = 2
  NC = 1
  MainRes = {"void"}
  MainVia = {"direct"}
  MaxRuns = 1
INVARIANTS TypeOK HeapWellFormed LiveMatchesPending NeverEarly DeadlineOrder PromptManual CancelHitsOne NotifyWhenEarliest NothingAfterDestroy IntervalConsistent
PROPERTIES StopHitsOwn ExactlyOncePerSleep LiveFrame CancelFalseNoEffect DestroyCancelsPending
CHECK_DEADLOCK FALSE
