--------------------------- MODULE SchedulerThread ---------------------------
(***************************************************************************)
(* cocls::scheduler in THREAD mode (start_thread(): a worker thread runs   *)
(* worker_coro<false>, scheduler.h:371-412) against one client thread, at  *)
(* lock grain plus one extra scheduling point: the worker's clock read     *)
(* (`now = system_clock::now()`, :391) between its stop test and its       *)
(* decision to wait -- the window in which a stop request can be missed.   *)
(* Time is virtual: it only advances when the worker sleeps in wait_until  *)
(* and nobody else can run ("the scheduling thread is otherwise idle"), or *)
(* at an explicit client "T" step; it then jumps to the worker's deadline. *)
(*                                                                         *)
(* Client script (CONSTANT Script): records [op |-> "S", tp, id]           *)
(* (sleep_until), [op |-> "C", id] (cancel), [op |-> "T"] (let the idle    *)
(* worker sleep until its deadline); after the script the client destroys  *)
(* the scheduler: request_stop (the stop callback notifies the condition   *)
(* variable), wait for the worker coroutine to finish, then the heap is    *)
(* destroyed and pending sleeps are cancelled.                             *)
(*                                                                         *)
(* StopLocks = FALSE models the stop callback as originally written: it    *)
(* calls _cond.notify_all() WITHOUT holding _mx (scheduler.h:373-375).     *)
(* TRUE models the repaired callback (takes _mx around the notify).        *)
(***************************************************************************)
EXTENDS SchedHeap

CONSTANTS Script, MaxSleeps, StopLocks

VARIABLES
    heap,      \* _scheduled
    fut,       \* per sleep k: [st |-> "none"|"pending"|"done"|"exc"|"canceled", tp, sa (scheduled at), wat (woken at)]
    now,       \* virtual clock
    stop,      \* stop requested
    mx,        \* holder of _mx: "none" | "c" | "w"
    wpc,       \* worker pc
    wnot,      \* worker's wait has been notified
    wdl,       \* worker's wait deadline (Inf: untimed)
    wfin,      \* worker coroutine finished (the scheduler's own future resolved)
    cbreg,     \* the worker coroutine has registered its stop callback (std::stop_callback stop_notify)
    cpc,       \* client pc
    cpos,      \* client position in Script
    nsl,       \* number of sleeps created
    hold,      \* client: sleep slot taken out by cancel, to be resolved outside the lock (0: none)
    ret        \* client: result of its last cancel: "none" | "true" | "false"

vars == <<heap, fut, now, stop, mx, wpc, wnot, wdl, wfin, cbreg, cpc, cpos, nsl, hold, ret>>

Slots == 1..MaxSleeps
NoFut == [st |-> "none", tp |-> 0, sa |-> 0, wat |-> 0]

Init ==
    /\ heap = <<>>
    /\ fut = [k \in Slots |-> NoFut]
    /\ now = 0
    /\ stop = FALSE
    /\ mx = "none"
    /\ wpc = "none"           \* the worker thread does not exist before start_thread()
    /\ wnot = FALSE
    /\ wdl = Inf
    /\ wfin = FALSE
    /\ cbreg = FALSE
    /\ cpc = "begin"
    /\ cpos = 1
    /\ nsl = 0
    /\ hold = 0
    /\ ret = "none"

Op == Script[cpos]
(* where the client parks next after finishing script position p-1 *)
ClientAt(p) ==
    IF p > Len(Script) THEN "stop"
    ELSE IF Script[p].op = "T" THEN "tick" ELSE "op_lock"

NotifyWorker == IF wpc = "waiting" THEN TRUE ELSE wnot

-----------------------------------------------------------------------------
(* client *)

CBegin ==            \* new scheduler; start_thread(): the worker thread is created (parked at its start)
    /\ cpc = "begin"
    /\ wpc' = "start"
    /\ cpc' = ClientAt(1)
    /\ UNCHANGED <<heap, fut, now, stop, mx, wnot, wdl, wfin, cbreg, cpos, nsl, hold, ret>>

(* the critical section of schedule() (scheduler.h:89-97) or of remove() inside cancel() (:127-139) *)
CLock ==
    /\ cpc = "op_lock" /\ mx = "none"
    /\ IF Op.op = "S"
         THEN /\ nsl' = nsl + 1
              /\ heap' = HeapInsert(heap, [tp |-> Op.tp, id |-> Op.id, k |-> nsl + 1])
              /\ fut' = [fut EXCEPT ![nsl + 1] = [st |-> "pending", tp |-> Op.tp, sa |-> now, wat |-> 0]]
              /\ wnot' = IF NotifyNeeded(heap, Op.tp) THEN NotifyWorker ELSE wnot
              /\ UNCHANGED <<hold, ret>>
         ELSE LET r == RemoveLk(heap, Op.id) IN
              /\ heap' = r.heap
              /\ hold' = r.k
              /\ UNCHANGED <<nsl, fut, wnot, ret>>
    /\ cpc' = "op_after"
    /\ UNCHANGED <<now, stop, mx, wpc, wdl, wfin, cbreg, cpos>>

(* after the unlock: cancel resolves the removed promise with the exception; then the next script step *)
CAfter ==
    /\ cpc = "op_after"
    /\ IF hold # 0
         THEN fut' = [fut EXCEPT ![hold] = [@ EXCEPT !.st = "exc", !.wat = now]]
         ELSE UNCHANGED fut
    /\ ret' = IF Op.op = "C" THEN (IF hold # 0 THEN "true" ELSE "false") ELSE ret      \* cancel() returns here
    /\ hold' = 0
    /\ cpos' = cpos + 1
    /\ cpc' = ClientAt(cpos + 1)
    /\ UNCHANGED <<heap, now, stop, mx, wpc, wnot, wdl, wfin, nsl, cbreg>>

(* "T": the client lets time pass: only meaningful while the worker sleeps on a deadline *)
CTick ==
    /\ cpc = "tick"
    /\ wpc = "waiting" /\ ~wnot /\ wdl < Inf
    /\ now' = IF wdl > now THEN wdl ELSE now
    /\ cpos' = cpos + 1
    /\ cpc' = ClientAt(cpos + 1)
    /\ UNCHANGED <<heap, fut, stop, mx, wpc, wnot, wdl, wfin, nsl, hold, ret, cbreg>>

(* ~scheduler: request_stop() -> the stop callback.  Original code: notify_all without the lock, then the
   destructor blocks in _fut.wait().  Repaired code: the callback takes _mx first. *)
CStop ==
    /\ cpc = "stop"
    /\ stop' = TRUE
    /\ IF ~cbreg
         THEN cpc' = "fwait" /\ UNCHANGED wnot          \* no callback registered yet: request_stop() has nothing to call
         ELSE IF StopLocks
         THEN cpc' = "stop_lock" /\ UNCHANGED wnot
         ELSE cpc' = "fwait" /\ wnot' = NotifyWorker
    /\ UNCHANGED <<heap, fut, now, mx, wpc, wdl, wfin, cbreg, cpos, nsl, hold, ret>>

CStopCS ==
    /\ cpc = "stop_lock" /\ mx = "none"
    /\ wnot' = NotifyWorker
    /\ cpc' = "stop_after"
    /\ UNCHANGED <<heap, fut, now, stop, mx, wpc, wdl, wfin, cbreg, cpos, nsl, hold, ret>>

(* members are destroyed: every promise still in the heap is dropped, its sleep is cancelled *)
DestroyMembers ==
    /\ fut' = [k \in Slots |-> IF fut[k].st = "pending" THEN [fut[k] EXCEPT !.st = "canceled", !.wat = now] ELSE fut[k]]
    /\ heap' = <<>>
    /\ cpc' = "done"

(* after the callback's unlock the destructor calls _fut.wait(): it blocks unless the worker has already finished *)
CStopAfter ==
    /\ cpc = "stop_after"
    /\ IF wfin THEN DestroyMembers ELSE cpc' = "fwait" /\ UNCHANGED <<heap, fut>>
    /\ UNCHANGED <<now, stop, mx, wpc, wnot, wdl, wfin, cbreg, cpos, nsl, hold, ret>>

(* _fut.wait() returns once the worker coroutine has finished; the members are destroyed: every promise
   still in the heap is dropped, its sleep is cancelled *)
CFWait ==
    /\ cpc = "fwait" /\ wfin
    /\ DestroyMembers
    /\ UNCHANGED <<now, stop, mx, wpc, wnot, wdl, wfin, cbreg, cpos, nsl, hold, ret>>

-----------------------------------------------------------------------------
(* worker thread: worker_coro<false> *)

WStart ==            \* thread start: the coroutine starts, registers its stop callback and runs up to `std::unique_lock lk(_mx)`
    /\ wpc = "start"
    /\ cbreg' = TRUE
    (* std::stop_callback's constructor runs the callback at once when stop has already been requested *)
    /\ wpc' = IF stop /\ StopLocks THEN "cb_lock" ELSE "lock1"
    /\ UNCHANGED <<heap, fut, now, stop, mx, wnot, wdl, wfin, cpc, cpos, nsl, hold, ret>>

WCbLock ==           \* the callback on the worker thread itself: lock; notify_all (nobody waits); unlock
    /\ wpc = "cb_lock" /\ mx = "none"
    /\ wpc' = "cb_after"
    /\ UNCHANGED <<heap, fut, now, stop, mx, wnot, wdl, wfin, cbreg, cpc, cpos, nsl, hold, ret>>

WCbAfter ==
    /\ wpc = "cb_after"
    /\ wpc' = "lock1"
    /\ UNCHANGED <<heap, fut, now, stop, mx, wnot, wdl, wfin, cbreg, cpc, cpos, nsl, hold, ret>>

(* loop head `while (!state.stop_requested())` with the lock held: leave the loop (the coroutine ends, lk's
   destructor unlocks) or `lk.unlock()` *)
LoopHead == IF stop THEN "exit_unlock" ELSE "loop_unlock"

WLock1 ==
    /\ wpc = "lock1" /\ mx = "none"
    /\ wpc' = LoopHead
    /\ UNCHANGED <<heap, fut, now, stop, mx, wnot, wdl, wfin, cbreg, cpc, cpos, nsl, hold, ret>>

WLoopUnlock ==       \* after lk.unlock(): co_await pause() (nobody else is ready), then lk.lock()
    /\ wpc = "loop_unlock"
    /\ wpc' = "relock"
    /\ UNCHANGED <<heap, fut, now, stop, mx, wnot, wdl, wfin, cbreg, cpc, cpos, nsl, hold, ret>>

(* lk.lock(); if (stop_requested()) break; now = system_clock::now()  -- parks at the clock read, lock held *)
WRelock ==
    /\ wpc = "relock" /\ mx = "none"
    /\ IF stop THEN wpc' = "exit_unlock" /\ UNCHANGED mx
               ELSE wpc' = "clock" /\ mx' = "w"
    /\ UNCHANGED <<heap, fut, now, stop, wnot, wdl, wfin, cbreg, cpc, cpos, nsl, hold, ret>>

(* the clock is read; get_expired_lk(now); a promise is resolved (inside the lock) and the loop goes round,
   or the worker waits until the returned time point (releasing the lock) *)
WClock ==
    /\ wpc = "clock"
    /\ LET r == GetExpiredLk(heap, now) IN
         /\ heap' = r.heap
         /\ IF r.k # 0
              THEN /\ fut' = [fut EXCEPT ![r.k] = [@ EXCEPT !.st = "done", !.wat = now]]
                   /\ wpc' = LoopHead
                   /\ UNCHANGED <<wnot, wdl>>
              ELSE /\ wpc' = "waiting"
                   /\ wnot' = FALSE
                   /\ wdl' = r.next
                   /\ UNCHANGED fut
    /\ mx' = "none"
    /\ UNCHANGED <<now, stop, wfin, cbreg, cpc, cpos, nsl, hold, ret>>

(* wait_until returns: notified, or the (virtual) deadline has been reached; the lock is re-acquired *)
WWake ==
    /\ wpc = "waiting" /\ mx = "none"
    /\ wnot \/ (wdl < Inf /\ now >= wdl)
    /\ wnot' = FALSE
    /\ wdl' = Inf
    /\ wpc' = LoopHead
    /\ UNCHANGED <<heap, fut, now, stop, mx, wfin, cbreg, cpc, cpos, nsl, hold, ret>>

(* the coroutine ends: ~stop_callback blocks while the callback is executing on another thread; then final_awaiter
   resolves the scheduler's own future and the thread ends *)
WExit ==
    /\ wpc = "exit_unlock"
    /\ cpc \notin {"stop_lock", "stop_after"}
    /\ wpc' = "done"
    /\ wfin' = TRUE
    /\ UNCHANGED <<heap, fut, now, stop, mx, wnot, wdl, cpc, cpos, nsl, hold, ret, cbreg>>

(* nobody can run and the worker sleeps on a deadline: time passes *)
ClientBlocked == cpc = "done" \/ (cpc = "fwait" /\ ~wfin) \/ (cpc = "tick")
Tick ==
    /\ wpc = "waiting" /\ ~wnot /\ wdl < Inf /\ now < wdl
    /\ cpc = "done" \/ (cpc = "fwait" /\ ~wfin)
    /\ now' = wdl
    /\ UNCHANGED <<heap, fut, stop, mx, wpc, wnot, wdl, wfin, cbreg, cpc, cpos, nsl, hold, ret>>

Next == \/ CBegin \/ CLock \/ CAfter \/ CTick \/ CStop \/ CStopCS \/ CStopAfter \/ CFWait
        \/ WStart \/ WCbLock \/ WCbAfter \/ WLock1 \/ WLoopUnlock \/ WRelock \/ WClock \/ WWake \/ WExit
        \/ Tick

Spec == Init /\ [][Next]_vars /\ WF_vars(Next)

-----------------------------------------------------------------------------
(* Properties (C12, thread mode) *)

TypeOK == /\ mx \in {"none", "w"}
          /\ Len(heap) <= MaxSleeps
HeapWellFormed == IsHeap(heap)
(* a sleep never completes before its time point *)
NeverEarly == \A k \in Slots : fut[k].st = "done" => fut[k].wat >= fut[k].tp
(* while the worker is otherwise idle a sleeper is woken AT its time point, not later (or at once if the time
   point had already passed when it was scheduled) *)
PromptWhenIdle == \A k \in Slots : fut[k].st = "done" =>
                     fut[k].wat = (IF fut[k].tp >= fut[k].sa THEN fut[k].tp ELSE fut[k].sa) \/ fut[k].wat = fut[k].sa
(* the worker never sleeps through a stop request: once stop has been requested (and the callback has run) it is
   not in an un-notified wait *)
StopNotMissed == (stop /\ cpc = "fwait") => ~(wpc = "waiting" /\ ~wnot)
(* no hang: the only terminal state is the completed destruction, with nothing left pending *)
NoHang == (~ ENABLED Next) => (cpc = "done" /\ wpc = "done")
DestroyCancelsPending == cpc = "done" => \A k \in Slots : fut[k].st # "pending"
LiveMatchesPending == cpc # "done" =>
    \A k \in Slots : (fut[k].st = "pending") <=> ((\E i \in 1..Len(heap) : heap[i].k = k) \/ hold = k)
Termination == <>(cpc = "done")

=============================================================================
