---------------------------- MODULE SchedulerPool ----------------------------
(***************************************************************************)
(* cocls::scheduler in THREAD-POOL mode: scheduler(thread_pool &) /         *)
(* start(pool) -> start_in(thread_pool &) (scheduler.h:432-442) runs        *)
(* worker_coro<true> (:370-416) as a coroutine that travels through the     *)
(* pool: every round of its loop it re-enqueues itself (`co_await *pool`)   *)
(* and is resumed by whichever pool thread dequeues it.  Combination of     *)
(* SchedulerThread.tla (scheduler side) and ThreadPool.tla (pool side).     *)
(*                                                                         *)
(* Grain: lock grain with TWO mutexes, S = scheduler::_mx and               *)
(* P = thread_pool::_mx: one action per critical section (from taking a     *)
(* lock to dropping it or to blocking in a condition variable), one action  *)
(* for the code that follows an unlock up to the next lock / wait / join /  *)
(* end, blocking steps for condition-variable wake-ups and joins, plus the  *)
(* worker's clock read (`now = system_clock::now()`, :393) as a scheduling  *)
(* point of its own.  The worker coroutine takes P while it holds S         *)
(* (pool->resume(x()) -> enqueue(), :399; pool->any_enqueued(), :405): the  *)
(* nested acquisitions are steps of their own (pc k_rs_enq / k_any with     *)
(* smx = the thread), so a lock-order inversion anywhere else would show    *)
(* as a stuck state (NoHang).  P is never held across a scheduling point.   *)
(*                                                                         *)
(* Threads: the client "c" and the pool threads WOrder (creation order).    *)
(* The worker coroutine is not a thread: the pool thread that currently     *)
(* executes it has a pc "k_...".  It can also finish on the CLIENT thread:  *)
(* when pool.stop() discards its queued `co_await *pool` closure the        *)
(* closure's deleter resumes it there with await_canceled_exception.        *)
(*                                                                         *)
(* Client script (CONSTANT Script), records:                                *)
(*   [op |-> "S", tp, id]   f = sleep_until(tp, id), future polled          *)
(*   [op |-> "A", tp, id]   a detached coroutine started on the client does *)
(*                          co_await sleep_until(tp, id) and records where  *)
(*                          and when it continued                           *)
(*   [op |-> "C", id]       cancel(id)                                      *)
(*   [op |-> "T"]           virtual time passes to the deadline the worker  *)
(*                          sleeps on (only while it sleeps un-notified)    *)
(*   [op |-> "J"]           pool.run_detached(ordinary job)                 *)
(*   [op |-> "PS"]          pool.stop()                                     *)
(*   [op |-> "D"]           the scheduler is destroyed: request_stop (the   *)
(*                          stop callback takes S and notifies), _fut.wait, *)
(*                          members destroyed (pending sleeps cancelled)    *)
(* Time is virtual, as in SchedulerThread: it advances only to the worker's *)
(* deadline, at a "T" step or when nobody else can run.                     *)
(*                                                                         *)
(* What the code does when the pool is stopped BEFORE the scheduler is      *)
(* destroyed (modelled as it is):                                           *)
(*  - the worker's cancelled `co_await *pool` (closure rejected by          *)
(*    enqueue() after _exit, or discarded by stop()) throws                 *)
(*    await_canceled_exception out of worker_coro: the coroutine ends and   *)
(*    the scheduler's own future _fut holds that exception (wexc).  The     *)
(*    scheduler is dead from then on: sleeps stay pending (also those whose *)
(*    time point passes, also new ones) until ~scheduler cancels them;      *)
(*    cancel() still works.  ~scheduler only synchronises with _fut         *)
(*    (_fut.sync(), /repo d43aae7; DtorRethrows = FALSE).  Before that fix  *)
(*    it called _fut.wait(), which RETHROWS the exception inside the        *)
(*    noexcept destructor -> std::terminate (DtorRethrows = TRUE, kept as a *)
(*    variant that NoCrash must reject);                                    *)
(*  - a pool thread blocked in the scheduler's _cond.wait_until is not      *)
(*    woken by pool.stop() (a pool job that blocks: stop() joins it): the   *)
(*    join lasts until the earliest deadline (then the worker finds the     *)
(*    pool stopped and ends as above), a schedule() with an earlier         *)
(*    deadline or the stop request - for ever when nothing is scheduled.    *)
(*    PRECONDITION of the driver: the pool is not stopped while the worker  *)
(*    may be waiting with no finite deadline (NoHang rejects such scripts); *)
(*    the finite case is modelled (Tick while the client is in the join);   *)
(*  - closures made by thread_pool::resume() hold a bare coroutine handle   *)
(*    (known finding pool_resume_bare_handle_dropped of C11): a discarded   *)
(*    start closure of the worker coroutine leaves _fut pending for ever    *)
(*    (wdrop; ~scheduler hangs -- NoHang; excluded by the driver: the pool  *)
(*    is stopped first only after the worker has certainly started), a      *)
(*    discarded continuation of an awaiting sleeper - also in the normal    *)
(*    order, when it is still queued at pool.stop() - leaves that coroutine *)
(*    suspended for ever although its sleep completed: modelled             *)
(*    (co "dropped"); SleeperNotForgotten states the opposite and is left   *)
(*    out of the configuration used for scripts with awaiting coroutines.   *)
(*                                                                         *)
(* Rule for ordinary pool jobs (what the code does, not more): the worker   *)
(* coroutine occupies one pool thread while it sleeps in wait_until; it     *)
(* does not sleep when it sees the pool queue non-empty (any_enqueued) but  *)
(* nothing wakes it when a job arrives later.  A job submitted while EVERY  *)
(* pool thread is taken (pool of one: the sleeping worker) therefore waits  *)
(* until the worker's deadline, a schedule() with an earlier deadline or    *)
(* the stop request; with another pool thread free it runs at once          *)
(* (QueuedJobHasNoIdleThread, Termination).                                 *)
(***************************************************************************)
EXTENDS SchedHeap

CONSTANTS Script, WOrder, MaxSleeps, DtorRethrows

Workers == {WOrder[i] : i \in 1..Len(WOrder)}
JobIds == {i \in 1..Len(Script) : Script[i].op = "J"}

VARIABLES
    (* scheduler *)
    heap,      \* _scheduled
    fut,       \* per sleep k: [st |-> "none"|"pending"|"done"|"exc"|"canceled", tp, id, sa (scheduled at), wat (completed at)]
    co,        \* per sleep k: the awaiting coroutine of an "A" sleep: [st |-> "none"|"susp"|"queued"|"ran"|"exc"|"dropped", by, at]
    now,       \* virtual clock
    stop,      \* stop requested
    smx,       \* holder of S across scheduling points: "none" | pool thread executing the worker coroutine
    wnot,      \* the worker's wait on the scheduler's condition variable has been notified
    wdl,       \* the worker's wait deadline (Inf: untimed / not waiting)
    wfin,      \* worker coroutine finished: the scheduler's own future _fut is resolved
    wexc,      \* ... with await_canceled_exception
    wdrop,     \* the start closure of the worker coroutine was discarded: it never runs
    cbreg,     \* the worker coroutine's std::stop_callback is registered
    anyq,      \* result of the worker's pool->any_enqueued()
    rsk,       \* sleep whose awaiting coroutine the worker is handing to the pool (0: none)
    (* pool *)
    q,         \* _queue: sequence of closures [t |-> "job"|"w0"|"wq"|"sl", i]
    exit,      \* _exit
    pthreads,  \* _threads
    cvwait,    \* pool threads blocked in the pool's _cond.wait, FIFO
    notified,  \* ... whose wait has been notified
    pc,        \* per pool thread
    cur,       \* per pool thread: closure being run
    sth,       \* client in stop(): threads still to join
    sq,        \* client in stop(): swapped-out queue
    wdone,     \* pool threads whose thread function returned
    jst,       \* per ordinary job: "new"|"queued"|"running"|"ran"|"cancelled"
    jby,       \* per ordinary job: executing thread
    (* client *)
    cpc, cpos,
    nsl,       \* sleeps created
    hold,      \* sleep taken out by cancel, resolved after the unlock (0: none)
    ret,       \* result of the last cancel: "none"|"true"|"false"
    destroyed  \* the scheduler object is gone

schedv == <<heap, fut, co, now, stop, smx, wnot, wdl, wfin, wexc, wdrop, cbreg, anyq, rsk>>
poolv == <<q, exit, pthreads, cvwait, notified, pc, cur, sth, sq, wdone, jst, jby>>
cliv == <<cpc, cpos, nsl, hold, ret, destroyed>>
vars == <<schedv, poolv, cliv>>

Slots == 1..MaxSleeps
NoFut == [st |-> "none", tp |-> 0, id |-> 0, sa |-> 0, wat |-> 0]
NoCo == [st |-> "none", by |-> "none", at |-> 0]
NoJob == [t |-> "none", i |-> 0]
W0 == [t |-> "w0", i |-> 0]      \* [h]{coro_queue::resume(h);} made by pool.resume(worker_coro.start(promise)), scheduler.h:439
WQ == [t |-> "wq", i |-> 0]      \* the closure of the worker's `co_await *pool` (owns the awaiter; its deleter cancels), thread_pool.h:113-137

Init ==
    /\ heap = <<>>
    /\ fut = [k \in Slots |-> NoFut]
    /\ co = [k \in Slots |-> NoCo]
    /\ now = 0
    /\ stop = FALSE
    /\ smx = "none"
    /\ wnot = FALSE
    /\ wdl = Inf
    /\ wfin = FALSE
    /\ wexc = FALSE
    /\ wdrop = FALSE
    /\ cbreg = FALSE
    /\ anyq = FALSE
    /\ rsk = 0
    /\ q = <<>>
    /\ exit = FALSE
    /\ pthreads = WOrder
    /\ cvwait = <<>>
    /\ notified = {}
    /\ pc = [w \in Workers |-> "start"]
    /\ cur = [w \in Workers |-> NoJob]
    /\ sth = <<>>
    /\ sq = <<>>
    /\ wdone = {}
    /\ jst = [j \in JobIds |-> "new"]
    /\ jby = [j \in JobIds |-> "none"]
    /\ cpc = "begin"
    /\ cpos = 1
    /\ nsl = 0
    /\ hold = 0
    /\ ret = "none"
    /\ destroyed = FALSE

Op == Script[cpos]
(* where the client parks next after finishing script position p-1 *)
ClientAt(p) ==
    IF p > Len(Script) THEN "done"
    ELSE CASE Script[p].op = "T" -> "tick"
           [] Script[p].op \in {"S", "A", "C"} -> "op_lock"
           [] Script[p].op = "J" -> "j_lock"
           [] Script[p].op = "PS" -> "ps_lock"
           [] Script[p].op = "D" -> "stop"

KWaiting == \E w \in Workers : pc[w] = "k_waiting"
NotifyK == IF KWaiting THEN TRUE ELSE wnot       \* _cond.notify_all() of the scheduler's condition variable
(* std::stop_callback's destructor blocks while the callback is being executed by another thread *)
ClientInCallback == cpc \in {"cb_lock", "cb_after"}

(* thread_pool::enqueue(), the part inside `if (!_exit)`: push; notify_one         thread_pool.h:358-364 *)
Push(job) ==
    /\ q' = Append(q, job)
    /\ IF cvwait # <<>>
         THEN notified' = notified \cup {Head(cvwait)} /\ cvwait' = Tail(cvwait)
         ELSE UNCHANGED <<cvwait, notified>>

-----------------------------------------------------------------------------
(* client *)

(* new thread_pool(N) (the pool threads are created, parked at their start); new scheduler(pool): start_in() creates
   the worker coroutine and hands its start to the pool: runs up to the lock inside enqueue() *)
CBegin ==
    /\ cpc = "begin"
    /\ cpc' = "st_lock"
    /\ UNCHANGED <<schedv, poolv, cpos, nsl, hold, ret, destroyed>>

CStartCS ==
    /\ cpc = "st_lock"
    /\ IF exit THEN UNCHANGED <<q, cvwait, notified>> ELSE Push(W0)
    /\ cpc' = IF exit THEN "st_rej" ELSE "st_after"
    /\ UNCHANGED <<schedv, exit, pthreads, pc, cur, sth, sq, wdone, jst, jby, cpos, nsl, hold, ret, destroyed>>

CStartAfter ==
    /\ cpc \in {"st_after", "st_rej"}
    /\ wdrop' = (cpc = "st_rej")
    /\ cpc' = ClientAt(1)
    /\ UNCHANGED <<heap, fut, co, now, stop, smx, wnot, wdl, wfin, wexc, cbreg, anyq, rsk, poolv, cpos, nsl, hold, ret, destroyed>>

(* the critical section of schedule() (scheduler.h:89-97) or of remove() inside cancel() (:127-139) *)
CLock ==
    /\ cpc = "op_lock" /\ smx = "none"
    /\ IF Op.op \in {"S", "A"}
         THEN /\ nsl' = nsl + 1
              /\ heap' = HeapInsert(heap, [tp |-> Op.tp, id |-> Op.id, k |-> nsl + 1])
              /\ fut' = [fut EXCEPT ![nsl + 1] = [st |-> "pending", tp |-> Op.tp, id |-> Op.id, sa |-> now, wat |-> 0]]
              /\ wnot' = IF NotifyNeeded(heap, Op.tp) THEN NotifyK ELSE wnot
              /\ UNCHANGED <<hold, ret>>
         ELSE LET r == RemoveLk(heap, Op.id) IN
              /\ heap' = r.heap
              /\ hold' = r.k
              /\ UNCHANGED <<nsl, fut, wnot, ret>>
    /\ cpc' = "op_after"
    /\ UNCHANGED <<co, now, stop, smx, wdl, wfin, wexc, wdrop, cbreg, anyq, rsk, poolv, cpos, destroyed>>

(* after the unlock.  sleep_until returns; an "A" coroutine co_awaits the future: already resolved (by the worker, in
   the window since the unlock) -> it goes on at once in the client thread, else it is suspended.  cancel() resolves the
   removed promise with the exception and returns; the suspend point it returns is discarded by the caller: an awaiting
   coroutine continues at once in the client thread ("resolved in current thread, not in scheduler's thread", :183) *)
CAfter ==
    /\ cpc = "op_after"
    /\ CASE Op.op = "S" -> UNCHANGED <<fut, co, ret>>
         [] Op.op = "A" ->
              /\ co' = [co EXCEPT ![nsl] = IF fut[nsl].st = "done" THEN [st |-> "ran", by |-> "c", at |-> now]
                                                                 ELSE [st |-> "susp", by |-> "none", at |-> 0]]
              /\ UNCHANGED <<fut, ret>>
         [] Op.op = "C" ->
              /\ IF hold # 0
                   THEN /\ fut' = [fut EXCEPT ![hold] = [@ EXCEPT !.st = "exc", !.wat = now]]
                        /\ co' = IF co[hold].st = "susp" THEN [co EXCEPT ![hold] = [st |-> "exc", by |-> "c", at |-> now]] ELSE co
                   ELSE UNCHANGED <<fut, co>>
              /\ ret' = IF hold # 0 THEN "true" ELSE "false"
    /\ hold' = 0
    /\ cpos' = cpos + 1
    /\ cpc' = ClientAt(cpos + 1)
    /\ UNCHANGED <<heap, now, stop, smx, wnot, wdl, wfin, wexc, wdrop, cbreg, anyq, rsk, poolv, nsl, destroyed>>

(* "T": the client lets time pass: only meaningful while the worker sleeps un-notified on a deadline *)
CTick ==
    /\ cpc = "tick"
    /\ KWaiting /\ ~wnot /\ wdl < Inf
    /\ now' = IF wdl > now THEN wdl ELSE now
    /\ cpos' = cpos + 1
    /\ cpc' = ClientAt(cpos + 1)
    /\ UNCHANGED <<heap, fut, co, stop, smx, wnot, wdl, wfin, wexc, wdrop, cbreg, anyq, rsk, poolv, nsl, hold, ret, destroyed>>

(* run_detached(job): enqueue() *)
CJobCS ==
    /\ cpc = "j_lock"
    /\ IF exit THEN UNCHANGED <<q, cvwait, notified, jst>>
               ELSE Push([t |-> "job", i |-> cpos]) /\ jst' = [jst EXCEPT ![cpos] = "queued"]
    /\ cpc' = "j_after"
    /\ UNCHANGED <<schedv, exit, pthreads, pc, cur, sth, sq, wdone, jby, cpos, nsl, hold, ret, destroyed>>

(* after the unlock: a rejected closure dies in the submitter's frame *)
CJobAfter ==
    /\ cpc = "j_after"
    /\ jst' = IF jst[cpos] = "new" THEN [jst EXCEPT ![cpos] = "cancelled"] ELSE jst
    /\ cpos' = cpos + 1
    /\ cpc' = ClientAt(cpos + 1)
    /\ UNCHANGED <<schedv, q, exit, pthreads, cvwait, notified, pc, cur, sth, sq, wdone, jby, nsl, hold, ret, destroyed>>

(* pool.stop(): the critical section                                                thread_pool.h:75-81 *)
CPsCS ==
    /\ cpc = "ps_lock"
    /\ exit' = TRUE
    /\ notified' = notified \cup {cvwait[i] : i \in 1..Len(cvwait)}
    /\ cvwait' = <<>>
    /\ sth' = pthreads
    /\ pthreads' = <<>>
    /\ sq' = q
    /\ q' = <<>>
    /\ cpc' = "ps_after"
    /\ UNCHANGED <<schedv, pc, cur, wdone, jst, jby, cpos, nsl, hold, ret, destroyed>>

(* the end of stop(): the swapped-out queue is destroyed, front to back; its closures die: an ordinary job is cancelled;
   the worker's `co_await *pool` closure resumes the worker coroutine HERE, in the client thread, with
   await_canceled_exception: nothing catches it, the coroutine ends (S is not held at that point, the stop callback is
   deregistered) and _fut holds the exception; bare-handle closures (the worker's start, an awaiting sleeper's
   continuation) are forgotten *)
HasJob(s, t) == \E i \in 1..Len(s) : s[i].t = t
PsFinish ==
    /\ jst' = [j \in JobIds |-> IF \E i \in 1..Len(sq) : sq[i] = [t |-> "job", i |-> j] THEN "cancelled" ELSE jst[j]]
    /\ co' = [k \in Slots |-> IF \E i \in 1..Len(sq) : sq[i] = [t |-> "sl", i |-> k] THEN [co[k] EXCEPT !.st = "dropped"] ELSE co[k]]
    /\ IF HasJob(sq, "wq") THEN wfin' = TRUE /\ wexc' = TRUE /\ cbreg' = FALSE ELSE UNCHANGED <<wfin, wexc, cbreg>>
    /\ wdrop' = (wdrop \/ HasJob(sq, "w0"))
    /\ sq' = <<>>
    /\ cpos' = cpos + 1
    /\ cpc' = ClientAt(cpos + 1)

(* after the unlock: the join loop up to the first join that has to be waited for *)
CPsAfter ==
    /\ cpc = "ps_after"
    /\ IF sth = <<>> THEN PsFinish
                     ELSE cpc' = "ps_join" /\ UNCHANGED <<jst, co, wfin, wexc, cbreg, wdrop, sq, cpos>>
    /\ UNCHANGED <<heap, fut, now, stop, smx, wnot, wdl, anyq, rsk, q, exit, pthreads, cvwait, notified, pc, cur, sth, wdone, jby,
                   nsl, hold, ret, destroyed>>

CPsJoin ==
    /\ cpc = "ps_join"
    /\ Head(sth) \in wdone
    /\ sth' = Tail(sth)
    /\ IF Tail(sth) = <<>> THEN PsFinish
                           ELSE UNCHANGED <<jst, co, wfin, wexc, cbreg, wdrop, sq, cpos, cpc>>
    /\ UNCHANGED <<heap, fut, now, stop, smx, wnot, wdl, anyq, rsk, q, exit, pthreads, cvwait, notified, pc, cur, wdone, jby,
                   nsl, hold, ret, destroyed>>

(* ~scheduler, scheduler.h:330-335.  The end of it: _fut.wait() has returned.  As written it re-throws the worker's
   exception inside the (noexcept) destructor: std::terminate.  Otherwise the members are destroyed: every promise still
   in the heap is dropped, its sleep is cancelled, an awaiting coroutine continues at once in the client thread *)
Destruct ==
    IF wexc /\ DtorRethrows
      THEN cpc' = "terminated" /\ UNCHANGED <<fut, co, heap, destroyed, cpos>>
      ELSE /\ fut' = [k \in Slots |-> IF fut[k].st = "pending" THEN [fut[k] EXCEPT !.st = "canceled", !.wat = now] ELSE fut[k]]
           /\ co' = [k \in Slots |-> IF fut[k].st = "pending" /\ co[k].st = "susp" THEN [st |-> "exc", by |-> "c", at |-> now] ELSE co[k]]
           /\ heap' = <<>>
           /\ destroyed' = TRUE
           /\ cpos' = cpos + 1
           /\ cpc' = ClientAt(cpos + 1)

(* request_stop(): runs the worker's stop callback (lock S; notify_all; unlock) if it is registered; then _fut.wait() *)
CStop ==
    /\ cpc = "stop"
    /\ stop' = TRUE
    /\ IF cbreg THEN cpc' = "cb_lock" /\ UNCHANGED <<fut, co, heap, destroyed, cpos>>
       ELSE IF wfin THEN Destruct
       ELSE cpc' = "fwait" /\ UNCHANGED <<fut, co, heap, destroyed, cpos>>
    /\ UNCHANGED <<now, smx, wnot, wdl, wfin, wexc, wdrop, cbreg, anyq, rsk, poolv, nsl, hold, ret>>

CStopCS ==
    /\ cpc = "cb_lock" /\ smx = "none"
    /\ wnot' = NotifyK
    /\ cpc' = "cb_after"
    /\ UNCHANGED <<heap, fut, co, now, stop, smx, wdl, wfin, wexc, wdrop, cbreg, anyq, rsk, poolv, cpos, nsl, hold, ret, destroyed>>

CStopAfter ==
    /\ cpc = "cb_after"
    /\ IF wfin THEN Destruct ELSE cpc' = "fwait" /\ UNCHANGED <<fut, co, heap, destroyed, cpos>>
    /\ UNCHANGED <<now, stop, smx, wnot, wdl, wfin, wexc, wdrop, cbreg, anyq, rsk, poolv, nsl, hold, ret>>

CFWait ==
    /\ cpc = "fwait" /\ wfin
    /\ Destruct
    /\ UNCHANGED <<now, stop, smx, wnot, wdl, wfin, wexc, wdrop, cbreg, anyq, rsk, poolv, nsl, hold, ret>>

-----------------------------------------------------------------------------
(* pool threads: thread_pool::worker()                                               thread_pool.h:52-66 *)

PStart(w) ==
    /\ pc[w] = "start"
    /\ cpc # "begin"
    /\ pc' = [pc EXCEPT ![w] = "loop_lock"]
    /\ UNCHANGED <<schedv, q, exit, pthreads, cvwait, notified, cur, sth, sq, wdone, jst, jby, cliv>>

(* the critical section of the dequeue loop, entered by locking or by waking up in the wait *)
LoopCS(w) ==
    IF q = <<>> /\ ~exit
      THEN /\ cvwait' = Append(cvwait, w)
           /\ pc' = [pc EXCEPT ![w] = "pwaiting"]
           /\ UNCHANGED <<q, cur, jst>>
      ELSE IF exit
      THEN /\ pc' = [pc EXCEPT ![w] = "exit_after"]
           /\ UNCHANGED <<q, cur, cvwait, jst>>
      ELSE /\ cur' = [cur EXCEPT ![w] = Head(q)]
           /\ q' = Tail(q)
           /\ jst' = IF Head(q).t = "job" THEN [jst EXCEPT ![Head(q).i] = "running"] ELSE jst
           /\ pc' = [pc EXCEPT ![w] = "job_run"]
           /\ UNCHANGED cvwait

PLock(w) ==
    /\ pc[w] = "loop_lock"
    /\ LoopCS(w)
    /\ UNCHANGED <<schedv, exit, pthreads, notified, sth, sq, wdone, jby, cliv>>

PWake(w) ==
    /\ pc[w] = "pwaiting"
    /\ w \in notified
    /\ notified' = notified \ {w}
    /\ LoopCS(w)
    /\ UNCHANGED <<schedv, exit, pthreads, sth, sq, wdone, jby, cliv>>

PExit(w) ==
    /\ pc[w] = "exit_after"
    /\ pc' = [pc EXCEPT ![w] = "done"]
    /\ wdone' = wdone \cup {w}
    /\ UNCHANGED <<schedv, q, exit, pthreads, cvwait, notified, cur, sth, sq, jst, jby, cliv>>

(* after the unlock: h() runs the closure up to its first lock operation.  An ordinary job and the continuation of an
   awaiting sleeper have none; the worker coroutine starts (its stop callback is registered -- and runs at once, on this
   thread, when stop has already been requested -- up to `std::unique_lock lk(_mx)`) or continues after `co_await *pool`
   (up to `lk.lock()`, :391) *)
PRun(w) ==
    /\ pc[w] = "job_run"
    /\ LET j == cur[w] IN
       CASE j.t = "job" ->
              /\ jst' = [jst EXCEPT ![j.i] = "ran"]
              /\ jby' = [jby EXCEPT ![j.i] = w]
              /\ cur' = [cur EXCEPT ![w] = NoJob]
              /\ pc' = [pc EXCEPT ![w] = "loop_lock"]
              /\ UNCHANGED <<co, cbreg>>
         [] j.t = "sl" ->
              /\ co' = [co EXCEPT ![j.i] = [st |-> "ran", by |-> w, at |-> now]]
              /\ cur' = [cur EXCEPT ![w] = NoJob]
              /\ pc' = [pc EXCEPT ![w] = "loop_lock"]
              /\ UNCHANGED <<jst, jby, cbreg>>
         [] j.t = "w0" ->
              /\ cbreg' = TRUE
              /\ pc' = [pc EXCEPT ![w] = IF stop THEN "k_cb_lock" ELSE "k_lock1"]
              /\ UNCHANGED <<jst, jby, co, cur>>
         [] j.t = "wq" ->
              /\ pc' = [pc EXCEPT ![w] = "k_relock"]
              /\ UNCHANGED <<jst, jby, co, cur, cbreg>>
    /\ UNCHANGED <<heap, fut, now, stop, smx, wnot, wdl, wfin, wexc, wdrop, anyq, rsk, q, exit, pthreads, cvwait, notified, sth, sq, wdone, cliv>>

-----------------------------------------------------------------------------
(* the worker coroutine worker_coro<true> on pool thread w                            scheduler.h:370-416 *)

KStep(w, from, to) == pc[w] = from /\ pc' = [pc EXCEPT ![w] = to]
(* loop head `while (!state.stop_requested())` with S held: leave the loop (the coroutine ends, lk's destructor
   unlocks) or `lk.unlock()` *)
LoopHead == IF stop THEN "k_exit" ELSE "k_unl"

KCbLock(w) ==        \* the callback on the pool thread itself: lock S; notify_all (nobody waits); unlock
    /\ KStep(w, "k_cb_lock", "k_cb_after") /\ smx = "none"
    /\ UNCHANGED <<schedv, q, exit, pthreads, cvwait, notified, cur, sth, sq, wdone, jst, jby, cliv>>

KCbAfter(w) ==
    /\ KStep(w, "k_cb_after", "k_lock1")
    /\ UNCHANGED <<schedv, q, exit, pthreads, cvwait, notified, cur, sth, sq, wdone, jst, jby, cliv>>

KLock1(w) ==         \* std::unique_lock lk(_mx); pool = ...; loop head
    /\ pc[w] = "k_lock1" /\ smx = "none"
    /\ pc' = [pc EXCEPT ![w] = LoopHead]
    /\ UNCHANGED <<schedv, q, exit, pthreads, cvwait, notified, cur, sth, sq, wdone, jst, jby, cliv>>

KUnl(w) ==           \* after lk.unlock(): co_await *pool -> co_awaiter::await_suspend -> enqueue(): up to its lock
    /\ KStep(w, "k_unl", "k_enq")
    /\ UNCHANGED <<schedv, q, exit, pthreads, cvwait, notified, cur, sth, sq, wdone, jst, jby, cliv>>

KEnq(w) ==           \* enqueue() of the awaiter's closure (S not held)
    /\ pc[w] = "k_enq"
    /\ IF exit THEN UNCHANGED <<q, cvwait, notified>> ELSE Push(WQ)
    /\ pc' = [pc EXCEPT ![w] = IF exit THEN "k_enq_rej" ELSE "k_enq_after"]
    /\ UNCHANGED <<schedv, exit, pthreads, cur, sth, sq, wdone, jst, jby, cliv>>

(* accepted: await_suspend returns, the coroutine is suspended (and may already be running on another pool thread); this
   thread returns from h() to the dequeue loop *)
KEnqAfter(w) ==
    /\ KStep(w, "k_enq_after", "loop_lock")
    /\ cur' = [cur EXCEPT ![w] = NoJob]
    /\ UNCHANGED <<schedv, q, exit, pthreads, cvwait, notified, sth, sq, wdone, jst, jby, cliv>>

(* rejected (the pool has been stopped): the closure dies inside await_suspend, its deleter queues the coroutine in
   this thread's coroutine queue; it is resumed when await_suspend has returned; await_resume throws
   await_canceled_exception, worker_coro does not catch it: the coroutine ends, _fut holds the exception *)
KEnqRej(w) ==
    /\ KStep(w, "k_enq_rej", "loop_lock")
    /\ ~ClientInCallback
    /\ cur' = [cur EXCEPT ![w] = NoJob]
    /\ wfin' = TRUE /\ wexc' = TRUE /\ cbreg' = FALSE
    /\ UNCHANGED <<heap, fut, co, now, stop, smx, wnot, wdl, wdrop, anyq, rsk, q, exit, pthreads, cvwait, notified, sth, sq, wdone, jst, jby, cliv>>

(* lk.lock(); if (stop_requested()) break; now = system_clock::now()  -- parks at the clock read, S held *)
KRelock(w) ==
    /\ pc[w] = "k_relock" /\ smx = "none"
    /\ IF stop THEN pc' = [pc EXCEPT ![w] = "k_exit"] /\ UNCHANGED smx
               ELSE pc' = [pc EXCEPT ![w] = "k_clock"] /\ smx' = w
    /\ UNCHANGED <<heap, fut, co, now, stop, wnot, wdl, wfin, wexc, wdrop, cbreg, anyq, rsk, q, exit, pthreads, cvwait, notified, cur, sth, sq,
                   wdone, jst, jby, cliv>>

(* the clock is read; get_expired_lk(now).  A promise: x() resolves the sleep (inside S); an awaiting coroutine comes
   back in the suspend point and is handed to pool->resume(): up to the lock inside enqueue(), S still held; nobody
   awaiting: the loop goes round.  A time point: pool->any_enqueued(): up to its lock, S still held *)
KClock(w) ==
    /\ pc[w] = "k_clock"
    /\ LET r == GetExpiredLk(heap, now) IN
         /\ heap' = r.heap
         /\ IF r.k # 0
              THEN /\ fut' = [fut EXCEPT ![r.k] = [@ EXCEPT !.st = "done", !.wat = now]]
                   /\ IF co[r.k].st = "susp"
                        THEN pc' = [pc EXCEPT ![w] = "k_rs_enq"] /\ rsk' = r.k /\ UNCHANGED smx
                        ELSE pc' = [pc EXCEPT ![w] = LoopHead] /\ smx' = "none" /\ UNCHANGED rsk
                   /\ UNCHANGED wdl
              ELSE /\ pc' = [pc EXCEPT ![w] = "k_any"]
                   /\ wdl' = r.next
                   /\ UNCHANGED <<fut, rsk, smx>>
    /\ UNCHANGED <<co, now, stop, wnot, wfin, wexc, wdrop, cbreg, anyq, q, exit, pthreads, cvwait, notified, cur, sth, sq, wdone, jst, jby, cliv>>

(* pool->resume(suspend_point): enqueue([h]{coro_queue::resume(h);}), P inside S *)
KRsEnq(w) ==
    /\ pc[w] = "k_rs_enq"
    /\ IF exit THEN UNCHANGED <<q, cvwait, notified, co>>
               ELSE Push([t |-> "sl", i |-> rsk]) /\ co' = [co EXCEPT ![rsk] = [@ EXCEPT !.st = "queued"]]
    /\ pc' = [pc EXCEPT ![w] = IF exit THEN "k_rs_rej" ELSE "k_rs_after"]
    /\ UNCHANGED <<heap, fut, now, stop, smx, wnot, wdl, wfin, wexc, wdrop, cbreg, anyq, rsk, exit, pthreads, cur, sth, sq, wdone, jst, jby, cliv>>

(* after the inner unlock: a rejected closure dies, the bare handle is forgotten; resume() returns; loop head *)
KRsAfter(w) ==
    /\ pc[w] \in {"k_rs_after", "k_rs_rej"}
    /\ co' = IF pc[w] = "k_rs_rej" THEN [co EXCEPT ![rsk] = [@ EXCEPT !.st = "dropped"]] ELSE co
    /\ rsk' = 0
    /\ smx' = "none"
    /\ pc' = [pc EXCEPT ![w] = LoopHead]
    /\ UNCHANGED <<heap, fut, now, stop, wnot, wdl, wfin, wexc, wdrop, cbreg, anyq, q, exit, pthreads, cvwait, notified, cur, sth, sq, wdone,
                   jst, jby, cliv>>

(* any_enqueued(): lock P; return _exit || !_queue.empty(); P inside S              thread_pool.h:342-345 *)
KAny(w) ==
    /\ KStep(w, "k_any", "k_any_after")
    /\ anyq' = (exit \/ q # <<>>)
    /\ UNCHANGED <<heap, fut, co, now, stop, smx, wnot, wdl, wfin, wexc, wdrop, cbreg, rsk, q, exit, pthreads, cvwait, notified, cur, sth, sq,
                   wdone, jst, jby, cliv>>

(* after the inner unlock: nothing enqueued (coro_queue::can_block() is always true here: nothing is ever queued in the
   coroutine queue of the pool thread while the worker runs): _cond.wait_until(lk, tp) releases S; otherwise loop head *)
KAnyAfter(w) ==
    /\ pc[w] = "k_any_after"
    /\ IF ~anyq THEN pc' = [pc EXCEPT ![w] = "k_waiting"] /\ wnot' = FALSE /\ UNCHANGED wdl
                ELSE pc' = [pc EXCEPT ![w] = LoopHead] /\ wdl' = Inf /\ UNCHANGED wnot
    /\ anyq' = FALSE
    /\ smx' = "none"
    /\ UNCHANGED <<heap, fut, co, now, stop, wfin, wexc, wdrop, cbreg, rsk, q, exit, pthreads, cvwait, notified, cur, sth, sq, wdone, jst, jby, cliv>>

(* wait_until returns: notified, or the (virtual) deadline has been reached; S is re-acquired; loop head *)
KWake(w) ==
    /\ pc[w] = "k_waiting" /\ smx = "none"
    /\ wnot \/ (wdl < Inf /\ now >= wdl)
    /\ wnot' = FALSE
    /\ wdl' = Inf
    /\ pc' = [pc EXCEPT ![w] = LoopHead]
    /\ UNCHANGED <<heap, fut, co, now, stop, smx, wfin, wexc, wdrop, cbreg, anyq, rsk, q, exit, pthreads, cvwait, notified, cur, sth, sq, wdone,
                   jst, jby, cliv>>

(* the coroutine ends: ~stop_callback blocks while the callback is executing on another thread; then final_awaiter
   resolves _fut; this thread returns from h() to the dequeue loop *)
KExit(w) ==
    /\ KStep(w, "k_exit", "loop_lock")
    /\ ~ClientInCallback
    /\ cur' = [cur EXCEPT ![w] = NoJob]
    /\ wfin' = TRUE /\ cbreg' = FALSE
    /\ UNCHANGED <<heap, fut, co, now, stop, smx, wnot, wdl, wexc, wdrop, anyq, rsk, q, exit, pthreads, cvwait, notified, sth, sq, wdone, jst, jby, cliv>>

-----------------------------------------------------------------------------
(* nobody can run and the worker sleeps on a deadline: time passes *)
ClientBlocked == \/ cpc \in {"done", "terminated"}
                 \/ (cpc = "fwait" /\ ~wfin)
                 \/ (cpc = "ps_join" /\ Head(sth) \notin wdone)
PoolThreadBlocked(w) == pc[w] \in {"done", "k_waiting"} \/ (pc[w] = "pwaiting" /\ w \notin notified)
Tick ==
    /\ KWaiting /\ ~wnot /\ wdl < Inf /\ now < wdl
    /\ ClientBlocked
    /\ \A w \in Workers : PoolThreadBlocked(w)
    /\ now' = wdl
    /\ UNCHANGED <<heap, fut, co, stop, smx, wnot, wdl, wfin, wexc, wdrop, cbreg, anyq, rsk, poolv, cliv>>

Next == \/ CBegin \/ CStartCS \/ CStartAfter \/ CLock \/ CAfter \/ CTick \/ CJobCS \/ CJobAfter
        \/ CPsCS \/ CPsAfter \/ CPsJoin \/ CStop \/ CStopCS \/ CStopAfter \/ CFWait
        \/ \E w \in Workers : PStart(w) \/ PLock(w) \/ PWake(w) \/ PExit(w) \/ PRun(w)
        \/ \E w \in Workers : KCbLock(w) \/ KCbAfter(w) \/ KLock1(w) \/ KUnl(w) \/ KEnq(w) \/ KEnqAfter(w) \/ KEnqRej(w)
                              \/ KRelock(w) \/ KClock(w) \/ KRsEnq(w) \/ KRsAfter(w) \/ KAny(w) \/ KAnyAfter(w) \/ KWake(w) \/ KExit(w)
        \/ Tick

Spec == Init /\ [][Next]_vars /\ WF_vars(Next)

-----------------------------------------------------------------------------
(* Properties (C12, thread-pool mode) *)

KStates == {"k_cb_lock", "k_cb_after", "k_lock1", "k_unl", "k_enq", "k_enq_after", "k_enq_rej", "k_relock", "k_clock", "k_rs_enq",
            "k_rs_after", "k_rs_rej", "k_any", "k_any_after", "k_waiting", "k_exit"}
TypeOK == /\ smx \in Workers \cup {"none"}
          /\ Len(heap) <= MaxSleeps
          /\ \A w \in Workers : pc[w] \in KStates \cup {"start", "loop_lock", "pwaiting", "job_run", "exit_after", "done"}
(* the worker coroutine is executed by at most one thread at a time (k_enq_after: it has been handed over, the thread
   is only leaving await_suspend) and is in at most one place: running, queued, finished or never started *)
OneWorker == LET running == {w \in Workers : pc[w] \in KStates \ {"k_enq_after"} \/ (pc[w] = "job_run" /\ cur[w].t \in {"w0", "wq"})}
                 queued == {i \in 1..Len(q) : q[i].t \in {"w0", "wq"}} \cup {i + 100 : i \in {j \in 1..Len(sq) : sq[j].t \in {"w0", "wq"}}}
             IN Cardinality(running) + Cardinality(queued) + (IF wfin \/ wdrop \/ cpc \in {"begin", "st_lock", "st_rej"} THEN 1 ELSE 0) = 1
(* S is held across scheduling points only by the thread executing the worker coroutine between its relock and its wait / unlock *)
LockDiscipline == \A w \in Workers : (smx = w) <=> pc[w] \in {"k_clock", "k_rs_enq", "k_rs_after", "k_rs_rej", "k_any", "k_any_after"}
HeapWellFormed == IsHeap(heap)
(* a sleep never completes before its time point *)
NeverEarly == \A k \in Slots : fut[k].st = "done" => fut[k].wat >= fut[k].tp
(* while the pool is otherwise idle a sleeper is woken AT its time point, not later (or at once if the time point had
   already passed when it was scheduled) *)
PromptWhenIdle == \A k \in Slots : fut[k].st = "done" => fut[k].wat = (IF fut[k].tp >= fut[k].sa THEN fut[k].tp ELSE fut[k].sa)
(* no missed wake-up: the worker never sleeps beyond the time point of a live entry (an earlier deadline scheduled while
   it waits notifies it), and never sleeps through a stop request *)
NoMissedWakeup == (KWaiting /\ ~wnot) => \A i \in 1..Len(heap) : heap[i].k # 0 => wdl <= heap[i].tp
StopNotMissed == (stop /\ cpc = "fwait") => ~(KWaiting /\ ~wnot)
(* deadline order: the sleep the worker completes is the earliest live one *)
DeadlineOrder == [][\A k \in Slots : (fut[k].st = "pending" /\ fut'[k].st = "done") =>
                       \A i \in 1..Len(heap) : heap[i].k # 0 => heap[i].tp >= fut[k].tp]_vars
(* each sleep completes exactly once; its awaiting coroutine continues exactly once *)
Final == {"done", "exc", "canceled"}
CompletesOnce == [][\A k \in Slots : /\ (fut[k].st \in Final => fut'[k] = fut[k])
                                      /\ (co[k].st \in {"ran", "exc"} => co'[k] = co[k])
                                      /\ (co'[k].st = "ran" => fut'[k].st = "done")
                                      /\ (co'[k].st = "exc" => fut'[k].st \in {"exc", "canceled"})]_vars
(* an awaiting sleeper resumed by the worker continues on a pool thread; a cancelled one, or one whose sleep had already
   been completed when it started to await, in the client thread *)
SleeperThread == \A k \in Slots : /\ (co[k].st = "ran" => co[k].by \in Workers \/ (co[k].by = "c" /\ co[k].at = fut[k].sa))
                                  /\ (co[k].st = "exc" => co[k].by = "c")
(* cancel hits exactly its target: true iff a live entry carries the identifier; the entry taken carries it *)
CancelExact == [][(cpc = "op_lock" /\ cpc' = "op_after" /\ Op.op = "C") =>
                     /\ (hold' # 0) <=> (\E i \in 1..Len(heap) : heap[i].id = Op.id /\ heap[i].k # 0)
                     /\ hold' # 0 => fut[hold'].st = "pending" /\ fut[hold'].id = Op.id
                     /\ \A i \in 1..Len(heap') : heap'[i].k # 0 => \E j \in 1..Len(heap) : heap[j] = heap'[i]]_vars
LiveMatchesPending == ~destroyed =>
    \A k \in Slots : (fut[k].st = "pending") <=> ((\E i \in 1..Len(heap) : heap[i].k = k) \/ hold = k)
(* sleeps pending at destruction are cancelled, not left hanging *)
DestroyCancelsPending == destroyed => \A k \in Slots : fut[k].st # "pending" /\ co[k].st # "susp"
(* no awaiting sleeper is forgotten (violated through the bare-handle closures of thread_pool::resume when the pool is
   stopped before the scheduler: known finding of C11) *)
SleeperNotForgotten == \A k \in Slots : co[k].st # "dropped"
NoCrash == cpc # "terminated"
(* no hang, no deadlock: the only terminal state is the completed script with every pool thread gone (if stopped) *)
NoHang == (~ ENABLED Next) => (cpc = "done" /\ (exit => \A w \in Workers : pc[w] = "done"))
(* ordinary jobs: run once on a pool thread or cancelled once; a queued closure never waits while a pool thread idles in
   the pool's own wait without a wake-up under way for it *)
JobsOnce == \A j \in JobIds : /\ (jby[j] # "none" => jst[j] = "ran" /\ jby[j] \in Workers)
                              /\ ((cpc = "done" /\ exit) => jst[j] \in {"ran", "cancelled"})
QueuedJobHasNoIdleThread == (\E w \in Workers : pc[w] = "pwaiting" /\ w \notin notified) =>
                                Len(q) <= Cardinality({w \in Workers : pc[w] = "pwaiting" /\ w \in notified})
Termination == <>(cpc \in {"done", "terminated"})

=============================================================================
