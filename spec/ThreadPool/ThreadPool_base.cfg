SPECIFICATION Spec
INVARIANTS AtMostOnce RanOnWorker RunOrCancelOnce NoHang AwNotForgotten
PROPERTY Termination
CHECK_DEADLOCK FALSE
