SPECIFICATION Spec
INVARIANTS AtMostOnce RanOnWorker RunOrCancelOnce NoHang
PROPERTY Termination
CHECK_DEADLOCK FALSE
