SPECIFICATION Spec
INVARIANTS AtMostOnce RanOnWorker RunOrCancelOnce NoHang AwNotForgotten WorkerNeverWaitsForJob NoFutureHangs ThreadsOwnedOnce
PROPERTY Termination
CHECK_DEADLOCK FALSE
