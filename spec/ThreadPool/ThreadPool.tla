----------------------------- MODULE ThreadPool -----------------------------
(***************************************************************************)
(* cocls::thread_pool (src/cocls/thread_pool.h) at lock grain: one action  *)
(* per critical section of the pool mutex (from taking the lock to         *)
(* dropping it or to blocking in the condition variable), one action for   *)
(* the code that follows an unlock up to the next lock / join / end, and   *)
(* blocking steps for condition-variable wake-up and thread join.  This is *)
(* the grain at which the controlled scheduler replays it on real threads  *)
(* (interposed pthread_mutex / pthread_cond / pthread_create / join).      *)
(*                                                                         *)
(* A client thread "c" performs Script: a sequence of submissions          *)
(*   "co"   coroutine doing co_await pool                                  *)
(*   "fn"   pool.run(fn) -> future                                         *)
(*   "det"  pool.run_detached(fn)                                          *)
(*   "asy"  pool.run(async) -> future                                      *)
(*   "fnx"  pool.run(fn) whose fn throws: the exception is the outcome of   *)
(*          the future; the worker goes on      thread_pool.h:266-275      *)
(*   "asx"  pool.run(async) whose coroutine throws                         *)
(*   "res"  pool.resume(suspend_point holding a coroutine)                 *)
(*   "wst"  pool.run_detached(job that calls pool.stop() on the worker)    *)
(*   "aw"   coroutine doing co_await pool(future): started on the client;  *)
(*          await_ready() and the subscription are separate steps (the     *)
(*          harness wraps the awaiter so that both start at a marker);     *)
(*          already resolved / refused subscription: the coroutine goes on *)
(*          in the client thread (documented); otherwise it is suspended   *)
(*          and whoever resolves the future calls pool.resume() = enqueue  *)
(*   "rvj"  pool.run_detached(job that resolves the future awaited by the  *)
(*          NEXT "aw" of the script): resolution on a worker, racing with  *)
(*          the client between await_ready() and the subscription          *)
(*   "rv"   the client resolves the future awaited by the PREVIOUS "aw"    *)
(* Submissions whose body itself submits to the same pool (NESTED: the     *)
(* child submission has the id parent + Len(Script), the grandchild        *)
(* parent + 2*Len(Script); a worker that runs the parent leg takes the     *)
(* pool lock once more for the child's enqueue() and then RETURNS to its   *)
(* dequeue loop -- a coroutine job that suspends releases its worker):     *)
(*   "asn"  pool.run(async) whose coroutine does `co_await pool` (child    *)
(*          "co") before it returns: the run() future is resolved when     *)
(*          the whole chain is over                                        *)
(*   "as2"  the same with two consecutive `co_await pool` (child "con")    *)
(*   "acu"  the same with `co_await thread_pool::current()`: not suspended *)
(*          when the pool is already stopped (await_ready)                 *)
(*   "asr"  pool.run(async) whose coroutine does `co_await pool.run(fn)`   *)
(*          (child "fna": a run(fn) whose future the coroutine awaits)     *)
(*   "con"  coroutine doing `co_await pool` twice (child "co")             *)
(*   "dtn"  run_detached(fn) whose fn calls pool.run_detached(fn2)         *)
(*   "fnn"  run(fn) whose fn calls pool.run(fn2) and keeps the future      *)
(*          WITHOUT waiting for it (waiting there would be the user's      *)
(*          dead-lock)                                                     *)
(* and of "stop" (pool.stop() from the client).  The pool has the workers  *)
(* WOrder (creation order).  stop() can thus run on the client, on a       *)
(* worker, or on both concurrently.  With SecondStopper there is a second  *)
(* client thread "d" that calls pool.stop() once, at any time after the    *)
(* pool has been constructed (another owner's stop() / the destructor on   *)
(* another thread): two external stop() calls overlap at lock grain.       *)
(* Whoever runs the critical section of stop() first takes the thread      *)
(* list; every stopper joins only what it took.                            *)
(*                                                                         *)
(* Where a closure dies decides how its submission ends: a closure that    *)
(* is rejected by enqueue() (pool already stopped) dies in the submitter's *)
(* frame; closures swapped out of the queue by stop() die at the end of    *)
(* that stop() after the joins.  A dying closure of kind co resumes the    *)
(* coroutine with await_canceled_exception, of kind fn/asy breaks the      *)
(* promise; det/wst closures just die; a "res" closure holds a bare        *)
(* coroutine handle and has no cancel path: the coroutine is dropped.      *)
(***************************************************************************)
EXTENDS Naturals, Sequences, FiniteSets, TLC

CONSTANTS Script,    \* e.g. <<"co", "fn", "stop">>
          WOrder,    \* e.g. <<"w1", "w2">>
          SecondStopper  \* BOOLEAN: a second client thread "d" calls stop() once

Workers == {WOrder[i] : i \in 1..Len(WOrder)}
Threads == Workers \cup {"c"} \cup (IF SecondStopper THEN {"d"} ELSE {})
N == Len(Script)
(* nested submissions *)
HasChild(k) == k \in {"asn", "as2", "acu", "asr", "con", "dtn", "fnn"}
ChildKind(k) == CASE k \in {"asn", "acu", "con"} -> "co"
                  [] k = "as2" -> "con"
                  [] k = "asr" -> "fna"
                  [] k = "fnn" -> "fn"
                  [] k = "dtn" -> "det"
                  [] OTHER -> "none"
Kind(j) == IF j <= N THEN Script[j]
           ELSE IF j <= 2 * N THEN ChildKind(Script[j - N])
           ELSE ChildKind(ChildKind(Script[j - 2 * N]))
TopJobs == {i \in 1..N : Script[i] \notin {"stop", "rv"}}
Jobs == TopJobs \cup {N + i : i \in {k \in TopJobs : HasChild(Kind(k))}}
                \cup {2 * N + i : i \in {k \in TopJobs : HasChild(Kind(k)) /\ HasChild(Kind(N + k))}}
AwJobs == {i \in 1..Len(Script) : Script[i] = "aw"}
(* the "aw" job whose future script element i resolves (0: none).  Every future has ONE promise, which is resolved at
   most once: the elements of a run of "rvj" are paired in order with the "aw" elements that follow (the first "rvj"
   with the first "aw" after it, the second with the second ...); the elements of a run of "rv" with the "aw" elements
   that precede (the first "rv" with the last "aw" before it, the second with the one before that ...) *)
NthUp(S, r) == IF Cardinality(S) < r THEN 0 ELSE CHOOSE k \in S : Cardinality({m \in S : m <= k}) = r
NthDown(S, r) == IF Cardinality(S) < r THEN 0 ELSE CHOOSE k \in S : Cardinality({m \in S : m >= k}) = r
RunRank(i) == Cardinality({m \in 1..(i - 1) : Script[m] = Script[i] /\ \A x \in m..i : Script[x] # "aw"})
Target(i) ==
    IF Script[i] = "rvj" THEN NthUp({k \in AwJobs : k > i}, RunRank(i) + 1)
    ELSE IF Script[i] = "rv" THEN NthDown({k \in AwJobs : k < i}, RunRank(i) + 1)
    ELSE 0
(* no two script elements resolve the same future *)
ASSUME \A i1, i2 \in 1..Len(Script) : (i1 # i2 /\ Script[i1] \in {"rvj", "rv"} /\ Script[i2] \in {"rvj", "rv"} /\ Target(i1) # 0)
                                        => Target(i1) # Target(i2)

VARIABLES
    q,         \* _queue: sequence of job ids
    exit,      \* _exit
    pthreads,  \* _threads: sequence of workers still owned by the pool object
    cvwait,    \* workers blocked in _cond.wait, FIFO
    notified,  \* workers whose wait has been notified (not yet woken)
    pc,        \* per thread
    cur,       \* per thread: job being run (0 = none)
    cpos,      \* client: position in Script
    sth,       \* per thread executing stop(): swapped-out thread list still to join
    sq,        \* per thread executing stop(): swapped-out queue
    iscur,     \* per worker: thread-local _current still points to the pool
    jst,       \* per job: "unborn" (nested submission not made yet) | "new" | "waiting" (aw: subscribed, suspended) | "queued" | "running" | "ran" | "cancelled" | "dropped"
    resolved,  \* per aw job: its future has been resolved
    ranby,     \* per job: thread that executed it ("none")
    wdone      \* workers whose thread function returned

vars == <<q, exit, pthreads, cvwait, notified, pc, cur, cpos, sth, sq, iscur, jst, resolved, ranby, wdone>>

Init ==
    /\ q = <<>>
    /\ exit = FALSE
    /\ pthreads = WOrder
    /\ cvwait = <<>>
    /\ notified = {}
    /\ pc = [t \in Threads |-> IF t = "c" THEN "begin" ELSE IF t = "d" THEN "dbegin" ELSE "start"]
    /\ cur = [t \in Threads |-> 0]
    /\ cpos = 1
    /\ sth = [t \in Threads |-> <<>>]
    /\ sq = [t \in Threads |-> <<>>]
    /\ iscur = [w \in Workers |-> TRUE]
    /\ jst = [j \in Jobs |-> IF j <= N THEN "new" ELSE "unborn"]
    /\ resolved = [j \in AwJobs |-> FALSE]
    /\ ranby = [j \in Jobs |-> "none"]
    /\ wdone = {}

(* a closure dies without having been called *)
DeadState(j) == IF Kind(j) \in {"res", "aw"} THEN "dropped" ELSE "cancelled"

RECURSIVE KillAll(_, _)
KillAll(js, st) == IF js = <<>> THEN st ELSE KillAll(Tail(js), [st EXCEPT ![Head(js)] = DeadState(Head(js))])

SeqRemove(s, x) == SelectSeq(s, LAMBDA y : y # x)

-----------------------------------------------------------------------------
(* client *)

(* what the client does next after finishing a script step: position p *)
ClientNext(p) ==
    IF p > Len(Script) THEN "done"
    ELSE IF Script[p] = "stop" THEN "stop_lock"
    ELSE IF Script[p] = "aw" THEN "aw0"
    ELSE IF Script[p] = "rv" THEN "rv_mark"
    ELSE "enq_lock"

CBegin ==
    /\ pc["c"] = "begin"
    /\ pc' = [pc EXCEPT !["c"] = ClientNext(1)]
    /\ UNCHANGED <<q, exit, pthreads, cvwait, notified, cur, cpos, sth, sq, iscur, jst, ranby, wdone, resolved>>

(* enqueue(): lock; if (!_exit) { push; notify_one }; unlock      thread_pool.h:353-359 *)
Enqueue(t, j, nextpc) ==
    /\ IF exit
         THEN UNCHANGED <<q, cvwait, notified, jst>>
         ELSE /\ q' = Append(q, j)
              /\ jst' = [jst EXCEPT ![j] = "queued"]
              /\ IF cvwait # <<>>
                   THEN notified' = notified \cup {Head(cvwait)} /\ cvwait' = Tail(cvwait)
                   ELSE UNCHANGED <<cvwait, notified>>
    /\ pc' = [pc EXCEPT ![t] = nextpc]

CEnqueue ==
    /\ pc["c"] = "enq_lock"
    /\ Enqueue("c", cpos, "enq_after")
    /\ UNCHANGED <<exit, pthreads, cur, cpos, sth, sq, iscur, ranby, wdone, resolved>>

(* after the unlock: a rejected closure dies here, in the submitter's frame *)
CAfterEnqueue ==
    /\ pc["c"] = "enq_after"
    /\ jst' = IF jst[cpos] = "new" THEN [jst EXCEPT ![cpos] = DeadState(cpos)] ELSE jst
    /\ cpos' = cpos + 1
    /\ pc' = [pc EXCEPT !["c"] = ClientNext(cpos + 1)]
    /\ UNCHANGED <<q, exit, pthreads, cvwait, notified, cur, sth, sq, iscur, ranby, wdone, resolved>>

(* the second client thread: starts once the pool exists, then calls stop() *)
DBegin ==
    /\ SecondStopper
    /\ pc["d"] = "dbegin"
    /\ pc["c"] # "begin"
    /\ pc' = [pc EXCEPT !["d"] = "stop_lock"]
    /\ UNCHANGED <<q, exit, pthreads, cvwait, notified, cur, cpos, sth, sq, iscur, jst, ranby, wdone, resolved>>

-----------------------------------------------------------------------------
(* stop() -- executable by the client(s) and by a worker (job "wst")            thread_pool.h:47-68 *)

StopCS(t) ==
    /\ pc[t] = "stop_lock"
    /\ exit' = TRUE
    /\ notified' = notified \cup {cvwait[i] : i \in 1..Len(cvwait)}
    /\ cvwait' = <<>>
    /\ sth' = [sth EXCEPT ![t] = pthreads]
    /\ pthreads' = <<>>
    /\ sq' = [sq EXCEPT ![t] = q]
    /\ q' = <<>>
    /\ pc' = [pc EXCEPT ![t] = "stop_after"]
    /\ UNCHANGED <<cur, cpos, iscur, jst, ranby, wdone, resolved>>

(* the end of stop(): the swapped-out queue is destroyed, its closures die; the caller continues up to its
   next lock operation: the client with its script; a worker returns from the job that stopped the pool
   (the job counts as run) and then executes `if (_current == nullptr) return;`.  ic = _current still set *)
StopFinish(t, ic) ==
    /\ sq' = [sq EXCEPT ![t] = <<>>]
    /\ IF t = "c"
         THEN /\ jst' = KillAll(sq[t], jst)
              /\ cpos' = cpos + 1
              /\ pc' = [pc EXCEPT ![t] = ClientNext(cpos + 1)]
              /\ UNCHANGED <<cur, ranby, wdone, resolved>>
         ELSE IF t = "d"
         THEN /\ jst' = KillAll(sq[t], jst)
              /\ pc' = [pc EXCEPT ![t] = "done"]
              /\ UNCHANGED <<cpos, cur, ranby, wdone, resolved>>
         ELSE /\ jst' = [KillAll(sq[t], jst) EXCEPT ![cur[t]] = "ran"]
              /\ cur' = [cur EXCEPT ![t] = 0]
              /\ UNCHANGED <<cpos, ranby, resolved>>
              /\ IF ic
                   THEN pc' = [pc EXCEPT ![t] = "loop_lock"] /\ UNCHANGED wdone
                   ELSE pc' = [pc EXCEPT ![t] = "done"] /\ wdone' = wdone \cup {t}

(* the loop over the swapped-out threads: detach self (and clear _current), or block in join *)
RECURSIVE SkipSelf(_, _)
SkipSelf(t, s) == IF s # <<>> /\ Head(s) = t THEN SkipSelf(t, Tail(s)) ELSE s

StopAfter(t) ==
    /\ pc[t] = "stop_after"
    /\ LET rest == SkipSelf(t, sth[t])
           selfin == t \in {sth[t][i] : i \in 1..Len(sth[t])}
           detachnow == sth[t] # <<>> /\ Head(sth[t]) = t
       IN /\ sth' = [sth EXCEPT ![t] = rest]
          /\ iscur' = IF detachnow THEN [iscur EXCEPT ![t] = FALSE] ELSE iscur
          /\ IF rest = <<>>
               THEN StopFinish(t, IF t \in Workers THEN (iscur[t] /\ ~detachnow) ELSE TRUE)
               ELSE /\ pc' = [pc EXCEPT ![t] = "stop_join"]
                    /\ UNCHANGED <<cpos, cur, jst, sq, ranby, wdone, resolved>>
    /\ UNCHANGED <<q, exit, pthreads, cvwait, notified, resolved>>

StopJoin(t) ==
    /\ pc[t] = "stop_join"
    /\ Head(sth[t]) \in wdone
    /\ LET rest0 == Tail(sth[t])
           detachnow == rest0 # <<>> /\ Head(rest0) = t
           rest == SkipSelf(t, rest0)
       IN /\ sth' = [sth EXCEPT ![t] = rest]
          /\ iscur' = IF detachnow THEN [iscur EXCEPT ![t] = FALSE] ELSE iscur
          /\ IF rest = <<>>
               THEN StopFinish(t, IF t \in Workers THEN (iscur[t] /\ ~detachnow) ELSE TRUE)
               ELSE /\ pc' = [pc EXCEPT ![t] = "stop_join"]
                    /\ UNCHANGED <<cpos, cur, jst, sq, ranby, wdone, resolved>>
    /\ UNCHANGED <<q, exit, pthreads, cvwait, notified, resolved>>

-----------------------------------------------------------------------------
(* workers                                                                   thread_pool.h:31-45 *)

WStart(w) ==
    /\ pc[w] = "start"
    /\ pc["c"] # "begin"        \* the workers are created by the pool's constructor
    /\ pc' = [pc EXCEPT ![w] = "loop_lock"]
    /\ UNCHANGED <<q, exit, pthreads, cvwait, notified, cur, cpos, sth, sq, iscur, jst, ranby, wdone, resolved>>

(* the critical section of the dequeue loop, entered by locking or by waking up in the wait *)
LoopCS(w) ==
    IF q = <<>> /\ ~exit
      THEN /\ cvwait' = Append(cvwait, w)
           /\ pc' = [pc EXCEPT ![w] = "waiting"]
           /\ UNCHANGED <<q, cur, jst, resolved>>
      ELSE IF exit
      THEN /\ pc' = [pc EXCEPT ![w] = "exit_after"]
           /\ UNCHANGED <<q, cur, cvwait, jst, resolved>>
      ELSE /\ cur' = [cur EXCEPT ![w] = Head(q)]
           /\ q' = Tail(q)
           /\ jst' = [jst EXCEPT ![Head(q)] = "running"]
           /\ pc' = [pc EXCEPT ![w] = "job_run"]
           /\ UNCHANGED cvwait

WLock(w) ==
    /\ pc[w] = "loop_lock"
    /\ LoopCS(w)
    /\ UNCHANGED <<exit, pthreads, notified, cpos, sth, sq, iscur, ranby, wdone, resolved>>

WWake(w) ==
    /\ pc[w] = "waiting"
    /\ w \in notified
    /\ notified' = notified \ {w}
    /\ LoopCS(w)
    /\ UNCHANGED <<exit, pthreads, cpos, sth, sq, iscur, ranby, wdone, resolved>>

(* after the unlock: h() runs the job up to its first lock operation (none for ordinary jobs; stop() for "wst";
   for "rvj" the enqueue() inside pool.resume() when the awaiting coroutine is already subscribed; for a job with a
   nested submission the enqueue() of the child -- run(async) only STARTS the coroutine, thread_pool.h:289-297) *)
WRun(w) ==
    /\ pc[w] = "job_run"
    /\ LET j == cur[w]
           \* co_await thread_pool::current() on a stopped pool: await_ready() is true, the coroutine is not suspended
           \* and runs its second leg in the same worker                          thread_pool.h:307-318
           inl == Kind(j) = "acu" /\ exit
       IN
       /\ ranby' = IF inl THEN [ranby EXCEPT ![j] = w, ![j + N] = w] ELSE [ranby EXCEPT ![j] = w]
       /\ IF Kind(j) = "wst"
            THEN /\ pc' = [pc EXCEPT ![w] = "stop_lock"]
                 /\ UNCHANGED <<jst, cur, wdone, resolved>>
            ELSE IF Kind(j) = "rvj" /\ Target(j) # 0
            THEN LET tg == Target(j) IN
                 /\ resolved' = [resolved EXCEPT ![tg] = TRUE]
                 /\ IF jst[tg] = "waiting"
                      THEN /\ pc' = [pc EXCEPT ![w] = "rs_enq_lock"]
                           /\ UNCHANGED <<jst, cur, wdone>>
                      ELSE /\ jst' = [jst EXCEPT ![j] = "ran"]
                           /\ cur' = [cur EXCEPT ![w] = 0]
                           /\ pc' = [pc EXCEPT ![w] = "loop_lock"]
                           /\ UNCHANGED wdone
            ELSE IF HasChild(Kind(j)) /\ ~inl
            THEN /\ pc' = [pc EXCEPT ![w] = "nx_enq_lock"]
                 /\ UNCHANGED <<jst, cur, wdone, resolved>>
            ELSE /\ jst' = IF inl THEN [jst EXCEPT ![j] = "ran", ![j + N] = "ran"] ELSE [jst EXCEPT ![j] = "ran"]
                 /\ cur' = [cur EXCEPT ![w] = 0]
                 /\ pc' = [pc EXCEPT ![w] = "loop_lock"]
                 /\ UNCHANGED <<wdone, resolved>>
    /\ UNCHANGED <<q, exit, pthreads, cvwait, notified, cpos, sth, sq, iscur>>

(* the nested submission made by the running leg of job cur[w]: enqueue() from a worker thread.  co_awaiter::
   await_suspend (thread_pool.h:113-137), run_detached (:250-252), run(fn) (:262-278) *)
NEnqueue(w) ==
    /\ pc[w] = "nx_enq_lock"
    /\ Enqueue(w, cur[w] + N, "nx_enq_after")
    /\ UNCHANGED <<exit, pthreads, cur, cpos, sth, sq, iscur, ranby, wdone, resolved>>

(* after the unlock: a rejected child closure dies in the submitting leg's frame (co: the coroutine goes on with
   await_canceled_exception; fn/fna: broken promise); then the leg is over -- the coroutine is suspended, the
   function returns -- and the worker goes back to its dequeue loop: it NEVER waits for the child *)
NAfterEnqueue(w) ==
    /\ pc[w] = "nx_enq_after"
    /\ LET j == cur[w]
           n == j + N
           j1 == IF jst[n] = "unborn" THEN [jst EXCEPT ![n] = DeadState(n)] ELSE jst
       IN jst' = [j1 EXCEPT ![j] = "ran"]
    /\ cur' = [cur EXCEPT ![w] = 0]
    /\ pc' = [pc EXCEPT ![w] = "loop_lock"]
    /\ UNCHANGED <<q, exit, pthreads, cvwait, notified, cpos, sth, sq, iscur, ranby, wdone, resolved>>

-----------------------------------------------------------------------------
(* co_await pool(future)                                                     thread_pool.h:151-170 *)

(* the coroutine of an "aw" element continues without suspension in the client thread: its body runs here *)
AwRunsInline(p) ==
    /\ jst' = [jst EXCEPT ![p] = "ran"]
    /\ ranby' = [ranby EXCEPT ![p] = "c"]
    /\ cpos' = cpos + 1
    /\ pc' = [pc EXCEPT !["c"] = ClientNext(cpos + 1)]

(* await_ready(): the future's ready() *)
CAwReady ==
    /\ pc["c"] = "aw0"
    /\ IF resolved[cpos]
         THEN AwRunsInline(cpos)
         ELSE /\ pc' = [pc EXCEPT !["c"] = "awb"]
              /\ UNCHANGED <<jst, ranby, cpos>>
    /\ UNCHANGED <<q, exit, pthreads, cvwait, notified, cur, sth, sq, iscur, wdone, resolved>>

(* await_suspend(): set the resume function, subscribe; a refused subscription (resolved meanwhile) means "do not
   suspend"; otherwise the coroutine stays suspended and the client goes on with its script *)
CAwSubscribe ==
    /\ pc["c"] = "awb"
    /\ IF resolved[cpos]
         THEN AwRunsInline(cpos)
         ELSE /\ jst' = [jst EXCEPT ![cpos] = "waiting"]
              /\ cpos' = cpos + 1
              /\ pc' = [pc EXCEPT !["c"] = ClientNext(cpos + 1)]
              /\ UNCHANGED ranby
    /\ UNCHANGED <<q, exit, pthreads, cvwait, notified, cur, sth, sq, iscur, wdone, resolved>>

(* the client resolves the future of the previous "aw" *)
CResolve ==
    /\ pc["c"] = "rv_mark"
    /\ LET tg == Target(cpos) IN
       IF tg = 0
         THEN /\ cpos' = cpos + 1 /\ pc' = [pc EXCEPT !["c"] = ClientNext(cpos + 1)] /\ UNCHANGED resolved
         ELSE /\ resolved' = [resolved EXCEPT ![tg] = TRUE]
              /\ IF jst[tg] = "waiting"
                   THEN pc' = [pc EXCEPT !["c"] = "rs_enq_lock"] /\ UNCHANGED cpos
                   ELSE cpos' = cpos + 1 /\ pc' = [pc EXCEPT !["c"] = ClientNext(cpos + 1)]
    /\ UNCHANGED <<q, exit, pthreads, cvwait, notified, cur, sth, sq, iscur, jst, ranby, wdone>>

(* the resolving thread runs perform_resume -> pool.resume(): enqueue([h]{coro_queue::resume(h);}) *)
RsTarget(t) == IF t = "c" THEN Target(cpos) ELSE Target(cur[t])
REnqueue(t) ==
    /\ pc[t] = "rs_enq_lock"
    /\ Enqueue(t, RsTarget(t), "rs_enq_after")
    /\ UNCHANGED <<exit, pthreads, cur, cpos, sth, sq, iscur, ranby, wdone, resolved>>

(* after the unlock: a rejected closure dies (bare handle: the coroutine is dropped); the resolving call returns *)
RAfterEnqueue(t) ==
    /\ pc[t] = "rs_enq_after"
    /\ LET tg == RsTarget(t)
           j1 == IF jst[tg] = "waiting" THEN [jst EXCEPT ![tg] = "dropped"] ELSE jst
       IN IF t = "c"
            THEN /\ jst' = j1
                 /\ cpos' = cpos + 1
                 /\ pc' = [pc EXCEPT ![t] = ClientNext(cpos + 1)]
                 /\ UNCHANGED cur
            ELSE /\ jst' = [j1 EXCEPT ![cur[t]] = "ran"]
                 /\ cur' = [cur EXCEPT ![t] = 0]
                 /\ pc' = [pc EXCEPT ![t] = "loop_lock"]
                 /\ UNCHANGED cpos
    /\ UNCHANGED <<q, exit, pthreads, cvwait, notified, sth, sq, iscur, ranby, wdone, resolved>>

WExit(w) ==
    /\ pc[w] = "exit_after"
    /\ pc' = [pc EXCEPT ![w] = "done"]
    /\ wdone' = wdone \cup {w}
    /\ UNCHANGED <<q, exit, pthreads, cvwait, notified, cur, cpos, sth, sq, iscur, jst, ranby, resolved>>

Next ==
    \/ CBegin \/ CEnqueue \/ CAfterEnqueue \/ CAwReady \/ CAwSubscribe \/ CResolve \/ DBegin
    \/ \E t \in Threads : StopCS(t) \/ StopAfter(t) \/ StopJoin(t) \/ REnqueue(t) \/ RAfterEnqueue(t)
    \/ \E w \in Workers : WStart(w) \/ WLock(w) \/ WWake(w) \/ WRun(w) \/ WExit(w) \/ NEnqueue(w) \/ NAfterEnqueue(w)

TStep(t) == \/ (t = "d" /\ DBegin)
            \/ (t = "c" /\ (CBegin \/ CEnqueue \/ CAfterEnqueue \/ CAwReady \/ CAwSubscribe \/ CResolve))
            \/ StopCS(t) \/ StopAfter(t) \/ StopJoin(t) \/ REnqueue(t) \/ RAfterEnqueue(t)
            \/ (t \in Workers /\ (WStart(t) \/ WLock(t) \/ WWake(t) \/ WRun(t) \/ WExit(t) \/ NEnqueue(t) \/ NAfterEnqueue(t)))

Spec == Init /\ [][Next]_vars /\ \A t \in Threads : WF_vars(TStep(t))

-----------------------------------------------------------------------------
(* Properties (C11) *)

Stops == {i \in 1..Len(Script) : Script[i] \in {"stop", "wst"}}
ClientDone == pc["c"] = "done" /\ (SecondStopper => pc["d"] = "done")
Quiescent == ~ ENABLED Next

(* never executed twice, never executed and cancelled *)
AtMostOnce == \A j \in Jobs : ranby[j] # "none" => jst[j] \in {"running", "ran"}
(* executed only by a worker thread of the pool; co_await pool(awaitable) documents one exception: "If the awaiting
   operation is already resolved, no thread is allocated and execution continues in current thread" *)
RanOnWorker == \A j \in Jobs : ranby[j] = "none" \/ ranby[j] \in Workers \/ (Kind(j) = "aw" /\ ranby[j] = "c" /\ resolved[j])
(* at quiescence after a stop every submission has been executed or cancelled -- never forgotten.  A nested submission
   that was never made (its parent leg was cancelled, or never made itself) is not a submission *)
Settled(j) == \/ jst[j] \in {"ran", "cancelled"}
              \/ (Kind(j) = "aw" /\ ~resolved[j])
              \/ (j > N /\ jst[j] = "unborn" /\ jst[j - N] \in {"cancelled", "unborn"})
RunOrCancelOnce == (Quiescent /\ exit) => \A j \in Jobs : Settled(j)
(* a worker that holds a job is on its way through that job: it is never parked in the dequeue loop's wait, and the only
   blocking step inside a job is the join of stop() called by a "wst" job.  In particular no worker waits for a nested
   submission (which needs a worker) *)
WorkerNeverWaitsForJob ==
    \A w \in Workers : cur[w] # 0 =>
        /\ pc[w] \in {"job_run", "nx_enq_lock", "nx_enq_after", "rs_enq_lock", "rs_enq_after", "stop_lock", "stop_after", "stop_join"}
        /\ pc[w] \in {"stop_lock", "stop_after", "stop_join"} => Kind(cur[w]) = "wst"
(* the state of the future returned by run(): of a function when it returned; of a coroutine when its last leg is over.
   A leg that is resumed through the pool can be over before the worker that made the submission has come back from
   enqueue() (the parent leg still counts as running then); a cancelled nested submission resumes the coroutine with
   await_canceled_exception, which ends it in the harness; the coroutine of "asr" goes on when the function it awaits
   has run or was cancelled AND it has reached its co_await *)
RECURSIVE ChainOver(_)
ChainOver(j) == IF ~HasChild(Kind(j)) THEN jst[j] = "ran"
                ELSE IF Kind(j) = "asr" THEN jst[j] = "ran" /\ jst[j + N] \in {"ran", "cancelled"}
                ELSE jst[j + N] = "cancelled" \/ ChainOver(j + N)
HasFuture(j) == Kind(j) \in {"fn", "asy", "fnn", "fnx", "asx", "asn", "as2", "acu", "asr"}
FutState(j) == IF jst[j] = "cancelled" THEN "broken"
               ELSE IF Kind(j) \in {"fn", "asy", "fnn"} THEN (IF jst[j] = "ran" THEN "value" ELSE "pending")
               ELSE IF Kind(j) \in {"fnx", "asx"} THEN (IF jst[j] = "ran" THEN "exception" ELSE "pending")
               ELSE IF ChainOver(j) THEN "value" ELSE "pending"
NoFutureHangs == (Quiescent /\ exit) => \A j \in Jobs : (HasFuture(j) /\ jst[j] # "unborn") => FutState(j) # "pending"
(* a coroutine awaiting pool(future) is never left suspended once the future is resolved and the resolver has returned *)
AwNotForgotten ==
    \A j \in AwJobs : (jst[j] = "waiting" /\ resolved[j]) => \E t \in Threads : pc[t] \in {"rs_enq_lock", "rs_enq_after"} /\ RsTarget(t) = j
(* stop() terminates: no stuck state other than completion of the client script *)
NoHang == Quiescent => (ClientDone /\ (exit => \A w \in Workers : pc[w] = "done"))
(* every worker's std::thread object is owned by exactly one party: the pool, or ONE of the threads executing stop()
   (which then joins or detaches it exactly once) *)
SeqSet(x) == {x[i] : i \in 1..Len(x)}
ThreadsOwnedOnce ==
    /\ \A t1, t2 \in Threads : t1 # t2 => SeqSet(sth[t1]) \cap SeqSet(sth[t2]) = {}
    /\ \A t \in Threads : SeqSet(sth[t]) \cap SeqSet(pthreads) = {}
(* nothing is dropped, ever (violated by the bare-handle closures of resume(): known finding) *)
NothingDropped == \A j \in Jobs : jst[j] # "dropped"
Termination == <>ClientDone

=============================================================================
