SPECIFICATION Spec
INVARIANTS AtMostOnce RanOnWorker NoHang
PROPERTY Termination
CHECK_DEADLOCK FALSE
