SPECIFICATION Spec
INVARIANTS AtMostOnce RanOnWorker NoHang AwNotForgotten
PROPERTY Termination
CHECK_DEADLOCK FALSE
