SPECIFICATION Spec
INVARIANTS AtMostOnce RanOnWorker NoHang AwNotForgotten WorkerNeverWaitsForJob NoFutureHangs ThreadsOwnedOnce
PROPERTY Termination
CHECK_DEADLOCK FALSE
