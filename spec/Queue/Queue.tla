------------------------------- MODULE Queue -------------------------------
(***************************************************************************)
(* cocls::queue<T> (src/cocls/queue.h:73-135) at critical-section grain.   *)
(*                                                                         *)
(* One action per critical section of the implementation (the region       *)
(* between taking and dropping `_mx`), plus one action for the promise     *)
(* resolution that push()/unblock_pop() perform *after* dropping the lock. *)
(* pop() resolves inside the lock, so it is a single action.               *)
(*                                                                         *)
(* Values are numbered in the order in which the pushing critical sections *)
(* took effect (1,2,3,...), pop requests likewise; that makes every        *)
(* ordering property a plain comparison.  With Void = TRUE every item is   *)
(* the same token 0 and the queue degenerates to a counting semaphore      *)
(* (primitives::std_queue<void>).                                          *)
(*                                                                         *)
(* Item vocabulary.  push(args...) is emplace-style: the item is           *)
(* T(args...), whichever branch the push takes (stored: _queue.emplace,    *)
(* queue.h:166; hand-over to a parked pop: `T item(args...)`, queue.h:154, *)
(* moved into the promise).  The n-th push is made through the argument    *)
(* form FormOf(n) (one / two / no construction arguments, a ready-made     *)
(* item as lvalue, const lvalue, rvalue; the forms in use are the constant *)
(* Forms, their rotation over the pushes is `shift`, chosen by Init), and  *)
(* the item it contributes is Val(n): a record of the identity n and of    *)
(* HOW a direct T(args...) builds it (which constructor, second argument). *)
(* With Obj = TRUE the replay uses a class type that records exactly that  *)
(* (and has an initializer-list constructor, so T{args...} is a different  *)
(* object than T(args...)); with Obj = FALSE the item is a plain int.       *)
(* What sits in the queue or in a pop future is always Val(n) - ValueIntact.*)
(*                                                                         *)
(* Containers.  Queue / CoroQueue template parameters: std_queue           *)
(* (unbounded) or primitives::single_item_queue (one slot, queue.h:65-93,  *)
(* what generator_aggregator uses for its waiters): SingleItem /           *)
(* SingleWaiter.  An element arriving at an occupied slot is REFUSED:      *)
(* single_item_queue::emplace throws (queue.h:77) inside the critical      *)
(* section of push() / pop(), the call fails with std::runtime_error and   *)
(* nothing else changes (PushRefused, PopRefused).                         *)
(***************************************************************************)
EXTENDS Naturals, Sequences, FiniteSets, TLC

CONSTANTS Threads,      \* client threads
          MaxPush,      \* bound on number of push() calls
          MaxPop,       \* bound on number of pop() calls
          MaxUnblock,   \* bound on number of unblock_pop() calls
          MaxSize,      \* bound on number of size()/empty() calls
          Void,         \* TRUE: queue<void>
          AllowDestroy, \* TRUE: the queue may be destroyed while pops are parked
          AllowThrow,   \* TRUE: a push may fail because the item's constructor throws
          Obj,          \* TRUE: class item type recording its construction; FALSE: int (ignored when Void)
          Forms,        \* the push() argument forms in use (subset of the range of FormOrder)
          SingleItem,   \* TRUE: Queue = primitives::single_item_queue (one slot for items)
          SingleWaiter, \* TRUE: CoroQueue = primitives::single_item_queue (one slot for parked pops)
          MaxRefuse     \* bound on the number of refused calls (element arriving at an occupied slot)

ASSUME /\ Void \in BOOLEAN /\ Obj \in BOOLEAN /\ SingleItem \in BOOLEAN /\ SingleWaiter \in BOOLEAN
       /\ Void => ~SingleItem          \* single_item_queue<void> does not exist (std::optional<void>)
       /\ MaxRefuse \in Nat

VARIABLES items,     \* _queue: sequence of values
          waiters,   \* _awaiters: sequence of pop ids whose promise is parked
          fut,       \* fut[i]: state of the future returned by the i-th pop()
          pc,        \* per thread: "idle" | "push_resolve" | "unblock_resolve"
          hold,      \* per thread: the promise taken out of _awaiters, to be resolved outside the lock
          ret,       \* per thread: result of its last completed push()/unblock_pop()
          npush, npop, nunb, nsize, destroyed,
          nref,      \* number of refused calls so far
          shift      \* rotation of the argument forms over the pushes (fixed by Init)

vars == <<items, waiters, fut, pc, hold, ret, npush, npop, nunb, nsize, destroyed, nref, shift>>

(* the public argument forms of push(): push(n) | push(n, n+50) | push() [the item type's default constructor
   draws the identity from the test] | push(x) with a ready-made lvalue x built as T(n, n+50) | the same with a
   const lvalue built as T(n) | push(std::move(x)), x built as T(n) *)
FormOrder == <<"one", "two", "zero", "copy", "cref", "move">>
ASSUME Forms # {} /\ Forms \subseteq {FormOrder[i] : i \in 1..Len(FormOrder)}
FormSeq == SelectSeq(FormOrder, LAMBDA f : f \in Forms)
FormOf(n) == FormSeq[((n + shift) % Len(FormSeq)) + 1]

(* an item: identity a (0: the token of queue<void> / no item), second constructor argument b, and the constructor
   that built the original object ("-": not recorded, plain int) *)
It(a, b, c) == [a |-> a, b |-> b, ctor |-> c]
NoItem == It(0, 0, "-")
(* what a direct T(args...) gives for the arguments of the n-th push *)
Built(n) == LET f == FormOf(n) IN
            It(n, IF f \in {"two", "copy"} THEN n + 50 ELSE 0,
               CASE f = "zero" -> "0" [] f \in {"two", "copy"} -> "2" [] OTHER -> "1")

NoHold == [pop |-> 0, v |-> NoItem]
F(s, v) == [st |-> s, v |-> v]

Init == /\ items = <<>>
        /\ waiters = <<>>
        /\ fut = <<>>
        /\ pc = [t \in Threads |-> "idle"]
        /\ hold = [t \in Threads |-> NoHold]
        /\ ret = [t \in Threads |-> "none"]
        /\ npush = 0 /\ npop = 0 /\ nunb = 0 /\ nsize = 0 /\ nref = 0
        /\ destroyed = FALSE
        /\ shift \in 0..(Len(FormSeq) - 1)

Val(n) == IF Void THEN NoItem ELSE IF Obj THEN Built(n) ELSE It(n, 0, "-")

ItemSlotFull == SingleItem /\ items # <<>>
WaiterSlotFull == SingleWaiter /\ waiters # <<>>

(* queue::push, queue.h:148-170: lock; if a consumer is parked build the item (queue.h:154), take the promise out and
   leave the critical section (the promise is resolved outside with the item moved in), else build the item in the
   item container (queue.h:166) and return false.  Either way the item is Val(n) = T(args...). *)
PushCS(t) ==
    /\ ~destroyed /\ pc[t] = "idle" /\ npush < MaxPush
    /\ waiters = <<>> => ~ItemSlotFull
    /\ npush' = npush + 1
    /\ IF waiters # <<>>
         THEN /\ hold' = [hold EXCEPT ![t] = [pop |-> Head(waiters), v |-> Val(npush + 1)]]
              /\ waiters' = Tail(waiters)
              /\ pc' = [pc EXCEPT ![t] = "push_resolve"]
              /\ UNCHANGED <<items, ret>>
         ELSE /\ items' = Append(items, Val(npush + 1))
              /\ ret' = [ret EXCEPT ![t] = "false"]
              /\ UNCHANGED <<waiters, hold, pc>>
    /\ UNCHANGED <<fut, npop, nunb, nsize, destroyed, nref, shift>>

(* push() onto an occupied single item slot: single_item_queue::emplace throws (queue.h:77, reached from queue.h:166)
   before anything is constructed or stored; the lock is dropped by unwinding, the call fails with
   std::runtime_error, the stored item stays *)
PushRefused(t) ==
    /\ ~destroyed /\ pc[t] = "idle" /\ nref < MaxRefuse
    /\ waiters = <<>> /\ ItemSlotFull
    /\ nref' = nref + 1
    /\ ret' = [ret EXCEPT ![t] = "refused"]
    /\ UNCHANGED <<items, waiters, fut, pc, hold, npush, npop, nunb, nsize, destroyed, shift>>

(* a push whose item constructor throws (not twice in a row, to keep the model finite without a counter): whatever
   branch it would have taken - room or hand-over to a parked pop - NOTHING changes but the caller's result; in
   particular the parked pop stays parked (since 3c3638a the item is built before the waiter is taken).  On an
   occupied single slot the constructor is not even reached (PushRefused). *)
PushThrow(t) ==
    /\ AllowThrow /\ ~Void
    /\ ~destroyed /\ pc[t] = "idle" /\ ret[t] # "threw"
    /\ waiters = <<>> => ~ItemSlotFull
    /\ ret' = [ret EXCEPT ![t] = "threw"]
    /\ UNCHANGED <<items, waiters, fut, pc, hold, npush, npop, nunb, nsize, destroyed, nref, shift>>

(* the promise call `p(std::move(item))` after lk.unlock(), queue.h:157-158 *)
PushResolve(t) ==
    /\ pc[t] = "push_resolve"
    /\ fut' = [fut EXCEPT ![hold[t].pop] = F("val", hold[t].v)]
    /\ ret' = [ret EXCEPT ![t] = "true"]
    /\ pc' = [pc EXCEPT ![t] = "idle"]
    /\ hold' = [hold EXCEPT ![t] = NoHold]
    /\ UNCHANGED <<items, waiters, npush, npop, nunb, nsize, destroyed, nref, shift>>

(* queue::pop, queue.h:207-221: promise parked, or resolved (inside the lock) with the oldest item *)
PopCS(t) ==
    /\ ~destroyed /\ pc[t] = "idle" /\ npop < MaxPop
    /\ items = <<>> => ~WaiterSlotFull
    /\ npop' = npop + 1
    /\ IF items = <<>>
         THEN /\ waiters' = Append(waiters, npop + 1)
              /\ fut' = Append(fut, F("pending", NoItem))
              /\ UNCHANGED items
         ELSE /\ fut' = Append(fut, F("val", Head(items)))
              /\ items' = Tail(items)
              /\ UNCHANGED waiters
    /\ UNCHANGED <<pc, hold, ret, npush, nunb, nsize, destroyed, nref, shift>>

(* pop() on an empty queue whose single waiter slot is occupied: single_item_queue::emplace throws (queue.h:77, reached
   from queue.h:211) before the new promise is stored; pop() fails with std::runtime_error, no future comes into
   being, and the pop that is parked STAYS parked and pending *)
PopRefused(t) ==
    /\ ~destroyed /\ pc[t] = "idle" /\ nref < MaxRefuse
    /\ items = <<>> /\ WaiterSlotFull
    /\ nref' = nref + 1
    /\ ret' = [ret EXCEPT ![t] = "refused"]
    /\ UNCHANGED <<items, waiters, fut, pc, hold, npush, npop, nunb, nsize, destroyed, shift>>

(* queue::unblock_pop, queue.h:233-240 *)
UnblockCS(t) ==
    /\ ~destroyed /\ pc[t] = "idle" /\ nunb < MaxUnblock
    /\ nunb' = nunb + 1
    /\ IF waiters = <<>>
         THEN /\ ret' = [ret EXCEPT ![t] = "false"]
              /\ UNCHANGED <<waiters, hold, pc>>
         ELSE /\ hold' = [hold EXCEPT ![t] = [pop |-> Head(waiters), v |-> NoItem]]
              /\ waiters' = Tail(waiters)
              /\ pc' = [pc EXCEPT ![t] = "unblock_resolve"]
              /\ UNCHANGED ret
    /\ UNCHANGED <<items, fut, npush, npop, nsize, destroyed, nref, shift>>

UnblockResolve(t) ==
    /\ pc[t] = "unblock_resolve"
    /\ fut' = [fut EXCEPT ![hold[t].pop] = F("exc", NoItem)]
    /\ ret' = [ret EXCEPT ![t] = "true"]
    /\ pc' = [pc EXCEPT ![t] = "idle"]
    /\ hold' = [hold EXCEPT ![t] = NoHold]
    /\ UNCHANGED <<items, waiters, npush, npop, nunb, nsize, destroyed, nref, shift>>

(* queue::size() / empty(): a critical section of their own (lock_guard), queue.h:177-189 *)
SizeCS(t) ==
    /\ ~destroyed /\ pc[t] = "idle" /\ nsize < MaxSize
    /\ nsize' = nsize + 1
    /\ ret' = [ret EXCEPT ![t] = "size" \o ToString(Len(items))]
    /\ UNCHANGED <<items, waiters, fut, pc, hold, npush, npop, nunb, destroyed, nref, shift>>

(* ~queue: parked promises are destroyed => their futures resolve to no-value *)
Destroy ==
    /\ AllowDestroy /\ ~destroyed
    /\ \A t \in Threads : pc[t] = "idle"
    /\ destroyed' = TRUE
    /\ fut' = [i \in 1..Len(fut) |-> IF \E k \in 1..Len(waiters) : waiters[k] = i THEN F("canceled", NoItem) ELSE fut[i]]
    /\ waiters' = <<>>
    /\ items' = <<>>
    /\ UNCHANGED <<pc, hold, ret, npush, npop, nunb, nsize, nref, shift>>

Next == \/ \E t \in Threads : \/ PushCS(t) \/ PushRefused(t) \/ PushThrow(t) \/ PushResolve(t)
                              \/ PopCS(t) \/ PopRefused(t)
                              \/ UnblockCS(t) \/ UnblockResolve(t) \/ SizeCS(t)
        \/ Destroy

Spec == Init /\ [][Next]_vars /\ WF_vars(\E t \in Threads : PushResolve(t) \/ UnblockResolve(t))

-----------------------------------------------------------------------------
(* Properties (C09) *)

Range(s) == {s[i] : i \in 1..Len(s)}
HasVal(i) == fut[i].st = "val"
ValOf(i) == fut[i].v

TypeOK == /\ Len(fut) = npop
          /\ \A i \in 1..Len(waiters) : waiters[i] \in 1..npop
          /\ nref \in 0..MaxRefuse
          /\ (nref > 0 => SingleItem \/ SingleWaiter)

(* item queue and waiting-consumer queue are never both non-empty *)
NeverBothNonEmpty == items # <<>> => waiters = <<>>

(* a single slot holds at most one element: nothing is stored over an element that is there *)
SlotCapacity == /\ SingleItem => Len(items) <= 1
                /\ SingleWaiter => Len(waiters) <= 1

(* where is the item with identity v?  in the item queue, in flight in a pusher's hands, or delivered *)
Occ(v) == Cardinality({i \in 1..Len(items) : items[i].a = v})
          + Cardinality({t \in Threads : pc[t] = "push_resolve" /\ hold[t].v.a = v})
          + Cardinality({i \in 1..Len(fut) : HasVal(i) /\ ValOf(i).a = v})

ExactlyOnceDelivery ==
    ~destroyed =>
      IF Void
        THEN Occ(0) = npush            \* counting semaphore: count conserved
        ELSE \A v \in 1..npush : Occ(v) = 1

(* the item that is stored / in flight / delivered is the item that was pushed - T(args...) of the arguments of that
   push - whichever branch the push took (stored or handed over) and whichever argument form it used *)
ValueIntact ==
    /\ \A i \in 1..Len(items) : items[i] = Val(items[i].a)
    /\ \A i \in 1..Len(fut) : HasVal(i) => ValOf(i) = Val(ValOf(i).a)
    /\ \A t \in Threads : pc[t] = "push_resolve" => hold[t].v = Val(hold[t].v.a)

(* delivered values are ordered like the pops that received them: for a single consumer this is
   exactly push order; for several consumers it implies per-producer order per consumer *)
DeliveredInOrder ==
    ~Void => \A i, j \in 1..Len(fut) : (i < j /\ HasVal(i) /\ HasVal(j)) => ValOf(i).a < ValOf(j).a

(* items still queued are newer than everything delivered or in flight, and sorted *)
ItemsSorted == ~Void => \A i, j \in 1..Len(items) : i < j => items[i].a < items[j].a

(* a parked pop is pending; waiting pops are served oldest first: every parked pop is younger than
   no unparked pending pop (an unparked pending pop is one in a resolver's hands) *)
WaitersFIFO ==
    /\ \A k \in 1..Len(waiters) : fut[waiters[k]].st = "pending"
    /\ \A k, l \in 1..Len(waiters) : k < l => waiters[k] < waiters[l]
    /\ \A t \in Threads : pc[t] # "idle" => \A k \in 1..Len(waiters) : hold[t].pop < waiters[k]

(* a pending pop is either parked or in some resolver's hands: nobody is forgotten *)
NoLostWaiter ==
    ~destroyed => \A i \in 1..Len(fut) : fut[i].st = "pending" =>
        \/ \E k \in 1..Len(waiters) : waiters[k] = i
        \/ \E t \in Threads : pc[t] # "idle" /\ hold[t].pop = i

(* a pop completes only for a reason: item, unblock_pop, destruction *)
DestroyCancels == destroyed => \A i \in 1..Len(fut) : fut[i].st # "pending"

(* every resolution in flight completes *)
AllResolved == <>[](\A t \in Threads : pc[t] = "idle")

=============================================================================
