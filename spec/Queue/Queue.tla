------------------------------- MODULE Queue -------------------------------
(***************************************************************************)
(* cocls::queue<T> (src/cocls/queue.h:73-135) at critical-section grain.   *)
(*                                                                         *)
(* One action per critical section of the implementation (the region       *)
(* between taking and dropping `_mx`), plus one action for the promise     *)
(* resolution that push()/unblock_pop() perform *after* dropping the lock. *)
(* pop() resolves inside the lock, so it is a single action.               *)
(*                                                                         *)
(* Values are numbered in the order in which the pushing critical sections *)
(* took effect (1,2,3,...), pop requests likewise; that makes every        *)
(* ordering property a plain comparison.  With Void = TRUE every item is   *)
(* the same token 0 and the queue degenerates to a counting semaphore      *)
(* (primitives::std_queue<void>).                                          *)
(***************************************************************************)
EXTENDS Naturals, Sequences, FiniteSets, TLC

CONSTANTS Threads,      \* client threads
          MaxPush,      \* bound on number of push() calls
          MaxPop,       \* bound on number of pop() calls
          MaxUnblock,   \* bound on number of unblock_pop() calls
          MaxSize,      \* bound on number of size()/empty() calls
          Void,         \* TRUE: queue<void>
          AllowDestroy, \* TRUE: the queue may be destroyed while pops are parked
          AllowThrow    \* TRUE: a push may fail because the item's constructor throws

VARIABLES items,     \* _queue: sequence of values
          waiters,   \* _awaiters: sequence of pop ids whose promise is parked
          fut,       \* fut[i]: state of the future returned by the i-th pop()
          pc,        \* per thread: "idle" | "push_resolve" | "unblock_resolve"
          hold,      \* per thread: the promise taken out of _awaiters, to be resolved outside the lock
          ret,       \* per thread: result of its last completed push()/unblock_pop()
          npush, npop, nunb, nsize, destroyed

vars == <<items, waiters, fut, pc, hold, ret, npush, npop, nunb, nsize, destroyed>>

NoHold == [pop |-> 0, v |-> 0]
F(s, v) == [st |-> s, v |-> v]

Init == /\ items = <<>>
        /\ waiters = <<>>
        /\ fut = <<>>
        /\ pc = [t \in Threads |-> "idle"]
        /\ hold = [t \in Threads |-> NoHold]
        /\ ret = [t \in Threads |-> "none"]
        /\ npush = 0 /\ npop = 0 /\ nunb = 0 /\ nsize = 0
        /\ destroyed = FALSE

Val(n) == IF Void THEN 0 ELSE n

(* queue::push, queue.h:148-159: lock; if a consumer is parked take its promise out and leave the
   critical section (the promise is resolved outside), else enqueue and return false *)
PushCS(t) ==
    /\ ~destroyed /\ pc[t] = "idle" /\ npush < MaxPush
    /\ npush' = npush + 1
    /\ IF waiters # <<>>
         THEN /\ hold' = [hold EXCEPT ![t] = [pop |-> Head(waiters), v |-> Val(npush + 1)]]
              /\ waiters' = Tail(waiters)
              /\ pc' = [pc EXCEPT ![t] = "push_resolve"]
              /\ UNCHANGED <<items, ret>>
         ELSE /\ items' = Append(items, Val(npush + 1))
              /\ ret' = [ret EXCEPT ![t] = "false"]
              /\ UNCHANGED <<waiters, hold, pc>>
    /\ UNCHANGED <<fut, npop, nunb, nsize, destroyed>>

(* a push whose item constructor throws (not twice in a row, to keep the model finite without a counter): whatever
   branch it would have taken - room or hand-over to a parked pop - NOTHING changes but the caller's result; in
   particular the parked pop stays parked (since 3c3638a the item is built before the waiter is taken) *)
PushThrow(t) ==
    /\ AllowThrow /\ ~Void
    /\ ~destroyed /\ pc[t] = "idle" /\ ret[t] # "threw"
    /\ ret' = [ret EXCEPT ![t] = "threw"]
    /\ UNCHANGED <<items, waiters, fut, pc, hold, npush, npop, nunb, nsize, destroyed>>

(* the promise call `p(args...)` after lk.unlock(), queue.h:152-153 *)
PushResolve(t) ==
    /\ pc[t] = "push_resolve"
    /\ fut' = [fut EXCEPT ![hold[t].pop] = F("val", hold[t].v)]
    /\ ret' = [ret EXCEPT ![t] = "true"]
    /\ pc' = [pc EXCEPT ![t] = "idle"]
    /\ hold' = [hold EXCEPT ![t] = NoHold]
    /\ UNCHANGED <<items, waiters, npush, npop, nunb, nsize, destroyed>>

(* queue::pop, queue.h:197-211: promise parked, or resolved (inside the lock) with the oldest item *)
PopCS(t) ==
    /\ ~destroyed /\ pc[t] = "idle" /\ npop < MaxPop
    /\ npop' = npop + 1
    /\ IF items = <<>>
         THEN /\ waiters' = Append(waiters, npop + 1)
              /\ fut' = Append(fut, F("pending", 0))
              /\ UNCHANGED items
         ELSE /\ fut' = Append(fut, F("val", Head(items)))
              /\ items' = Tail(items)
              /\ UNCHANGED waiters
    /\ UNCHANGED <<pc, hold, ret, npush, nunb, nsize, destroyed>>

(* queue::unblock_pop, queue.h:223-230 *)
UnblockCS(t) ==
    /\ ~destroyed /\ pc[t] = "idle" /\ nunb < MaxUnblock
    /\ nunb' = nunb + 1
    /\ IF waiters = <<>>
         THEN /\ ret' = [ret EXCEPT ![t] = "false"]
              /\ UNCHANGED <<waiters, hold, pc>>
         ELSE /\ hold' = [hold EXCEPT ![t] = [pop |-> Head(waiters), v |-> 0]]
              /\ waiters' = Tail(waiters)
              /\ pc' = [pc EXCEPT ![t] = "unblock_resolve"]
              /\ UNCHANGED ret
    /\ UNCHANGED <<items, fut, npush, npop, nsize, destroyed>>

UnblockResolve(t) ==
    /\ pc[t] = "unblock_resolve"
    /\ fut' = [fut EXCEPT ![hold[t].pop] = F("exc", 0)]
    /\ ret' = [ret EXCEPT ![t] = "true"]
    /\ pc' = [pc EXCEPT ![t] = "idle"]
    /\ hold' = [hold EXCEPT ![t] = NoHold]
    /\ UNCHANGED <<items, waiters, npush, npop, nunb, nsize, destroyed>>

(* queue::size() / empty(): a critical section of their own (lock_guard), queue.h:162-170 *)
SizeCS(t) ==
    /\ ~destroyed /\ pc[t] = "idle" /\ nsize < MaxSize
    /\ nsize' = nsize + 1
    /\ ret' = [ret EXCEPT ![t] = "size" \o ToString(Len(items))]
    /\ UNCHANGED <<items, waiters, fut, pc, hold, npush, npop, nunb, destroyed>>

(* ~queue: parked promises are destroyed => their futures resolve to no-value *)
Destroy ==
    /\ AllowDestroy /\ ~destroyed
    /\ \A t \in Threads : pc[t] = "idle"
    /\ destroyed' = TRUE
    /\ fut' = [i \in 1..Len(fut) |-> IF \E k \in 1..Len(waiters) : waiters[k] = i THEN F("canceled", 0) ELSE fut[i]]
    /\ waiters' = <<>>
    /\ items' = <<>>
    /\ UNCHANGED <<pc, hold, ret, npush, npop, nunb, nsize>>

Next == \/ \E t \in Threads : PushCS(t) \/ PushThrow(t) \/ PushResolve(t) \/ PopCS(t) \/ UnblockCS(t) \/ UnblockResolve(t) \/ SizeCS(t)
        \/ Destroy

Spec == Init /\ [][Next]_vars /\ WF_vars(\E t \in Threads : PushResolve(t) \/ UnblockResolve(t))

-----------------------------------------------------------------------------
(* Properties (C09) *)

Range(s) == {s[i] : i \in 1..Len(s)}
HasVal(i) == fut[i].st = "val"
ValOf(i) == fut[i].v

TypeOK == /\ Len(fut) = npop
          /\ \A i \in 1..Len(waiters) : waiters[i] \in 1..npop

(* item queue and waiting-consumer queue are never both non-empty *)
NeverBothNonEmpty == items # <<>> => waiters = <<>>

(* where is value v?  in the item queue, in flight in a pusher's hands, or delivered *)
Occ(v) == Cardinality({i \in 1..Len(items) : items[i] = v})
          + Cardinality({t \in Threads : pc[t] = "push_resolve" /\ hold[t].v = v})
          + Cardinality({i \in 1..Len(fut) : HasVal(i) /\ ValOf(i) = v})

ExactlyOnceDelivery ==
    ~destroyed =>
      IF Void
        THEN Occ(0) = npush            \* counting semaphore: count conserved
        ELSE \A v \in 1..npush : Occ(v) = 1

(* delivered values are ordered like the pops that received them: for a single consumer this is
   exactly push order; for several consumers it implies per-producer order per consumer *)
DeliveredInOrder ==
    ~Void => \A i, j \in 1..Len(fut) : (i < j /\ HasVal(i) /\ HasVal(j)) => ValOf(i) < ValOf(j)

(* items still queued are newer than everything delivered or in flight, and sorted *)
ItemsSorted == ~Void => \A i, j \in 1..Len(items) : i < j => items[i] < items[j]

(* a parked pop is pending; waiting pops are served oldest first: every parked pop is younger than
   no unparked pending pop (an unparked pending pop is one in a resolver's hands) *)
WaitersFIFO ==
    /\ \A k \in 1..Len(waiters) : fut[waiters[k]].st = "pending"
    /\ \A k, l \in 1..Len(waiters) : k < l => waiters[k] < waiters[l]
    /\ \A t \in Threads : pc[t] # "idle" => \A k \in 1..Len(waiters) : hold[t].pop < waiters[k]

(* a pending pop is either parked or in some resolver's hands: nobody is forgotten *)
NoLostWaiter ==
    ~destroyed => \A i \in 1..Len(fut) : fut[i].st = "pending" =>
        \/ \E k \in 1..Len(waiters) : waiters[k] = i
        \/ \E t \in Threads : pc[t] # "idle" /\ hold[t].pop = i

(* a pop completes only for a reason: item, unblock_pop, destruction *)
DestroyCancels == destroyed => \A i \in 1..Len(fut) : fut[i].st # "pending"

(* every resolution in flight completes *)
AllResolved == <>[](\A t \in Threads : pc[t] = "idle")

=============================================================================
