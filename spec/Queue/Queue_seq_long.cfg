SPECIFICATION Spec
CONSTANTS
  Threads = {t1}
  MaxPush = 20
  MaxPop = 20
  MaxUnblock = 1
  MaxSize = 0
  Void = FALSE
  AllowDestroy = FALSE
  AllowThrow = FALSE
  Obj = FALSE
  Forms = {"one"}
  SingleItem = FALSE
  SingleWaiter = FALSE
  MaxRefuse = 0
INVARIANTS TypeOK NeverBothNonEmpty SlotCapacity ExactlyOnceDelivery ValueIntact DeliveredInOrder ItemsSorted WaitersFIFO NoLostWaiter DestroyCancels
PROPERTY AllResolved
CHECK_DEADLOCK FALSE
