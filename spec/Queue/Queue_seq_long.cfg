SPECIFICATION Spec
CONSTANTS
  Threads = {t1}
  MaxPush = 20
  MaxPop = 20
  MaxUnblock = 1
  MaxSize = 0
  Void = FALSE
  AllowDestroy = FALSE
  AllowThrow = FALSE
INVARIANTS TypeOK NeverBothNonEmpty ExactlyOnceDelivery DeliveredInOrder ItemsSorted WaitersFIFO NoLostWaiter DestroyCancels
PROPERTY AllResolved
CHECK_DEADLOCK FALSE
