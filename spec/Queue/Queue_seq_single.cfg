SPECIFICATION Spec
CONSTANTS
  Threads = {t1}
  MaxPush = 5
  MaxPop = 5
  MaxUnblock = 2
  MaxSize = 0
  Void = FALSE
  AllowDestroy = TRUE
  AllowThrow = FALSE
  Obj = FALSE
  Forms = {"one"}
  SingleItem = TRUE
  SingleWaiter = TRUE
  MaxRefuse = 2
INVARIANTS TypeOK NeverBothNonEmpty SlotCapacity ExactlyOnceDelivery ValueIntact DeliveredInOrder ItemsSorted WaitersFIFO NoLostWaiter DestroyCancels
PROPERTY AllResolved
CHECK_DEADLOCK FALSE
