SPECIFICATION Spec
CONSTANTS
  Threads = {t1}
  MaxPush = 5
  MaxPop = 5
  MaxUnblock = 3
  MaxSize = 0
  Void = FALSE
  AllowDestroy = TRUE
  AllowThrow = FALSE
INVARIANTS TypeOK NeverBothNonEmpty ExactlyOnceDelivery DeliveredInOrder ItemsSorted WaitersFIFO NoLostWaiter DestroyCancels
PROPERTY AllResolved
CHECK_DEADLOCK FALSE
