SPECIFICATION Spec
CONSTANTS
  Threads = {t1}
  MaxPush = 5
  MaxPop = 5
  MaxUnblock = 3
  MaxSize = 0
  Void = FALSE
  AllowDestroy = TRUE
  AllowThrow = FALSE
  Obj = FALSE
  Forms = {"one", "copy", "cref", "move"}
  SingleItem = FALSE
  SingleWaiter = FALSE
  MaxRefuse = 0
INVARIANTS TypeOK NeverBothNonEmpty SlotCapacity ExactlyOnceDelivery ValueIntact DeliveredInOrder ItemsSorted WaitersFIFO NoLostWaiter DestroyCancels
PROPERTY AllResolved
CHECK_DEADLOCK FALSE
