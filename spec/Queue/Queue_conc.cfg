SPECIFICATION Spec
CONSTANTS
  Threads = {t1, t2, t3}
  MaxPush = 3
  MaxPop = 3
  MaxUnblock = 1
  MaxSize = 1
  Void = FALSE
  AllowDestroy = TRUE
  AllowThrow = FALSE
  Obj = FALSE
  Forms = {"one"}
  SingleItem = FALSE
  SingleWaiter = FALSE
  MaxRefuse = 0
INVARIANTS TypeOK NeverBothNonEmpty SlotCapacity ExactlyOnceDelivery ValueIntact DeliveredInOrder ItemsSorted WaitersFIFO NoLostWaiter DestroyCancels
PROPERTY AllResolved
CHECK_DEADLOCK FALSE
