SPECIFICATION Spec
CONSTANTS
  Threads = {t1, t2, t3}
  MaxPush = 4
  MaxPop = 3
  MaxUnblock = 2
  MaxSize = 1
  Void = FALSE
  AllowDestroy = TRUE
  AllowThrow = FALSE
INVARIANTS TypeOK NeverBothNonEmpty ExactlyOnceDelivery DeliveredInOrder ItemsSorted WaitersFIFO NoLostWaiter DestroyCancels
PROPERTY AllResolved
CHECK_DEADLOCK FALSE
