SPECIFICATION Spec
CONSTANTS
  Threads = {t1}
  MaxPush = 4
  MaxPop = 4
  MaxUnblock = 2
  MaxSize = 0
  Void = TRUE
  AllowDestroy = TRUE
  AllowThrow = FALSE
INVARIANTS TypeOK NeverBothNonEmpty ExactlyOnceDelivery DeliveredInOrder ItemsSorted WaitersFIFO NoLostWaiter DestroyCancels
PROPERTY AllResolved
CHECK_DEADLOCK FALSE
