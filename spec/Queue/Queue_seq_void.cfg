SPECIFICATION Spec
CONSTANTS
  Threads = {t1}
  MaxPush = 4
  MaxPop = 4
  MaxUnblock = 2
  MaxSize = 0
  Void = TRUE
  AllowDestroy = TRUE
  AllowThrow = FALSE
  Obj = FALSE
  Forms = {"zero"}
  SingleItem = FALSE
  SingleWaiter = FALSE
  MaxRefuse = 0
INVARIANTS TypeOK NeverBothNonEmpty SlotCapacity ExactlyOnceDelivery ValueIntact DeliveredInOrder ItemsSorted WaitersFIFO NoLostWaiter DestroyCancels
PROPERTY AllResolved
CHECK_DEADLOCK FALSE
