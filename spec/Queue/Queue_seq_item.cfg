SPECIFICATION Spec
CONSTANTS
  Threads = {t1}
  MaxPush = 4
  MaxPop = 4
  MaxUnblock = 1
  MaxSize = 0
  Void = FALSE
  AllowDestroy = TRUE
  AllowThrow = TRUE
INVARIANTS TypeOK NeverBothNonEmpty ExactlyOnceDelivery DeliveredInOrder ItemsSorted WaitersFIFO NoLostWaiter DestroyCancels
PROPERTY AllResolved
CHECK_DEADLOCK FALSE
