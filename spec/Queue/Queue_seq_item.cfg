SPECIFICATION Spec
CONSTANTS
  Threads = {t1}
  MaxPush = 4
  MaxPop = 4
  MaxUnblock = 1
  MaxSize = 0
  Void = FALSE
  AllowDestroy = TRUE
  AllowThrow = TRUE
  Obj = TRUE
  Forms = {"one", "two", "zero", "copy", "cref", "move"}
  SingleItem = FALSE
  SingleWaiter = FALSE
  MaxRefuse = 0
INVARIANTS TypeOK NeverBothNonEmpty SlotCapacity ExactlyOnceDelivery ValueIntact DeliveredInOrder ItemsSorted WaitersFIFO NoLostWaiter DestroyCancels
PROPERTY AllResolved
CHECK_DEADLOCK FALSE
