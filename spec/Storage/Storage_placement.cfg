SPECIFICATION Spec
CONSTANTS
  Policy = "placement"
  Threads = {t1}
  MaxCreate = 4
  MaxLive = 1
  Classes = {1, 2, 3}
  Trailer = 0
  InitSize = 300
  NSlots = 2
  Grain = "call"
  Fixed = FALSE
INVARIANTS TypeOK Exclusive LargeEnough HeapFallbackFreedOnce TrailerTruthful MtSafeNeverShares ReuseBlock ExtraCtorDtorOnce
PROPERTIES ExtraUsableAtCreation WarmNoAlloc CompleteNoAlloc
CHECK_DEADLOCK FALSE
