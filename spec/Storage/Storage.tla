------------------------------- MODULE Storage -------------------------------
(***************************************************************************)
(* Coroutine storage policies of cocls (C19):                              *)
(*   default_storage            with_allocator.h:82-90                     *)
(*   reusable_storage           coro_storage.h:27-63                       *)
(*   reusable_storage_mtsafe    coro_storage.h:153-181                     *)
(*   stack_storage (+alloca)    alloca_storage.h:26-61                     *)
(*   placement_alloc            coro_storage.h:133-143                     *)
(*   reusable_buffer_storage    coro_storage.h:195-212                     *)
(*   promise_extra_storage<T,B> coro_storage.h:220-246: a LAYER (env.ex)    *)
(*                              over every base policy B above             *)
(* (static_storage does not satisfy the Storage concept -- its dealloc is  *)
(* not static -- and cannot be instantiated; it is not modelled.)          *)
(*                                                                         *)
(* One module; the policy (env.pol), whether the attached-object layer is   *)
(* put over it (env.ex) and the initial size parameter are chosen in the   *)
(* initial state.  The model keeps exactly the                             *)
(* bookkeeping the code keeps and decides from it the way the code does:   *)
(*   objs[o]     the storage objects (o = 1, 2; the second one only for    *)
(*               the classes that are movable and carry state, see         *)
(*               Movable): ptr / cap = _ptr/_capacity                      *)
(*               (buffer: the vector's block and size() in bytes; stack:   *)
(*               the shared size_t `_state` (cap); placement: the size of  *)
(*               the buffer the user handed over), inv = the frame whose   *)
(*               attached object `inventory` designates, fac = the factory *)
(*               is still there (not moved out)                            *)
(*   busy        reusable_storage_mtsafe::_busy                            *)
(*   fr[i].tr    what the base policy keeps behind frame i: the owner      *)
(*               pointer (mtsafe), the heap flag byte (stack); fr[i].eo    *)
(*               the attached object; fr[i].asz / dz the size the base     *)
(*               policy's alloc got and whether its dealloc got the same   *)
(*   heap        global heap: slot -> size of the allocated block (0 free).*)
(* The heap is a bounded array of slots and operator new takes the lowest  *)
(* free slot; the replayer (harness/storage_replay.cpp) runs the library   *)
(* on an allocator with the same rule, so "which block did the frame get"  *)
(* is comparable without raw addresses and address reuse (ABA) is          *)
(* deterministic.  Sizes are abstract: a frame of class c has 100*c bytes, *)
(* the policy's trailer is the real number of bytes (8 owner pointer,      *)
(* 1 flag byte, sizeof(T)); the replayer maps the compiler-chosen frame    *)
(* sizes of its three body shapes to 100/200/300.                          *)
(*                                                                         *)
(* Between two frames (nothing alive) storage objects are constructed,     *)
(* move-constructed, move-assigned and destroyed (NewObj, MoveCtor,        *)
(* MoveAssign, Drop) and the owner of reusable_buffer_storage's vector     *)
(* resizes, shrinks, empties, moves out or swaps it (Owner...): whatever   *)
(* happened, the next frame fits its memory, (block, capacity) travel      *)
(* together and every block is released exactly once.                      *)
(*                                                                         *)
(* Grain: "call"   a coroutine creation / completion is one action         *)
(*        "atomic" the instrumented atomic operations on _busy are the     *)
(*                 scheduling points (two-thread configurations)           *)
(*        "alloc"  additionally every operator new / operator delete call  *)
(*                 made by the storage is a step of its own                *)
(*                                                                         *)
(* Addresses: every policy owns a memory AREA per frame (a heap block, the   *)
(*   elements [data(), data()+size()) of the buffer's vector, the alloca   *)
(*   block, the placement buffer); fr[i].blk is its size and fr[i].at the  *)
(*   offset of the frame's first byte from the first byte of the area: the *)
(*   frame occupies [at, at + size) of it (LargeEnough).  Memory of the    *)
(*   caller (buffer, placement) may begin at any address (env.boff = the   *)
(*   address mod 16: vectors with an allocator of the user, pmr vectors in *)
(*   an arena, a char array).                                              *)
(*                                                                         *)
(* Destructor of the attached object: promise_extra_storage::dealloc       *)
(*   (coro_storage.h:244-248) runs `x->~T()` -- code of the user, which    *)
(*   may create and complete coroutines, also on the same storage (for     *)
(*   reusable_storage_mtsafe another thread may do so meanwhile) -- and    *)
(*   only THEN gives the block back to the base policy: DtorBegin ...      *)
(*   DtorEnd (DtorFirst = TRUE; FALSE is the model of the opposite order,  *)
(*   which the invariants reject).                                         *)
(*                                                                         *)
(* Fixed: order in which reusable_storage::alloc grows (coro_storage.h:    *)
(*   49-53).  FALSE: `delete(_ptr); _ptr = new(sz)` -- between the two     *)
(*   calls _ptr holds the address of a released block.  TRUE: the new      *)
(*   block is published first, the old one is released afterwards.         *)
(*   For one thread both orders are correct.  For two threads on a         *)
(*   reusable_storage_mtsafe only TRUE is: with FALSE a heap-fallback      *)
(*   block of the other thread can get the released address, dealloc's     *)
(*   `ptr == me->_ptr` (coro_storage.h:169) then takes it for the shared   *)
(*   block: _busy is cleared while the block is in use, the fallback block *)
(*   is never freed (Storage_mt2alloc.cfg, Fixed = FALSE: violates         *)
(*   HeapFallbackFreedOnce, MtSafeNeverShares, Exclusive).                 *)
(***************************************************************************)
EXTENDS Naturals, Sequences, FiniteSets, TLC

CONSTANTS Policies,   \* subset of {"default","reusable","mtsafe","stack","placement","buffer"}
          ExPolicies, \* policies that are ALSO run as base of promise_extra_storage<T, policy>
          Threads,    \* {t1}: sequential; {t1, t2}: two threads on one reusable_storage_mtsafe
          MaxCreate,  \* bound on the number of frames ever created
          MaxCreateEx,\* the same under the attached-object layer
          MaxOverlap, \* bound on simultaneously live frames for the policies that permit overlapping
                      \* lifetimes (default, mtsafe, stack).  reusable / placement / buffer serve
                      \* ONE live frame at a time per storage object -- documented precondition
          Classes,    \* frame-size classes that are created (subset of 1..3)
          StackInits, \* stack: initial values of the shared size_t
          BufferInits,\* buffer: initial sizes of the caller's vector (0 or 100*k)
          PlaceInits, \* placement: sizes of the caller's buffer
          NSlots,     \* size of the bounded heap
          Grain,      \* "call" | "atomic" | "alloc"
          Fixed,      \* see above
          MaxMoves,   \* reusable: bound on constructions / moves / destructions of storage objects
          MaxOwner,   \* buffer: bound on what the owner does to the vector between two frames
          MaxPrep,    \* stack: bound on storages prepared (constructed + given their alloca block) ahead of use;
                      \* at most one frame before the first preparation, at most 3 frames in such a history, and
                      \* once a storage is prepared ahead every frame uses a prepared storage
          MaxThrows,  \* attached-object layer: bound on creations whose factory throws (at most one frame before
                      \* it, at most 2 frames in such a history)
          ThrowFixed, \* promise_extra_storage::alloc gives the block back to its base when the factory throws
                      \* (coro_storage.h:228-233 at the pinned tree does not: FALSE)
          AreaOffs,   \* buffer, placement: addresses (mod 16) at which the memory of the caller may begin (the first
                      \* element of the vector, `char buff[1000]`)
          AlignUp,    \* FALSE: alloc returns data() / _p as it is (coro_storage.h:209, :139).  TRUE: the model of an
                      \* alloc that rounds the address up to 16 without reserving room (must be rejected)
          MaxDtor,    \* attached-object layer: bound on completions in which the destructor of the attached object
                      \* is a step of its own, during which coroutines are created and completed
          MaxDtorMoves, \* ... operations on storage objects (NewObj, MoveCtor, ...) before such a completion (none after it)
          MaxFail,    \* > 0: one creation per history whose operator new throws (CreateFail; counted in nthrow)
          DtorFirst   \* promise_extra_storage::dealloc destroys the object BEFORE it gives the block back to the base
                      \* policy (coro_storage.h:246-247: TRUE); FALSE: the model of the opposite order (must be rejected)

VARIABLES env,    \* [pol, ex, init, boff]: never changes
          heap,   \* [1..NSlots -> Nat]: 0 = free, otherwise the size the block was requested with
          fr,     \* sequence of frame records in order of creation (= order in which alloc returned)
          objs,   \* [1..2 -> storage object record]
          busy,   \* _busy
          pc,     \* per thread: where it is parked inside alloc / dealloc
          news, dels,  \* operator new / operator delete calls made so far
          dbl,    \* operator delete calls on a block that is not allocated (never, says the property)
          torn,   \* every storage object has been destroyed
          prep,   \* stack: sizes the storages prepared ahead were given (what their owner alloca'd)
          nmov, nown,
          nthrow, \* factory exceptions that reached the creator of the coroutine
          ndtor   \* completions so far whose attached object's destructor was a step of its own

vars == <<env, heap, fr, objs, busy, pc, news, dels, dbl, torn, prep, nmov, nown, nthrow, ndtor>>
Rest == <<prep, nmov, nown, nthrow, ndtor>>

Policy == env.pol
Ex == env.ex
InitSize == env.init
ExtraSz == IF Ex THEN 16 ELSE 0       \* sizeof(T) of the replayer's T
BaseTrailer == CASE Policy = "mtsafe" -> 8 [] Policy = "stack" -> 1 [] OTHER -> 0   \* owner pointer, flag byte
Trailer == ExtraSz + BaseTrailer      \* everything that lies behind the frame: the object first, then the base's
MaxLive == IF Policy \in {"default", "mtsafe", "stack"} THEN MaxOverlap ELSE 1
MaxFrames == IF Ex THEN MaxCreateEx ELSE MaxCreate
InitChoices(p) == CASE p = "stack" -> StackInits [] p = "buffer" -> BufferInits [] p = "placement" -> PlaceInits [] OTHER -> {0}
(* storage classes with move construction / assignment whose objects carry state: reusable_storage (block and
   capacity) and, under the attached-object layer, also the stateless default_storage (factory, inventory) *)
Movable == (Policy = "reusable" \/ (Policy = "default" /\ Ex)) /\ Cardinality(Threads) = 1

Sz(c) == 100 * c
Req(c) == Sz(c) + Trailer             \* bytes a frame of class c needs, everything included
BaseSz(c) == Sz(c) + ExtraSz          \* the size the base policy's alloc -- and dealloc -- is called with
Slots == 1..NSlots
Idle == [at |-> "idle", c |-> 0, slot |-> 0]
At(t, a) == pc[t].at = a
Park(t, a, c, s) == pc' = [pc EXCEPT ![t] = [at |-> a, c |-> c, slot |-> s]]
Resume(t) == pc' = [pc EXCEPT ![t] = Idle]
NoObj == [st |-> "none", ptr |-> 0, cap |-> 0, inv |-> 0, fac |-> FALSE]
ptr == objs[1].ptr                    \* the thread-safe storage is always object 1
cap == objs[1].cap

Live == {i \in 1..Len(fr) : fr[i].live}
Dying == {i \in Live : fr[i].eo = "dying"}       \* ~T of the attached object is running (DtorBegin .. DtorEnd)
LiveOn(o) == {i \in Live : fr[i].o = o}
Creating == {t \in Threads : pc[t].at \in {"new_heap", "del_old", "new_shared", "del_after"}}

(* ---- the global heap: operator new takes the lowest free slot ---- *)
St(o) == [heap |-> heap, ptr |-> objs[o].ptr, cap |-> objs[o].cap, news |-> news, dels |-> dels, dbl |-> dbl]
CommitH(S) == heap' = S.heap /\ news' = S.news /\ dels' = S.dels /\ dbl' = S.dbl
CommitI(o, S, i) == CommitH(S) /\ objs' = [objs EXCEPT ![o].ptr = S.ptr, ![o].cap = S.cap, ![o].inv = i]
Commit(o, S) == CommitI(o, S, objs[o].inv)
(* promise_extra_storage::alloc, coro_storage.h:228-233: `inventory` designates the object of the newest frame *)
NewInv(o) == IF Ex THEN Len(fr) + 1 ELSE objs[o].inv
Same == UNCHANGED <<heap, objs, news, dels, dbl>>

FreeSlots(h) == {s \in Slots : h[s] = 0}
Lowest(h) == CHOOSE s \in FreeSlots(h) : \A r \in FreeSlots(h) : s <= r
DoNew(S, sz) == [S EXCEPT !.heap[Lowest(S.heap)] = sz, !.news = @ + 1]
DoDel(S, s) == IF s = 0 THEN S          \* operator delete(nullptr)
               ELSE IF S.heap[s] = 0 THEN [S EXCEPT !.dels = @ + 1, !.dbl = @ + 1]
               ELSE [S EXCEPT !.heap[s] = 0, !.dels = @ + 1]
(* new block first, old block released afterwards *)
Replace(S, sz) == DoDel([DoNew(S, sz) EXCEPT !.ptr = Lowest(S.heap)], S.ptr)

(* reusable_storage::alloc, coro_storage.h:48-55: grows when the request exceeds _capacity *)
Grow(S, sz) ==
    IF Fixed
      THEN [Replace(S, sz) EXCEPT !.cap = sz]
      ELSE LET S1 == DoDel(S, S.ptr) IN [DoNew(S1, sz) EXCEPT !.ptr = Lowest(S1.heap), !.cap = sz]
ReuseAlloc(S, sz) == IF sz > S.cap THEN Grow(S, sz) ELSE S

(* std::vector (the buffer of reusable_buffer_storage; S.cap is size() in bytes, S.heap[S.ptr] its block):
   resize(n): within the capacity only the size changes; otherwise a new block of n bytes (the size
   classes are at least a factor 2 apart, the replayer checks that), elements moved, old block released *)
VecResize(S, n) ==
    IF S.ptr # 0 /\ n <= S.heap[S.ptr] THEN [S EXCEPT !.cap = n]
    ELSE [Replace(S, n) EXCEPT !.cap = n]
(* shrink_to_fit(): nothing when capacity() = size(); otherwise a new exact block (none for size 0) *)
VecShrink(S) ==
    IF S.ptr = 0 \/ S.heap[S.ptr] = S.cap THEN S
    ELSE IF S.cap = 0 THEN [DoDel(S, S.ptr) EXCEPT !.ptr = 0]
    ELSE Replace(S, S.cap)
(* reusable_buffer_storage::alloc, coro_storage.h:202-207: asks the buffer for its size, resizes when too small *)
BufAlloc(S, sz) == IF S.cap < sz THEN VecResize(S, sz) ELSE S

(* ---- frames ---- *)
(* Address alloc returns, as offset from the first byte of the area the policy owns for the frame.  Every policy
   returns the beginning of its area as it is: `return _ptr` coro_storage.h:57, `return _p` :139, `return _alloc_ptr`
   alloca_storage.h:42, the result of operator new with_allocator.h:85 / coro_storage.h:161 / alloca_storage.h:44, and
   `return _buff.data()` coro_storage.h:209 -- wherever the memory of the caller lies (env.boff). *)
CallersMemory == {"buffer", "placement"}
AllocAt == IF Policy \in CallersMemory /\ AlignUp THEN (16 - env.boff) % 16 ELSE 0

Rec(c, o, w, s, b, t, sh) ==
    [c |-> c, o |-> o, live |-> TRUE, where |-> w, slot |-> s, blk |-> b, at |-> AllocAt, tr |-> t, sh |-> sh,
     asz |-> BaseSz(c), dz |-> "live", eo |-> IF Ex THEN "obj" ELSE "none",
     ct |-> IF Ex THEN 1 ELSE 0, dt |-> 0]
(* the base policy's dealloc is called with the size its alloc was called with: dz = "same" *)
Gone(r) ==
    [c |-> 0, o |-> 0, live |-> FALSE, where |-> "gone", slot |-> 0, blk |-> 0, at |-> 0, tr |-> "gone", sh |-> FALSE,
     asz |-> 0, dz |-> "same", eo |-> "gone",
     ct |-> r.ct, dt |-> r.dt + (IF Ex THEN 1 ELSE 0)]

BufInit == IF InitSize = 0 THEN 0 ELSE InitSize + Trailer    \* a buffer that just fits a frame of that class

Init == /\ env \in {[pol |-> p, ex |-> x, init |-> i, boff |-> b] : p \in Policies, x \in BOOLEAN,
                                                       i \in UNION {InitChoices(q) : q \in Policies},
                                                       b \in AreaOffs \cup {0}}
        /\ env.init \in InitChoices(env.pol)
        /\ env.boff \in (IF env.pol \in CallersMemory THEN AreaOffs ELSE {0})
        /\ env.ex => env.pol \in ExPolicies
        /\ heap = [s \in Slots |-> IF Policy = "buffer" /\ InitSize > 0 /\ s = 1 THEN BufInit ELSE 0]
        /\ objs = [o \in 1..2 |->
                     IF o = 2 THEN NoObj
                     ELSE [st |-> "live",
                           ptr |-> IF Policy = "buffer" /\ InitSize > 0 THEN 1 ELSE 0,
                           cap |-> CASE Policy = "buffer" -> BufInit
                                     [] Policy \in {"stack", "placement"} -> InitSize
                                     [] OTHER -> 0,
                           inv |-> 0, fac |-> TRUE]]
        /\ fr = <<>>
        /\ busy = FALSE
        /\ pc = [t \in Threads |-> Idle]
        /\ news = 0 /\ dels = 0 /\ dbl = 0
        /\ torn = FALSE /\ nmov = 0 /\ nown = 0 /\ nthrow = 0 /\ ndtor = 0
        /\ prep = <<>>

(* ---- policies whose alloc / dealloc contain no scheduling point: <<store', frame record>> ---- *)
SeqCreate(o, c) ==
    LET S0 == St(o) IN
    CASE Policy = "default" ->       \* with_allocator.h:84
           <<DoNew(S0, Req(c)), Rec(c, o, "heap", Lowest(heap), Req(c), "none", FALSE)>>
      [] Policy = "reusable" ->      \* coro_storage.h:48
           LET S == ReuseAlloc(S0, Req(c)) IN <<S, Rec(c, o, "heap", S.ptr, S.heap[S.ptr], "none", TRUE)>>
      [] Policy = "buffer" ->        \* coro_storage.h:202; the frame may use size() bytes of the block
           LET S == BufAlloc(S0, Req(c)) IN <<S, Rec(c, o, "heap", S.ptr, S.cap, "none", TRUE)>>
      [] Policy = "placement" ->     \* coro_storage.h:136: returns _p whatever the size
           <<S0, Rec(c, o, "place", 0, S0.cap, "none", TRUE)>>
      [] Policy = "stack" ->         \* alloca_storage.h:38-50; _alloc_size = _state at construction
           IF Req(c) <= S0.cap
             THEN <<S0, Rec(c, o, "stack", 0, S0.cap, "0", FALSE)>>
             ELSE <<[DoNew(S0, Req(c)) EXCEPT !.cap = Req(c)],
                    Rec(c, o, "heap", Lowest(heap), Req(c), "1", FALSE)>>

SeqComplete(f) ==
    LET S0 == St(1) IN
    CASE Policy = "default" -> DoDel(S0, fr[f].slot)                 \* with_allocator.h:88
      [] Policy = "stack" -> IF fr[f].tr = "1" THEN DoDel(S0, fr[f].slot) ELSE S0   \* alloca_storage.h:52-55
      [] OTHER -> S0                                                  \* dealloc is empty

CanCreate(t, c, o) ==
    /\ ~torn /\ At(t, "idle") /\ c \in Classes
    /\ objs[o].st = "live"
    /\ Ex => objs[o].fac                          \* a storage whose factory was moved out cannot be used
    /\ Len(fr) + Cardinality(Creating) < (IF nthrow > 0 /\ MaxFrames > 2 THEN 2
                                           ELSE IF prep # <<>> /\ MaxFrames > 3 THEN 3 ELSE MaxFrames)
    /\ Cardinality(LiveOn(o)) + Cardinality(Creating) < MaxLive
    /\ Policy = "placement" => Req(c) <= objs[o].cap     \* precondition: the caller's buffer is large enough

(* reusable_storage_mtsafe::alloc, coro_storage.h:155-165.  The step performs `_busy.exchange(true)`
   and the thread-local code after it up to the next scheduling point. *)
MtCreate(t, c) ==
    LET sz == Req(c) IN
    /\ busy' = TRUE
    /\ IF busy
         THEN   \* the exchange returned true: somebody holds the block -> plain heap block
              IF Grain = "alloc"
                THEN /\ Park(t, "new_heap", c, 0) /\ Same /\ UNCHANGED fr
                ELSE /\ CommitI(1, DoNew(St(1), sz), NewInv(1))
                     /\ fr' = Append(fr, Rec(c, 1, "heap", Lowest(heap), sz, "own", FALSE))
                     /\ UNCHANGED pc
         ELSE IF sz <= cap
           THEN \* the block _ptr designates is taken as it is (blk: what is really allocated there)
                /\ fr' = Append(fr, Rec(c, 1, "heap", ptr, heap[ptr], "own", TRUE))
                /\ CommitI(1, St(1), NewInv(1)) /\ UNCHANGED pc
         ELSE IF Grain = "alloc"
           THEN /\ Park(t, IF Fixed \/ ptr = 0 THEN "new_shared" ELSE "del_old", c, 0)
                /\ Same /\ UNCHANGED fr
           ELSE LET S == Grow(St(1), sz) IN
                /\ CommitI(1, S, NewInv(1))
                /\ fr' = Append(fr, Rec(c, 1, "heap", S.ptr, S.heap[S.ptr], "own", TRUE))
                /\ UNCHANGED pc

CreateOn(t, c, o) ==
    /\ CanCreate(t, c, o)
    /\ UNCHANGED <<env, torn, Rest>>
    /\ IF Policy = "mtsafe"
         THEN MtCreate(t, c)
         ELSE LET r == SeqCreate(o, c) IN
              /\ CommitI(o, r[1], NewInv(o))
              /\ fr' = Append(fr, r[2])
              /\ UNCHANGED <<busy, pc>>

Create(t, c) == objs[1].st = "live" /\ prep = <<>> /\ CreateOn(t, c, 1)
CreateB(t, c) == Movable /\ CreateOn(t, c, 2)      \* a frame on the second storage object

(* an operator new call of the storage (grain "alloc") *)
New(t) ==
    /\ pc[t].at \in {"new_heap", "new_shared"}
    /\ UNCHANGED <<env, busy, torn, Rest>>
    /\ LET c == pc[t].c
           sz == Req(c)
           s == Lowest(heap) IN
       IF At(t, "new_heap")
         THEN /\ Commit(1, DoNew(St(1), sz))
              /\ fr' = Append(fr, Rec(c, 1, "heap", s, sz, "own", FALSE))
              /\ Resume(t)
         ELSE IF Fixed /\ ptr # 0
           THEN \* the new block is published; the old one is still to be released
                /\ Commit(1, [DoNew(St(1), sz) EXCEPT !.ptr = s])
                /\ Park(t, "del_after", c, ptr)
                /\ UNCHANGED fr
           ELSE /\ Commit(1, [DoNew(St(1), sz) EXCEPT !.ptr = s, !.cap = sz])
                /\ fr' = Append(fr, Rec(c, 1, "heap", s, sz, "own", TRUE))
                /\ Resume(t)

(* an operator delete call of the storage (grain "alloc") *)
Del(t) ==
    /\ pc[t].at \in {"del_old", "del_after", "delete"}
    /\ UNCHANGED <<env, busy, torn, Rest>>
    /\ LET c == pc[t].c
           sz == Req(c) IN
       CASE At(t, "del_old") ->      \* coro_storage.h:50: _ptr keeps the released address until line 51
              /\ Commit(1, DoDel(St(1), ptr))
              /\ Park(t, "new_shared", c, 0)
              /\ UNCHANGED fr
         [] At(t, "del_after") ->
              /\ Commit(1, [DoDel(St(1), pc[t].slot) EXCEPT !.cap = sz])
              /\ fr' = Append(fr, Rec(c, 1, "heap", ptr, sz, "own", TRUE))
              /\ Resume(t)
         [] At(t, "delete") ->       \* coro_storage.h:172
              /\ Commit(1, DoDel(St(1), pc[t].slot))
              /\ Resume(t)
              /\ UNCHANGED fr

(* the coroutine finishes (or is destroyed): frame destructed, promise operator delete ->
   Policy::dealloc (under the attached-object layer: the object is destroyed, then the base's dealloc
   is called with the size the base's alloc got, coro_storage.h:235-239).
   reusable_storage_mtsafe::dealloc, coro_storage.h:166-174, reads the owner
   pointer behind the frame and compares the frame's address with the owner's _ptr. *)
Complete(t, f) ==
    /\ ~torn /\ At(t, "idle") /\ f \in Live \ Dying
    /\ fr' = [fr EXCEPT ![f] = Gone(@)]
    /\ UNCHANGED <<env, torn, Rest>>
    /\ IF Policy = "mtsafe"
         THEN IF fr[f].slot = ptr
                THEN IF Grain = "call"
                       THEN busy' = FALSE /\ Same /\ UNCHANGED pc
                       ELSE Park(t, "store", 0, 0) /\ Same /\ UNCHANGED busy
                ELSE IF Grain = "alloc"
                       THEN Park(t, "delete", 0, fr[f].slot) /\ Same /\ UNCHANGED busy
                       ELSE Commit(1, DoDel(St(1), fr[f].slot)) /\ UNCHANGED <<busy, pc>>
         ELSE CommitH(SeqComplete(f)) /\ UNCHANGED <<objs, busy, pc>>

(* The completion of a frame under the attached-object layer in two steps, promise_extra_storage::dealloc,
   coro_storage.h:244-248:
     DtorBegin  the frame is destructed, `x->~T()` (:246) is entered.  The destructor is code of the user: until it
                returns (DtorEnd) coroutines are created and completed -- by the destructor itself, or, on a
                reusable_storage_mtsafe, by another thread: the states are the same -- on the same storage as well
                (where the base policy permits a second live frame: CanCreate).  The object being destroyed lives in
                the frame's block: the block is still the frame's (f stays in Live, eo = "dying").
     DtorEnd    ~T has returned; `Alloc::dealloc(ptr, sz+sizeof(T))` (:247) gives the block back to the base policy.
   DtorFirst = FALSE is the model of the opposite order (block given back, then ~T). *)
(* histories with such a step are otherwise plain ones: frames created and completed, at most MaxDtorMoves operations
   on storage objects (a second storage constructed, the first one moved) before it and none after it *)
Plain == nmov <= MaxDtorMoves /\ nown = 0 /\ nthrow = 0 /\ prep = <<>>
GiveBack(f) ==      \* the base policy's dealloc at grain "call" (what Complete does in one step with the rest)
    IF Policy = "mtsafe"
      THEN IF fr[f].slot = ptr THEN busy' = FALSE /\ Same
           ELSE Commit(1, DoDel(St(1), fr[f].slot)) /\ UNCHANGED busy
      ELSE CommitH(SeqComplete(f)) /\ UNCHANGED <<objs, busy>>
DtorBegin(t, f) ==
    /\ Ex /\ Grain = "call" /\ ndtor < MaxDtor
    /\ Plain
    /\ ~torn /\ At(t, "idle") /\ f \in Live /\ Dying = {}
    /\ ndtor' = ndtor + 1
    /\ fr' = [fr EXCEPT ![f].eo = "dying", ![f].dz = IF DtorFirst THEN "live" ELSE "same"]
    /\ IF DtorFirst THEN Same /\ UNCHANGED busy ELSE GiveBack(f)
    /\ UNCHANGED <<env, pc, torn, prep, nmov, nown, nthrow>>
DtorEnd(t, f) ==
    /\ At(t, "idle") /\ f \in Dying
    /\ fr' = [fr EXCEPT ![f] = Gone(@)]
    /\ IF DtorFirst THEN GiveBack(f) ELSE Same /\ UNCHANGED busy
    /\ UNCHANGED <<env, pc, torn, Rest>>

(* `me->_busy.store(false)`, coro_storage.h:170 *)
Store(t) ==
    /\ At(t, "store")
    /\ busy' = FALSE
    /\ Resume(t)
    /\ Same /\ UNCHANGED <<env, fr, torn, Rest>>

-----------------------------------------------------------------------------
(* stack_storage: storages may be prepared ahead of their use -- constructed from the shared state and given
   a block of the size they asked for (`storage = alloca(storage)`), alloca_storage.h:29-36.  What alloc may
   place in that block is bounded by the size the storage was PREPARED with (the snapshot _alloc_size),
   whatever a heap fallback of another storage has written to the shared state since; a prepared storage
   may be used again once its block is free (e.g. after its first frame fell back to the heap). *)
Occupied(i) == \E f \in Live : fr[f].where = "stack" /\ fr[f].slot = i
Prepare ==
    /\ Policy = "stack" /\ ~torn /\ Len(prep) < MaxPrep /\ ndtor = 0
    /\ Live = {} /\ (prep = <<>> => Len(fr) <= 1)
    /\ prep' = Append(prep, cap)
    /\ UNCHANGED <<env, heap, fr, objs, busy, pc, news, dels, dbl, torn, nmov, nown, nthrow, ndtor>>
CreateP(t, c, i) ==
    /\ Policy = "stack" /\ i \in 1..Len(prep) /\ ~Occupied(i)
    /\ CanCreate(t, c, 1)
    /\ UNCHANGED <<env, torn, busy, pc, Rest>>
    /\ IF Req(c) <= prep[i]
         THEN /\ CommitI(1, St(1), NewInv(1))
              /\ fr' = Append(fr, Rec(c, 1, "stack", i, prep[i], "0", FALSE))
         ELSE /\ CommitI(1, [DoNew(St(1), Req(c)) EXCEPT !.cap = Req(c)], NewInv(1))
              /\ fr' = Append(fr, Rec(c, 1, "heap", Lowest(heap), Req(c), "1", FALSE))

(* the user's factory throws inside promise_extra_storage::alloc, coro_storage.h:228-233: the base policy has
   handed out memory, no object is constructed, no frame comes into being, the exception reaches whoever
   created the coroutine.  ThrowFixed: the memory goes back to the base policy (its dealloc, with the size
   its alloc got); otherwise it stays where it is: a heap block is never released, the thread-safe storage
   stays busy. *)
MtAllocCall(sz) ==       \* reusable_storage_mtsafe::alloc as one step: <<store', slot of the block, shared block?>>
    IF busy THEN <<DoNew(St(1), sz), Lowest(heap), FALSE>>
    ELSE IF sz <= cap THEN <<St(1), ptr, TRUE>>
    ELSE LET S == Grow(St(1), sz) IN <<S, S.ptr, TRUE>>
CreateThrow(t, c) ==
    /\ Ex /\ Grain = "call" /\ nthrow < MaxThrows /\ prep = <<>> /\ Len(fr) <= 1 /\ ndtor = 0
    /\ CanCreate(t, c, 1)
    /\ nthrow' = nthrow + 1
    /\ UNCHANGED <<env, fr, pc, torn, prep, nmov, nown, ndtor>>
    /\ IF Policy = "mtsafe"
         THEN LET a == MtAllocCall(Req(c)) IN
              IF a[3] THEN Commit(1, a[1]) /\ busy' = ~ThrowFixed          \* exchange set it, only dealloc clears it
              ELSE Commit(1, IF ThrowFixed THEN DoDel(a[1], a[2]) ELSE a[1]) /\ UNCHANGED busy
         ELSE LET r == SeqCreate(1, c)
                  S == r[1]
                  f == r[2]
                  back == CASE ~ThrowFixed -> S
                            [] Policy = "default" -> DoDel(S, f.slot)
                            [] Policy = "stack" /\ f.tr = "1" -> DoDel(S, f.slot)
                            [] OTHER -> S
              IN Commit(1, back) /\ UNCHANGED busy

(* operator new itself throws (std::bad_alloc) inside the policy's alloc: with_allocator.h:85 (default), the growth of
   reusable_storage coro_storage.h:53 (new block first: nothing has been touched yet), the heap fallback of
   reusable_storage_mtsafe :161 and of stack_storage alloca_storage.h:44, the reallocation of the buffer's vector (strong
   guarantee).  No frame comes into being, the exception reaches the creator, NOTHING changes: in particular the
   thread-safe storage stays busy -- the flag belongs to the frame that lives in its block, not to the failed creation.
   (reusable_storage_mtsafe growing while NOT busy is left out: the exchange has set _busy and nothing clears it again.) *)
NeedsNew(c) == CASE Policy = "default" -> TRUE
                 [] Policy = "reusable" -> Fixed /\ Req(c) > cap
                 [] Policy = "mtsafe" -> busy
                 [] Policy = "stack" -> Req(c) > cap
                 [] Policy = "buffer" -> cap < Req(c) /\ (IF ptr = 0 THEN TRUE ELSE Req(c) > heap[ptr])
                 [] OTHER -> FALSE
CreateFail(t, c) ==
    /\ Grain = "call" /\ Cardinality(Threads) = 1 /\ MaxFail > 0 /\ nthrow = 0 /\ ndtor = 0
    /\ prep = <<>> /\ Len(fr) <= 1 /\ objs[2].st = "none"
    /\ CanCreate(t, c, 1) /\ NeedsNew(c)
    /\ nthrow' = nthrow + 1
    /\ UNCHANGED <<env, heap, fr, objs, busy, pc, news, dels, dbl, torn, prep, nmov, nown, ndtor>>

-----------------------------------------------------------------------------
(* reusable_storage is movable (coro_storage.h:33-43); with the attached-object layer the factory and
   `inventory` travel along.  Storage objects are constructed, moved and destroyed while no frame is alive. *)
Quiet == ~torn /\ Live = {} /\ \A t \in Threads : At(t, "idle")
MoveOK == Movable /\ Quiet /\ nmov < MaxMoves /\ ndtor = 0

(* a second, default constructed storage *)
NewObj ==
    /\ MoveOK /\ objs[2].st = "none"
    /\ objs' = [objs EXCEPT ![2] = [st |-> "live", ptr |-> 0, cap |-> 0, inv |-> 0, fac |-> TRUE]]
    /\ nmov' = nmov + 1
    /\ UNCHANGED <<env, heap, fr, busy, pc, news, dels, dbl, torn, nown, prep, nthrow, ndtor>>

(* reusable_storage b(std::move(a)), coro_storage.h:33-35: block and capacity go to the new object together *)
MoveCtor ==
    /\ MoveOK /\ objs[2].st = "none" /\ objs[1].st = "live"
    /\ objs' = [objs EXCEPT ![2] = [objs[1] EXCEPT !.st = "live"],
                            ![1] = [objs[1] EXCEPT !.ptr = 0, !.cap = 0, !.fac = ~Ex]]
    /\ nmov' = nmov + 1
    /\ UNCHANGED <<env, heap, fr, busy, pc, news, dels, dbl, torn, nown, prep, nthrow, ndtor>>

(* d = std::move(s), coro_storage.h:36-43: d's block is released, (block, capacity) of s move to d, s is empty;
   self-assignment changes nothing *)
MoveAssign(s, d) ==
    /\ MoveOK /\ objs[s].st = "live" /\ objs[d].st = "live"
    /\ nmov' = nmov + 1
    /\ UNCHANGED <<env, fr, busy, pc, torn, nown, prep, nthrow, ndtor>>
    /\ IF s = d THEN Same
       ELSE /\ CommitH(DoDel(St(d), objs[d].ptr))
            /\ objs' = [objs EXCEPT ![d] = [objs[s] EXCEPT !.st = "live"],
                                    ![s] = [objs[s] EXCEPT !.ptr = 0, !.cap = 0, !.fac = ~Ex]]

(* one of two storage objects is destroyed, the other one lives on *)
Drop(o) ==
    /\ MoveOK /\ objs[o].st = "live" /\ objs[3 - o].st = "live"
    /\ CommitH(DoDel(St(o), objs[o].ptr))
    /\ objs' = [objs EXCEPT ![o] = [NoObj EXCEPT !.st = "dead"]]
    /\ nmov' = nmov + 1
    /\ UNCHANGED <<env, fr, busy, pc, torn, nown, prep, nthrow, ndtor>>

-----------------------------------------------------------------------------
(* reusable_buffer_storage does not own its buffer: while no coroutine is active the owner may do with the
   vector what it likes (coro_storage.h:184-192).  Sizes are those of the frame classes. *)
OwnOK == Policy = "buffer" /\ Quiet /\ nown < MaxOwner /\ ndtor = 0
OwnDone(S) == /\ Commit(1, S) /\ nown' = nown + 1
              /\ UNCHANGED <<env, fr, busy, pc, torn, nmov, prep, nthrow, ndtor>>

OwnerResize(k) ==          \* buf.resize(n): smaller keeps the block, larger may reallocate
    /\ OwnOK /\ k \in Classes /\ Req(k) # cap
    /\ OwnDone(VecResize(St(1), Req(k)))
OwnerShrink ==             \* buf.shrink_to_fit()
    /\ OwnOK /\ ptr # 0 /\ heap[ptr] # cap
    /\ OwnDone(VecShrink(St(1)))
OwnerClear ==              \* buf.clear(); buf.shrink_to_fit()
    /\ OwnOK /\ ptr # 0
    /\ OwnDone(VecShrink([St(1) EXCEPT !.cap = 0]))
OwnerMoveOut ==            \* std::vector taken(std::move(buf)); the block leaves with it
    /\ OwnOK /\ ptr # 0
    /\ OwnDone([DoDel(St(1), ptr) EXCEPT !.ptr = 0, !.cap = 0])
OwnerSwap(k) ==            \* std::vector fresh(n); buf.swap(fresh): another block, the old one is released
    /\ OwnOK /\ k \in Classes
    /\ OwnDone([Replace(St(1), Req(k)) EXCEPT !.cap = Req(k)])

-----------------------------------------------------------------------------
(* the storage objects are destroyed (no frame alive): ~reusable_storage, ~vector *)
Teardown ==
    /\ Quiet
    /\ torn' = TRUE
    /\ IF Policy \in {"reusable", "mtsafe", "buffer"}
         THEN LET S2 == DoDel(St(2), objs[2].ptr) IN
              CommitH(DoDel(S2, objs[1].ptr))
         ELSE UNCHANGED <<heap, news, dels, dbl>>
    /\ objs' = [o \in 1..2 |-> IF objs[o].st = "live"
                                  THEN [NoObj EXCEPT !.st = "dead",
                                                     !.cap = IF Policy \in {"stack", "placement"} THEN objs[o].cap ELSE 0]
                                  ELSE objs[o]]
    /\ UNCHANGED <<env, fr, busy, pc, Rest>>

Next == \/ \E t \in Threads, c \in 1..3 : Create(t, c) \/ CreateB(t, c) \/ CreateThrow(t, c) \/ CreateFail(t, c)
        \/ \E t \in Threads, c \in 1..3, i \in 1..2 : CreateP(t, c, i)
        \/ Prepare
        \/ \E t \in Threads, f \in 1..MaxCreate : Complete(t, f) \/ DtorBegin(t, f) \/ DtorEnd(t, f)
        \/ \E t \in Threads : New(t) \/ Del(t) \/ Store(t)
        \/ NewObj \/ MoveCtor
        \/ \E s, d \in 1..2 : MoveAssign(s, d)
        \/ \E o \in 1..2 : Drop(o)
        \/ \E k \in 1..3 : OwnerResize(k) \/ OwnerSwap(k)
        \/ OwnerShrink \/ OwnerClear \/ OwnerMoveOut
        \/ Teardown

Spec == Init /\ [][Next]_vars

-----------------------------------------------------------------------------
(* Properties (C19) *)

ASSUME Cardinality(Threads) > 1 => ExPolicies = {}      \* the layer is modelled at grain "call" only

TypeOK == /\ \A s \in Slots : heap[s] \in Nat
          /\ \A o \in 1..2 : objs[o].ptr \in 0..NSlots
          /\ busy \in BOOLEAN /\ torn \in BOOLEAN
          /\ Len(fr) <= MaxFrames /\ \A o \in 1..2 : Cardinality(LiveOn(o)) <= MaxLive
          /\ FreeSlots(heap) # {}      \* the bounded heap is never the limiting factor

(* memory region a live frame sits in: a heap block, its own alloca buffer, the placement buffer *)
Region(f) == CASE fr[f].where = "heap" -> <<"heap", fr[f].slot>>
               [] fr[f].where = "stack" /\ fr[f].slot = 0 -> <<"stack", f>>      \* the alloca block of its own call
               [] fr[f].where = "stack" -> <<"prep", fr[f].slot>>                \* the block of a storage prepared ahead
               [] OTHER -> <<fr[f].where, 0>>

(* no two simultaneously live frames in the same memory ... *)
Exclusive == \A f, g \in Live : f # g => Region(f) # Region(g)

(* ... and the memory of a live frame stays allocated, with (buffer: at least) the size it had when the
   frame was placed in it *)
BlockAlive == \A f \in Live : fr[f].where = "heap" =>
                 /\ heap[fr[f].slot] # 0
                 /\ IF Policy = "buffer" THEN heap[fr[f].slot] >= fr[f].blk ELSE heap[fr[f].slot] = fr[f].blk

(* outside of alloc the size bookkeeping of every storage object describes its block: (block, capacity)
   travel together; two storage objects never own the same block *)
BookkeepingTruthful ==
    /\ (Policy \in {"reusable", "mtsafe", "buffer"} /\ \A t \in Threads : pc[t].at \notin {"del_old", "new_shared", "del_after"})
        => \A o \in 1..2 : IF objs[o].ptr = 0 THEN objs[o].cap = 0
                           ELSE IF Policy = "buffer" THEN heap[objs[o].ptr] >= objs[o].cap
                           ELSE heap[objs[o].ptr] = objs[o].cap
    /\ objs[1].ptr # 0 => objs[1].ptr # objs[2].ptr
    /\ \A o \in 1..2 : objs[o].st # "live" => objs[o].ptr = 0

(* the frame plus everything the policy puts behind it, [at, at + size), lies inside the area the policy owns for it
   (heap block, the vector's elements, alloca block, placement buffer), wherever that area begins and whatever
   happened to the storage object or to the buffer while no frame was alive *)
LargeEnough == \A f \in Live : fr[f].at + Sz(fr[f].c) + Trailer <= fr[f].blk

(* the base policy's dealloc is told the size its alloc was told *)
SizeRoundTrip == \A i \in 1..Len(fr) : IF fr[i].live THEN fr[i].asz = BaseSz(fr[i].c) /\ fr[i].dz = "live"
                                       ELSE fr[i].dz = "same"

(* every allocated heap block is accounted for (a live frame's block, a storage object's own block, or
   a block some thread is about to release) and nothing is released twice: heap blocks -- fallback
   blocks in particular -- are released exactly once *)
Accounted(s) == \/ \E o \in 1..2 : s = objs[o].ptr
                \/ \E f \in Live : fr[f].slot = s
                \/ \E t \in Threads : pc[t].at \in {"del_after", "delete"} /\ pc[t].slot = s
HeapFallbackFreedOnce ==
    /\ dbl = 0
    /\ \A s \in Slots : heap[s] # 0 => Accounted(s)
    /\ torn => \A s \in Slots : heap[s] = 0
    /\ news + (IF Policy = "buffer" /\ InitSize > 0 THEN 1 ELSE 0)      \* block the buffer came with
          = dels + Cardinality({s \in Slots : heap[s] # 0})

(* the flag byte / owner pointer tells dealloc the truth *)
TrailerTruthful ==
    \A f \in Live :
       /\ Policy = "stack" => (fr[f].tr = "1") = (fr[f].where = "heap")
       /\ Policy = "mtsafe" => fr[f].tr = "own"

(* the thread-safe variant: at most one live (or being created) frame uses the shared block, and
   while one does the busy flag is set *)
SharedUsers == Cardinality({f \in Live : fr[f].sh})
               + Cardinality({t \in Threads : pc[t].at \in {"del_old", "new_shared", "del_after"}})
MtSafeNeverShares ==
    Policy = "mtsafe" => /\ SharedUsers <= 1
                         /\ SharedUsers = 1 => busy
                         /\ \A f \in Live : fr[f].sh => fr[f].slot = ptr

(* the thread-safe storage is busy only while somebody uses (or is about to release) its block *)
BusyMeansInUse ==
    (Policy = "mtsafe" /\ busy) =>
        SharedUsers + Cardinality({t \in Threads : pc[t].at \in {"store"}}) >= 1

(* single-frame policies are used with one live frame at a time per storage object: then the frame is in
   that object's block *)
ReuseBlock ==
    Policy \in {"reusable", "buffer"} =>
        \A f \in Live : fr[f].slot = objs[fr[f].o].ptr /\ fr[f].blk = objs[fr[f].o].cap

(* attached object: one construction per frame, one destruction together with the frame *)
ExtraCtorDtorOnce ==
    \A i \in 1..Len(fr) :
        IF Ex
          THEN fr[i].ct = 1 /\ fr[i].dt = (IF fr[i].live THEN 0 ELSE 1) /\ (fr[i].live => fr[i].eo \in {"obj", "dying"})
          ELSE fr[i].ct = 0 /\ fr[i].dt = 0

(* attached object: while its destructor runs it lies in memory that is still the frame's alone -- the block has
   not gone back to the base policy (Exclusive, BlockAlive, MtSafeNeverShares count the frame as live till DtorEnd) *)
ExtraDiesInOwnBlock ==
    \A f \in Dying : /\ fr[f].dz = "live"
                      /\ (fr[f].where = "heap" => heap[fr[f].slot] # 0)
                      /\ ((Policy = "mtsafe" /\ fr[f].sh) => busy)
                      /\ Cardinality(Dying) = 1

(* attached object: as soon as the coroutine object exists the storage it was created on designates it *)
ExtraUsableAtCreation ==
    [][(Ex /\ Len(fr') > Len(fr)) =>
          LET n == Len(fr') IN
          (objs'[fr'[n].o].inv = n /\ fr'[n].live /\ fr'[n].eo = "obj" /\ fr'[n].ct = 1 /\ fr'[n].dt = 0)]_vars

(* after warm-up (the policy's bookkeeping already covers the size) a creation allocates nothing *)
Warm(o, c) == \/ Policy = "reusable" /\ Req(c) <= objs[o].cap
              \/ Policy = "buffer" /\ Req(c) <= cap
              \/ Policy = "stack" /\ Req(c) <= cap
              \/ Policy = "mtsafe" /\ ~busy /\ Req(c) <= cap
              \/ Policy = "placement"
WarmNoAlloc ==
    [][\A t \in Threads, c \in Classes, o \in 1..2 :
          (CreateOn(t, c, o) /\ Warm(o, c)) => (news' = news /\ dels' = dels /\ heap' = heap /\ Len(fr') = Len(fr) + 1)]_vars

(* completion of a frame never allocates; for the single-block policies it releases nothing *)
CompleteNoAlloc ==
    [][\A t \in Threads, f \in 1..MaxCreate : (Complete(t, f) \/ DtorBegin(t, f) \/ DtorEnd(t, f)) => news' = news]_vars

(* moving storage objects around never allocates, and releases only the block of an assigned-to object *)
MoveNoAlloc == [][nmov' > nmov => news' = news]_vars

=============================================================================
