------------------------------- MODULE Storage -------------------------------
(***************************************************************************)
(* Coroutine storage policies of cocls (C19):                              *)
(*   default_storage            with_allocator.h:82-90                     *)
(*   reusable_storage           coro_storage.h:27-63                       *)
(*   reusable_storage_mtsafe    coro_storage.h:153-181                     *)
(*   stack_storage (+alloca)    alloca_storage.h:26-61                     *)
(*   placement_alloc            coro_storage.h:133-143                     *)
(*   reusable_buffer_storage    coro_storage.h:195-212                     *)
(*   promise_extra_storage<T>   coro_storage.h:220-246                     *)
(* (static_storage does not satisfy the Storage concept -- its dealloc is  *)
(* not static -- and cannot be instantiated; it is not modelled.)          *)
(*                                                                         *)
(* One module; the policy is chosen in the initial state (env.pol) from    *)
(* the CONSTANT set Policies.  The model keeps exactly the                 *)
(* bookkeeping the code keeps and decides from it the way the code does:   *)
(*   ptr / cap   reusable: _ptr/_capacity; buffer: the vector's block and  *)
(*               size in bytes; stack: the shared size_t `_state` (cap);   *)
(*               placement: the size of the buffer the user handed over    *)
(*   busy        reusable_storage_mtsafe::_busy                            *)
(*   fr[i].tr    what lies behind frame i: the owner pointer (mtsafe),     *)
(*               the heap flag byte (stack), the attached object (extra)   *)
(*   heap        global heap: slot -> size of the allocated block (0 free).*)
(* The heap is a bounded array of slots and operator new takes the lowest  *)
(* free slot; the replayer (harness/storage_replay.cpp) runs the library   *)
(* on an allocator with the same rule, so "which block did the frame get"  *)
(* is comparable without raw addresses and address reuse (ABA) is          *)
(* deterministic.  Sizes are abstract: a frame of class c has 100*c bytes, *)
(* the policy's trailer is the real number of bytes (8 owner pointer,      *)
(* 1 flag byte, sizeof(T)); the replayer maps the compiler-chosen frame    *)
(* sizes of its three body shapes to 100/200/300.                          *)
(*                                                                         *)
(* Grain: "call"   a coroutine creation / completion is one action         *)
(*        "atomic" the instrumented atomic operations on _busy are the     *)
(*                 scheduling points (two-thread configurations)           *)
(*        "alloc"  additionally every operator new / operator delete call  *)
(*                 made by the storage is a step of its own                *)
(*                                                                         *)
(* Fixed: order in which reusable_storage::alloc grows (coro_storage.h:    *)
(*   49-53).  FALSE: `delete(_ptr); _ptr = new(sz)` -- between the two     *)
(*   calls _ptr holds the address of a released block.  TRUE: the new      *)
(*   block is published first, the old one is released afterwards.         *)
(*   For one thread both orders are correct.  For two threads on a         *)
(*   reusable_storage_mtsafe only TRUE is: with FALSE a heap-fallback      *)
(*   block of the other thread can get the released address, dealloc's     *)
(*   `ptr == me->_ptr` (coro_storage.h:169) then takes it for the shared   *)
(*   block: _busy is cleared while the block is in use, the fallback block *)
(*   is never freed (Storage_mt2alloc.cfg, Fixed = FALSE: violates         *)
(*   HeapFallbackFreedOnce, MtSafeNeverShares, Exclusive).                 *)
(***************************************************************************)
EXTENDS Naturals, Sequences, FiniteSets, TLC

CONSTANTS Policies,   \* subset of {"default","reusable","mtsafe","stack","placement","buffer","extra"}
          Threads,    \* {t1}: sequential; {t1, t2}: two threads on one reusable_storage_mtsafe
          MaxCreate,  \* bound on the number of frames ever created
          MaxOverlap, \* bound on simultaneously live frames for the policies that permit overlapping
                      \* lifetimes (default, mtsafe, stack, extra).  reusable / placement / buffer serve
                      \* ONE live frame at a time -- documented precondition, not generated otherwise
          Classes,    \* frame-size classes that are created (subset of 1..3)
          StackInits, \* stack: initial values of the shared size_t
          BufferInits,\* buffer: initial sizes of the caller's vector
          PlaceInits, \* placement: sizes of the caller's buffer
          NSlots,     \* size of the bounded heap
          Grain,      \* "call" | "atomic" | "alloc"
          Fixed       \* see above

VARIABLES env,    \* [pol, init]: the policy and its initial size parameter; never changes
          heap,   \* [1..NSlots -> Nat]: 0 = free, otherwise the size the block was requested with
          fr,     \* sequence of frame records in order of creation (= order in which alloc returned)
          ptr,    \* slot of the policy's own block (0 = nullptr)
          cap,    \* the policy's size bookkeeping (see above)
          busy,   \* _busy
          pc,     \* per thread: where it is parked inside alloc / dealloc
          news, dels,  \* operator new / operator delete calls made by the storage so far
          dbl,    \* operator delete calls on a block that is not allocated (never, says the property)
          inv,    \* extra: frame whose attached object `storage.inventory` designates (0 = none)
          torn    \* the storage object has been destroyed

vars == <<env, heap, fr, ptr, cap, busy, pc, news, dels, dbl, inv, torn>>

Policy == env.pol
InitSize == env.init
(* bytes the policy puts behind the frame: the owner pointer, the flag byte, sizeof(T) of the replayer's T *)
Trailer == CASE Policy = "mtsafe" -> 8 [] Policy = "stack" -> 1 [] Policy = "extra" -> 16 [] OTHER -> 0
MaxLive == IF Policy \in {"default", "mtsafe", "stack", "extra"} THEN MaxOverlap ELSE 1
InitChoices(p) == CASE p = "stack" -> StackInits [] p = "buffer" -> BufferInits [] p = "placement" -> PlaceInits [] OTHER -> {0}

Sz(c) == 100 * c
Slots == 1..NSlots
Idle == [at |-> "idle", c |-> 0, slot |-> 0]
At(t, a) == pc[t].at = a
Park(t, a, c, s) == pc' = [pc EXCEPT ![t] = [at |-> a, c |-> c, slot |-> s]]
Resume(t) == pc' = [pc EXCEPT ![t] = Idle]

Live == {i \in 1..Len(fr) : fr[i].live}
Creating == {t \in Threads : pc[t].at \in {"new_heap", "del_old", "new_shared", "del_after"}}

(* ---- the global heap: operator new takes the lowest free slot ---- *)
St == [heap |-> heap, ptr |-> ptr, cap |-> cap, news |-> news, dels |-> dels, dbl |-> dbl]
Commit(S) == /\ heap' = S.heap /\ ptr' = S.ptr /\ cap' = S.cap
             /\ news' = S.news /\ dels' = S.dels /\ dbl' = S.dbl
Same == UNCHANGED <<heap, ptr, cap, news, dels, dbl>>

FreeSlots(h) == {s \in Slots : h[s] = 0}
Lowest(h) == CHOOSE s \in FreeSlots(h) : \A r \in FreeSlots(h) : s <= r
DoNew(S, sz) == [S EXCEPT !.heap[Lowest(S.heap)] = sz, !.news = @ + 1]
DoDel(S, s) == IF s = 0 THEN S          \* operator delete(nullptr)
               ELSE IF S.heap[s] = 0 THEN [S EXCEPT !.dels = @ + 1, !.dbl = @ + 1]
               ELSE [S EXCEPT !.heap[s] = 0, !.dels = @ + 1]

(* reusable_storage::alloc, coro_storage.h:48-55: grows when the request exceeds _capacity *)
Grow(S, sz) ==
    IF Fixed
      THEN DoDel([DoNew(S, sz) EXCEPT !.ptr = Lowest(S.heap), !.cap = sz], S.ptr)
      ELSE LET S1 == DoDel(S, S.ptr) IN [DoNew(S1, sz) EXCEPT !.ptr = Lowest(S1.heap), !.cap = sz]
ReuseAlloc(S, sz) == IF sz > S.cap THEN Grow(S, sz) ELSE S

(* reusable_buffer_storage::alloc, coro_storage.h:202-207: _buff.resize() when too small; a vector
   allocates the new block, moves the elements, then releases the old block *)
BufAlloc(S, sz) ==
    IF S.cap < sz THEN DoDel([DoNew(S, sz) EXCEPT !.ptr = Lowest(S.heap), !.cap = sz], S.ptr) ELSE S

(* ---- frames ---- *)
Rec(c, w, s, b, t, sh) ==
    [c |-> c, live |-> TRUE, where |-> w, slot |-> s, blk |-> b, tr |-> t, sh |-> sh,
     ct |-> IF Policy = "extra" THEN 1 ELSE 0, dt |-> 0]
Gone(r) ==
    [c |-> 0, live |-> FALSE, where |-> "gone", slot |-> 0, blk |-> 0, tr |-> "gone", sh |-> FALSE,
     ct |-> r.ct, dt |-> r.dt + (IF Policy = "extra" THEN 1 ELSE 0)]

Init == /\ env \in {[pol |-> p, init |-> i] : p \in Policies, i \in UNION {InitChoices(q) : q \in Policies}}
        /\ env.init \in InitChoices(env.pol)
        /\ heap = [s \in Slots |-> IF Policy = "buffer" /\ InitSize > 0 /\ s = 1 THEN InitSize ELSE 0]
        /\ ptr = IF Policy = "buffer" /\ InitSize > 0 THEN 1 ELSE 0
        /\ cap = IF Policy \in {"buffer", "stack", "placement"} THEN InitSize ELSE 0
        /\ fr = <<>>
        /\ busy = FALSE
        /\ pc = [t \in Threads |-> Idle]
        /\ news = 0 /\ dels = 0 /\ dbl = 0 /\ inv = 0
        /\ torn = FALSE

(* ---- policies whose alloc / dealloc contain no scheduling point: <<store', frame record>> ---- *)
SeqCreate(c) ==
    CASE Policy = "default" ->       \* with_allocator.h:84
           <<DoNew(St, Sz(c)), Rec(c, "heap", Lowest(heap), Sz(c), "none", FALSE)>>
      [] Policy = "reusable" ->      \* coro_storage.h:48
           LET S == ReuseAlloc(St, Sz(c)) IN <<S, Rec(c, "heap", S.ptr, S.heap[S.ptr], "none", TRUE)>>
      [] Policy = "buffer" ->        \* coro_storage.h:202
           LET S == BufAlloc(St, Sz(c)) IN <<S, Rec(c, "heap", S.ptr, S.heap[S.ptr], "none", TRUE)>>
      [] Policy = "placement" ->     \* coro_storage.h:136: returns _p whatever the size
           <<St, Rec(c, "place", 0, cap, "none", TRUE)>>
      [] Policy = "stack" ->         \* alloca_storage.h:38-50; _alloc_size = _state at construction
           IF Sz(c) + Trailer <= cap
             THEN <<St, Rec(c, "stack", 0, cap, "0", FALSE)>>
             ELSE <<[DoNew(St, Sz(c) + Trailer) EXCEPT !.cap = Sz(c) + Trailer],
                    Rec(c, "heap", Lowest(heap), Sz(c) + Trailer, "1", FALSE)>>
      [] Policy = "extra" ->         \* coro_storage.h:228-233
           <<DoNew(St, Sz(c) + Trailer), Rec(c, "heap", Lowest(heap), Sz(c) + Trailer, "obj", FALSE)>>

SeqComplete(f) ==
    CASE Policy \in {"default", "extra"} -> DoDel(St, fr[f].slot)   \* with_allocator.h:88, coro_storage.h:235-239
      [] Policy = "stack" -> IF fr[f].tr = "1" THEN DoDel(St, fr[f].slot) ELSE St   \* alloca_storage.h:52-55
      [] OTHER -> St                                                  \* dealloc is empty

CanCreate(t, c) ==
    /\ ~torn /\ At(t, "idle") /\ c \in Classes
    /\ Len(fr) + Cardinality(Creating) < MaxCreate
    /\ Cardinality(Live) + Cardinality(Creating) < MaxLive
    /\ Policy = "placement" => Sz(c) <= cap     \* precondition: the caller's buffer is large enough

(* reusable_storage_mtsafe::alloc, coro_storage.h:155-165.  The step performs `_busy.exchange(true)`
   and the thread-local code after it up to the next scheduling point. *)
MtCreate(t, c) ==
    LET sz == Sz(c) + Trailer IN
    /\ busy' = TRUE
    /\ IF busy
         THEN   \* the exchange returned true: somebody holds the block -> plain heap block
              IF Grain = "alloc"
                THEN /\ Park(t, "new_heap", c, 0) /\ Same /\ UNCHANGED fr
                ELSE /\ Commit(DoNew(St, sz))
                     /\ fr' = Append(fr, Rec(c, "heap", Lowest(heap), sz, "own", FALSE))
                     /\ UNCHANGED pc
         ELSE IF sz <= cap
           THEN \* the block _ptr designates is taken as it is (blk: what is really allocated there)
                /\ fr' = Append(fr, Rec(c, "heap", ptr, heap[ptr], "own", TRUE))
                /\ Same /\ UNCHANGED pc
         ELSE IF Grain = "alloc"
           THEN /\ Park(t, IF Fixed \/ ptr = 0 THEN "new_shared" ELSE "del_old", c, 0)
                /\ Same /\ UNCHANGED fr
           ELSE LET S == Grow(St, sz) IN
                /\ Commit(S)
                /\ fr' = Append(fr, Rec(c, "heap", S.ptr, S.heap[S.ptr], "own", TRUE))
                /\ UNCHANGED pc

Create(t, c) ==
    /\ CanCreate(t, c)
    /\ UNCHANGED <<env, torn>>
    /\ IF Policy = "mtsafe"
         THEN MtCreate(t, c) /\ UNCHANGED inv
         ELSE LET r == SeqCreate(c) IN
              /\ Commit(r[1])
              /\ fr' = Append(fr, r[2])
              /\ inv' = IF Policy = "extra" THEN Len(fr) + 1 ELSE inv   \* coro_storage.h:231
              /\ UNCHANGED <<busy, pc>>

(* an operator new call of the storage (grain "alloc") *)
New(t) ==
    /\ pc[t].at \in {"new_heap", "new_shared"}
    /\ UNCHANGED <<env, busy, inv, torn>>
    /\ LET c == pc[t].c
           sz == Sz(c) + Trailer
           s == Lowest(heap) IN
       IF At(t, "new_heap")
         THEN /\ Commit(DoNew(St, sz))
              /\ fr' = Append(fr, Rec(c, "heap", s, sz, "own", FALSE))
              /\ Resume(t)
         ELSE IF Fixed /\ ptr # 0
           THEN \* the new block is published; the old one is still to be released
                /\ Commit([DoNew(St, sz) EXCEPT !.ptr = s])
                /\ Park(t, "del_after", c, ptr)
                /\ UNCHANGED fr
           ELSE /\ Commit([DoNew(St, sz) EXCEPT !.ptr = s, !.cap = sz])
                /\ fr' = Append(fr, Rec(c, "heap", s, sz, "own", TRUE))
                /\ Resume(t)

(* an operator delete call of the storage (grain "alloc") *)
Del(t) ==
    /\ pc[t].at \in {"del_old", "del_after", "delete"}
    /\ UNCHANGED <<env, busy, inv, torn>>
    /\ LET c == pc[t].c
           sz == Sz(c) + Trailer IN
       CASE At(t, "del_old") ->      \* coro_storage.h:50: _ptr keeps the released address until line 51
              /\ Commit(DoDel(St, ptr))
              /\ Park(t, "new_shared", c, 0)
              /\ UNCHANGED fr
         [] At(t, "del_after") ->
              /\ Commit([DoDel(St, pc[t].slot) EXCEPT !.cap = sz])
              /\ fr' = Append(fr, Rec(c, "heap", ptr, sz, "own", TRUE))
              /\ Resume(t)
         [] At(t, "delete") ->       \* coro_storage.h:172
              /\ Commit(DoDel(St, pc[t].slot))
              /\ Resume(t)
              /\ UNCHANGED fr

(* the coroutine finishes (or is destroyed): frame destructed, promise operator delete ->
   Policy::dealloc.  reusable_storage_mtsafe::dealloc, coro_storage.h:166-174, reads the owner
   pointer behind the frame and compares the frame's address with the owner's _ptr. *)
Complete(t, f) ==
    /\ ~torn /\ At(t, "idle") /\ f \in Live
    /\ fr' = [fr EXCEPT ![f] = Gone(@)]
    /\ UNCHANGED <<env, inv, torn>>
    /\ IF Policy = "mtsafe"
         THEN IF fr[f].slot = ptr
                THEN IF Grain = "call"
                       THEN busy' = FALSE /\ Same /\ UNCHANGED pc
                       ELSE Park(t, "store", 0, 0) /\ Same /\ UNCHANGED busy
                ELSE IF Grain = "alloc"
                       THEN Park(t, "delete", 0, fr[f].slot) /\ Same /\ UNCHANGED busy
                       ELSE Commit(DoDel(St, fr[f].slot)) /\ UNCHANGED <<busy, pc>>
         ELSE Commit(SeqComplete(f)) /\ UNCHANGED <<busy, pc>>

(* `me->_busy.store(false)`, coro_storage.h:170 *)
Store(t) ==
    /\ At(t, "store")
    /\ busy' = FALSE
    /\ Resume(t)
    /\ Same /\ UNCHANGED <<env, fr, inv, torn>>

(* the storage object is destroyed (no frame alive): ~reusable_storage, ~vector *)
Teardown ==
    /\ ~torn /\ Live = {} /\ \A t \in Threads : At(t, "idle")
    /\ torn' = TRUE
    /\ IF Policy \in {"reusable", "mtsafe", "buffer"}
         THEN Commit([DoDel(St, ptr) EXCEPT !.ptr = 0, !.cap = 0])
         ELSE Same
    /\ inv' = 0
    /\ UNCHANGED <<env, fr, busy, pc>>

Next == \/ \E t \in Threads, c \in 1..3 : Create(t, c)
        \/ \E t \in Threads, f \in 1..MaxCreate : Complete(t, f)
        \/ \E t \in Threads : New(t) \/ Del(t) \/ Store(t)
        \/ Teardown

Spec == Init /\ [][Next]_vars

-----------------------------------------------------------------------------
(* Properties (C19) *)

TypeOK == /\ \A s \in Slots : heap[s] \in Nat
          /\ ptr \in 0..NSlots /\ busy \in BOOLEAN /\ torn \in BOOLEAN
          /\ Len(fr) <= MaxCreate /\ Cardinality(Live) <= MaxLive
          /\ FreeSlots(heap) # {}      \* the bounded heap is never the limiting factor

(* memory region a live frame sits in: a heap block, its own alloca buffer, the placement buffer *)
Region(f) == CASE fr[f].where = "heap" -> <<"heap", fr[f].slot>>
               [] fr[f].where = "stack" -> <<"stack", f>>
               [] OTHER -> <<fr[f].where, 0>>

(* no two simultaneously live frames in the same memory ... *)
Exclusive == \A f, g \in Live : f # g => Region(f) # Region(g)

(* ... and the memory of a live frame stays allocated, with the size it had when the frame was placed in it *)
BlockAlive == \A f \in Live : fr[f].where = "heap" => (heap[fr[f].slot] # 0 /\ heap[fr[f].slot] = fr[f].blk)

(* outside of alloc the policy's size bookkeeping describes its block *)
BookkeepingTruthful ==
    (Policy \in {"reusable", "mtsafe", "buffer"} /\ \A t \in Threads : pc[t].at \notin {"del_old", "new_shared", "del_after"})
        => IF ptr = 0 THEN cap = 0 ELSE heap[ptr] = cap

(* the memory is at least as large as the frame plus what the policy puts behind it *)
LargeEnough == \A f \in Live : fr[f].blk >= Sz(fr[f].c) + Trailer

(* every allocated heap block is accounted for (a live frame's block, the policy's own block, or
   a block some thread is about to release) and nothing is released twice: heap blocks -- fallback
   blocks in particular -- are released exactly once *)
Accounted(s) == \/ s = ptr
                \/ \E f \in Live : fr[f].slot = s
                \/ \E t \in Threads : pc[t].at \in {"del_after", "delete"} /\ pc[t].slot = s
HeapFallbackFreedOnce ==
    /\ dbl = 0
    /\ \A s \in Slots : heap[s] # 0 => Accounted(s)
    /\ torn => \A s \in Slots : heap[s] = 0
    /\ news + (IF Policy = "buffer" /\ InitSize > 0 THEN 1 ELSE 0)      \* block the buffer came with
          = dels + Cardinality({s \in Slots : heap[s] # 0})

(* the flag byte / owner pointer tells dealloc the truth *)
TrailerTruthful ==
    \A f \in Live :
       /\ Policy = "stack" => (fr[f].tr = "1") = (fr[f].where = "heap")
       /\ Policy = "mtsafe" => fr[f].tr = "own"

(* the thread-safe variant: at most one live (or being created) frame uses the shared block, and
   while one does the busy flag is set *)
SharedUsers == Cardinality({f \in Live : fr[f].sh})
               + Cardinality({t \in Threads : pc[t].at \in {"del_old", "new_shared", "del_after"}})
MtSafeNeverShares ==
    Policy = "mtsafe" => /\ SharedUsers <= 1
                         /\ SharedUsers = 1 => busy
                         /\ \A f \in Live : fr[f].sh => fr[f].slot = ptr

(* single-frame policies are used with one live frame at a time: then the frame is in the block *)
ReuseBlock ==
    Policy \in {"reusable", "buffer"} => \A f \in Live : fr[f].slot = ptr /\ fr[f].blk = cap

(* extra<T>: one construction per frame, one destruction together with the frame *)
ExtraCtorDtorOnce ==
    \A i \in 1..Len(fr) :
        IF Policy = "extra"
          THEN fr[i].ct = 1 /\ fr[i].dt = (IF fr[i].live THEN 0 ELSE 1) /\ (fr[i].live => fr[i].tr = "obj")
          ELSE fr[i].ct = 0 /\ fr[i].dt = 0

(* extra<T>: as soon as the coroutine object exists the storage designates its attached object *)
ExtraUsableAtCreation ==
    [][(Policy = "extra" /\ Len(fr') > Len(fr)) =>
          (inv' = Len(fr') /\ fr'[inv'].live /\ fr'[inv'].tr = "obj" /\ fr'[inv'].ct = 1 /\ fr'[inv'].dt = 0)]_vars

(* after warm-up (the policy's bookkeeping already covers the size) a creation allocates nothing *)
Warm(c) == \/ Policy = "reusable" /\ Sz(c) <= cap
           \/ Policy = "buffer" /\ Sz(c) <= cap
           \/ Policy = "stack" /\ Sz(c) + Trailer <= cap
           \/ Policy = "mtsafe" /\ ~busy /\ Sz(c) + Trailer <= cap
           \/ Policy = "placement"
WarmNoAlloc ==
    [][\A t \in Threads, c \in Classes :
          (Create(t, c) /\ Warm(c)) => (news' = news /\ dels' = dels /\ heap' = heap /\ Len(fr') = Len(fr) + 1)]_vars

(* completion of a frame never allocates; for the single-block policies it releases nothing *)
CompleteNoAlloc ==
    [][\A t \in Threads, f \in 1..MaxCreate : Complete(t, f) => news' = news]_vars

=============================================================================
