SPECIFICATION Spec
CONSTANTS
  Policies = {"mtsafe"}
  ExPolicies = {}
  Threads = {t1, t2}
  MaxCreate = 4
  MaxCreateEx = 4
  MaxOverlap = 3
  Classes = {1, 2}
  StackInits = {0, 200}
  BufferInits = {0, 200}
  PlaceInits = {300}
  NSlots = 6
  Grain = "alloc"
  Fixed = TRUE
  MaxMoves = 0
  MaxPrep = 0
  MaxThrows = 0
  ThrowFixed = TRUE
  AreaOffs = {0, 8}
  AlignUp = FALSE
  MaxDtor = 0
  DtorFirst = TRUE
  MaxFail = 0
  MaxDtorMoves = 1
  MaxOwner = 0
INVARIANTS TypeOK Exclusive BlockAlive BookkeepingTruthful LargeEnough SizeRoundTrip HeapFallbackFreedOnce TrailerTruthful MtSafeNeverShares BusyMeansInUse ReuseBlock ExtraCtorDtorOnce ExtraDiesInOwnBlock
PROPERTIES ExtraUsableAtCreation WarmNoAlloc CompleteNoAlloc MoveNoAlloc
CHECK_DEADLOCK FALSE
