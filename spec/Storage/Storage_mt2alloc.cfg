SPECIFICATION Spec
CONSTANTS
  Policies = {"mtsafe"}
  ExPolicies = {}
  Threads = {t1, t2}
  MaxCreate = 4
  MaxCreateEx = 4
  MaxOverlap = 3
  Classes = {1, 2}
  StackInits = {0, 200}
  BufferInits = {0, 200}
  PlaceInits = {300}
  NSlots = 6
  Grain = "alloc"
  Fixed = TRUE
  MaxMoves = 0
  MaxOwner = 0
INVARIANTS TypeOK Exclusive BlockAlive BookkeepingTruthful LargeEnough SizeRoundTrip HeapFallbackFreedOnce TrailerTruthful MtSafeNeverShares ReuseBlock ExtraCtorDtorOnce
PROPERTIES ExtraUsableAtCreation WarmNoAlloc CompleteNoAlloc MoveNoAlloc
CHECK_DEADLOCK FALSE
