SPECIFICATION Spec
CONSTANTS
  Policy = "mtsafe"
  Threads = {t1, t2}
  MaxCreate = 4
  MaxLive = 3
  Classes = {1, 2}
  Trailer = 8
  InitSize = 0
  NSlots = 5
  Grain = "atomic"
  Fixed = FALSE
INVARIANTS TypeOK Exclusive LargeEnough HeapFallbackFreedOnce TrailerTruthful MtSafeNeverShares ReuseBlock ExtraCtorDtorOnce
PROPERTIES ExtraUsableAtCreation WarmNoAlloc CompleteNoAlloc
CHECK_DEADLOCK FALSE
