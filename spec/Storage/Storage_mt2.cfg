SPECIFICATION Spec
CONSTANTS
  Policies = {"mtsafe"}
  Threads = {t1, t2}
  MaxCreate = 4
  MaxOverlap = 3
  Classes = {1, 2}
  StackInits = {0, 200}
  BufferInits = {0, 200}
  PlaceInits = {300}
  NSlots = 6
  Grain = "atomic"
  Fixed = FALSE
INVARIANTS TypeOK Exclusive BlockAlive BookkeepingTruthful LargeEnough HeapFallbackFreedOnce TrailerTruthful MtSafeNeverShares ReuseBlock ExtraCtorDtorOnce
PROPERTIES ExtraUsableAtCreation WarmNoAlloc CompleteNoAlloc
CHECK_DEADLOCK FALSE
