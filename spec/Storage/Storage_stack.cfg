SPECIFICATION Spec
CONSTANTS
  Policies = {"stack"}
  Threads = {t1}
  MaxCreate = 4
  MaxOverlap = 3
  Classes = {1, 2, 3}
  StackInits = {0, 200}
  BufferInits = {0, 200}
  PlaceInits = {300}
  NSlots = 6
  Grain = "call"
  Fixed = FALSE
INVARIANTS TypeOK Exclusive BlockAlive BookkeepingTruthful LargeEnough HeapFallbackFreedOnce TrailerTruthful MtSafeNeverShares ReuseBlock ExtraCtorDtorOnce
PROPERTIES ExtraUsableAtCreation WarmNoAlloc CompleteNoAlloc
CHECK_DEADLOCK FALSE
