SPECIFICATION Spec
CONSTANTS
  Policy = "stack"
  Threads = {t1}
  MaxCreate = 4
  MaxLive = 3
  Classes = {1, 2, 3}
  Trailer = 1
  InitSize = 0
  NSlots = 4
  Grain = "call"
  Fixed = FALSE
INVARIANTS TypeOK Exclusive LargeEnough HeapFallbackFreedOnce TrailerTruthful MtSafeNeverShares ReuseBlock ExtraCtorDtorOnce
PROPERTIES ExtraUsableAtCreation WarmNoAlloc CompleteNoAlloc
CHECK_DEADLOCK FALSE
