SPECIFICATION Spec
CONSTANTS
  Policy = "reusable"
  Threads = {t1}
  MaxCreate = 4
  MaxLive = 1
  Classes = {1, 2, 3}
  Trailer = 0
  InitSize = 0
  NSlots = 3
  Grain = "call"
  Fixed = FALSE
INVARIANTS TypeOK Exclusive LargeEnough HeapFallbackFreedOnce TrailerTruthful MtSafeNeverShares ReuseBlock ExtraCtorDtorOnce
PROPERTIES ExtraUsableAtCreation WarmNoAlloc CompleteNoAlloc
CHECK_DEADLOCK FALSE
