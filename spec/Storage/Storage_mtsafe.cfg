SPECIFICATION Spec
CONSTANTS
  Policies = {"mtsafe"}
  ExPolicies = {"mtsafe"}
  Threads = {t1}
  MaxCreate = 4
  MaxCreateEx = 4
  MaxOverlap = 3
  Classes = {1, 2, 3}
  StackInits = {0, 200}
  BufferInits = {0, 200}
  PlaceInits = {300}
  NSlots = 6
  Grain = "call"
  Fixed = TRUE
  MaxMoves = 3
  MaxPrep = 2
  MaxThrows = 1
  ThrowFixed = TRUE
  AreaOffs = {0, 8}
  AlignUp = FALSE
  MaxDtor = 1
  DtorFirst = TRUE
  MaxFail = 1
  MaxDtorMoves = 1
  MaxOwner = 2
INVARIANTS TypeOK Exclusive BlockAlive BookkeepingTruthful LargeEnough SizeRoundTrip HeapFallbackFreedOnce TrailerTruthful MtSafeNeverShares BusyMeansInUse ReuseBlock ExtraCtorDtorOnce ExtraDiesInOwnBlock
PROPERTIES ExtraUsableAtCreation WarmNoAlloc CompleteNoAlloc MoveNoAlloc
CHECK_DEADLOCK FALSE
