#!/bin/bash
# usage: tools/seedcheck.sh <worktree> <n> <PROP> [demo timeout]
# Confirms a seeded change (out/<n>/patch.diff + demo.cpp in a scratch worktree): test suite passes with it,
# demo fails with it and passes without it; then runs `bin/check PROP quick` against the patched worktree.
WT=$1; N=$2; PROP=$3; TMO=${4:-60}
D=$WT/out/$N
T=$(mktemp -d /tmp/seedchk.XXXXXX)
cd $WT || exit 2
git checkout -q -- . ; git apply --check $D/patch.diff || { echo "patch does not apply"; exit 2; }
g++ -std=c++20 -O1 -g -I$WT/src -I$WT/src/cocls $D/demo.cpp -o $T/demo_clean -lpthread 2>/dev/null
timeout $TMO $T/demo_clean >/dev/null 2>&1; echo "demo without change: rc=$?"
git apply $D/patch.diff
g++ -std=c++20 -O1 -g -I$WT/src -I$WT/src/cocls $D/demo.cpp -o $T/demo_mut -lpthread 2>/dev/null
timeout $TMO $T/demo_mut >/dev/null 2>&1; echo "demo with change: rc=$?"
# test suite with the change (tests only)
mkdir -p $T/tests; rm -f $T/tests/*
fail=0
for t in $WT/src/tests/*.cpp; do b=$(basename $t .cpp); ( g++ -std=c++20 -O2 -DNDEBUG -I$WT/src -I$WT/src/cocls $t -o $T/tests/$b -lpthread 2>/dev/null || echo "COMPILE-FAIL $b" ) & done; wait
for t in $WT/src/tests/*.cpp; do b=$(basename $t .cpp); timeout 120 $T/tests/$b >/dev/null 2>&1 || { echo "TEST-FAIL $b"; fail=1; }; done
echo "tests with change: $( [ $fail = 0 ] && echo all pass || echo failures above)"
cd /verif && COCLS_REPO=$WT bin/check $PROP quick 2>&1 | grep -E "VIOLATION|held|BROKEN|KNOWN" | cut -c1-200 | head -3
cd $WT && git checkout -q -- .
rm -rf $T
