#!/bin/sh
# usage: tools/mutest.sh <prop> <tier> <python-snippet-file>   -- applies a source mutation (python snippet
# editing files relative to a scratch copy of /repo/src) and runs the check against the copy.
set -e
D=$(mktemp -d /tmp/mut.XXXXXX)
cp -r /repo/src $D/src
(cd $D && python3 "$3")
cd /verif
COCLS_REPO=$D bin/check $1 $2 2>&1 | grep -E "VIOLATION|held|BROKEN|KNOWN" | cut -c1-300 | head -5
rm -rf $D
