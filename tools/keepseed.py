#!/usr/bin/env python3
"""tools/keepseed.py <worktree> <n> <PROP> <caught:yes|no> "<needs>" "<caught by>"  -- files a confirmed seeded change under /verif/seeded/"""
import json, os, shutil, sys
wt, n, prop, caught, needs, by = sys.argv[1:7]
src = os.path.join(wt, "out", n)
dst = os.path.join("/verif/seeded", "%s-%s" % (prop, n))
if os.path.exists(dst) and open(os.path.join(dst, "patch.diff")).read() != open(os.path.join(src, "patch.diff")).read():
    # a later round of seeds for the same property: never overwrite, take the next free number
    k = 1
    while os.path.exists(os.path.join("/verif/seeded", "%s-%d" % (prop, k))):
        k += 1
    dst = os.path.join("/verif/seeded", "%s-%d" % (prop, k))
os.makedirs(dst, exist_ok=True)
for f in ("patch.diff", "demo.cpp", "NOTES.md"):
    if os.path.exists(os.path.join(src, f)):
        shutil.copy(os.path.join(src, f), os.path.join(dst, f))
meta = {
    "property": prop,
    "origin": "independent sub-agent given only the property text and a scratch worktree",
    "needs_to_manifest": needs,
    "confirmed": "tools/seedcheck.sh %s %s %s: demo passes without the change and fails with it; the 15 repository tests pass with it "
                 "(test_generator_aggregator_async_infinite is timing-flaky on the unchanged tree too)" % (wt, n, prop),
    "check_run": "COCLS_REPO=<patched worktree> bin/check %s quick" % prop,
    "caught": caught == "yes",
    "caught_by": by,
}
json.dump(meta, open(os.path.join(dst, "meta.json"), "w"), indent=1)
print("kept", dst)
