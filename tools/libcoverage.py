#!/usr/bin/env python3
"""Development aid, not a check: line coverage of /repo/src/cocls/*.h under the replayers.

  VERIF_GCOV_DIR=/verif/.gcov bin/check C09 quick     # harnesses are built with --coverage, .gcov files collected per run
  tools/libcoverage.py /verif/.gcov [file.h ...]      # aggregate: lines of the library no replayer ever executed

A line no replayer executes is a line where any change goes unnoticed by the conformance binding; the report drives the
growth of the specifications (which API forms / branches have no action yet)."""
import glob
import os
import re
import subprocess
import sys


def collect(build_dir, out_dir):
    gcnos = glob.glob(os.path.join(build_dir, "*.gcno"))
    if not gcnos:
        return
    os.makedirs(out_dir, exist_ok=True)
    for g in gcnos:
        sub = os.path.join(out_dir, os.path.basename(g)[:-5])
        os.makedirs(sub, exist_ok=True)
        subprocess.run(["gcov", "-p", "-o", build_dir, g], cwd=sub, stdout=subprocess.DEVNULL, stderr=subprocess.DEVNULL, timeout=600)
        for f in os.listdir(sub):
            if "#cocls#" not in f or "cocls_verif" in f:
                os.unlink(os.path.join(sub, f))


def aggregate(root):
    """-> {header: {line: (count or None if not executable, text)}}"""
    cov = {}
    for f in glob.glob(os.path.join(root, "*", "*", "*#cocls#*.h.gcov")):
        hdr = f.split("#cocls#")[-1][:-5]
        d = cov.setdefault(hdr, {})
        for line in open(f, errors="replace"):
            m = re.match(r"\s*([^:]+):\s*(\d+):(.*)", line)
            if not m:
                continue
            c, n, txt = m.group(1).strip(), int(m.group(2)), m.group(3)
            if n == 0 or c == "-":
                d.setdefault(n, (None, txt))
                continue
            k = 0 if c.startswith("#") or c.startswith("=") else int(re.sub(r"\D", "", c) or 0)
            old = d.get(n, (None, txt))[0]
            d[n] = ((old or 0) + k, txt)
    return cov


def main():
    root = sys.argv[1]
    only = set(sys.argv[2:])
    cov = aggregate(root)
    for hdr in sorted(cov):
        if only and hdr not in only:
            continue
        lines = cov[hdr]
        ex = [n for n, (c, _) in lines.items() if c is not None]
        un = sorted(n for n in ex if lines[n][0] == 0)
        print("== %s: %d executable lines seen, %d never executed" % (hdr, len(ex), len(un)))
        for n in un:
            print("   %5d: %s" % (n, lines[n][1].rstrip()[:150]))


if __name__ == "__main__":
    main()
