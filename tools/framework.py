"""Check context shared by all per-property drivers (tools/checks/*.py)."""
import json
import os
import random
import re
import sys
import time

import vlib
from vlib import MachineryError, log


class Ctx:
    def __init__(self, prop, tier, seed):
        self.prop = prop
        self.tier = tier
        self.seed = seed
        self.rng = random.Random(seed)
        self.t0 = time.time()
        self.states = 0
        self.transitions = 0
        self.traces = 0          # behaviours executed against the implementation and accepted
        self.steps = 0
        self.samples = []
        self.violations = []     # list of dict(key, what, replay)
        self.known_hits = []
        self.assumptions = []
        self.models = []         # per TLC run summary
        self.extra = {}
        self.exhaustive = True
        self.known = [k for k in vlib.load_known_findings() if k.get("property") == prop]

    @property
    def quick(self):
        return self.tier == "quick"

    def assume(self, text):
        if text not in self.assumptions:
            self.assumptions.append(text)

    def sample(self, s):
        if len(self.samples) < 6:
            self.samples.append(s)

    # ------------------------------------------------------------------------------------------
    def violation(self, key, what, replay_text, kind="script"):
        """Register a violation.  `key` identifies the failing input/history/call site: if it is
        listed as a *known* finding it is reported as KNOWN-FINDING instead."""
        for k in self.known:
            if k.get("kind") == "known" and k.get("key") == key:
                if key not in [h["key"] for h in self.known_hits]:
                    self.known_hits.append({"key": key, "what": k.get("what", what)})
                return False
        path = vlib.save_replay(self.prop, kind, replay_text)
        self.violations.append({"key": key, "what": what, "replay": path})
        log("  violation: %s (%s) replay=%s" % (key, what[:300], path))
        return True

    # ------------------------------------------------------------------------------------------
    def tlc(self, spec_dir, module, cfg_path, tag, defs=None, **kw):
        """Runs TLC exhaustively (or simulate) and accumulates statistics.  Returns TlcResult.
        A machinery error raises; a property violation is returned to the caller.
        defs: {constant: TLA+ expression} for constants a cfg file cannot express (sequences, functions):
        a model module MC_<..> EXTENDS <module> is generated in .build with the definitions and the cfg
        gets `constant <- definition` substitutions."""
        sd = os.path.join(vlib.VERIF, "spec", spec_dir)
        if defs:
            os.makedirs(vlib.BUILD, exist_ok=True)
            mc = "MC_%s_%s" % (self.prop, tag)
            with open(os.path.join(vlib.BUILD, mc + ".tla"), "w") as f:
                f.write("---- MODULE %s ----\nEXTENDS %s\n" % (mc, module))
                for k, v in defs.items():
                    f.write("def_%s == %s\n" % (k, v))
                f.write("====\n")
            cfg2 = os.path.join(vlib.BUILD, mc + ".cfg")
            with open(cfg2, "w") as f:
                f.write(open(cfg_path).read())
                f.write("\nCONSTANTS\n" + "\n".join("  %s <- def_%s" % (k, k) for k in defs) + "\n")
            jo = list(kw.pop("jvm_opts", None) or []) + ["-DTLA-Library=" + sd]
            res = vlib.run_tlc(vlib.BUILD, mc, cfg2, "%s_%s" % (self.prop, tag), jvm_opts=jo, **kw)
            for fn in (mc + ".tla", mc + ".cfg"):
                try:
                    os.remove(os.path.join(vlib.BUILD, fn))
                except OSError:
                    pass
        else:
            res = vlib.run_tlc(sd, module, cfg_path, "%s_%s" % (self.prop, tag), **kw)
        if res.error and not res.violation:
            raise MachineryError("TLC failed on %s/%s (%s):\n%s" % (spec_dir, module, cfg_path, res.error))
        self.states += res.distinct
        self.transitions += res.generated
        res.model = {"module": module, "cfg": os.path.basename(cfg_path), "distinct": res.distinct,
                     "generated": res.generated, "depth": res.depth, "wall_s": round(res.wall, 1),
                     "violation": res.violation,
                     "coverage": {k: "%d:%d" % v for k, v in sorted(res.coverage.items())}}
        self.models.append(res.model)     # (list.append is atomic; callers use res.model, not models[-1])
        return res

    def check_coverage(self, res, must_take, label=""):
        """vacuity guard: every listed action must have been taken at least once"""
        missing = [a for a in must_take if res.coverage.get(a, (0, 0))[1] == 0]
        if missing:
            raise MachineryError("vacuous model %s: actions never taken: %s" % (label, missing))

    def tlc_violation(self, res, module, key=None, replay_extra=""):
        """TLC found the specification to violate a property."""
        txt = "# TLC counterexample, %s, violated: %s\n" % (module, res.violation)
        for (lbl, st) in res.trace:
            txt += "%s\t%s\n" % (lbl, vlib.canon(st))
        txt += replay_extra
        self.violation(key or ("spec:%s:%s" % (module, res.violated_name)),
                       "specification %s violates %s" % (module, res.violation), txt, kind="tlctrace")

    # ------------------------------------------------------------------------------------------
    def finish(self):
        wall = time.time() - self.t0
        cov = {
            "states": int(self.states),
            "transitions": int(self.transitions),
            "traces_validated_against_impl": int(self.traces),
            "impl_steps_checked": int(self.steps),
            "samples": self.samples if self.samples else ["(no behaviour was replayed)"],
            "models": self.models,
            "exhaustive": bool(self.exhaustive),
            "known_findings_hit": self.known_hits,
        }
        cov.update(self.extra)
        # keys typed by EVIDENCE.schema.json keep their type whatever a check put into ctx.extra: a breakdown given as a
        # dict/list under an integer key is moved to <key>_detail and the key carries the total
        typed = {"evaluations": int, "distinct_nontrivial": int, "rule": str, "samples": list, "states": int, "transitions": int,
                 "traces_validated_against_impl": int, "obligations": int, "discharged": int, "checker_cmd": str,
                 "trusted_base": list, "programs": int, "disagreements_checked": int, "explanation": str, "exhaustive": bool}
        for k, t in typed.items():
            if k in cov and not (isinstance(cov[k], t) and not (t is int and isinstance(cov[k], bool))):
                v = cov[k]
                cov[k + "_detail"] = v
                if t is int:
                    cov[k] = int(sum(x for x in v.values() if isinstance(x, (int, float)))) if isinstance(v, dict) else (len(v) if isinstance(v, (list, tuple)) else 0)
                elif t is str:
                    cov[k] = json.dumps(v) if not isinstance(v, str) else v
                elif t is list:
                    cov[k] = [v]
                elif t is bool:
                    cov[k] = bool(v)
        vlib.write_evidence(self.prop, self.tier, self.seed, cov, wall, len(self.violations), self.assumptions)
        for h in self.known_hits:
            print("KNOWN-FINDING: property=%s %s" % (self.prop, h["what"]))
        if self.violations:
            for v in self.violations:
                print("VIOLATION property=%s replay=%s" % (self.prop, v["replay"]))
                print("  what: %s" % v["what"][:600])
            return 1
        log("%s %s: held (states=%d transitions=%d impl-traces=%d impl-steps=%d, %.1fs)" % (
            self.prop, self.tier, self.states, self.transitions, self.traces, self.steps, wall))
        return 0


# ----------------------------------------------------------------------------------------------
# spec -> code replay of a dumped state graph
# ----------------------------------------------------------------------------------------------
def merge_steps(steps, merge_re):
    """merge steps whose action name matches merge_re into the preceding step (grain alignment for
    single-threaded replays: 'critical section' + 'resolution outside the lock' = one API call)"""
    if not merge_re:
        return steps
    out = []
    rx = re.compile(merge_re)
    for (label, dst) in steps:
        name = label.split("(")[0]
        if out and rx.match(name):
            out[-1] = (out[-1][0], dst)
        else:
            out.append((label, dst))
    return out


def parse_replay_output(out):
    res = {"ok": 0, "diverged": [], "errors": [], "summary": None}
    for line in out.splitlines():
        if line.startswith("OK "):
            res["ok"] += 1
        elif line.startswith("DIVERGE "):
            res["diverged"].append(line)
        elif line.startswith("ERROR "):
            res["errors"].append(line)
        elif line.startswith("SUMMARY "):
            res["summary"] = dict(kv.split("=") for kv in line.split()[1:])
    return res


def scenario_text(script_path, sid):
    out = []
    keep = False
    with open(script_path) as f:
        for line in f:
            if line.startswith("BEGIN "):
                keep = line.split()[1] == sid
            if keep:
                out.append(line)
                if line.strip() == "END":
                    break
    return "".join(out)


def graph_replay(ctx, spec_dir, module, cfg, tag, replayer, proj_keys, header_fn=None, merge_re=None,
                 max_paths=None, extra_random=0, must_take=None, tlc_kw=None, replayer_args=None,
                 replay_timeout=None, key_fn=None, terminal=True, constants=None, env=None, defs=None, variants=None):
    """TLC exhaustive run with state-graph dump; invariants checked by TLC; an edge-covering path
    set is replayed on the implementation through `replayer` (path of a built binary).
    Returns (TlcResult, graph or None)."""
    sd = os.path.join(vlib.VERIF, "spec", spec_dir)
    os.makedirs(vlib.BUILD, exist_ok=True)
    dot = os.path.join(vlib.BUILD, "%s_%s.dot" % (ctx.prop, tag))
    cfg_path = os.path.join(sd, cfg)
    if constants:
        base = open(cfg_path).read()
        cfg_path = os.path.join(vlib.BUILD, "%s_%s.cfg" % (ctx.prop, tag))
        vlib.write_cfg(cfg_path, base, constants)
    kw = dict(tlc_kw or {})
    res = ctx.tlc(spec_dir, module, cfg_path, tag, dump_dot=dot, defs=defs, **kw)
    if must_take:
        ctx.check_coverage(res, must_take, "%s/%s" % (module, cfg))
    if res.violation:
        ctx.tlc_violation(res, module + ":" + cfg)
        return res, None
    g = vlib.load_dot(dot)
    for junk in (dot, dot[:-4] + "_liveness.dot"):     # TLC also dumps the liveness graph next to it
        try:
            os.remove(junk)
        except OSError:
            pass
    # replace "generated" by the true number of edges of the dumped graph for this model
    res.model["edges"] = g.nedges()
    paths, covered, total = vlib.cover_paths(g, ctx.rng, max_paths=max_paths, want_terminal=terminal)
    if extra_random:
        paths += vlib.random_paths(g, ctx.rng, extra_random)
    res.model["edges_replayed"] = covered
    res.model["paths"] = len(paths)
    if covered < total:
        ctx.exhaustive = False
    script = os.path.join(vlib.BUILD, "%s_%s.script" % (ctx.prop, tag))
    n = 0
    with open(script, "w") as f:
        k = 0
        for (init, steps) in paths:
            steps = merge_steps(steps, merge_re)
            st0 = g.state(init)
            body = []
            for (label, dst) in steps:
                body.append("%s\t%s\n" % (label.replace("\n", " "), vlib.canon(proj_keys(g.state(dst)) if callable(proj_keys) else vlib.project(g.state(dst), proj_keys))))
            # variants: the same behaviour replayed once per header variant (e.g. equivalent API entry points)
            for var in (variants or [None]):
                hdr = header_fn(k, st0) if header_fn else {}
                if var:
                    hdr = dict(hdr)
                    hdr.update(var)
                f.write("BEGIN %s_%d %s\n" % (tag, k, vlib.canon(hdr)))
                f.write("".join(body))
                f.write("END\n")
                n += len(body)
                k += 1
    if replay_timeout is None:
        # a scenario that hangs is ended by the replayer's own per-scenario watchdog (replay_common.h), so the total
        # limit only has to bound the sheer amount of work
        replay_timeout = 900 if ctx.quick else 14400
    rc, out = vlib.run_cmd([replayer] + (replayer_args or []), stdin_path=script, timeout=replay_timeout, env=env)
    pr = parse_replay_output(out)
    if pr["summary"] is None and rc == -999 and "\nHANG " not in out:
        # not a verdict about the code: the replay as a whole ran out of time
        raise MachineryError("replay of %s exceeded the total time limit of %d s after %d scenarios (no scenario hung)" % (
            module, replay_timeout, pr["ok"] + len(pr["diverged"]) + len(pr["errors"])))
    if pr["summary"] is None:
        # the replayer died (crash / sanitizer / timeout): find the scenario it was in
        done = pr["ok"] + len(pr["diverged"]) + len(pr["errors"])
        sid = "%s_%d" % (tag, done)
        txt = vlib.replayer_line(replayer) + scenario_text(script, sid)
        tail = out[-1500:]
        key = key_fn(sid, "crash", txt) if key_fn else "crash:%s" % module
        ctx.violation(key, "replayer terminated abnormally (rc=%s) while replaying scenario %s of %s: %s" % (
            rc, sid, module, tail), txt + "#output tail:\n#" + tail.replace("\n", "\n#") + "\n")
        ctx.traces += pr["ok"]
        return res, g
    if pr["errors"]:
        raise MachineryError("replayer cannot execute spec actions: " + pr["errors"][0])
    ctx.traces += pr["ok"]
    ctx.steps += n
    for line in pr["diverged"][:3]:
        sid = line.split()[1]
        txt = vlib.replayer_line(replayer) + scenario_text(script, sid)
        key = key_fn(sid, line, txt) if key_fn else "diverge:%s:%s" % (module, re.sub(r"^DIVERGE \S+ ", "", line)[:80])
        ctx.violation(key, "implementation diverges from %s: %s" % (module, line[:500]), txt + "#" + line + "\n")
    # keep a sample
    if paths:
        sid = "%s_0" % tag
        ctx.sample({"model": module + "/" + cfg, "script": scenario_text(script, sid)[:1500]})
    try:
        os.remove(script)
    except OSError:
        pass
    return res, g


def replay_tlc_trace(ctx, res, replayer, proj, hdr, tag, replayer_args=None):
    """Counterexample replay (DESIGN 4.3): executes a TLC error trace on the real code.
    Returns (followed, output): followed=True when the implementation followed the whole trace
    (every projection matched), i.e. the bad state of the specification was reached on real objects."""
    os.makedirs(vlib.BUILD, exist_ok=True)
    script = os.path.join(vlib.BUILD, "%s_%s_cex.script" % (ctx.prop, tag))
    with open(script, "w") as f:
        f.write("BEGIN cex_%s %s\n" % (tag, vlib.canon(hdr)))
        for (label, st) in res.trace[1:]:
            f.write("%s\t%s\n" % (label, vlib.canon(proj(st) if callable(proj) else vlib.project(st, proj))))
        f.write("END\n")
    rc, out = vlib.run_cmd([replayer] + (replayer_args or []), stdin_path=script, timeout=120)
    pr = parse_replay_output(out)
    text = vlib.replayer_line(replayer) + open(script).read()
    os.remove(script)
    followed = pr["summary"] is not None and pr["ok"] == 1
    return followed, out, text


def trace_validate(ctx, spec_dir, module, base_cfg, constants, trace_path, tag, nlines=None):
    """code -> spec: TLC validates a recorded ndjson trace against a *Trace.tla module (POSTCONDITION
    TraceAccepted).  A rejection is re-run once; returns (accepted, matched_prefix_len, TlcResult)."""
    sd = os.path.join(vlib.VERIF, "spec", spec_dir)
    cfg = os.path.join(vlib.BUILD, "%s_%s_tv.cfg" % (ctx.prop, tag))
    vlib.write_cfg(cfg, open(os.path.join(sd, base_cfg)).read(), constants)
    res = None
    for attempt in range(2):
        res = vlib.run_tlc(sd, module, cfg, "%s_%s_tv" % (ctx.prop, tag), workers=1, coverage=False, timeout=900,
                           env={"TRACE": trace_path})
        if res.ok:
            break
        if res.error and not res.violation:
            raise MachineryError("trace validation failed to run (%s): %s" % (module, res.error))
    ctx.states += res.distinct
    ctx.transitions += res.generated
    ctx.models.append({"module": module, "cfg": base_cfg, "trace_lines": nlines, "distinct": res.distinct,
                       "accepted": bool(res.ok), "violation": res.violation})
    matched = max(0, res.distinct - 1)
    return bool(res.ok), matched, res
