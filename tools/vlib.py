"""Common machinery for the cocls verification checks.

* run TLC (exhaustive / simulate / trace validation), parse its statistics, coverage and
  counterexamples;
* parse `-dump dot,actionlabels` state graphs (TLA+ value parser included) and build
  edge-covering sets of root-to-terminal paths;
* compile C++ harnesses against /repo's *current working tree* with the hooks on;
* write evidence files; report violations / known findings.

Exit code conventions (bin/check): 0 held, 1 violation (with VIOLATION line), 2 machinery failure.
"""
import hashlib
import json
import os
import random
import re
import shutil
import subprocess
import sys
import time

VERIF = os.path.dirname(os.path.dirname(os.path.abspath(__file__)))
REPO = os.environ.get("COCLS_REPO", "/repo")
BUILD = os.path.join(VERIF, ".build")
TLCDIR = os.path.join(VERIF, ".tlc")
EVID = os.path.join(VERIF, "evidence")
REPLAYS = os.path.join(EVID, "replays")
TLA_JAR = "/opt/veriftools/tla/tla2tools.jar"


class MachineryError(Exception):
    pass


def log(*a):
    print(*a, flush=True)


def ncpu():
    try:
        return len(os.sched_getaffinity(0))
    except Exception:
        return os.cpu_count() or 4


# --------------------------------------------------------------------------------------------
# TLA+ value parser (for dot dumps / counterexamples)
# --------------------------------------------------------------------------------------------
class TlaParser:
    """Parses TLC's textual rendering of values into python objects.

    <<a,b>> -> list ; {a,b} -> ('set', sorted list) rendered as list ; [k |-> v] -> dict ;
    (k :> v @@ ...) -> dict (keys rendered as strings) ; "s" -> str ; 12 -> int ; TRUE/FALSE -> bool ;
    model values / identifiers -> str.
    """

    def __init__(self, s):
        self.s = s
        self.i = 0

    def ws(self):
        while self.i < len(self.s) and self.s[self.i] in " \t\r\n":
            self.i += 1

    def peek(self, tok):
        self.ws()
        return self.s.startswith(tok, self.i)

    def eat(self, tok):
        self.ws()
        if not self.s.startswith(tok, self.i):
            raise ValueError("expected %r at %d in %r" % (tok, self.i, self.s[max(0, self.i - 30):self.i + 30]))
        self.i += len(tok)

    def value(self):
        self.ws()
        c = self.s[self.i]
        if self.s.startswith("<<", self.i):
            self.i += 2
            out = []
            if self.peek(">>"):
                self.eat(">>")
                return out
            while True:
                out.append(self.value())
                if self.peek(","):
                    self.eat(",")
                    continue
                self.eat(">>")
                return out
        if c == "{":
            self.i += 1
            out = []
            if self.peek("}"):
                self.eat("}")
                return out
            while True:
                out.append(self.value())
                if self.peek(","):
                    self.eat(",")
                    continue
                self.eat("}")
                break
            return sort_set(out)
        if c == "[":
            self.i += 1
            out = {}
            while True:
                self.ws()
                m = re.compile(r"[A-Za-z_0-9]+").match(self.s, self.i)
                key = m.group(0)
                self.i = m.end()
                self.eat("|->")
                out[key] = self.value()
                if self.peek(","):
                    self.eat(",")
                    continue
                self.eat("]")
                return out
        if c == "(":
            self.i += 1
            out = {}
            while True:
                k = self.value()
                self.eat(":>")
                v = self.value()
                out[key_str(k)] = v
                if self.peek("@@"):
                    self.eat("@@")
                    continue
                self.eat(")")
                return out
        if c == '"':
            j = self.i + 1
            buf = []
            while self.s[j] != '"':
                if self.s[j] == "\\":
                    j += 1
                buf.append(self.s[j])
                j += 1
            self.i = j + 1
            return "".join(buf)
        m = re.compile(r"-?[0-9]+").match(self.s, self.i)
        if m:
            self.i = m.end()
            return int(m.group(0))
        m = re.compile(r"[A-Za-z_][A-Za-z_0-9]*").match(self.s, self.i)
        if m:
            self.i = m.end()
            w = m.group(0)
            if w == "TRUE":
                return True
            if w == "FALSE":
                return False
            return w
        raise ValueError("cannot parse at %d: %r" % (self.i, self.s[self.i:self.i + 40]))


def key_str(k):
    if isinstance(k, str):
        return k
    if isinstance(k, bool):
        return "true" if k else "false"
    if isinstance(k, int):
        return str(k)
    return canon(k)


def sort_set(xs):
    def k(x):
        if isinstance(x, bool):
            return (0, int(x), "")
        if isinstance(x, int):
            return (1, x, "")
        if isinstance(x, str):
            return (2, 0, x)
        return (3, 0, canon(x))
    return sorted(xs, key=k)


def canon(v):
    """canonical compact JSON (sorted keys) -- the C++ side produces byte-identical text"""
    return json.dumps(v, sort_keys=True, separators=(",", ":"))


def parse_tla_value(s):
    p = TlaParser(s)
    v = p.value()
    p.ws()
    if p.i != len(p.s):
        raise ValueError("trailing text in %r" % s)
    return v


def parse_state_text(text):
    """'/\\ a = 1\n/\\ b = <<>>' -> {'a':1,'b':[]}"""
    out = {}
    # split on top-level "/\ name = "
    parts = re.split(r"(?:^|\n)\s*/\\ ", "\n" + text)
    for part in parts:
        part = part.strip()
        if not part:
            continue
        m = re.match(r"([A-Za-z_][A-Za-z_0-9]*)\s*=\s*(.*)\Z", part, re.S)
        if not m:
            raise ValueError("bad state conjunct %r" % part)
        out[m.group(1)] = parse_tla_value(m.group(2))
    if not out and text.strip():
        m = re.match(r"([A-Za-z_][A-Za-z_0-9]*)\s*=\s*(.*)\Z", text.strip(), re.S)
        out[m.group(1)] = parse_tla_value(m.group(2))
    return out


# --------------------------------------------------------------------------------------------
# Running TLC
# --------------------------------------------------------------------------------------------
class TlcResult:
    def __init__(self):
        self.rc = None
        self.out = ""
        self.generated = 0
        self.distinct = 0
        self.depth = 0
        self.ok = False
        self.violation = None      # text describing the violated property
        self.violated_name = None
        self.trace = []            # list of (action label, state dict) for counterexamples
        self.coverage = {}         # action -> (distinct, generated)
        self.wall = 0.0
        self.error = None          # machinery error text
        self.deadlock = False


def write_cfg(path, base_cfg_text, constants=None, extra=None):
    txt = base_cfg_text
    if constants:
        txt += "\nCONSTANTS\n" + "\n".join("  %s = %s" % (k, v) for k, v in constants.items()) + "\n"
    if extra:
        txt += "\n" + extra + "\n"
    with open(path, "w") as f:
        f.write(txt)


def run_tlc(spec_dir, module, cfg_path, tag, workers=None, dump_dot=None, simulate=None, depth=None,
            seed=None, coverage=True, timeout=900, env=None, jvm_opts=None, deadlock=None, extra_args=None,
            xmx="4g"):
    """Runs TLC; returns TlcResult. Never raises on property violation; raises MachineryError when TLC
    itself failed (parse error, crash, timeout)."""
    metadir = os.path.join(TLCDIR, tag)
    shutil.rmtree(metadir, ignore_errors=True)
    os.makedirs(metadir, exist_ok=True)
    if workers is None:
        workers = min(ncpu(), 8)
    cmd = tlc_base_cmd(xmx, jvm_opts)
    cmd += ["-workers", str(workers), "-metadir", metadir, "-config", cfg_path, "-noGenerateSpecTE"]
    if coverage:
        cmd += ["-coverage", "1"]
    if dump_dot:
        cmd += ["-dump", "dot,actionlabels", dump_dot]
    if simulate:
        cmd += ["-simulate", simulate]
        if depth:
            cmd += ["-depth", str(depth)]
    if seed is not None:
        cmd += ["-seed", str(seed)]
    if deadlock is False:
        cmd += ["-deadlock"]
    if extra_args:
        cmd += extra_args
    cmd += [module]
    e = dict(os.environ)
    if env:
        e.update(env)
    t0 = time.time()
    res = TlcResult()
    try:
        p = subprocess.run(cmd, cwd=spec_dir, env=e, stdout=subprocess.PIPE, stderr=subprocess.STDOUT,
                           timeout=timeout, text=True, errors="replace")
    except subprocess.TimeoutExpired as ex:
        shutil.rmtree(metadir, ignore_errors=True)
        raise MachineryError("TLC timeout after %ss: %s %s" % (timeout, module, cfg_path))
    res.wall = time.time() - t0
    res.rc = p.returncode
    res.out = p.stdout
    shutil.rmtree(metadir, ignore_errors=True)
    parse_tlc_output(res)
    return res


_tlc_cmd_cache = None


def tlc_base_cmd(xmx="8g", jvm_opts=None):
    """java command line equivalent to the `tlc` wrapper (so that the CommunityModules are on the
    classpath) but with our own heap settings."""
    global _tlc_cmd_cache
    if _tlc_cmd_cache is None:
        wrapper = shutil.which("tlc")
        cp = TLA_JAR
        if wrapper:
            try:
                txt = open(wrapper).read()
                m = re.search(r"-cp\s+(\S+)", txt)
                if m:
                    cp = m.group(1).strip('"')
            except Exception:
                pass
        _tlc_cmd_cache = cp
    cmd = ["java", "-XX:+UseParallelGC", "-Xmx" + xmx]
    if jvm_opts:
        cmd += jvm_opts
    cmd += ["-cp", _tlc_cmd_cache, "tlc2.TLC"]
    return cmd


def parse_tlc_output(res):
    out = res.out
    m = None
    for m in re.finditer(r"(\d+) states generated, (\d+) distinct states found", out):
        pass
    if m:
        res.generated = int(m.group(1))
        res.distinct = int(m.group(2))
    m = re.search(r"The depth of the complete state graph search is (\d+)", out)
    if m:
        res.depth = int(m.group(1))
    # coverage: "<Action line 10, col 1 to line 12, col 30 of module M>: 12:34"
    for m in re.finditer(r"^<(\w+) line \d+, col \d+ to line \d+, col \d+ of module (\w+)>: (\d+):(\d+)", out, re.M):
        name = m.group(1)
        d, g = int(m.group(3)), int(m.group(4))
        old = res.coverage.get(name, (0, 0))
        res.coverage[name] = (max(old[0], d), max(old[1], g))
    if "Model checking completed. No error has been found." in out or \
            re.search(r"^Finished in ", out, re.M) and "Error:" not in out:
        res.ok = True
        return
    m = re.search(r"Error: Invariant (\S+) is violated", out)
    if m:
        res.violated_name = m.group(1)
        res.violation = "invariant " + m.group(1)
    m2 = re.search(r"Error: Action property (\S+) is violated", out)
    if m2:
        res.violated_name = m2.group(1)
        res.violation = "action property " + m2.group(1)
    if "Error: Temporal properties were violated" in out:
        res.violated_name = "temporal"
        res.violation = "temporal property"
    if "Error: Deadlock reached" in out:
        res.deadlock = True
        res.violated_name = "Deadlock"
        res.violation = "deadlock"
    m3 = re.search(r"Error: The postcondition .* is violated|Error: Evaluating .*postcondition|Error: Postcondition \S+ .* is false", out)
    if m3:
        res.violated_name = "PostCondition"
        res.violation = "postcondition"
    if "Assert" in out and "The first argument of Assert evaluated to FALSE" in out:
        res.violated_name = res.violated_name or "Assert"
        res.violation = res.violation or "assertion"
    if res.violation:
        res.trace = parse_error_trace(out)
        return
    # anything else is a machinery failure
    res.error = out[-3000:]


def parse_error_trace(out):
    trace = []
    # State N: <Action line ... of module M>   or  State 1: <Initial predicate>
    pat = re.compile(r"^State (\d+): <([^>]*)>\n((?:.*\n)*?)\n", re.M)
    for m in pat.finditer(out + "\n\n"):
        label = m.group(2)
        am = re.match(r"(\w+)(\([^)]*\))? line", label)
        name = label
        if am:
            name = am.group(1) + (am.group(2) or "")
        try:
            st = parse_state_text(m.group(3))
        except Exception:
            st = {"_raw": m.group(3)}
        trace.append((name, st))
    return trace


# --------------------------------------------------------------------------------------------
# dot graphs
# --------------------------------------------------------------------------------------------
class Graph:
    def __init__(self):
        self.state_text = {}   # node id -> raw label text
        self.edges = {}        # node id -> list of (label, dst)
        self.init = []
        self._parsed = {}

    def state(self, n):
        if n not in self._parsed:
            self._parsed[n] = parse_state_text(self.state_text[n])
        return self._parsed[n]

    def nedges(self):
        return sum(len(v) for v in self.edges.values())


def unescape_dot(s):
    return s.replace("\\n", "\n").replace('\\"', '"').replace("\\\\", "\\")


def load_dot(path):
    g = Graph()
    node_re = re.compile(r'^(-?\d+) \[label="((?:[^"\\]|\\.)*)"(,style = filled)?')
    edge_re = re.compile(r'^(-?\d+) -> (-?\d+) \[label="((?:[^"\\]|\\.)*)"')
    with open(path) as f:
        for line in f:
            m = edge_re.match(line)
            if m:
                g.edges.setdefault(m.group(1), []).append((unescape_dot(m.group(3)), m.group(2)))
                continue
            m = node_re.match(line)
            if m:
                n = m.group(1)
                if n not in g.state_text:
                    g.state_text[n] = unescape_dot(m.group(2))
                if m.group(3):
                    if n not in g.init:
                        g.init.append(n)
    for n in g.state_text:
        g.edges.setdefault(n, [])
    return g


def _cover_paths_general(g, rng, max_paths=None, full=True, max_len=400, want_terminal=True):
    """Edge-covering set of paths, each from an initial state; a path prefers uncovered edges and is
    extended to a terminal state (a state with no outgoing edge other than self loops).
    Returns list of paths; path = (init node, [(label, dst), ...])."""
    from collections import deque

    def real_out(n):
        return [(l, d) for (l, d) in g.edges[n] if d != n]

    covered = set()
    total = sum(len(real_out(n)) for n in g.edges)
    paths = []
    # distance-to-terminal (shortest) via reverse BFS
    rev = {}
    for n, es in g.edges.items():
        for (l, d) in es:
            if d != n:
                rev.setdefault(d, []).append(n)
    dist_term = {}
    dq = deque()
    for n in g.edges:
        if not real_out(n):
            dist_term[n] = 0
            dq.append(n)
    while dq:
        n = dq.popleft()
        for p in rev.get(n, []):
            if p not in dist_term:
                dist_term[p] = dist_term[n] + 1
                dq.append(p)

    def nearest_uncovered(src):
        # BFS to nearest node having an uncovered out-edge; returns edge list to it
        seen = {src: None}
        dq = deque([src])
        while dq:
            n = dq.popleft()
            outs = real_out(n)
            if any((n, i) not in covered for i, _ in enumerate(outs)):
                path = []
                while seen[n] is not None:
                    pn, e = seen[n]
                    path.append(e)
                    n = pn
                path.reverse()
                return path
            for i, (l, d) in enumerate(outs):
                if d not in seen:
                    seen[d] = (n, (l, d, i))
                    dq.append(d)
        return None

    inits = list(g.init)
    guard = 0
    while len(covered) < total:
        guard += 1
        if max_paths is not None and len(paths) >= max_paths:
            break
        init = rng.choice(inits)
        cur = init
        steps = []
        progressed = False
        while len(steps) < max_len:
            outs = real_out(cur)
            unc = [i for i, _ in enumerate(outs) if (cur, i) not in covered]
            if unc:
                i = rng.choice(unc)
                covered.add((cur, i))
                progressed = True
                l, d = outs[i]
                steps.append((l, d))
                cur = d
                continue
            nu = nearest_uncovered(cur)
            if nu is None:
                break
            for (l, d, i) in nu:
                steps.append((l, d))
                cur = d
        if want_terminal:
            # walk to a terminal state along shortest path
            while real_out(cur) and cur in dist_term and len(steps) < max_len + 200:
                outs = real_out(cur)
                best = min(outs, key=lambda e: dist_term.get(e[1], 1 << 30))
                idx = outs.index(best)
                covered.add((cur, idx))
                steps.append(best)
                cur = best[1]
        paths.append((init, steps))
        if not progressed:
            # the remaining uncovered edges are unreachable from this init; try others a few times
            if guard > 50 * max(1, len(inits)):
                break
    return paths, len(covered), total


def fast_cover_paths(g, rng, max_paths=None, full=True, max_len=400, want_terminal=True):
    """Drop-in replacement for vlib.cover_paths for *acyclic* state graphs (every LimitedQueue action
    increases a counter, leaves a resolution state or destroys the queue).  Same contract: a set of
    root-to-terminal paths covering every edge, each path preferring uncovered edges.  vlib.cover_paths
    runs a breadth-first search from the root for every path (quadratic: 200 s for 3*10^4 edges) and
    stops early when one of several initial states has its sub-graph covered; here the distance to the
    nearest uncovered edge is maintained incrementally (amortised near-linear)."""
    out = {n: [(l, d) for (l, d) in es if d != n] for n, es in g.edges.items()}
    # acyclic?  (iterative DFS, colours) -- otherwise use the shared implementation
    colour = {}
    for root in out:
        if root in colour:
            continue
        stack = [(root, 0)]
        colour[root] = 1
        while stack:
            n, i = stack.pop()
            if i < len(out[n]):
                stack.append((n, i + 1))
                d = out[n][i][1]
                c = colour.get(d, 0)
                if c == 1:
                    return _cover_paths_general(g, rng, max_paths=max_paths, full=full, max_len=max_len,
                                             want_terminal=want_terminal)
                if c == 0:
                    colour[d] = 1
                    stack.append((d, 0))
            else:
                colour[n] = 2
    total = sum(len(v) for v in out.values())
    uncovered = {n: list(range(len(es))) for n, es in out.items()}   # indices of uncovered out-edges
    pred = {}
    for n, es in out.items():
        for (_, d) in es:
            pred.setdefault(d, []).append(n)
    # du[n]: distance from n to the nearest node (n included) that has an uncovered out-edge; INF when
    # everything below n is covered.  Kept exact: it only grows, and growth is propagated to predecessors.
    INF = 1 << 30
    du = {n: (0 if es else INF) for n, es in out.items()}

    def node_done(n):
        # the last uncovered edge of n was taken
        work = [n]
        while work:
            m = work.pop()
            if uncovered[m]:
                continue
            best = min((du[d] for (_, d) in out[m]), default=INF)
            v = best + 1 if best < INF else INF
            if v != du[m]:
                du[m] = v
                work.extend(pred.get(m, ()))

    # distance to the nearest terminal state (acyclic: memoised depth-first)
    dist_term = {}
    for root in out:
        stack = [root]
        while stack:
            m = stack[-1]
            if m in dist_term:
                stack.pop()
                continue
            todo = [d for (_, d) in out[m] if d not in dist_term]
            if todo:
                stack.extend(todo)
            else:
                dist_term[m] = 1 + min(dist_term[d] for (_, d) in out[m]) if out[m] else 0
                stack.pop()

    paths = []
    ncov = 0
    inits = [i for i in g.init]
    while inits:
        if max_paths is not None and len(paths) >= max_paths:
            break
        inits = [i for i in inits if du[i] < INF]
        if not inits:
            break
        init = rng.choice(inits)
        cur = init
        steps = []
        while True:
            unc = uncovered[cur]
            if unc:
                # prefer an uncovered edge below which more is to be covered (the path stays productive)
                good = [j for j in range(len(unc)) if du[out[cur][unc[j]][1]] < INF]
                j = rng.choice(good) if good else rng.randrange(len(unc))
                unc[j], unc[-1] = unc[-1], unc[j]
                i = unc.pop()
                ncov += 1
                e = out[cur][i]
                if not unc:
                    node_done(cur)
            else:
                if du[cur] >= INF:
                    break
                # towards the nearest node with an uncovered edge
                e = rng.choice([x for x in out[cur] if du[x[1]] == du[cur] - 1])
            steps.append(e)
            cur = e[1]
        # everything below cur is covered; extend to a terminal state along a shortest way
        while want_terminal and out[cur]:
            e = min(out[cur], key=lambda x: dist_term[x[1]])
            steps.append(e)
            cur = e[1]
        paths.append((init, steps))
    return paths, ncov, total



def cover_paths(g, rng, max_paths=None, full=True, max_len=400, want_terminal=True):
    """edge-covering path set: near-linear algorithm for acyclic graphs (contributed by the C10 work), general
    BFS-based algorithm otherwise"""
    return fast_cover_paths(g, rng, max_paths=max_paths, full=full, max_len=max_len, want_terminal=want_terminal)


def random_paths(g, rng, n, max_len=400):
    def real_out(x):
        return [(l, d) for (l, d) in g.edges[x] if d != x]
    out = []
    for _ in range(n):
        cur = rng.choice(g.init)
        init = cur
        steps = []
        while len(steps) < max_len:
            outs = real_out(cur)
            if not outs:
                break
            l, d = rng.choice(outs)
            steps.append((l, d))
            cur = d
        out.append((init, steps))
    return out


def parse_label(label):
    """'Push(t1,2)' -> ('Push', ['t1','2']) ; 'Next' -> ('Next', [])"""
    m = re.match(r"(\w+)(?:\((.*)\))?\Z", label.strip(), re.S)
    if not m:
        return label, []
    name = m.group(1)
    args = []
    if m.group(2) is not None and m.group(2).strip() != "":
        depth = 0
        cur = ""
        s = m.group(2)
        i = 0
        while i < len(s):
            c = s[i]
            if c in "<{[(":
                depth += 1
            elif c in ">}])":
                depth -= 1
            if c == "," and depth == 0:
                args.append(cur.strip())
                cur = ""
            else:
                cur += c
            i += 1
        args.append(cur.strip())
    return name, args


def project(state, keys):
    return {k: state[k] for k in keys}


def write_scripts(path, g, paths, proj_keys, header_keys=None, id_prefix="p"):
    """script format (one scenario per block):
         BEGIN <id> <canon json of initial projection>
         <action label>\t<canon json of expected projection>
         END
    """
    n = 0
    with open(path, "w") as f:
        for k, (init, steps) in enumerate(paths):
            st0 = g.state(init)
            f.write("BEGIN %s%d %s\n" % (id_prefix, k, canon(project(st0, header_keys or proj_keys))))
            for (label, dst) in steps:
                f.write("%s\t%s\n" % (label.replace("\n", " "), canon(project(g.state(dst), proj_keys))))
                n += 1
            f.write("END\n")
    return n


# --------------------------------------------------------------------------------------------
# building harnesses
# --------------------------------------------------------------------------------------------
def compile_harness(src, out_name, extra_flags=None, sanitize=False, opt="-O1", timeout=600, defines=None, ndebug=True,
                    fallback_defines=None):
    """fallback_defines: if the harness does not compile against the current tree, retry once with these extra defines (a
    reduced-observation build, e.g. without probes of private members); the caller learns about it from
    `compile_harness.last_fallback`."""
    compile_harness.last_fallback = False
    try:
        return _compile_harness(src, out_name, extra_flags, sanitize, opt, timeout, defines, ndebug)
    except MachineryError:
        if not fallback_defines:
            raise
        compile_harness.last_fallback = True
        return _compile_harness(src, out_name, extra_flags, sanitize, opt, timeout, list(defines or []) + list(fallback_defines), ndebug)


def _compile_harness(src, out_name, extra_flags=None, sanitize=False, opt="-O1", timeout=600, defines=None, ndebug=True):
    os.makedirs(BUILD, exist_ok=True)
    out = os.path.join(BUILD, out_name)
    cmd = ["g++", "-std=c++20", opt, "-g", "-DCOCLS_VERIF", "-I" + os.path.join(VERIF, "rt/include"),
           "-I" + os.path.join(REPO, "src"), "-I" + os.path.join(REPO, "src/cocls"), "-I" + os.path.join(VERIF, "harness"),
           "-Wno-unused-result", "-o", out, src, "-lpthread", "-ldl"]
    if sanitize:
        cmd[3:3] = ["-fsanitize=address,undefined", "-fno-omit-frame-pointer"]
    if ndebug:
        # like the repository's own (RelWithDebInfo) build: library asserts off -- several of them
        # perform extra atomic loads that would otherwise be scheduling points
        cmd[3:3] = ["-DNDEBUG"]
    if defines:
        cmd[3:3] = ["-D" + d for d in defines]
    if extra_flags:
        cmd += extra_flags
    if os.environ.get("VERIF_GCOV_DIR"):
        # development aid (tools/libcoverage.py): which lines of src/cocls do the replayers execute at all?
        cmd[3:3] = ["--coverage", "-fprofile-update=atomic"]
    try:
        p = subprocess.run(cmd, stdout=subprocess.PIPE, stderr=subprocess.STDOUT, text=True, timeout=timeout)
    except subprocess.TimeoutExpired:
        raise MachineryError("compile timeout: " + src)
    if p.returncode != 0:
        raise MachineryError("harness does not compile against the current tree:\n" + p.stdout[-4000:])
    # how this binary was built: replay artefacts carry it so that bin/replay can rebuild exactly this variant
    BUILD_RECIPES[out_name] = {"src": os.path.basename(src), "extra_flags": list(extra_flags or []), "defines": list(defines or []),
                               "ndebug": bool(ndebug), "opt": opt}
    return out


BUILD_RECIPES = {}


def replayer_line(replayer):
    """first line of a replay artefact: '#replayer <binary name> <json recipe>'"""
    name = os.path.basename(replayer)
    rec = BUILD_RECIPES.get(name)
    return "#replayer %s %s\n" % (name, json.dumps(rec, sort_keys=True)) if rec else "#replayer %s\n" % name


def run_cmd(cmd, stdin_path=None, timeout=900, env=None, cwd=None):
    e = dict(os.environ)
    if env:
        e.update(env)
    fin = open(stdin_path) if stdin_path else None
    try:
        p = subprocess.run(cmd, stdin=fin, stdout=subprocess.PIPE, stderr=subprocess.STDOUT, text=True,
                           errors="replace", timeout=timeout, env=e, cwd=cwd)
        return p.returncode, p.stdout
    except subprocess.TimeoutExpired as ex:
        o = ex.stdout or ""
        if isinstance(o, bytes):
            o = o.decode(errors="replace")
        return -999, o + "\n[timeout after %ss]" % timeout
    finally:
        if fin:
            fin.close()


# --------------------------------------------------------------------------------------------
# findings / evidence
# --------------------------------------------------------------------------------------------
def load_known_findings():
    path = os.path.join(VERIF, "known_findings.jsonl")
    out = []
    if os.path.exists(path):
        for line in open(path):
            line = line.strip()
            if line and not line.startswith("#"):
                out.append(json.loads(line))
    return out


def save_replay(prop, kind, text):
    os.makedirs(REPLAYS, exist_ok=True)
    h = hashlib.sha1(text.encode()).hexdigest()[:12]
    path = os.path.join(REPLAYS, "%s-%s.%s" % (prop, h, kind))
    with open(path, "w") as f:
        f.write(text)
    return path


def write_evidence(prop, tier, seed, coverage, wall, violations, assumptions, level="model_checking"):
    os.makedirs(EVID, exist_ok=True)
    ev = {
        "property_id": prop,
        "tier": tier,
        "seed": int(seed),
        "level": level,
        "coverage": coverage,
        "assumptions": assumptions,
        "wall_s": round(wall, 2),
        "violations": int(violations),
    }
    # runs against a scratch copy of the repository (COCLS_REPO=..., used by bin/selftest, tools/mutest.sh and
    # tools/seedcheck.sh) must not overwrite the evidence of the real tree
    evid = EVID if os.path.realpath(REPO) == "/repo" else os.path.join(EVID, "scratch")
    os.makedirs(evid, exist_ok=True)
    tmp = os.path.join(evid, "%s.json.tmp%d" % (prop, os.getpid()))
    with open(tmp, "w") as f:
        json.dump(ev, f, indent=1, sort_keys=True)
    os.replace(tmp, os.path.join(evid, prop + ".json"))
