#!/usr/bin/env python3
"""Generates /verif/MANIFEST.json from the table below (single source of truth for what is claimed)."""
import json
import os
import subprocess

VERIF = os.path.dirname(os.path.dirname(os.path.abspath(__file__)))

TECH = "explicit TLA+ spec checked by TLC + conformance (spec behaviours replayed on the real code with state comparison after every step)"

# property id -> dict(claimed, text, note, design_ref, technique) or dict(claimed=False, reason)
TABLE = {
    "C01": dict(
        claimed=True,
        text="TLC checks spec/Future/Future.tla (atomic-operation grain: claim exchange, resolving exchange, chain walk, "
             "subscribe CAS iterations, fence, flag store/notify/wait) exhaustively for every mix of 2-3 competing resolvers "
             "(value, exception, drop, move+destroy, final destructor, coroutine completion) with 0-2 waiters: OneWinner, "
             "PayloadIsWinners, LosersLeaveNoTrace, ResultStable. Every edge of each mix's state graph is replayed as a thread "
             "schedule on the real future<int>/promise<int> (real threads, controlled scheduler at instrumented atomics) with "
             "the real objects' projection and each thread's pending operation compared after every step.",
        note="bounds: <=3 resolvers + <=2 waiters (<=4 threads), value type int; weak CAS assumed not to fail spuriously; "
             "quick tier replays a capped edge cover per mix; TCB: TLC, vsched, the projection code",
        design_ref="6/C01, 3.1, 4.2"),
    "C02": dict(
        claimed=True,
        text="Same specification and replay as C01 with 1-3 waiters of every kind (coroutine co_await, co_await has_value(), "
             "blocking sync()/wait(), callback awaiter) against a resolver of every kind incl. completion of an async coroutine: "
             "NoEarlyWake, AtMostOnce, SeesCompleteResult, ChainWellFormed, AllReleasedAtEnd, NoStuckState and liveness NoHang under "
             "weak fairness; all interleavings at atomic-operation grain, each replayed on real threads.",
        note="bounds: <=3 waiters + <=2 resolvers; notify_all after the flag store is assumed to touch the waiter's node by address only",
        design_ref="6/C02, 3.1, 4.2"),
    "C03": dict(
        claimed=True,
        text="View-based weak-memory TLA+ model (spec/WMM/WMM.tla: timestamps + per-thread views, stale reads explored, release "
             "sequences through RMWs, fences, seq_cst view, happens-before race detection for plain locations) instantiated for the "
             "future/promise/awaiter publication protocol, the mutex (try-lock, subscribe-found-free, hand-over, blocking contender), "
             "reusable_storage_mtsafe and the generator's blocking flag. The memory order of every atomic site is a CONSTANT that the "
             "check extracts from the running code (instrumented atomics log call site + order arguments while Future/Mutex schedules are "
             "replayed and a probe drives storage/generator), so a changed order changes the model; TLC decides DataRaceFree and "
             "PublishesSafely over all executions of the model; an unexecuted site fails the check as unbound.",
        note="RA+relaxed view model without load-buffering/out-of-thin-air, <=7 messages per location, 2 threads per scenario; plain accesses "
             "placed as transcribed in the scenario programs; the control skeleton is bound by the C01/C02/C07 replays run inside this check; "
             "lock-based components: the lock-grain threaded replays of queue, thread pool and scheduler (thread mode) run inside this check "
             "(a moved/removed/added lock operation or a guarded state change after the unlock diverges), and so does the lock-grain replay of "
             "PublisherConc.tla (one publishing/closing/kicking thread against subscriber threads using blocking, polled and coroutine next()) and of "
             "AggregatorConc.tla (generator_aggregator's internal queue: sources pushing from their own threads against the aggregate's pop); "
             "the two-mutex combination scheduler + thread_pool (SchedulerPool.tla) is bound the same way, every pending lock/unlock/wait "
             "classified by mutex and by what the thread already holds; publisher: also a guarded READ after the unlock and an unguarded walk "
             "over the shared wake-up buffer while a second publisher refills it diverge",
        design_ref="6/C03, 3.2, 4.5, 9.1, 9.8",
        technique="explicit TLA+ weak-memory model checked by TLC, memory orders extracted from the executing code (conformance binding by schedule replay)"),
    "C04": dict(
        claimed=True,
        text="spec/Async/Async.tla is a sequential stack-machine model of cocls::async<T> at the grain of the code: frame states, the handle held "
             "by the async object, async_promise::_future, the ready deque and coroutine mode, and final_awaiter::await_suspend as resolve / "
             "destroy / symmetric-transfer actions. TLC checks exhaustively that, for every generated program (8 native start modes incl. claimed "
             "promise and never-started, 8 in-coroutine start modes, value/exception, synchronous or suspended completion, int and void, co_await "
             "nesting up to depth 3) and for every timing, order and kind of resolution of the awaited futures, the body runs exactly once, the "
             "result reaches exactly the bound party (nobody when detached), frame, arguments and locals are destroyed exactly once with zero "
             "allocation balance at the end, unstarted coroutines never run, and start(promise) on a claimed promise leaves the coroutine "
             "unstarted. Every edge of every state graph is replayed on the real headers by scripted coroutines with counted guard arguments and "
             "locals (frames through operator new or a counting with_allocator storage, promises resolved on the same or a fresh thread, join() "
             "blocking a controlled thread); after each native call counters, _h, _future, futures, observed results, return values, event order "
             "and live frames are compared with the specification. The histories are additionally run over a tracked owning result type for all "
             "three co_return forms (temporary, variable, std::move(variable)) and every delivery form (join(), start()+wait(), co_await of the "
             "async or of a future, start(promise), future-returning functions, callback awaiter, detach): the specification's per-form table "
             "of legitimate copies (all 0) and PayloadIntact (the delivered object is never a copy nor a moved-from object, every payload is "
             "destroyed exactly once) are compared with the copy count, moved-from flag and ctor/dtor balance observed after every step. "
             "Reference coroutines async<T&> are run through every delivery form, including the value-future conversions (future<V>(coro), "
             "f << coro, a future<V> function returning the coroutine): the content the party observes and the ctor/dtor balance are compared and "
             "the referent must stay intact (join() moving out of it was a defect of the pinned tree, fixed ae08cd1). A 2-thread model "
             "(AsyncJoin.tla) of the blocking forms (join(), start()+wait()/join()/sync()) against completion on another thread is replayed in "
             "all interleavings at the atomic operations on the bound future's slot; a refused subscription must not block.",
        note="bounds: <=4 coroutines per program, <=3 external futures, 343 programs / 5.1e4 states quick, 1615 programs / 2.4e5 states thorough with "
             "ASan+UBSan; full edge cover; pool.run(async) replayed as its body on a fresh thread (pool queueing/stopping is C11); TCB: TLC, the "
             "script interpreter and probes in harness/async_replay.cpp, vsched for the blocking join, GCC's coroutine lowering",
        design_ref="6/C04, 3.12"),
    "C05": dict(
        claimed=True,
        text="TLC checks spec/CoroSched/CoroSched.tla, a sequential stack machine of one thread (install_queue_and_call frame with its loop "
             "and flush trailer, resume frames with symmetric transfer, the thread-local ready deque, the coroutine-mode flag). It enumerates "
             "whole programs of scripted coroutines lazily over pause, promise resolve (discarded or awaited), future await, detach / co_await "
             "/ promise-bound / nested start() spawns, coro_queue::resume, mutex lock/release and queue push/pop, entered from native code and "
             "from inside coroutines. Checked: RunToSuspension, QueueFIFO/FIFOStep/ObservedOrder, ResumeOncePerReadying, NoReentrancy, "
             "RoundRobin, FullDrain, CoroMode. Every program (quick: a sample biased to contended deques) is executed on the real "
             "coro_queue/suspend_point/async/future/mutex/queue and must reproduce the specification's event history exactly, including the "
             "content of the real deque and is_active() at every event, the final state and per-coroutine resume counts. Thorough adds "
             "sanitizers and random programs of 5 coroutines x 5 steps from TLC simulation, each replayed. Three further shapes are covered: a "
             "suspend-point variable reused through = / << and then awaited, cleared or destroyed; coroutines moved onto a real one-worker "
             "thread_pool by co_await pool, pool.resume(sp), co_await pool(awaitable) and pool.run(async), which then ready others and pause "
             "there (coroutine mode, run-to-suspension, FIFO and full drain are required on the worker's own queue; the two threads are "
             "serialised by the harness); long single-deque histories with up to 40 simultaneously ready coroutines after a partial drain. "
             "If the deque's representation changes, the replayer falls back to a build without deque snapshots (recorded in the evidence).",
        note="bounds: exhaustive N<=3-4 coroutines x 2-3 steps (up to 3*10^6 states per config), N=5 x 5 steps by simulation only; one thread, one "
             "mutex, one queue<void>; deadlock-free programs only. For a nested future-returning start() 'the running coroutine' is read as the "
             "innermost activation (the library's documented rule); the strict reading fails for that idiom and is recorded as an evidence note, "
             "not an alarm. Release order within one resolve is mirrored from the code. TCB: TLC, the observing awaiter wrapper and event "
             "logger of corosched_replay.cpp, the driver's terminal-state extraction",
        design_ref="6/C05, 3.4"),
    "C06": dict(
        claimed=True,
        text="SuspendPoint.tla models cocls::suspend_point<void>/<X> and the thread-local ready queue at the grain of one public operation. State "
             "is the count/flag word, the inline or heap handle array with its capacity, the typed value, per-coroutine resume counts, live "
             "new[] blocks, and normal versus coroutine mode with the queue and its flush. TLC checks Conservation, NoDoubleResume, NoLeak, "
             "InlineNoAlloc, MovedFromIsEmpty, ValuePreserved, ResumeOrder and QueueFIFO. The untyped runs cover every history of any length "
             "over at most 5 handles and 2 objects, or 4 handles and 3 objects; a further run covers bounded histories that mix typed and "
             "untyped objects in three slots; configurations biased to the capacity boundaries reach 25 handles in quick and 52 in thorough, "
             "crossing the 3->6->12->24->48->96 doublings, and thorough adds 20,000 random behaviours of up to 60 operations over 40 handles. "
             "Every edge of every dumped state graph is replayed on the real classes from a real driver coroutine in both modes, with the "
             "full representation compared after each operation. The awaiting coroutine's own handle (co_await self()) takes part at every "
             "position, inline and heap: construction, merge, move, pop, clear/destruction in coroutine mode, and co_await; the model requires "
             "that it is queued and resumed exactly once, and the replay compares the driver's own resumption count at every step (the pre-fix "
             "behaviour, /repo 283e427, is rejected by NoDoubleResume as a self-test). Typed histories are replayed with payload int and with a "
             "move-tracking payload: reads by conversion, const conversion and co_await occur in every order, each read must return the "
             "attached, intact value, and only whole-object C++ moves may leave a value moved-from. coro_queue::create_suspend_point(fn) is an "
             "operation (fn readies the handles of one suspend point or none, then returns or throws; on return the new entries are collected "
             "in the order the code produces, on throw they stay queued or are flushed while unwinding, older queue entries are never touched, "
             "the exception reaches the caller), and so is resume.h parallel_resume() (every handle resumed exactly once by the detached "
             "thread, which the replayer waits for; the returned value equals the intact attached value).",
        note="bounds: <=3 objects; <=5 handles exhaustive for any history length (6 in TLC-only runs); typed histories <=5 operations; boundary-biased "
             "histories <=7 operations over <=52 handles; each handle handed in once (self-merge / own handle in the list excluded); TCB: TLC, g++ 12 "
             "coroutine codegen, the replayer's probe/projection and its operator new[] counters; dummy coroutines do not re-enter the suspend "
             "point or the queue",
        design_ref="6/C06, 3.5"),
    "C07": dict(
        claimed=True,
        text="TLC checks spec/Mutex/Mutex.tla at the finest replayable grain (every atomic operation on the request stack AND every "
             "block of thread-local code between two atomic operations is its own step, so plain accesses to the awaiter nodes and the "
             "owner-private queue are explored in every position) for all interleavings of 2-4 contenders of every flavour "
             "(co_await lock(), lock().wait(), try_lock()): MutualExclusion, GrantOnce, NoDoubleActivation, DoormanNeverQueued, "
             "WokenOnlyWhenGranted. Every edge of each mix's state graph is replayed as a thread schedule on the real cocls::mutex "
             "(real threads and coroutines, controlled scheduler yielding before and after each instrumented atomic), comparing the "
             "request stack, the queue, activation counters, critical-section membership and each thread's pending operation after every step. "
             "spec/Mutex/MutexRounds.tla keeps that grain for 2-3 rounds per party and adds what only shows with repeated use: the "
             "coroutine run queue (a new owner resumed by a coroutine that discards the suspend point is only queued; co_await release() "
             "transfers at once; ordinary code runs the new owner nested), ownership objects handed to a helper thread and released "
             "there, one ownership object move-assigned in every round and (variant) one awaiter object awaited again in every round; "
             "invariants MutualExclusion, GrantOnce (grants <= requests, activations <= grants), OnePlace, FIFO, NoLostRequest; replayed "
             "the same way (helper threads included). In the other direction (code -> spec) random schedules of mixes beyond the dumpable "
             "bound (5-6 parties, 4 parties x 2-3 rounds with helper threads) are recorded from the real code and validated by TLC as "
             "behaviours of MutexRounds.tla (MutexRoundsTrace.tla, every invariant evaluated in every state of the trace).",
        note="bounds: 2-4 parties with one round each (Mutex.tla), 2-3 parties with 2-3 rounds (MutexRounds.tla); release by discard / "
             "co_await / destructor on the owning thread or by a helper thread (release through a thread pool not exercised); weak CAS assumed not to fail spuriously; "
             "'resumed while in the act of suspending' is read as double activation (DESIGN 6/C07)",
        design_ref="6/C07, 3.3, 4.2, 9.2"),
    "C08": dict(
        claimed=True,
        text="Same specification and replay as C07 with the ghost sequences arrival (order in which parked requests were published) and "
             "served: FIFO (served is a prefix of arrival), NoLostRequest (at quiescence every request was granted exactly once, the mutex "
             "is unlocked and nothing is queued), TryLockSound, NoStuckState and Termination under weak fairness, for arrival orders of "
             "up to 4 waiters and try_lock against owners and waiters; all schedules replayed on the real mutex. MutexRounds.tla checks the "
             "same properties when parties come back for further rounds (re-arrival behind waiters, hand-over through the run queue, "
             "release on a helper thread).",
        note="bounds as C07; release styles discard/await/destructor; liveness on the specification, on the code: no replayed schedule "
             "ends with a blocked thread",
        design_ref="6/C08, 3.3"),
    "C10": dict(
        claimed=True,
        text="limited_queue is specified in TLA+ (spec/LimitedQueue/LimitedQueue.tla) at the grain of its critical sections: push chooses "
             "between hand-over, enqueue and block; pop admits the oldest blocked push and completes it after unlocking; unblock_push, "
             "unblock_pop and destruction are modelled too. C10 is stated as 17 state invariants and 3 action properties (bound, "
             "push-ready-iff-room, no loss or duplication, FIFO across blocked pushes, one admission per pop, unblock_push withdrawing "
             "exactly the oldest push, inherited pop-side properties). TLC checks them exhaustively for limits 1..4 over all "
             "single-client histories within the bounds and over all interleavings of 2 producer and 2 consumer threads. Every edge of "
             "the single-client graphs is replayed on the real cocls::limited_queue (int and an instance-counting item, futures polled "
             "and awaited by coroutines, instrumented containers and lock checking that all state access is under the mutex and nothing "
             "is resumed under it), comparing the three internal queues, every push/pop future, return values and size() after each call. "
             "The single-client replay pushes through every public form of push (one argument, several arguments, a ready-made item by copy "
             "and by move) with an item type that records which constructor built it, from what, and how often it was copied; what sits in "
             "the queue, in the blocked queue and in every pop future must equal a direct T(args...) in the room, hand-over and blocked branch "
             "alike. Each history may contain a push whose item constructor throws, in every branch including while a consumer waits: nothing "
             "but the caller's result may change and bound, push-ready-iff-room, no-loss and no-lost-waiter keep holding afterwards. The models "
             "of the code before fca2138 (item enqueued and parked) and before 3c3638a (a throwing push orphaned the waiting pop) are rejected "
             "by the same properties on every run.",
        note="bounds: limit+3 pushes, limit+2 pops, 2+2 unblocks (thorough limit+4, limit+3, 3+2), limits 1..4; thread interleavings decided on "
             "the spec only (2P+2C, critical-section grain); TCB: TLC, projection code of limited_queue_replay.cpp, the lock-discipline "
             "instrumentation binding the code to that grain",
        design_ref="6/C10, 3.6, 9.3"),
    "C11": dict(
        claimed=True,
        text="TLC checks spec/ThreadPool/ThreadPool.tla at lock grain (one action per critical section of the pool mutex, per "
             "post-unlock code block, per condition-variable wake-up and per thread join; closures die where the code lets them die) "
             "for client scripts of 1-4 submissions of every kind (co_await pool, run(fn), run_detached, run(async), resume(), a job "
             "that stops the pool from a worker, co_await pool(future) with await_ready() and the subscription as separate steps and the "
             "future resolved by a worker job or by the client before, between or after them) and stop() from the client, from a worker, or both, on pools of 1-3 workers: "
             "AtMostOnce, RanOnWorker, RunOrCancelOnce, NoHang, Termination. Every edge of each script's state graph is replayed on "
             "the real thread_pool: its worker threads are adopted by the controlled scheduler through interposed pthread_create, "
             "mutex/condvar/join are virtual, and the projection (job outcomes, executing thread, queue length, exit flag, every "
             "thread's pending operation and the exact set of enabled threads) is compared after every step.",
        note="bounds: 1-3 workers, <=4 submissions + <=2 stops per script, one client thread; lock grain (atomics inside critical sections "
             "and promise resolution are not scheduling points); notify_one wakes the longest waiter, no spurious wake-ups; "
             "resume(suspend_point)/pool(awaitable) dropping a bare handle on a stopped pool is a recorded known finding",
        design_ref="6/C11, 3.7, 4.1, 9.4"),
    "C13": dict(
        claimed=True,
        text="TLC checks spec/Generator/Generator.tla - the generator promise's hand-over record (caller, internal awaiter function, arg, ret, "
             "exception, done, block flag, parked promise) with one action per code site of generator.h/iterator.h - exhaustively over lazily "
             "enumerated pairs of body scripts (yield, co_yield nullptr, await of a resolved or pending awaitable, throw, return) and consumer "
             "scripts mixing all access styles (next()/value(), co_await next(), gen() future, begin/++/it++ and range-for, with and without "
             "argument), with early destruction at every parked point: SameSequence, SingleEOS, ExceptionAtPosition, ArgDelivered, "
             "LocalsDestroyedOnce, RecordClean, BlockedOnlyOnPending, TerminalOK. Every edge of each state graph is replayed on the real "
             "generator<int>/generator<int,int>, each path in two consumer implementations (plain code with per-access coroutines, and one "
             "consumer coroutine with a real range-for), comparing after every public call the consumer's observations, the arguments the body "
             "received, RAII and parameter counters, futures' states and the private hand-over record. Blocking accesses on a body awaiting a "
             "pending operation run on real threads under the controlled scheduler, with the awaited operation completed by another thread. "
             "All histories run with tracked, copyable, non-trivial payload types (content, moved-from flag, copy/move/live counters) for both the "
             "yielded value and the argument, and with bodies that mix co_yield temporary, co_yield variable (which the body keeps extending) and "
             "co_yield std::move(variable); the projection compares after every access, in every access form, the content the consumer saw, the "
             "agreement of the future result with gen.value(), the number of copies made (exactly one per call-style item and per it++, none of "
             "the argument), and the content and moved-from flag of the body's own variable. The specification states that the library never "
             "moves from a yielded object (PayloadIntact); the pre-97856c3 post-increment is kept as a specification self-test that TLC must reject. "
             "Generator OBJECTS take part too (action ObjOp: move construction, move assignment onto a fresh / parked-at-yield / finished "
             "target, swap; the frame and its locals follow the object, a replaced frame is destroyed exactly once at the assignment), and "
             "step arguments are passed as lvalue, temporary and std::move(named) in rotation.",
        note="bounds: quick body<=4 steps and <=4 accesses (full edge cover, 49k paths x 2 modes); thorough body<=5-6 and <=5-6 accesses (281k paths, "
             "ASan/UBSan) plus TLC-only runs (2.0M states); tracked copyable payloads (move-only payloads not exercised), lvalue arguments, <=2 accesses after an exception, two thread release orders "
             "only; TCB: TLC, vsched, the replayer's projection and private-member access, the linear path cover in tools/checks/c13.py",
        design_ref="6/C13, 3.9"),
    "C12": dict(
        claimed=True,
        text="TLC checks spec/Scheduler/Scheduler.tla exhaustively: the scheduler's heap modelled as the array the code keeps, with libstdc++'s "
             "push_heap/pop_heap reproduced move by move and get_expired_lk/remove as operators with bound-checked indexing. Manual mode covers all "
             "unbounded histories of sleep_until/get_expired/remove/cancel(id)/cancel(id,e)/~scheduler and interval()+stop token over small sets of "
             "time points (ties, past values) and identifiers (reuse, nullptr). Single-thread start(awaitable) mode runs under a virtual clock: "
             "worker coroutine, coro_queue FIFO, wait_until, with lazily chosen coroutine programs. Thread mode (spec/Scheduler/SchedulerThread.tla): the "
             "scheduler's own worker thread (adopted through interposed pthread_create, virtual mutex/condvar/clock) against a client thread incl. "
             "destruction racing with the worker loop: StopNotMissed, NoHang, PromptWhenIdle, NeverEarly, DestroyCancelsPending, every edge replayed. Properties: NeverEarly, DeadlineOrder, "
             "ExactlyOncePerSleep, PromptManual/PromptWhenIdle (woken exactly at the time point in virtual time), CancelHitsOne, "
             "CancelFalseNoEffect, NotifyWhenEarliest, DestroyCancelsPending, HeapWellFormed, NoCrash (asserted index bounds), NoHang, "
             "ReturnsWhenFinished, StartTerminates. Every edge of every state graph, including calls without effect, is replayed on the real "
             "cocls::scheduler, comparing the array order, every call's return value, the identity and outcome of each completed sleep, "
             "exactly-once resumption of awaiting coroutines, virtual wake-up times and the ready-queue order, with bound-checked std::vector; "
             "self-deadlock and untimed waits are detected through interposed pthread functions. Every way the header lets a client request "
             "a sleep - sleep_until, schedule(id,promise,tp), sleep_for with nanosecond/microsecond (64- and 32-bit)/half-millisecond/"
             "millisecond/second/minute durations, interval(d) - is rotated per call onto the single specification action Schedule(tp) with "
             "tp = now-at-the-call + d exactly: model time is embedded order-preservingly into the virtual clock's nanosecond resolution with "
             "sub-millisecond offsets, heap time points and wake times are compared without rounding, and get_expired probes at each time "
             "point and 1 ns before it, so a sleep scheduled or handed out even one clock unit early diverges. Thread-pool mode "
             "(scheduler(thread_pool&)/start(pool), worker_coro<true> travelling through the pool) is a separate model SchedulerPool.tla at lock "
             "grain over the scheduler and the pool mutex incl. the nested acquisitions (any_enqueued, pool->resume under _mx) and the worker's "
             "clock read, replayed edge by edge on the real scheduler + thread_pool with adopted pool threads and virtual time: never early, "
             "deadline order, exactly once, exact cancel, no missed wake-up or stop, pending sleeps (polled and awaited) cancelled at "
             "destruction, pool.stop() before or after the destruction (finite deadline), ordinary jobs next to the worker. The pre-d43aae7 "
             "destructor (std::terminate after pool.stop()) and the excluded histories (pool stopped while the worker idles; bare-handle "
             "closures dropped = known finding of C11) are kept as variants the specification must reject.",
        note="bounds: <=3 time points, <=3 identifiers, <=3-5 concurrently pending sleeps, array <=3-6 (histories unbounded); start mode 2-3 coroutines x "
             "<=4-6 commands; thread mode (start_thread) covered by SchedulerThread.tla: worker thread vs one client, <=3 sleeps, scripts of <=6 steps, lock grain + the worker's clock read, virtual time; thread-POOL mode (worker_coro<true>) not covered; TCB: TLC, tools/fastcover.py path cover, the replayer's "
             "projection/audit and its clock/pthread interposition, libstdc++-12 heap algorithms as modelled (a mismatch would diverge)",
        design_ref="6/C12, 3.8, 9.5"),
    "C14": dict(
        claimed=True,
        text="TLC checks spec/Aggregator/Aggregator.tla - the aggregate's frame state (active-source counter, completion queue with its single "
             "waiter slot, stored exception, GenCallback push, pop/yield/re-charge loop, fin, controller drain) over lazily enumerated scripted "
             "sources (synchronous, awaiting operations completed later in every order, throwing, empty, cut off), consumer accesses of both "
             "blocking and non-blocking kind, arguments, and destruction at every parked point - exhaustively for 0..3 sources (4-5 in narrow "
             "configurations and by simulation): PerSourceOrder, MultisetUnion, EndsIffAllEnded (incl. no hang), ExceptionReportedOthersKept, "
             "ArgGoesToLastSource, DestroyWaitsAndFrees, CountOK. Every edge of each state graph is replayed on the real generator_aggregator "
             "over scripted generator<int>/generator<int,int> sources in several consumer implementations (plain code, hand-resumed "
             "continuations nested inside the push, one consumer coroutine, own thread under the controlled scheduler with the completing "
             "thread in two release orders) and all access styles, comparing after every public call the observations, the real queue content "
             "and waiter slot, every source's state, RAII and parameter counters and received arguments, and at the end an exact allocation balance. "
             "AggregatorConc.tla models the aggregate with asynchronous sources whose steps complete concurrently on their own threads and the "
             "consumer on its own thread at the grain of the internal queue's critical sections (per-thread program counters; one action per "
             "critical section and per piece of code after an unlock); TLC checks Aggregator.tla's C14 invariants (through INSTANCE) plus "
             "LockDiscipline, Conservation, NoStuckState and Termination over all interleavings for 2-3 sources. Every edge (capped cover in quick) "
             "is replayed on real threads under the controlled scheduler with the queue's mutex virtual, comparing after every step each thread's "
             "pending operation, the observations, queue content and waiter slot, source states and counters, and the guarded state before/after "
             "every post-unlock step.",
        note="bounds: quick 0-3 sources, scripts <=3 steps (<=2 for 3 sources), <=5 accesses, 26k paths x 2 modes; thorough 3 sources x <=3 steps, 145k "
             "paths x 4 modes under ASan/UBSan, 4-5 sources narrow plus 30k simulated behaviours each; _count not directly observable; when several "
             "sources throw only the last caught exception is reported (mirrored from the code, assumed to satisfy 'is reported'); thread "
             "interleavings: all at lock grain for 2-3 always-asynchronous sources pinned to one thread each, accesses issued from the consumer's thread; "
             "atomic-grain interleavings limited to blocked-consumer release orders; TCB: TLC, vsched, the replayer's probes and projection",
        design_ref="6/C14, 3.10"),
    "C15": dict(
        claimed=True,
        text="TLC checks spec/Signal/Signal.tla (call grain: the four collector call forms, held/discarded/awaited suspend point on a normal thread "
             "and inside a coroutine, coroutine listeners that re-await in a loop or on demand, connect() callbacks returning true/false, handle "
             "copies and destruction) for AllWaitingGetIt, OncePerEmit, ReAwaitMissesNone, NoDanglingRead, DisconnectWakesAll, "
             "AwaitDisconnectedFails and CallbacksFreed under the documented discipline, and the count/ordering properties for all histories. "
             "SignalConc.tla (atomic-operation grain on state::_chain: exchange, subscribe CAS iterations, temporary strong references, ~state on "
             "whichever thread drops the last reference) is checked for all schedules of one collector thread and 1-3 arriving listener threads: "
             "RaceGuarantee (a racing subscriber gets exactly this value or is in the chain for the next; never lost, never twice, no gap), "
             "DisconnectWakesAll and Termination. Every edge of the dumped graphs (capped in quick) is replayed on the real signal<int>/"
             "signal<void> - sequentially with scripted coroutines and callbacks, concurrently with real threads under the controlled scheduler - "
             "comparing chain, value pointer/storage, use_count, suspend point and queue contents, per-listener received values and states, "
             "callback ctor/dtor and allocation balance, and each thread's pending operation after every step. SignalFine.tla repeats the "
             "concurrent model at the finest replayable grain (each atomic operation and the plain code following it as separate steps; "
             "invariant HandleSetBeforePublication) for 1 collector + 1-2 arriving listener threads, replayed under vsched yield_after. "
             "The listener/collector pair may also come from signal::hook_up(fn): Signal.tla action HookUp models the first co_await creating "
             "the signal, subscribing the coroutine BEFORE the registration function runs, and fn emitting 0..k values through the collector and "
             "storing or dropping it (every registration value is due to the listener); SignalConc/SignalFine model fn handing the collector to "
             "the collector thread, which emits while fn is still running; all replayed on real signal<int>/<void> hook_up objects.",
        note="bounds: <=3 listeners, <=4 emits (sequential), 1 collector + <=3 listener threads + <=2 pre-subscribed, <=3 emits (concurrent), int/void; "
             "finest grain: <=3 listeners (thorough), 1-2 emits; "
             "delivery properties claimed only for the documented discipline (suspend point released and listeners run before the next call / last "
             "drop); shared_ptr refcount and plain accesses are not scheduling points; weak CAS as strong; TCB: TLC, vsched, projection code, c15.py's edge cover",
        design_ref="6/C15, 3.11"),
    "C16": dict(
        claimed=True,
        text="An explicit TLA+ specification of publisher<T>::queue at the grain of the implementation is model-checked exhaustively with TLC "
             "against the C16 invariants and action properties. It models the registration array with its free list, the retained window, "
             "and next() as the separately scheduled critical sections advance_lk / advance_suspend_lk / wake-up / get_value_lk, with wake-ups "
             "outside the lock: gap-free in-order delivery, no duplicates, monotone skipping modes, recent-is-newest, end-of-stream only on "
             "closed-and-drained, kick or lag beyond max, close/destroy/kick waking every waiter, independent copies, window sufficiency, "
             "free-list soundness. Configurations: all 20 (min,max) settings in 1..5 plus unlimited x the three modes, up to 3 subscribers and "
             "6 published values. The thorough tier replays every edge of every state graph on the real cocls::publisher<int> / "
             "subscriber<int>, calling the awaiter's three public steps separately to reach the windows between ready(), subscribe() and "
             "check_next(); quick replays every edge of the one-subscriber graphs and a capped sample of the larger ones. Real coroutines, "
             "a really blocked thread and next_ready() are used for the whole-call forms, and all internal registration state is compared "
             "after every step. Four genuine defects of the pinned tree (close race, get_value_lk bookkeeping, blocking conversion, copy of a "
             "parked subscriber) were derived as TLC counterexamples, confirmed on the real code and fixed in /repo; their unrepaired variants "
             "are kept behind Fix* constants as rejected self-tests. The same critical sections are additionally wrapped into a thread-structured "
             "model (PublisherConc.tla: a publisher thread with critical section 1, the wake-up loop outside the lock and the tail critical "
             "section; one thread per subscriber using blocking next(), next_ready() or a coroutine that the publisher resumes on its own "
             "thread), model-checked against all C16 invariants, and replayed on real threads under the controlled scheduler at lock grain "
             "(virtual std::mutex, sync_awaiter wait controlled). After every critical section the internal registration state, every "
             "thread's pending operation and every subscriber's received values are compared, and every step outside a critical section "
             "must leave the mutex-guarded state unchanged; the wake-up loop is one step per resumed waiter, what follows the unlock of get_value "
             "up to the return of next() is separately scheduled (the published items poison themselves when destroyed, so a value copied after "
             "the unlock is observed), a second publishing thread (publish/close) runs its critical sections inside the first one's wake-up "
             "loop, and a subscriber copied after its awaiter was collected for a wake-up and before it fetched (fixed c8b8cb3) is modelled and "
             "replayed sequentially and threaded.",
        note="threaded replay: 1 publisher + <=3 subscriber threads, <=2 values (<=4 with one subscriber), replay path sets capped (quick 2x1200, "
             "thorough 5x9000 paths), lock grain (atomics not scheduling points); bounds: <=3 subscribers, <=4 subscribe events, <=6 values, batches <=3; thread interleavings at critical-section grain on the spec "
             "(std::mutex trusted), the blocking form replayed as a whole call in a real thread; publish after close, use after the first EOS, "
             "copying a kicked/dropped/mid-call subscriber excluded; TCB: TLC, dot-graph path cover, the replayer's probe classes",
        design_ref="6/C16, 3.11, 9.6"),
    "C17": dict(
        claimed=True,
        text="SharedFuture.tla models cocls::shared_future at the finest replayable grain: the heap state, the shared_ptr use count decomposed "
             "into its owners (handles, coroutine frames, the resolve tracer's self-reference, the charge() parameter) and the awaiter chain of "
             "the underlying future, for every way of making a shared_future (both template constructors, a function returning a pending or "
             "ready future, a suspending or synchronously finishing async coroutine, set_value/set_exception, get_promise() on a "
             "default-constructed object or after init_if_needed() with copies already handed out, operator<<). TLC checks exhaustively, for all interleavings of one resolver (value / exception / "
             "drop / promise destruction / coroutine completion) with 1-3 threads that copy, co_await, wait(), subscribe callbacks, poll and "
             "drop handles, that the state is alive exactly while referenced and in particular while pending, that the tracer holds its "
             "reference exactly while pending and is the last node of the chain, that the stored value is destroyed exactly once with the "
             "state, that every step touching the state finds it alive, that all observers see the same single result exactly once, and that "
             "nothing is left at the end. Every dumped state graph is replayed on the real shared_future<Counted> under the controlled "
             "scheduler, comparing after each step the use count, freed/alive status, instance and destruction counters, allocation balance, "
             "chain, stored result, per-awaiter observations and each thread's pending operation; thorough and part of quick run under ASan "
             "without any probe that keeps the block alive. A resolved shared state is re-armed for a second and third round in every way legal at "
             "HEAD - operator<< with a pending or a ready future through any handle, and assignment of a newly constructed shared_future by the "
             "sole holder (get_promise() on a resolved state is illegal and excluded) - with copies, awaiters and handle drops in every round; "
             "per round the state is alive exactly while referenced and while pending, the tracer is charged again, every awaiter of round k is "
             "released exactly once with round k's result, every stored value is destroyed exactly once (re-arming under exclusive access; <=3 rounds).",
        note="bounds: <=3 handle threads, <=2 copies, <=2 handles/thread, each call kind once per thread, one resolver; SC interleavings only; TCB: vsched "
             "token passing, libstdc++ shared_ptr atomicity and layout (control-block pointer read raw in ASan builds), strong-for-weak CAS, "
             "capped edge cover on the largest graphs",
        design_ref="6/C17, 3.12, 9.7"),
    "C18": dict(
        claimed=True,
        text="Adapters.tla models callback_await / callback_await_alloc, make_promise (heap and storage), discard, call_fn_future_awaiter and all "
             "six future_conv forms at the grain of the atomic operations on the awaited future (claim exchange, resolving exchange + chain walk, "
             "await_ready load, subscribe CAS, refusal fence), with the self-owning helper's life cycle and every allocation observable. TLC "
             "checks CallbackOnce, RightOutcome, HelperFreedOnce (+FreedByCompletion) and ConvertedValueOrException exhaustively for every "
             "adapter x outcome (value, exception, broken promise) x timing (resolved before registration, after on the same thread, all "
             "interleavings with one and with two competing resolvers on other threads) x allocator (heap, reusable_storage, "
             "reusable_storage_mtsafe, counting storage) x converter behaviour, including reuse of helper and storage for a second and third "
             "operation. Every edge of the sequential and one-resolver graphs (thorough: also of the two-resolver graph) is replayed on the "
             "real adapters, sequential timings on one real thread and concurrent timings on real threads under the controlled scheduler; "
             "after every step the real objects are compared with the specification's state. The concurrent timings are additionally checked "
             "and replayed at the finest grain (each atomic operation and the plain code after it as separate steps), with the invariant "
             "that a published helper node already has its resume function / handle set. The sequential timings are replayed both from "
             "ordinary code and from inside a running coroutine, where callback_await's helper is queued and starts later; there the "
             "awaitable's constructor argument is passed as a temporary, an lvalue and a moved named object, each tracked so that "
             "destruction or a move poisons it, under the invariant that the awaitable is built from values equal to the ones passed. "
             "Specification variants describing arming after the publishing CAS and arguments held by reference are rejected self-tests.",
        note="bounds: <=3 operations per scenario, <=2 competing resolvers, one subscriber, int/void payloads, quick caps the two-resolver graph at 6 "
             "paths per combination; TCB: TLC, vsched token passing with scheduling points on the awaited future's slot/owner word and fence only, "
             "SC interleavings (weak CAS as strong), adapters called from a plain thread (no active coroutine queue), non-throwing user callbacks",
        design_ref="6/C18, 3.12"),
    "C19": dict(
        claimed=True,
        text="Storage.tla models all seven instantiable storage policies at the grain of the code (block pointer and capacity, busy flag, owner "
             "pointer or flag byte or attached object behind the frame, a bounded slot heap) and is checked exhaustively by TLC for all "
             "create/complete sequences of three frame-size classes and for two threads on one reusable_storage_mtsafe, both at "
             "_busy-operation grain and at operator new/delete grain: Exclusive, BlockAlive, LargeEnough, HeapFallbackFreedOnce, WarmNoAlloc, "
             "MtSafeNeverShares, ExtraCtorDtorOnce, ExtraUsableAtCreation. Every edge of every state graph is replayed on the real policies "
             "through with_allocator<traced<Policy>, async<void>> coroutines running on an arena allocator that mirrors the model's heap; "
             "after each step the replayer compares slots, sizes, bookkeeping and new/delete counts with the model, and independently checks "
             "raw-address overlap, canaries, block sizes, double free and leaks (ASan/UBSan in thorough). The check derived a defect of the "
             "pinned tree as a TLC counterexample and confirmed it on the real code (reusable_storage::alloc released its block before "
             "replacing _ptr; fixed in /repo), the pre-fix model is kept as a rejected self-test. Every policy is also checked as the base of "
             "promise_extra_storage<T, Base> (a recording wrapper around each base shows that its dealloc is told the size its alloc was told). "
             "Storage objects are constructed, move-constructed, move-assigned (both directions and self) and destroyed between frames: block and "
             "capacity travel together, every block is released exactly once, frames on both objects fit. The owner of "
             "reusable_buffer_storage's vector resizes, shrinks, empties, moves out and swaps it between frames. stack_storage objects are "
             "prepared ahead and used later, bounded by the size they were prepared with whatever the shared state says since. A throwing "
             "factory of the attached object is modelled in every combination: no object constructed or destroyed, the block back at the base "
             "policy exactly once, the exception at the creator, the storage reusable (the pinned tree kept the block: second defect derived "
             "by this check, fixed in /repo).",
        note="bounds: <=6 frames, <=3 live, 3 observed size classes, 2 threads, <=5 frames at operator new/delete grain, heap of 6 slots with "
             "lowest-free reuse; TCB: TLC, vsched token scheduler, harness arena allocator, g++ frame layout, libstdc++ vector growth; memory "
             "orders are C03; static_storage does not satisfy the Storage concept, cannot be instantiated and is not covered",
        design_ref="6/C19, 3.12, 9.8"),
    "C20": dict(
        claimed=True,
        text="The Future and Mutex specifications carry an allocation allowance (Future: none; Mutex: only the coroutine frames the "
             "user creates); the replayers replace global operator new and report, in the projection compared after every step of every "
             "replayed schedule, the number of allocations made inside library calls (creating/resolving/awaiting by coroutine, blocking "
             "thread, callback; up to three ready coroutines in the returned suspend point; lock, contention, hand-over). The Future replays "
             "run over two payload types (int, and a 64-byte tracked object whose copies are counted and whose integrity every reader "
             "checks), rotate through the equivalent public entry points, and include the value resolver going through "
             "promise::bind(args...)(). Stepping a synchronous generator in every access style is the allocation column of the Generator "
             "replay (c13.alloc_replay); storage policies / suspend-point inline capacity are taken from the C19 / C06 replays where "
             "those expose an allocation replay. Frames under a non-heap storage policy: a slice of Storage.tla (stack_storage learning its "
             "frame size, reusable_storage and reusable_storage_mtsafe over every order of up to four frames of three sizes incl. BIG-small-BIG; "
             "WarmNoAlloc/CompleteNoAlloc checked by TLC) is replayed edge-complete with the storage's operator new/delete count, live heap "
             "blocks and heap-vs-stack placement of each frame as the compared observation, for frame sizes that are and are not multiples "
             "of 16, for plain with_allocator coroutines and for the library's callback_await_alloc path. c04.alloc_replay replays tracked-payload "
             "async programs (native and in-coroutine start modes x 3 co_return forms, completing synchronously or after a suspension) with the "
             "payload's copy count and the number of operator-new calls made inside library calls other than coroutine frames and payload "
             "constructions as compared observations, both fixed at 0 by the specification.",
        note="value types int and a 64-byte trivially destructible object; per-thread one-time construction of the thread-local ready queue "
             "excluded; more than three waiters released at once is outside the property's clause",
        design_ref="6/C20"),
    "C09": dict(
        claimed=True,
        text="TLC checks spec/Queue/Queue.tla exhaustively (all histories of one client to the stated bound, all "
             "interleavings of three client threads at critical-section grain) against NeverBothNonEmpty, "
             "ExactlyOnceDelivery, DeliveredInOrder, WaitersFIFO, NoLostWaiter, DestroyCancels; every edge of the "
             "single-client state graphs (queue<int> and queue<void>) is replayed on the real cocls::queue with the "
             "real object's projection compared to the specification state after each call; long single-client histories (up to 20 "
             "pushes and 20 pops: the item store grows, shrinks and wraps) are replayed the same way, and the three-thread "
             "interleavings are replayed on real threads at lock grain (interposed std::mutex; critical section and post-unlock "
             "code as separate steps, guarded state compared before/after the post-unlock code).",
        note="bounds: <=4-5 pushes/pops with <=2-3 unblock_pop and destruction per history, <=20/20 without; 3 threads x 3 ops; value types "
             "int and void; atomics are not scheduling points in the threaded replay (the future protocol is C01/C02)",
        design_ref="6/C09, 3.6"),
}

# what rounds 4 and 5 of the seeded changes and the line-coverage run added to each specification (appended to `text`)
ADDENDA = {
    "C01": "The ARGUMENTS of a refused call are state: over a move-only, instance-counted payload a call that reports failure leaves its rvalue argument "
           "un-moved and constructs nothing (ArgConsumedOnlyByWinner, PayloadBuiltOnce), for operator(), set_value, bind and async::start(promise); a named promise "
           "move-assigned over the promise stays alive and is called afterwards (must be refused); the callback-promise (make_promise) is a waiter kind of its own.",
    "C15": "Several signal objects; each listener's emitter object is state and can be re-bound (copy/move construction or assignment from an emitter of the same or "
           "another signal, before/after a disconnect: RebindFollowsSource, AwaitAliveSubscribes); every emission form incl. the argument-less and the "
           "multi-argument one is compared by VALUE at the listeners; connect() on a state-less (moved-from) handle must free the callback (ConnectDead).",
    "C20": "Every form of global operator new (plain, aligned, nothrow) is counted; the future replays also run over an over-aligned (alignas(64)) tracked payload.",
    "C02": "Futures that are born resolved (static set_value / set_exception / set_not_value, also future<T&>) are replayed for every waiter kind; a named promise move-assigned over a promise with parked waiters releases them with no-value at the assignment and the source is refused afterwards.",
    "C05": "Native entry through install_queue_and_call / create_suspend_point with a function that returns or THROWS after readying "
           "coroutines (FullDrain on the exceptional exit), coroutine bodies left by an exception, and the coroutine's own handle (co_await self()) "
           "held and awaited together with other ready coroutines at every position (OwnHandleUse), and co_await of a stopped thread pool from coroutine mode (PoolCancelled) are part of the program alphabet.",
    "C06": "The destroying operations (Clear, Destroy, the discarded temporary, CreateSP, scope exit) carry a control-flow context - normal flow, "
           "stack unwinding, a destructor during unwinding, a catch handler - in both modes; Conservation / NoDoubleResume / NoLeak hold in every context.",
    "C07": "MutexMulti.tla adds several mutex objects used by the same parties (every action indexed by mutex; per-mutex MutualExclusion / GrantOnce / "
           "FIFO / NoOrphanLock and Independence), a shared holder slot re-assigned by the next owner from inside the hand-off (release = detach, then "
           "unlock; callback requests through await_suspend(fn, ctx) as two calls, Ask and Suspend, with a release allowed in between), all histories of 5-7 calls replayed on real mutexes. The mutex replayers have "
           "reduced-observation fallback builds: a changed private representation degrades the projection instead of breaking the check.",
    "C08": "Shares MutexMulti.tla and the fallback builds with C07 (holder-slot hand-over, several mutexes, try_lock probes by a bystander).",
    "C09": "Items are records built from the push argument form (one/two/zero arguments, copy, const reference, move; ValueIntact over a class type with an "
           "initializer-list constructor, in the stored and the hand-over branch); the single-slot item / waiter containers are constants of the spec with "
           "explicit refusal actions (PushRefused / PopRefused, SlotCapacity), replayed on queue<T,std_queue,single_item_queue>, "
           "queue<T,single_item_queue> and the no_lock instantiation.",
    "C11": "Jobs whose body submits to the same pool (coroutines hopping once or twice, co_await pool.run(fn), thread_pool::current(), detached and function "
           "jobs submitting) on pools with no free worker (WorkerNeverWaitsForJob, NoFutureHangs), a second client thread calling stop() concurrently "
           "(ThreadsOwnedOnce), and throwing function / coroutine jobs are part of the script alphabet and are replayed.",
    "C12": "start(awaitable) has a result dimension (void / value / exception / dropped, delivered directly or through the ready queue) with StartReturn, "
           "MainOutcome and a second start() on the same object; the awaitable forms (async&&, async&, future&) are rotated.",
    "C13": "The body's throw step has an exception kind (application type, the library's own no_more_values / value_not_ready / await_canceled / "
           "no_longer_available types, a non-std type: ExceptionAtPosition for every kind) and the consumer may keep one next() object and await / convert it "
           "repeatedly (styles kco / kbool, SameSequence).",
    "C14": "A failing source has an exception kind (user type, the library's own value_not_ready / no_more_values / await_canceled types, a non-std type): "
           "ExceptionReportedOthersKept demands that exactly what left the source (object identity and dynamic type) is what the consumer gets, in every access style.",
    "C19": "Completion under promise_extra_storage is two ordered steps (DtorBegin: the attached object's destructor runs, other creations enabled; DtorEnd: the block "
           "goes back to the base policy; ExtraDiesInOwnBlock), and every frame carries its address relative to the area its policy owns (heap block, buffer at "
           "any alignment offset, stack area, placement area) with LargeEnough / Exclusive stated over address ranges; operator new may throw inside a policy's alloc (CreateFail: nothing changes).",
    "C16": "Degenerate publishes are actions of the spec and replayed: the empty batch (a self-loop that must wake nobody), a batch longer than the window, "
           "publish on a closed publisher, subscription ahead of the stream; the range is passed as vector, list or pointer pair.",
    "C17": "The blocking entry points of shared_future itself are waiting forms of the spec (wait / sync+value / force_sync / join / force_wait, the force_ forms "
           "inside coroutine mode) with ThrowsAsDocumented; forms rotate over all blocking-waiter paths, two free-form configurations replay every form. The factory of every round has an outcome (pending / ready value / exception / no-value / throws) and a promise may be destroyed by stack unwinding.",
    "C18": "Registration and resolution carry an execution context (plain, an RAII guard during stack unwinding, a catch handler, the promise destroyed at "
           "scope exit or by unwinding - ~promise as its own code site); no action reads the context, so CallbackOnce / RightOutcome / HelperFreedOnce hold in every one; the factory of the << forms may throw (FactoryFail) and a promise may be move-assigned over a slot that still holds a target.",
}

NOT_BUILT = "check not built yet in this revision (see DESIGN.md section 10 build order)"


def main():
    props = [json.loads(l)["id"] for l in open(os.path.join(VERIF, "properties.jsonl"))]
    try:
        commits = subprocess.run(["git", "-C", "/repo", "log", "--format=%h %s", "--grep=^verif hooks"],
                                 stdout=subprocess.PIPE, text=True).stdout.strip().splitlines()
    except Exception:
        commits = []
    man = {
        "version": 1,
        "setup_cmd": "bin/setup",
        "hooks": {
            "guard": "COCLS_VERIF",
            "enable": "harnesses are compiled with -DCOCLS_VERIF -I/verif/rt/include against /repo/src (header-only library)",
            "baseline_off_cmd": "cmake --build /repo/_build && ctest --test-dir /repo/_build -j8 --timeout 900",
            "source_commits": [c.split()[0] for c in commits],
            "add_only": True,
        },
        "engines": [
            {"name": "tlc", "path": "/opt/veriftools/tla/tla2tools.jar", "serves_properties": [p for p in props if TABLE.get(p, {}).get("claimed")],
             "kind_free_text": "TLC explicit-state model checker on the TLA+ specifications under /verif/spec"},
            {"name": "replayers", "path": "/verif/harness", "serves_properties": [p for p in props if TABLE.get(p, {}).get("claimed")],
             "kind_free_text": "C++ replayers/trace recorders that execute specification behaviours on the real cocls headers (controlled scheduler rt/include/cocls_verif/vsched.h for thread interleavings)"},
        ],
        "checks": [],
        "not_applicable": [],
        "notes": "bin/check <id> quick|thorough; exit 2 = machinery failure (never a violation). See DESIGN.md.",
    }
    for p in props:
        t = TABLE.get(p)
        if t and t.get("claimed"):
            man["checks"].append({
                "property_id": p,
                "quick_cmd": "bin/check %s quick" % p,
                "thorough_cmd": "bin/check %s thorough" % p,
                "evidence_file": "/verif/evidence/%s.json" % p,
                "replay_cmd_template": "bin/replay {path}",
                "engine": "tlc",
                "level_claimed": {"category": "model_checking", "text": t["text"] + (" " + ADDENDA[p] if p in ADDENDA else ""), "design_ref": "DESIGN.md " + t.get("design_ref", "6")},
                "level_note": t["note"],
                "technique": t.get("technique", TECH),
            })
        else:
            man["not_applicable"].append({"property_id": p, "reason": (t or {}).get("reason", NOT_BUILT)})
    with open(os.path.join(VERIF, "MANIFEST.json"), "w") as f:
        json.dump(man, f, indent=1)
    print("MANIFEST.json: %d claimed, %d not claimed" % (len(man["checks"]), len(man["not_applicable"])))


if __name__ == "__main__":
    main()
