#!/usr/bin/env python3
"""Generates /verif/MANIFEST.json from the table below (single source of truth for what is claimed)."""
import json
import os
import subprocess

VERIF = os.path.dirname(os.path.dirname(os.path.abspath(__file__)))

TECH = "explicit TLA+ spec checked by TLC + conformance (spec behaviours replayed on the real code with state comparison after every step)"

# property id -> dict(claimed, text, note, design_ref, technique) or dict(claimed=False, reason)
TABLE = {
    "C01": dict(
        claimed=True,
        text="TLC checks spec/Future/Future.tla (atomic-operation grain: claim exchange, resolving exchange, chain walk, "
             "subscribe CAS iterations, fence, flag store/notify/wait) exhaustively for every mix of 2-3 competing resolvers "
             "(value, exception, drop, move+destroy, final destructor, coroutine completion) with 0-2 waiters: OneWinner, "
             "PayloadIsWinners, LosersLeaveNoTrace, ResultStable. Every edge of each mix's state graph is replayed as a thread "
             "schedule on the real future<int>/promise<int> (real threads, controlled scheduler at instrumented atomics) with "
             "the real objects' projection and each thread's pending operation compared after every step.",
        note="bounds: <=3 resolvers + <=2 waiters (<=4 threads), value type int; weak CAS assumed not to fail spuriously; "
             "quick tier replays a capped edge cover per mix; TCB: TLC, vsched, the projection code",
        design_ref="6/C01, 3.1, 4.2"),
    "C02": dict(
        claimed=True,
        text="Same specification and replay as C01 with 1-3 waiters of every kind (coroutine co_await, co_await has_value(), "
             "blocking sync()/wait(), callback awaiter) against a resolver of every kind incl. completion of an async coroutine: "
             "NoEarlyWake, AtMostOnce, SeesCompleteResult, ChainWellFormed, AllReleasedAtEnd, NoStuckState and liveness NoHang under "
             "weak fairness; all interleavings at atomic-operation grain, each replayed on real threads.",
        note="bounds: <=3 waiters + <=2 resolvers; notify_all after the flag store is assumed to touch the waiter's node by address only",
        design_ref="6/C02, 3.1, 4.2"),
    "C09": dict(
        claimed=True,
        text="TLC checks spec/Queue/Queue.tla exhaustively (all histories of one client to the stated bound, all "
             "interleavings of three client threads at critical-section grain) against NeverBothNonEmpty, "
             "ExactlyOnceDelivery, DeliveredInOrder, WaitersFIFO, NoLostWaiter, DestroyCancels; every edge of the "
             "single-client state graphs (queue<int> and queue<void>) is replayed on the real cocls::queue with the "
             "real object's projection compared to the specification state after each call.",
        note="bounds: <=4-5 pushes/pops, <=2-3 unblock_pop per history; 3 threads x 3 ops on the spec only; value types int and void; "
             "multi-thread interleavings are decided on the specification, the code is bound by single-threaded replay",
        design_ref="6/C09, 3.6"),
}

NOT_BUILT = "check not built yet in this revision (see DESIGN.md section 10 build order)"


def main():
    props = [json.loads(l)["id"] for l in open(os.path.join(VERIF, "properties.jsonl"))]
    try:
        commits = subprocess.run(["git", "-C", "/repo", "log", "--format=%h %s", "--grep=^verif hooks"],
                                 stdout=subprocess.PIPE, text=True).stdout.strip().splitlines()
    except Exception:
        commits = []
    man = {
        "version": 1,
        "setup_cmd": "bin/setup",
        "hooks": {
            "guard": "COCLS_VERIF",
            "enable": "harnesses are compiled with -DCOCLS_VERIF -I/verif/rt/include against /repo/src (header-only library)",
            "baseline_off_cmd": "cmake --build /repo/_build && ctest --test-dir /repo/_build -j8 --timeout 900",
            "source_commits": [c.split()[0] for c in commits],
            "add_only": True,
        },
        "engines": [
            {"name": "tlc", "path": "/opt/veriftools/tla/tla2tools.jar", "serves_properties": [p for p in props if TABLE.get(p, {}).get("claimed")],
             "kind_free_text": "TLC explicit-state model checker on the TLA+ specifications under /verif/spec"},
            {"name": "replayers", "path": "/verif/harness", "serves_properties": [p for p in props if TABLE.get(p, {}).get("claimed")],
             "kind_free_text": "C++ replayers/trace recorders that execute specification behaviours on the real cocls headers (controlled scheduler rt/include/cocls_verif/vsched.h for thread interleavings)"},
        ],
        "checks": [],
        "not_applicable": [],
        "notes": "bin/check <id> quick|thorough; exit 2 = machinery failure (never a violation). See DESIGN.md.",
    }
    for p in props:
        t = TABLE.get(p)
        if t and t.get("claimed"):
            man["checks"].append({
                "property_id": p,
                "quick_cmd": "bin/check %s quick" % p,
                "thorough_cmd": "bin/check %s thorough" % p,
                "evidence_file": "/verif/evidence/%s.json" % p,
                "replay_cmd_template": "bin/replay {path}",
                "engine": "tlc",
                "level_claimed": {"category": "model_checking", "text": t["text"], "design_ref": "DESIGN.md " + t.get("design_ref", "6")},
                "level_note": t["note"],
                "technique": t.get("technique", TECH),
            })
        else:
            man["not_applicable"].append({"property_id": p, "reason": (t or {}).get("reason", NOT_BUILT)})
    with open(os.path.join(VERIF, "MANIFEST.json"), "w") as f:
        json.dump(man, f, indent=1)
    print("MANIFEST.json: %d claimed, %d not claimed" % (len(man["checks"]), len(man["not_applicable"])))


if __name__ == "__main__":
    main()
