#!/usr/bin/env python3
"""tools/revertcheck.py [-j N]  -- for every 'fixed' entry of known_findings.jsonl: revert that fix commit (git show -R) on a
scratch copy of /repo's current tree and run the owning property's quick check against the copy: it must report a VIOLATION
(a fixed entry suppresses nothing: the check reports the violation again if it ever returns).  Results: evidence/revertcheck.json"""
import json, os, shutil, subprocess, sys, tempfile
from concurrent.futures import ThreadPoolExecutor
VERIF = os.path.dirname(os.path.dirname(os.path.abspath(__file__)))
jobs = int(sys.argv[2]) if len(sys.argv) > 2 and sys.argv[1] == "-j" else 3
entries = [json.loads(l) for l in open(os.path.join(VERIF, "known_findings.jsonl")) if l.strip()]
fixed = [e for e in entries if e.get("kind") == "fixed" and e.get("commit")]


def one(e):
    d = tempfile.mkdtemp(prefix="cocls_rev_")
    try:
        shutil.copytree("/repo/src", os.path.join(d, "src"))
        patch = subprocess.run(["git", "-C", "/repo", "show", "-R", "--format=", e["commit"], "--", "src"], stdout=subprocess.PIPE, text=True).stdout
        r = subprocess.run(["patch", "-p1", "-s", "--no-backup-if-mismatch"], input=patch, cwd=d, stdout=subprocess.PIPE, stderr=subprocess.STDOUT, text=True)
        if r.returncode != 0:
            res = "revert-does-not-apply"
        else:
            c = subprocess.run([os.path.join(VERIF, "bin/check"), e["property"], "quick"], cwd=VERIF, env=dict(os.environ, COCLS_REPO=d),
                               stdout=subprocess.PIPE, stderr=subprocess.STDOUT, text=True)
            res = "caught" if (c.returncode == 1 and "VIOLATION property=" in c.stdout) else ("broken-check" if c.returncode == 2 else "MISSED")
        print("%-4s %-8s %-45s %s" % (e["property"], e["commit"], e.get("key", ""), res), flush=True)
        return {"property": e["property"], "commit": e["commit"], "key": e.get("key"), "result": res}
    finally:
        shutil.rmtree(d, ignore_errors=True)


with ThreadPoolExecutor(max_workers=jobs) as ex:
    results = list(ex.map(one, fixed))
json.dump({"results": results, "caught": sum(1 for r in results if r["result"] == "caught"), "total": len(results)},
          open(os.path.join(VERIF, "evidence", "revertcheck.json"), "w"), indent=1)
print("revertcheck: %d/%d caught" % (sum(1 for r in results if r["result"] == "caught"), len(results)))
