"""Edge cover of a dumped state graph for dense, cyclic graphs (drop-in for vlib.cover_paths).

vlib.cover_paths looks for the nearest uncovered edge with an unbounded BFS every time its greedy
walk is stuck; on a graph where most states have 15-25 outgoing edges and everything is reachable
from everything (history-free specifications whose actions are public calls) that is
O(edges * graph) -- hours for 10^5 edges.  Here a stuck walk only looks around with a bounded BFS;
if nothing uncovered is near, the path ENDS and the next path starts with the shortest path from
the initial state (BFS tree, computed once) to the open state nearest to it.  Cost: O(edges) plus
O(depth) per path.  Same signature / result as vlib.cover_paths:
    paths, covered, total = cover_paths(g, rng, max_paths=None, full=True, max_len=400, want_terminal=True)
Unlike vlib.cover_paths SELF LOOPS ARE WALKED (and counted in `total`): in a specification whose
actions carry the result of a call in their label, a call that leaves the state unchanged
(`Cancel(1,"exc",0)`: cancel returned false) is a self loop and must be replayed like any other.

Use:  with fastcover.installed(): graph_replay(...)
"""
import contextlib
from collections import deque

import vlib


def cover_paths(g, rng, max_paths=None, full=True, max_len=400, want_terminal=True, look_around=30):
    out = {n: list(es) for n, es in g.edges.items()}          # self loops included
    terminal = {n for n, es in out.items() if all(d == n for (l, d) in es)}
    total = sum(len(v) for v in out.values())
    unc = {n: set(range(len(v))) for n, v in out.items()}
    order = {}
    for n, v in out.items():
        o = list(range(len(v)))
        rng.shuffle(o)
        order[n] = o

    def pick(n):
        """an uncovered out-edge index of n or None"""
        o, u = order[n], unc[n]
        while o:
            i = o.pop()
            if i in u:
                u.discard(i)
                return i
        return None

    # BFS tree from the initial states: parent[n] = (previous node, edge index); roots map to None
    parent = {}
    bfs_order = []
    dq = deque()
    for r in g.init:
        if r not in parent:
            parent[r] = None
            dq.append(r)
    while dq:
        n = dq.popleft()
        bfs_order.append(n)
        for i, (l, d) in enumerate(out[n]):
            if d not in parent:
                parent[d] = (n, i)
                dq.append(d)

    # distance to a terminal state (for want_terminal), as in vlib.cover_paths
    dist_term = {}
    if want_terminal:
        rev = {}
        for n, es in out.items():
            for (l, d) in es:
                rev.setdefault(d, []).append(n)
        dq = deque(terminal)
        for n in dq:
            dist_term[n] = 0
        while dq:
            n = dq.popleft()
            for p in rev.get(n, ()):
                if p not in dist_term:
                    dist_term[p] = dist_term[n] + 1
                    dq.append(p)

    covered = [0]

    def take(n, i, steps):
        if i in unc[n]:
            unc[n].discard(i)
            covered[0] += 1
        l, d = out[n][i]
        steps.append((l, d))
        return d

    def near_open(src):
        """bounded BFS: edge list [(node, index)...] to a node with uncovered out-edges, or None"""
        seen = {src: None}
        dq = deque([src])
        budget = look_around
        while dq and budget > 0:
            n = dq.popleft()
            budget -= 1
            if unc[n]:
                path = []
                while seen[n] is not None:
                    pn, i = seen[n]
                    path.append((pn, i))
                    n = pn
                path.reverse()
                return path
            for i, (l, d) in enumerate(out[n]):
                if d not in seen:
                    seen[d] = (n, i)
                    dq.append(d)
        return None

    paths = []
    ptr = 0
    while covered[0] < total:
        if max_paths is not None and len(paths) >= max_paths:
            break
        while ptr < len(bfs_order) and not unc[bfs_order[ptr]]:
            ptr += 1
        if ptr >= len(bfs_order):
            break          # what is left is unreachable from the initial states
        u = bfs_order[ptr]
        # shortest path from the root to u
        chain = []
        n = u
        while parent[n] is not None:
            pn, i = parent[n]
            chain.append((pn, i))
            n = pn
        init = n
        chain.reverse()
        steps = []
        cur = init
        for (pn, i) in chain:
            cur = take(pn, i, steps)
        while len(steps) < max_len:
            i = pick(cur)
            if i is not None:
                covered[0] += 1
                l, d = out[cur][i]
                steps.append((l, d))
                cur = d
                continue
            hop = near_open(cur)
            if hop is None:
                break
            for (pn, j) in hop:
                cur = take(pn, j, steps)
        if want_terminal:
            while cur not in terminal and cur in dist_term and len(steps) < max_len + 200:
                best = min(range(len(out[cur])), key=lambda k: dist_term.get(out[cur][k][1], 1 << 30))
                cur = take(cur, best, steps)
        paths.append((init, steps))
    return paths, covered[0], total


@contextlib.contextmanager
def installed():
    """graph_replay calls vlib.cover_paths through the module attribute: swap it for the duration"""
    orig = vlib.cover_paths
    vlib.cover_paths = cover_paths
    try:
        yield
    finally:
        vlib.cover_paths = orig
